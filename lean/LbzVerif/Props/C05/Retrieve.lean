/-
  Props.C05.Retrieve — what is PROVED about the whole block retriever
  (`Model.Retrieve`, the model of `retrieve()` in src/decode.c) on the
  soundness side, and the exact gap to `retrieve_sound`.

  Target (`retrieve_sound`, NOT proved): for a bit stream positioned after a
  block's 32-bit CRC,
      Model.Retrieve.retrieve (St.start v w) words true = OK with block B,
        rand r, bwt_idx i, end position e
      →  Spec.Bzip2.parseBlock accepts the same bits with origPtr i, rand r,
         endBit e, and Spec.Bzip2.unMtfRle2 b.used 900000 b.syms = B,
         B ≠ [], i < |B|
  (the reference side is exactly what lbzdrv `specretr` evaluates; the
  campaign checks/w15_retrieve.py compares the REAL `retrieve()` with it on
  every generated stream: "C says OK ∧ Spec rejects" and "different block /
  end position" are violations).

  Proved here, for ALL states / word lists / segmentations:
    * `retrieve_header_sound` — OK ⇒ the WHOLE BLOCK HEADER is one the oracle
      accepts, and `rand` / `bwt_idx` are the oracle's (see below);
    * `retrieve_sound_partial` — an OK answer always carries a non-empty block
      that contains its primary index (ERR_EMPTY / ERR_BWTIDX are never
      skipped), with or without segmentation;
    * `retrieve_reads_sequentially` — the saved position always designates a
      suffix of the input bits (strictly sequential reading);
    * `retrieve_take_sound`, `retrieve_selector_sound`,
      `retrieve_delta_window_sound` — the local facts the header theorem is
      composed of (every `TAKE`, one selector, one delta window);
    * `retrieve_symbols_sound` — the retriever's per-symbol actions (run
      accumulation with the 32-bit `run`, delayed writes, overflow tests,
      `mtf_one` on the sliding lists, flush at EOB) ARE `Model.MtfDec.consume`,
      hence — by W10's `runAccum_sound` — produce exactly the reference
      `Spec.Mtf.unMtfRle2` of the symbol sequence, and reject exactly when the
      reference rejects.

  How the header theorem is built (Lemmas/Retrieve*.lean, all ∀ inputs, all
  suspension patterns — every lemma starts from an arbitrary state at a `NEED`
  site, so resumed calls are covered, and is an "iff with escape": reference
  accepts ⇒ machine gets there or runs out of words; reference rejects ⇒
  machine answers an error or runs out of words):
    RetrieveBits      buffer = FIFO of the stream's bits (`refill_bits`,
                      `dump_bits`, `peek_testBit`), invariant threaded through
                      every step (`bitsOK_step`, `run_bits`);
    RetrieveValues    `TAKE` = `takeNat`, `PEEK(6)` = `peek6`, one delta window
                      = `Lemmas.Delta.winModel`, one selector = `readUnary`;
    RetrieveDelta     `delta_loop`: the suspendable delta loop = `Spec.Delta.syms`;
    RetrieveTables    `table_spec`, `tables_spec`: all tables = `Spec.Delta.table`
                      iterated, `make_tree` applied to the reference's lengths;
    RetrieveSelectors `selectors_spec`: the selector loop = `readUnary` iterated;
    RetrieveBitmap    `rowBody` = `Spec.Bzip2.usedOfRow`, `bitmap_rows_spec`,
                      `counts_spec` (nGroups / nSelectors tests);
    RetrieveHeader    `header_spec`: the whole header = `specHeader`;
    RetrieveSpecLink  reference against reference: `readLen` = `Spec.Delta.sym`,
                      `readTable` = `Spec.Delta.table`, `readSelectorMtf`,
                      `readBitmapRows` without position bookkeeping, and
                      `parseBlock_factor`: THE oracle `Spec.Bzip2.parseBlock` =
                      32-bit CRC, `specHeader`, then `parseTail`
                      (`unMtfSelectors`, `decodeGroups`, the `Block` record).

  The remaining gap to `retrieve_sound` is the GROUP phase only:
    (4) `Model.Canon.lookup` on the 64-bit window = `Spec.Bzip2.decodeSym`
        for a complete table (`makeTree_sound`, open in W11 as well:
        Props/C05/Tree.lean header), and `treeCode < 6` ⇔ `mkCode.complete`
        (from `Props.C05.Tree.makeTree_kraft`);
    (5) the group loop of the slow machine (`selectTree` = one step of
        `unMtfSelectors`; 50 × `stepPrefix` under `NEED(S_PREFIX)`) =
        `Spec.Bzip2.decodeGroups` followed by `symLoop` over the decoded
        symbols — same proof pattern as `delta_loop` / `selectors_spec` — and
        the 18001 clamp (`Props.C08.selectors_enough`);
    (6) `Spec.Mtf.unMtfRle2` = `Spec.Bzip2.unMtfRle2` (two reference texts),
        to bring `retrieve_symbols_sound` to the oracle's own function.
-/
import LbzVerif.Lemmas.RetrieveOk
import LbzVerif.Lemmas.RetrieveBits
import LbzVerif.Lemmas.RetrieveValues
import LbzVerif.Lemmas.RetrieveSpecLink
import LbzVerif.Lemmas.RetrieveFrame
import LbzVerif.Props.C09.Retrieve
import LbzVerif.Props.C05.Mtf

namespace LbzVerif.Props.C05.Retrieve
open LbzVerif LbzVerif.Model.Retrieve
open LbzVerif.Lemmas.RetrieveOk LbzVerif.Lemmas.RetrieveFast

/-- **retrieve_sound_partial.**  Whatever the state, the words, the `eof` flag:
if one call of the retriever answers OK, the block it hands over is not empty
and `bwt_idx` lies inside it.  PARTIAL: see the file header for what is
missing to `retrieve_sound`. -/
theorem retrieve_sound_partial (st : St) (ws : List Nat) (eof : Bool)
    (h : (retrieve st ws eof).status = .ok) :
    1 ≤ (retrieve st ws eof).st.run.n ∧ (retrieve st ws eof).st.bwtIdx < (retrieve st ws eof).st.run.n := by
  have key : ((run true st ws).result eof).status = .ok → BlockOk ((run true st ws).result eof).st := by
    intro h
    rw [run_fast_eq_slow] at h ⊢
    cases hr : run false st ws with
    | susp s => rw [hr] at h; cases eof <;> simp [RunOut.result] at h
    | halt r s rest =>
      rw [hr] at h
      cases r with
      | ok => exact run_ok st ws s rest hr
      | err c => simp [RunOut.result, Halt.toStatus] at h
      | ub => simp [RunOut.result, Halt.toStatus] at h
      | overread => simp [RunOut.result, Halt.toStatus] at h
  unfold retrieve retrieveWith at h ⊢
  by_cases hi : st.pc = .init
  · rw [if_pos hi] at h ⊢; exact key h
  · rw [if_neg hi] at h ⊢
    by_cases ha : ws = []
    · rw [if_pos ha] at h; cases eof <;> simp at h
    · rw [if_neg ha] at h ⊢
      by_cases hw : 32 ≤ st.w
      · rw [if_pos hw] at h; simp at h
      · rw [if_neg hw] at h ⊢; exact key h

/-- … and the same for any admissible segmentation (by `retrieve_split`). -/
theorem retrieveAll_sound_partial (st : St) (segs : List (List Nat))
    (hadm : Props.C09.Retrieve.Admissible st segs)
    (h : (retrieveAll st segs).status = .ok) :
    1 ≤ (retrieveAll st segs).st.run.n ∧ (retrieveAll st segs).st.bwtIdx < (retrieveAll st segs).st.run.n := by
  rw [Props.C09.Retrieve.retrieve_split segs st hadm] at h ⊢
  exact retrieve_sound_partial st _ true h

-- the block of `Props.C09.Retrieve.tiny`: 2 bytes, primary index 0
example : (retrieve (St.start 0 0) Props.C09.Retrieve.tiny true).status = .ok ∧
    (retrieve (St.start 0 0) Props.C09.Retrieve.tiny true).st.run.n = 2 ∧
    (retrieve (St.start 0 0) Props.C09.Retrieve.tiny true).st.bwtIdx = 0 := by decide +kernel

-- a primary index outside the block is refused (bit 24 of the first word set: bwt_idx = 2)
example : (retrieve (St.start 0 0) (257 :: Props.C09.Retrieve.tiny.tail) true).status =
    .err Gen.ERR_BWTIDX := by decide +kernel

open LbzVerif.Lemmas.RetrieveBits LbzVerif.Lemmas.RetrieveBitmap LbzVerif.Lemmas.RetrieveHeader
  LbzVerif.Lemmas.RetrieveDelta LbzVerif.Lemmas.RetrieveFrame LbzVerif.Lemmas.RetrieveSpecLink in
/-- **retrieve_header_sound.**  A fresh call (`S_INIT`, any legal buffer `v`,
`w`, any words, any `eof`) that answers OK has read a block header the
reference accepts: on the same unread bits `specHeader` — the header part of
THE oracle `Spec.Bzip2.parseBlock` (`parseBlock_factor`: rand bit, origPtr,
non-empty bitmap, `nGroups` ∈ 2…6, `nSelectors` ≠ 0, every selector code below
`nGroups`, `nGroups` delta-coded tables with EVERY intermediate length in
1…20) — succeeds, and the `rand` flag and `bwt_idx` handed to `decode()` are
the reference's.  Consequently the oracle, run on these bits behind any 32-bit
CRC, is `parseTail` on the header values: it can only fail later (groups).  A
block with a malformed header is never accepted. -/
theorem retrieve_header_sound (v w : Nat) (ws : List Nat) (eof : Bool) (inv : BufInv v w)
    (hok : (retrieve (St.start v w) ws eof).status = .ok) :
    ∃ h : Hdr,
      specHeader (bitsOf (St.start v w) ws) =
        some ((retrieve (St.start v w) ws eof).st.rand, (retrieve (St.start v w) ws eof).st.bwtIdx, h) ∧
      ∀ (level start crc : Nat) (bits : List Bool),
        Basic.takeNat 32 bits = some (crc, bitsOf (St.start v w) ws) →
        ∃ pos, Spec.Bzip2.parseBlock level start bits =
          parseTail level start crc (retrieve (St.start v w) ws eof).st.rand
            (retrieve (St.start v w) ws eof).st.bwtIdx h pos := by
  have hpc : (St.start v w).pc = .init := rfl
  have hres : retrieve (St.start v w) ws eof = (run false (St.start v w) ws).result eof := by
    unfold retrieve retrieveWith; rw [if_pos hpc, run_fast_eq_slow]
  rw [hres] at hok ⊢
  have hb0 : bitsOf ({ St.start v w with pc := .bwtIdx } : St) ws = bitsOf (St.start v w) ws := rfl
  have hhs := header_spec { St.start v w with pc := .bwtIdx } ws rfl inv
  rw [hb0] at hhs
  obtain ⟨hs1, hs2⟩ := hhs
  have hti := toTop_init (St.start v w) ws hpc
  -- what the run looks like
  cases hr : run false (St.start v w) ws with
  | susp s => rw [hr] at hok; cases eof <;> simp [RunOut.result] at hok
  | halt r s' rest =>
    rw [hr] at hok
    have hrok : r = .ok := by
      cases r <;> simp [RunOut.result, Halt.toStatus] at hok
      rfl
    subst hrok
    simp only [RunOut.result]
    unfold run at hr
    rw [hti] at hr
    cases hsp : specHeader (bitsOf (St.start v w) ws) with
    | none =>
      exfalso
      cases hs2 hsp with
      | inl hrej =>
        obtain ⟨r, s, rest', e, hne⟩ := hrej
        rw [e] at hr
        injection hr with h1 _ _
        exact hne h1
      | inr hsu =>
        obtain ⟨s, e⟩ := hsu
        rw [e] at hr; cases hr
    | some p =>
      obtain ⟨r0, idx0, h⟩ := p
      cases hs1 r0 idx0 h hsp with
      | inr hsu =>
        obtain ⟨s, e⟩ := hsu
        rw [e] at hr; cases hr
      | inl hok2 =>
        obtain ⟨s1, rest1, e, hk, _, _⟩ := hok2
        rw [e] at hr
        simp only at hr
        obtain ⟨i1, i2⟩ := groups_id _ s1 rest1 s' rest hr
        have hrand : s'.rand = r0 := by rw [i1, hk.rand]
        have hidx : s'.bwtIdx = idx0 := by rw [i2, hk.bwtIdx]
        refine ⟨h, by rw [hrand, hidx], ?_⟩
        intro level start crc bits h32
        rw [hrand, hidx]
        exact (parseBlock_factor level start bits crc _ h32).2 r0 idx0 h hsp

open LbzVerif.Lemmas.RetrieveBits LbzVerif.Lemmas.RetrieveBitmap LbzVerif.Lemmas.RetrieveHeader in
-- the header of `tiny` as the reference reads it: bytes a, b in use, two tables,
-- one selector (MTF index 1), lengths [2,2,2,2] and [1,2,3,3]; 99 bits read, 93 are left
example : (specHeader (bitsOf (St.start 0 0) Props.C09.Retrieve.tiny)).map
      (fun x => (x.1, x.2.1, x.2.2.used, x.2.2.ng, x.2.2.ns)) = some (0, 0, [97, 98], 2, 1) ∧
    (specHeader (bitsOf (St.start 0 0) Props.C09.Retrieve.tiny)).map
      (fun x => (x.2.2.sels, x.2.2.tabs, x.2.2.rest.length)) =
        some ([1], [[2, 2, 2, 2], [1, 2, 3, 3]], 93) := by
  constructor <;> decide +kernel

open LbzVerif.Lemmas.RetrieveBits in
/-- **retrieve_reads_sequentially.**  Start with any legal buffer (`BufInv`:
`v < 2^64`, bits below the `w` live ones zero — e.g. the empty buffer, or what
the header parser left) and any words.  Whenever a call answers OK or MORE
(also ERR_EOF coming from `NEED`, not stated), the position it saves (`v`, `w`, unread words) is again a legal
buffer, and the unread bits it designates are a SUFFIX of the unread bits it
was given: the retriever consumes the stream strictly in order, never skips,
duplicates or re-reads a bit, and the end position of a block is well
defined (`k` = number of bits consumed). -/
theorem retrieve_reads_sequentially (st : St) (ws : List Nat) (eof : Bool)
    (inv : BufInv st.v st.w)
    (h : (retrieve st ws eof).status = .ok ∨ (retrieve st ws eof).status = .more) :
    BufInv (retrieve st ws eof).st.v (retrieve st ws eof).st.w ∧
      ∃ k, bitsOf (retrieve st ws eof).st (retrieve st ws eof).rest = (bitsOf st ws).drop k := by
  have key : (((run true st ws).result eof).status = .ok ∨ ((run true st ws).result eof).status = .more) →
      BufInv ((run true st ws).result eof).st.v ((run true st ws).result eof).st.w ∧
      ∃ k, bitsOf ((run true st ws).result eof).st ((run true st ws).result eof).rest = (bitsOf st ws).drop k := by
    intro h
    rw [run_fast_eq_slow] at h ⊢
    have hb := run_bits st ws inv
    cases hr : run false st ws with
    | susp s => rw [hr] at hb; cases hb with | susp hs => exact hs
    | halt r s rest =>
      rw [hr] at hb h
      cases hb with
      | ok hs => exact hs
      | other hne =>
        exfalso
        cases r with
        | ok => exact hne rfl
        | err c => simp [RunOut.result, Halt.toStatus] at h
        | ub => simp [RunOut.result, Halt.toStatus] at h
        | overread => simp [RunOut.result, Halt.toStatus] at h
  unfold retrieve retrieveWith at h ⊢
  by_cases hi : st.pc = .init
  · rw [if_pos hi] at h ⊢; exact key h
  · rw [if_neg hi] at h ⊢
    by_cases ha : ws = []
    · rw [if_pos ha] at h ⊢
      cases eof <;> simp at h
    · rw [if_neg ha] at h ⊢
      by_cases hw : 32 ≤ st.w
      · rw [if_pos hw] at h; simp at h
      · rw [if_neg hw] at h ⊢; exact key h

open LbzVerif.Lemmas.RetrieveBits in
-- `tiny`: 106 bits of block, 192 bits offered: 86 bits are left (54 live + one word)
example : BufInv 0 0 ∧
    (bitsOf (retrieve (St.start 0 0) Props.C09.Retrieve.tiny true).st
      (retrieve (St.start 0 0) Props.C09.Retrieve.tiny true).rest).length = 86 ∧
    (bitsOf (St.start 0 0) Props.C09.Retrieve.tiny).length = 192 :=
  ⟨bufInv_start, by decide +kernel, by decide +kernel⟩

open LbzVerif.Lemmas.RetrieveBits LbzVerif.Lemmas.RetrieveValues in
/-- **retrieve_take_sound** (both directions: an equation).  On a legal buffer
every `TAKE(x, k)` of the retriever — the rand bit, the 24-bit index, the
bitmap words, `num_trees`, `num_selectors`, the 5-bit start lengths — yields
exactly what the reference's `takeNat k` yields on the unread bits, and keeps
exactly the bits the reference keeps. -/
theorem retrieve_take_sound (st st' : St) (k x : Nat) (ws : List Nat)
    (h : take st k = some (x, st')) (inv : BufInv st.v st.w) :
    Basic.takeNat k (bitsOf st ws) = some (x, bitsOf st' ws) ∧ BufInv st'.v st'.w :=
  take_value st st' k x ws h inv

open LbzVerif.Lemmas.RetrieveBits LbzVerif.Lemmas.RetrieveValues in
-- one word 0xC0000005 in the buffer: the first two bits are the number 3
example : ∃ st', take (refill (St.start 0 0) 0xC0000005) 2 = some (3, st') ∧
    Basic.takeNat 2 (bitsOf (refill (St.start 0 0) 0xC0000005) [7]) = some (3, bitsOf st' [7]) := by
  have inv := (refill_st_bits (St.start 0 0) 0xC0000005 (by decide) bufInv_start).2
  exact ⟨_, rfl, (retrieve_take_sound _ _ 2 3 [7] rfl inv).1⟩

open LbzVerif.Lemmas.RetrieveBits LbzVerif.Lemmas.RetrieveValues in
/-- **retrieve_selector_sound** (both directions).  One pass of the selector
loop (`table[PEEK(6)]`, `k > num_trees → ERR_SELECTOR`, `DUMP(k)`) is the
reference's unary code `Spec.Bzip2.readUnary num_trees 0` on the unread bits:
same index, same rest; bad-selector ⇔ ERR_SELECTOR. -/
theorem retrieve_selector_sound (st : St) (ws : List Nat) (h6 : 6 ≤ st.w) (inv : BufInv st.v st.w)
    (hj : st.j < st.numSel) (hn1 : 1 ≤ st.numTrees) (hn6 : st.numTrees ≤ 6) :
    match Spec.Bzip2.readUnary st.numTrees 0 (bitsOf st ws) with
    | .ok (i, B') =>
      ∃ st', selLoop st = .cont st' ∧ BufInv st'.v st'.w ∧ bitsOf st' ws = B' ∧
        st'.selector = st.selector.push i ∧ st'.j = st.j ∧ st'.numSel = st.numSel ∧
        st'.numTrees = st.numTrees ∧ st'.pc = .selectorMtf ∧ st'.w < st.w ∧
        st' = { st with v := st'.v, w := st'.w, selector := st.selector.push i, pc := .selectorMtf }
    | .error e => e = .badSelector ∧ selLoop st = errS Gen.ERR_SELECTOR :=
  selector_value st ws h6 inv hj hn1 hn6

open LbzVerif.Lemmas.RetrieveBits LbzVerif.Lemmas.RetrieveValues in
-- bits 110… with three tables: MTF index 2; with two tables: rejected
example : (Spec.Bzip2.readUnary 3 0 (bitsOf (refill (St.start 0 0) 0xC0000005) [])).toOption.map (·.1) = some 2 ∧
    Spec.Bzip2.readUnary 2 0 (bitsOf (refill (St.start 0 0) 0xC0000005) []) = .error .badSelector := by
  decide

open LbzVerif.Lemmas.RetrieveBits LbzVerif.Lemmas.RetrieveValues in
/-- **retrieve_delta_window_sound** (both directions).  One iteration of the
delta loop of the retriever, with the window `k` = the next six unread bits
and `c = code_len[j]`: it goes on iff `Model.Delta.stepLen c k` accepts — by
`Lemmas.Delta.core` / `sym_eq_winModel` iff at most three steps of the
bit-by-bit reference `Spec.Delta.sym` stay within 1…20 — with the reference's
new length, `tL k` bits dropped, the symbol finished iff `tL k ≠ 6`; it answers
ERR_DELTA iff `stepLen` rejects. -/
theorem retrieve_delta_window_sound (st : St) (ws : List Nat) (h6 : 6 ≤ st.w)
    (inv : BufInv st.v st.w) :
    let k := Model.Delta.peek6 (bitsOf st ws)
    match Model.Delta.stepLen st.clCur k with
    | none => deltaWindow st = errS Gen.ERR_DELTA
    | some c' =>
      ∃ st', deltaWindow st = .cont st' ∧ BufInv st'.v st'.w ∧
        bitsOf st' ws = (bitsOf st ws).drop (Model.Delta.tL k) ∧ st'.clCur = c' ∧
        (if Model.Delta.tL k ≠ 6 then st'.j = st.j + 1 ∧ st'.clAcc = c' :: st.clAcc
         else st'.j = st.j ∧ st'.clAcc = st.clAcc) ∧
        st'.alphaSize = st.alphaSize ∧ st'.t = st.t ∧ st'.pc = .deltaTag :=
  deltaWindow_value st ws h6 inv

-- window 101100 at length 20 is the excursion 20 → 21 → 20: refused
example : deltaWindow { refill (St.start 0 0) 0xB0000000 with clCur := 20 } = errS Gen.ERR_DELTA ∧
    Model.Delta.stepLen 20 0b101100 = none := ⟨by rfl, by decide⟩

open LbzVerif.Model.MtfDec LbzVerif.Lemmas.MtfOne LbzVerif.Lemmas.MtfRun in
/-- **retrieve_symbols_sound.**  Started as `retrieve()` starts its MTF-value
loop (`runChar = imtf_row[0][0]`, `run = 0`, `shift = 0`) on any slide
satisfying the layout invariant whose logical list begins with the bytes in
use, the retriever's symbol actions over ANY bzip2-numbered symbol sequence
give exactly the reference `Spec.Mtf.unMtfRle2`: the same bytes when the
reference accepts, overflow / unterminated (never success) when it rejects. -/
theorem retrieve_symbols_sound (sl : Slide) (hinv : Inv sl) (used : List UInt8)
    (h1 : 1 ≤ used.length) (h256 : used.length ≤ 256)
    (habs : ∃ junk, abs sl = used ++ junk) (syms : List Nat)
    (hsyms : ∀ s ∈ syms, s ≤ used.length + 1) :
    ∃ st0, initRun sl = some st0 ∧
      toOpt (symLoop st0 (syms.map (internalSym used.length))) =
        Spec.Mtf.unMtfRle2 used syms Gen.MAX_BLOCK_SIZE := by
  obtain ⟨st0, e1, e2⟩ := Props.C05.Mtf.runAccum_sound_init sl hinv used h1 h256 habs
    Gen.MAX_BLOCK_SIZE (Nat.le_refl _) syms hsyms
  exact ⟨st0, e1, by rw [symLoop_eq_consume]; exact e2⟩

open LbzVerif.Model.MtfDec LbzVerif.Lemmas.MtfOne LbzVerif.Lemmas.MtfRun in
example : ∃ st0, initRun (slideOf ([97, 98, 99] ++ List.replicate 253 0)) = some st0 ∧
    toOpt (symLoop st0 ([1, 2, 3, 0, 0, 3, 4].map (internalSym 3))) =
      some [97, 97, 98, 99, 99, 99, 99, 97] := by
  obtain ⟨st0, e1, e2⟩ := retrieve_symbols_sound (slideOf ([97, 98, 99] ++ List.replicate 253 0))
    (inv_slideOf _) [97, 98, 99] (by decide) (by decide)
    ⟨List.replicate 253 0, by rw [abs_slideOf _ (by rw [List.length_append, List.length_replicate]; rfl)]⟩
    [1, 2, 3, 0, 0, 3, 4] (by decide)
  exact ⟨st0, e1, e2.trans (by decide)⟩

end LbzVerif.Props.C05.Retrieve
