/-
  Props.C05.Retrieve — what is PROVED about the whole block retriever
  (`Model.Retrieve`, the model of `retrieve()` in src/decode.c) on the
  soundness side, and the exact gap to `retrieve_sound`.

  Target (`retrieve_sound`, NOT proved): for a bit stream positioned after a
  block's 32-bit CRC,
      Model.Retrieve.retrieve (St.start v w) words true = OK with block B,
        rand r, bwt_idx i, end position e
      →  Spec.Bzip2.parseBlock accepts the same bits with origPtr i, rand r,
         endBit e, and Spec.Bzip2.unMtfRle2 b.used 900000 b.syms = B,
         B ≠ [], i < |B|
  (the reference side is exactly what lbzdrv `specretr` evaluates; the
  campaign checks/w15_retrieve.py compares the REAL `retrieve()` with it on
  every generated stream: "C says OK ∧ Spec rejects" and "different block /
  end position" are violations).

  Proved here, for ALL states / word lists / segmentations:
    * `retrieve_sound_partial` — an OK answer always carries a non-empty block
      that contains its primary index (ERR_EMPTY / ERR_BWTIDX are never
      skipped), with or without segmentation;
    * `retrieve_symbols_sound` — the retriever's per-symbol actions (run
      accumulation with the 32-bit `run`, delayed writes, overflow tests,
      `mtf_one` on the sliding lists, flush at EOB) ARE `Model.MtfDec.consume`,
      hence — by W10's `runAccum_sound` — produce exactly the reference
      `Spec.Mtf.unMtfRle2` of the symbol sequence, and reject exactly when the
      reference rejects.
  Proved elsewhere and ready to be composed: `Props.C05.deltaWindow_sound`
  (windowed delta reader = bit-by-bit reference), `Props.C05.Tree.makeTree_kraft`
  (verdict stored in `mtf[t]` = Kraft comparison), `Props.C09.Retrieve.*`
  (result independent of segmentation, fast = slow), so that the remaining
  proof can be done on ONE call over the whole word list with the slow branch.

  The gap, item by item:
    (1) bit buffer = FIFO of the stream's bits.  The operations are done:
        `Lemmas.RetrieveBits.refill_bits` (a refill appends the 32 bits of the
        word), `dump_bits` (`DUMP(k)` drops `k`), `peek_testBit` (`PEEK(k)` =
        the next `k` bits, zero-padded), `buf_ext`, all under the invariant
        `BufInv` ("`v < 2^64`, bits below the live ones are 0") which they
        preserve.  Missing: threading `BufInv` and the bit list through
        `step` / `drain` / `toTop`;
    (2) header: `stepBwtIdx`, the bitmap rows (`bitmapOuter` / `rowBody` =
        `MtfDec.bitmapLoop` over the 256 flags = `Spec.readBitmapRows`),
        `afterBitmap`, `selLoop` (`Gen.firstZero` on a 6-bit window = unary
        code below `nGroups`; `mtf` update in `selectTree` = `unMtfSelectors`);
    (3) `deltaWindow` iterated under `NEED` = `Model.Delta.loop` on the bit
        list (then `deltaWindow_sound` applies), and `Spec.Delta.table` =
        `Spec.Bzip2.readTable`;
    (4) `Model.Canon.lookup` on the 64-bit window = `Spec.Bzip2.decodeSym`
        for a complete table (`makeTree_sound`, open in W11 as well:
        Props/C05/Tree.lean header);
    (5) the group loop of the slow machine = `symLoop` over the symbols of (4)
        with `Spec.Bzip2.decodeGroups`' grouping, and the 18001 clamp
        (`Props.C08.selectors_enough`);
    (6) `Spec.Mtf.unMtfRle2` = `Spec.Bzip2.unMtfRle2` (two reference texts).
-/
import LbzVerif.Lemmas.RetrieveOk
import LbzVerif.Props.C09.Retrieve
import LbzVerif.Props.C05.Mtf

namespace LbzVerif.Props.C05.Retrieve
open LbzVerif LbzVerif.Model.Retrieve
open LbzVerif.Lemmas.RetrieveOk LbzVerif.Lemmas.RetrieveFast

/-- **retrieve_sound_partial.**  Whatever the state, the words, the `eof` flag:
if one call of the retriever answers OK, the block it hands over is not empty
and `bwt_idx` lies inside it.  PARTIAL: see the file header for what is
missing to `retrieve_sound`. -/
theorem retrieve_sound_partial (st : St) (ws : List Nat) (eof : Bool)
    (h : (retrieve st ws eof).status = .ok) :
    1 ≤ (retrieve st ws eof).st.run.n ∧ (retrieve st ws eof).st.bwtIdx < (retrieve st ws eof).st.run.n := by
  have key : ((run true st ws).result eof).status = .ok → BlockOk ((run true st ws).result eof).st := by
    intro h
    rw [run_fast_eq_slow] at h ⊢
    cases hr : run false st ws with
    | susp s => rw [hr] at h; cases eof <;> simp [RunOut.result] at h
    | halt r s rest =>
      rw [hr] at h
      cases r with
      | ok => exact run_ok st ws s rest hr
      | err c => simp [RunOut.result, Halt.toStatus] at h
      | ub => simp [RunOut.result, Halt.toStatus] at h
      | overread => simp [RunOut.result, Halt.toStatus] at h
  unfold retrieve retrieveWith at h ⊢
  by_cases hi : st.pc = .init
  · rw [if_pos hi] at h ⊢; exact key h
  · rw [if_neg hi] at h ⊢
    by_cases ha : ws = []
    · rw [if_pos ha] at h; cases eof <;> simp at h
    · rw [if_neg ha] at h ⊢
      by_cases hw : 32 ≤ st.w
      · rw [if_pos hw] at h; simp at h
      · rw [if_neg hw] at h ⊢; exact key h

/-- … and the same for any admissible segmentation (by `retrieve_split`). -/
theorem retrieveAll_sound_partial (st : St) (segs : List (List Nat))
    (hadm : Props.C09.Retrieve.Admissible st segs)
    (h : (retrieveAll st segs).status = .ok) :
    1 ≤ (retrieveAll st segs).st.run.n ∧ (retrieveAll st segs).st.bwtIdx < (retrieveAll st segs).st.run.n := by
  rw [Props.C09.Retrieve.retrieve_split segs st hadm] at h ⊢
  exact retrieve_sound_partial st _ true h

-- the block of `Props.C09.Retrieve.tiny`: 2 bytes, primary index 0
example : (retrieve (St.start 0 0) Props.C09.Retrieve.tiny true).status = .ok ∧
    (retrieve (St.start 0 0) Props.C09.Retrieve.tiny true).st.run.n = 2 ∧
    (retrieve (St.start 0 0) Props.C09.Retrieve.tiny true).st.bwtIdx = 0 := by decide +kernel

-- a primary index outside the block is refused (bit 24 of the first word set: bwt_idx = 2)
example : (retrieve (St.start 0 0) (257 :: Props.C09.Retrieve.tiny.tail) true).status =
    .err Gen.ERR_BWTIDX := by decide +kernel

open LbzVerif.Model.MtfDec LbzVerif.Lemmas.MtfOne LbzVerif.Lemmas.MtfRun in
/-- **retrieve_symbols_sound.**  Started as `retrieve()` starts its MTF-value
loop (`runChar = imtf_row[0][0]`, `run = 0`, `shift = 0`) on any slide
satisfying the layout invariant whose logical list begins with the bytes in
use, the retriever's symbol actions over ANY bzip2-numbered symbol sequence
give exactly the reference `Spec.Mtf.unMtfRle2`: the same bytes when the
reference accepts, overflow / unterminated (never success) when it rejects. -/
theorem retrieve_symbols_sound (sl : Slide) (hinv : Inv sl) (used : List UInt8)
    (h1 : 1 ≤ used.length) (h256 : used.length ≤ 256)
    (habs : ∃ junk, abs sl = used ++ junk) (syms : List Nat)
    (hsyms : ∀ s ∈ syms, s ≤ used.length + 1) :
    ∃ st0, initRun sl = some st0 ∧
      toOpt (symLoop st0 (syms.map (internalSym used.length))) =
        Spec.Mtf.unMtfRle2 used syms Gen.MAX_BLOCK_SIZE := by
  obtain ⟨st0, e1, e2⟩ := Props.C05.Mtf.runAccum_sound_init sl hinv used h1 h256 habs
    Gen.MAX_BLOCK_SIZE (Nat.le_refl _) syms hsyms
  exact ⟨st0, e1, by rw [symLoop_eq_consume]; exact e2⟩

open LbzVerif.Model.MtfDec LbzVerif.Lemmas.MtfOne LbzVerif.Lemmas.MtfRun in
example : ∃ st0, initRun (slideOf ([97, 98, 99] ++ List.replicate 253 0)) = some st0 ∧
    toOpt (symLoop st0 ([1, 2, 3, 0, 0, 3, 4].map (internalSym 3))) =
      some [97, 97, 98, 99, 99, 99, 99, 97] := by
  obtain ⟨st0, e1, e2⟩ := retrieve_symbols_sound (slideOf ([97, 98, 99] ++ List.replicate 253 0))
    (inv_slideOf _) [97, 98, 99] (by decide) (by decide)
    ⟨List.replicate 253 0, by rw [abs_slideOf _ (by rw [List.length_append, List.length_replicate]; rfl)]⟩
    [1, 2, 3, 0, 0, 3, 4] (by decide)
  exact ⟨st0, e1, e2.trans (by decide)⟩

end LbzVerif.Props.C05.Retrieve
