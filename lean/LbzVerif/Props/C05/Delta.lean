/-
  C05 (soundness), delta-coded code lengths.

  `Model.Delta.table` is `retrieve()`'s table-driven reader (6-bit windows
  through the tables `L`, `R`, `HI`, `LO` regenerated from src/decode.c);
  `Spec.Delta.table` is the bit-by-bit reference in which EVERY value of the
  running code length — start value and all intermediate values — must be in
  1…20.  The theorems hold for every bit list, i.e. wherever the 6-bit windows
  happen to fall.  `0 < n`: an alphabet always has ≥ 3 symbols (with `n = 0`
  the C loop would not look at the start value at all).

  On the tree before the fix "reject delta codes whose intermediate value
  leaves 1..20" (`Gen.deltaCheckShape = 0`) the finite core
  `Lemmas.Delta.core` is false and this file does not compile.
-/
import LbzVerif.Lemmas.Delta

namespace LbzVerif.Props.C05

open LbzVerif
open LbzVerif.Model.Delta (Res)

/-- The delta tables of the C code are, window by window, the reference run of
at most three steps: same verdict (no intermediate value outside 1…20), same
new length, same number of bits, same "terminator seen".  (64 windows × 32
lengths, by evaluation of the regenerated tables.) -/
theorem deltaWindow_core : ∀ c, c < 32 → ∀ b1 b2 b3 b4 b5 b6 : Bool,
    Lemmas.Delta.winModel c (Model.Delta.toNum [b1, b2, b3, b4, b5, b6]) =
      Lemmas.Delta.symW 3 c [b1, b2, b3, b4, b5, b6] :=
  Lemmas.Delta.core

-- window `101010` (three increments) at length 17 reaches 20 and continues;
-- at length 18 it would reach 21 and is rejected
example : Lemmas.Delta.winModel 17 0b101010 = .cont 20 6 ∧
    Lemmas.Delta.winModel 18 0b101010 = .reject ∧
    Lemmas.Delta.winModel 20 0b101100 = .reject ∧       -- 20 → 21 → 20
    Lemmas.Delta.winModel 1 0b111000 = .reject := by     -- 1 → 0 → 1
  decide

/-- **deltaWindow_sound.**  If the windowed reader accepts a table, the
bit-by-bit reference accepts the same bits, yields the same lengths and leaves
the same unread bits (so it consumed the same number of bits). -/
theorem deltaWindow_sound (n : Nat) (hn : 0 < n) (bits : List Bool)
    (lens : List Nat) (rest : List Bool)
    (h : Model.Delta.table n bits = .ok lens rest) :
    Spec.Delta.table n bits = some (lens, rest) := by
  rw [← Lemmas.Delta.table_eq n hn bits, h]; rfl

/-- In particular every accepted length is in 1…20 and there is one per
symbol. -/
theorem delta_lens_inRange (n : Nat) (hn : 0 < n) (bits : List Bool)
    (lens : List Nat) (rest : List Bool)
    (h : Model.Delta.table n bits = .ok lens rest) :
    lens.length = n ∧ ∀ l ∈ lens, 1 ≤ l ∧ l ≤ 20 := by
  have hs := deltaWindow_sound n hn bits lens rest h
  unfold Spec.Delta.table at hs
  cases ht : Spec.Delta.takeNum 5 bits with
  | none => simp [ht] at hs
  | some p =>
    obtain ⟨c, r⟩ := p
    simp only [ht] at hs
    split at hs
    · refine ⟨Lemmas.Delta.syms_length n c r lens rest hs, ?_⟩
      intro l hl
      have := Lemmas.Delta.syms_inRange n c r lens rest hs l hl
      simp only [Spec.Delta.inRange, Spec.Delta.minLen, Spec.Delta.maxLen, Bool.and_eq_true] at this
      exact ⟨of_decide_eq_true this.1, of_decide_eq_true this.2⟩
    · simp at hs

/-- End of input: whenever the model stops with `errEof` (a window would DUMP
more bits than are left — in the C code `NEED` fails first, with `ERR_EOF` or
`MORE`), the reference does not accept the bits either: the table is not
complete within them. -/
theorem delta_eof (n : Nat) (hn : 0 < n) (bits : List Bool)
    (h : Model.Delta.table n bits = .errEof) : Spec.Delta.table n bits = none := by
  rw [← Lemmas.Delta.table_eq n hn bits, h]; rfl

/-- Sanity of the finite core (it can fail): with the range test of the tree
BEFORE the fix (`shape = 0`: net effect of the window only) the window
`10 11 0` at length 20 — the excursion 20 → 21 → 20 of finding F1 — is
accepted although the reference rejects it. -/
theorem deltaWindow_excursion_old_shape :
    Model.Delta.stepLenShape 0 20 0b101100 = some 20 ∧
      Lemmas.Delta.symW 3 20 [true, false, true, true, false, false] = .reject := by
  decide

private def bitsOf (s : String) : List Bool := s.toList.map (· == '1')

-- a zig-zag table for 4 symbols: start 19, +1 → 20 | −1 −1 → 18 | = | +1 → 19
example : Model.Delta.table 4 (bitsOf ("10011" ++ "100" ++ "11110" ++ "0" ++ "100" ++ "1011")) =
    .ok [20, 18, 18, 19] (bitsOf "1011") := by decide
-- the four probe shapes of finding F1 are rejected (and were accepted before the fix)
example : Model.Delta.table 3 (bitsOf "101001011000") = .errDelta := by decide   -- 20→21→20
example : Model.Delta.table 3 (bitsOf "000011110000") = .errDelta := by decide   -- 1→0→1
example : Model.Delta.table 3 (bitsOf "00000100000") = .errDelta := by decide    -- start 0, +1
example : Model.Delta.table 3 (bitsOf "10101110000") = .errDelta := by decide    -- start 21, −1

end LbzVerif.Props.C05
