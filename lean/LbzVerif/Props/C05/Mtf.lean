/-
  Props.C05.Mtf — the decoder's inverse MTF ("sliding lists") and zero-run
  accumulation equal the reference (W10's contribution to C05 / C06).
-/
import LbzVerif.Spec.Mtf
import LbzVerif.Model.MtfDec
import LbzVerif.Lemmas.MtfOne
import LbzVerif.Lemmas.MtfRun
import LbzVerif.Lemmas.MtfInit
import LbzVerif.Props.C01.Mtf

namespace LbzVerif.Props.C05.Mtf
open LbzVerif LbzVerif.Model.MtfDec LbzVerif.Lemmas.MtfOne LbzVerif.Lemmas.MtfRun

/-- One call: `mtf_one(c)` returns the byte at position `c` of the logical list
(abstraction: the 16 rows concatenated) and leaves the logical list equal to
list move-to-front of position `c` — also when the call rebuilds the pool. -/
theorem imtf_one (s : Slide) (h : Inv s) (c : UInt8) (hc : c ≠ 0) :
    ∃ b s', mtfOne s c = some (b, s') ∧ Inv s' ∧ (abs s)[c.toNat]? = some b ∧
      abs s' = Spec.Mtf.moveToFront (abs s) c.toNat := by
  have hc0 : 1 ≤ c.toNat := by
    have : c.toNat ≠ 0 := fun h0 => hc (UInt8.toNat_inj.mp (by simpa using h0))
    omega
  exact mtfOne_abs s h c hc0

/-- C05 (`imtf_sound`): for every sequence of indices 1…255, from every state
satisfying the layout invariant (in particular the initial one), the sliding
lists return exactly the bytes list-MTF returns and end with the same logical
list — across any number of rebuilds. -/
theorem imtf_sound (s : Slide) (h : Inv s) (cs : List UInt8) (hcs : ∀ c ∈ cs, c ≠ 0) :
    ∃ bs s', mtfMany s cs = some (bs, s') ∧ Inv s' ∧
      Spec.Mtf.mtfDecode (abs s) (cs.map UInt8.toNat) = some bs ∧
      abs s' = (cs.map UInt8.toNat).foldl Spec.Mtf.moveToFront (abs s) :=
  mtfMany_abs cs s h hcs

/-- The initial state: invariant holds and the logical list is the 256 bytes
stored at `CMAP_BASE`. -/
theorem imtf_init (bytes : List UInt8) (hb : bytes.length = 256) :
    Inv (slideOf bytes) ∧ abs (slideOf bytes) = bytes :=
  ⟨inv_slideOf bytes, abs_slideOf bytes hb⟩

/- Non-vacuity: the initial identity list and a sequence mixing fast-path and
general-path indices. -/
example : ∃ bs s', mtfMany (slideOf ((List.range 256).map UInt8.ofNat)) [1, 17, 255, 3] = some (bs, s') ∧
    Spec.Mtf.mtfDecode ((List.range 256).map UInt8.ofNat) [1, 17, 255, 3] = some bs := by
  obtain ⟨bs, s', e1, _, e3, _⟩ := imtf_sound (slideOf ((List.range 256).map UInt8.ofNat))
    (inv_slideOf _) [1, 17, 255, 3] (by decide)
  rw [abs_slideOf _ (by simp)] at e3
  exact ⟨bs, s', e1, e3⟩

/-! ### zero-run accumulation and delayed writes -/

/-- C05/C06 (`runAccum_sound`), general form.  `st` is any state of
`retrieve()`'s symbol loop coupled with a state of the reference decoder
(`Coupled N st l`: layout invariant, `2^shift ≤ run + 1`, the logical list
starts with the reference list `l` of the `N` bytes in use, `runChar` is its
head), `syms` any bzip2-numbered symbols of the alphabet `0 … N+1`, and the
pending run still fits (`n + run ≤ limit`, where `limit ≤ MAX_BLOCK_SIZE` is
`tt_limit - ds->tt`).  Then the loop — delayed writes of `runChar`,
`run += RUN(s) << shift++` in 32-bit arithmetic under the `run <=
MAX_BLOCK_SIZE` guard, `run > tt_limit - tt` tests, flush at EOB — succeeds
exactly when the reference decoder does, with exactly the reference's bytes
(appended to what is already written / pending); it reports ERR_OVERFLOW /
ERR_UNTERM (or anything but success) exactly when the reference rejects
(block longer than `limit`, or EOB missing). -/
theorem runAccum_sound (N limit : Nat) (hl : limit ≤ Gen.MAX_BLOCK_SIZE)
    (syms : List Nat) (st : RunSt) (l : List UInt8) (hc : Coupled N st l)
    (hsyms : ∀ s ∈ syms, s ≤ N + 1) (hfit : st.n + st.run ≤ limit) :
    toOpt (consume limit st (syms.map (internalSym N))) =
      (Spec.Mtf.unGo (N + 1) limit l (st.n + st.run) (2 ^ st.shift) syms).map
        (fun r => st.out.reverse ++ List.replicate st.run st.runChar ++ r) :=
  consume_spec N limit hl syms st l hc hsyms hfit

/-- `runAccum_sound` from the state in which `retrieve()` enters the loop
(`runChar = imtf_row[0][0]`, `run = 0`, `shift = 0`), for any slide satisfying
the layout invariant whose logical list starts with the bytes in use:
the loop's verdict and bytes are exactly `Spec.Mtf.unMtfRle2 used syms limit`. -/
theorem runAccum_sound_init (sl : Slide) (hinv : Inv sl) (used : List UInt8)
    (h1 : 1 ≤ used.length) (h256 : used.length ≤ 256)
    (habs : ∃ junk, abs sl = used ++ junk)
    (limit : Nat) (hl : limit ≤ Gen.MAX_BLOCK_SIZE) (syms : List Nat)
    (hsyms : ∀ s ∈ syms, s ≤ used.length + 1) :
    ∃ st0, initRun sl = some st0 ∧
      toOpt (consume limit st0 (syms.map (internalSym used.length))) =
        Spec.Mtf.unMtfRle2 used syms limit :=
  consume_init sl hinv used h1 h256 habs limit hl syms hsyms

/- Non-vacuity: the slide holding [97, 98, 99, 0, …] and the symbols of
"aabccccа" (initial run, RUNB, positions 1 and 2, EOB = 4). -/
example : ∃ st0, initRun (slideOf ([97, 98, 99] ++ List.replicate 253 0)) = some st0 ∧
    toOpt (consume 900000 st0 ([1, 2, 3, 0, 0, 3, 4].map (internalSym 3))) =
      some [97, 97, 98, 99, 99, 99, 99, 97] := by
  obtain ⟨st0, e1, e2⟩ := runAccum_sound_init (slideOf ([97, 98, 99] ++ List.replicate 253 0))
    (inv_slideOf _) [97, 98, 99] (by decide) (by decide)
    ⟨List.replicate 253 0, by rw [abs_slideOf _ (by rw [List.length_append, List.length_replicate]; rfl)]⟩ 900000 (by decide)
    [1, 2, 3, 0, 0, 3, 4] (by decide)
  exact ⟨st0, e1, e2.trans (by decide)⟩

/-- C05/C06, whole stage: for every strictly ascending non-empty set `used`
of bytes in use, every bzip2-numbered symbol sequence over the alphabet
`0 … |used|+1` and every capacity `limit ≤ MAX_BLOCK_SIZE`, the model of
`retrieve()`'s MTF-value stage — bitmap loop filling `imtf_slide[CMAP_BASE…]`,
row set-up, `runChar = imtf_row[0][0]`, then the symbol loop over the sliding
lists — returns `ok out` exactly when the reference `unMtfRle2` returns
`some out`, with the same bytes; otherwise it returns overflow / unterminated
(never `ub`, see `C08.tt_write_bound`) exactly when the reference rejects. -/
theorem retrieveSyms_sound (used : List UInt8) (hs : used.Pairwise (· < ·)) (h1 : 1 ≤ used.length)
    (limit : Nat) (hl : limit ≤ Gen.MAX_BLOCK_SIZE) (syms : List Nat)
    (hsyms : ∀ s ∈ syms, s ≤ used.length + 1) :
    toOpt (retrieveSyms (Model.MtfEnc.inuseOf used) syms limit) =
      Spec.Mtf.unMtfRle2 used syms limit :=
  Lemmas.MtfInit.retrieveSyms_spec used hs h1 limit hl syms hsyms

/-- Model compressor stage followed by model decompressor stage is the
identity: what `do_mtf` emits for a block over `used` (≤ `limit` ≤ 900000
bytes) is decoded by the sliding-list decoder to exactly that block. -/
theorem retrieve_doMtf (used block : List UInt8) (hs : used.Pairwise (· < ·))
    (h1 : 1 ≤ used.length) (hmem : ∀ x ∈ block, x ∈ used)
    (limit : Nat) (hl : limit ≤ Gen.MAX_BLOCK_SIZE) (hfit : block.length ≤ limit) :
    ∃ syms, Model.MtfEnc.doMtf used block = some syms ∧
      toOpt (retrieveSyms (Model.MtfEnc.inuseOf used) syms limit) = some block := by
  obtain ⟨syms, e1, e2⟩ := Props.C01.Mtf.un_mtf used block limit hs hmem hfit
  refine ⟨syms, e1, ?_⟩
  rw [retrieveSyms_sound used hs h1 limit hl syms, e2]
  -- every emitted symbol is in the alphabet: otherwise the reference would reject
  intro s hsm
  rw [Props.C01.Mtf.doMtf_eq_spec used block hs hmem] at e1
  have e1' := Option.some.inj e1
  subst e1'
  exact Lemmas.MtfInit.mtfRle2_le used block hmem s hsm

example : toOpt (retrieveSyms (Model.MtfEnc.inuseOf [97, 98, 99]) [1, 2, 3, 0, 0, 3, 4] 900000) =
    some [97, 97, 98, 99, 99, 99, 99, 97] :=
  (retrieveSyms_sound [97, 98, 99] (by decide) (by decide) 900000 (by decide) _ (by decide)).trans
    (by decide)

end LbzVerif.Props.C05.Mtf
