/-
  Props.C05.File — WHOLE-FILE SOUNDNESS of lbzip2's decompression (W22).

  `expand_sound`: whenever the sequential composition of lbzip2's own pieces
  (`Model.Expand.expandFile`: the magic test of `work()`, the header parser
  `Gen.parseStep` TRANSLATED from parse.c folded over the 16-bit words of the
  zero-padded input with `bits_align` and the `eof_missing` test of `do_parse`,
  `Model.Retrieve`, `Model.Ibwt`, `Model.Emit`, the size and CRC tests
  `Gen.reorderStatus` of `do_reorder`) accepts a byte string `x` with output
  `y`, THE strict reference `Spec.Bzip2.decodeFile` accepts `x` with the same
  `y`.  Contrapositive (`expand_rejects_malformed`): a file the reference
  rejects is never decompressed.  That the real scheduler (any number of
  workers, speculation, any interleaving) produces what `expandFile` produces
  is `Props.C09.File`.

  Quantifiers: every byte string (any length, any alignment of the end of the
  data with respect to the 32-bit words lbzip2 reads, any trailing data).

  Chain: Lemmas/ExpandBits (the bitstream is a FIFO of the padded input's bits)
  → Lemmas/ExpandStep, ExpandChainS (what the automaton must have read when it
  got to OK / FINISH) → Lemmas/ExpandBlock (one block: `block_decode_sound`)
  → Lemmas/ExpandLocal, ExpandPos (the reference parser reads only what it
  consumes, its offsets are exact: the zero padding is never looked at)
  → Lemmas/ExpandSpec, ExpandTop (the reference loop cut at the automaton's
  anchor states) → Lemmas/ExpandMain.sound_main.

  Corners settled by the proof (and by checks/w22_expand.py on the real
  binary): 1–3 trailing bytes, "B"/"BZ"/"BZh" at the very end (the second
  header word then reaches into the zero padding and cannot be "h1"…"h9":
  `Lemmas.ExpandMain.no_header_in_pad`), garbage shorter than 16 bits, a stream
  whose last bytes are zero and missing (completed only by the padding:
  rejected by the `eof_missing` test, `finishCheck_eq`).  No side condition is
  needed: lbzip2's word-level rule and the byte-level rule "trailing data is
  ignored unless it begins with a full BZh1…BZh9 header" coincide.
-/
import LbzVerif.Lemmas.ExpandMain
import LbzVerif.Lemmas.ExpandTop
import LbzVerif.Lemmas.ExpandHello

namespace LbzVerif.Props.C05.File
open LbzVerif LbzVerif.Basic LbzVerif.Spec.Bzip2 LbzVerif.Model.Expand
open LbzVerif.Lemmas.ExpandBits LbzVerif.Lemmas.ExpandSpec LbzVerif.Lemmas.ExpandTop
open LbzVerif.Lemmas.ExpandMain

/-- **expand_sound.** -/
theorem expand_sound (x y : List UInt8) (h : expandFile x = .ok y) : Spec.Bzip2.decodeFile x = .ok y := by
  rw [expandFile_eq] at h
  by_cases hh : Lemmas.Copy.hasHeader x = true
  · rw [if_pos hh] at h
    unfold expandRest at h
    simp only at h
    have hm3 := missingOf_lt (x.drop 4).length
    have inv0 : Lemmas.RetrieveBits.BufInv (⟨0, 0, toWords (padded (x.drop 4))⟩ : Cur).v
        (⟨0, 0, toWords (padded (x.drop 4))⟩ : Cur).w := Lemmas.RetrieveBits.bufInv_start
    have hs := (sound_main _ hm3 _ _ _ _ _ h inv0 rfl).1 rfl
    have hbits : bitsC (⟨0, 0, toWords (padded (x.drop 4))⟩ : Cur) =
        bytesToBits (x.drop 4) ++ pad (missingOf (x.drop 4).length) := by
      unfold bitsC
      rw [padded_bits]
      rfl
    have hlen : (x.drop 4).length = x.length - 4 := List.length_drop
    obtain ⟨a, ha, hy⟩ := hs.2 (bytesToBits (x.drop 4)) x.length (x.length + 1) (x.length + 1) 32 0 {}
      hbits rfl rfl (by rw [bytesToBits_length]; omega) (by rw [bytesToBits_length]; omega)
      (by rw [bytesToBits_length]; omega) (by rw [bytesToBits_length]; omega)
    unfold decodeFile
    rw [walkFile_header x hh, decodeStreams_succ]
    have hb : (Gen.parserInit (Lemmas.Copy.headerLevel x) false).bs100k = Lemmas.Copy.headerLevel x := rfl
    rw [hb] at ha
    rw [ha]
    show Except.ok a.out.toList = _
    rw [hy]
  · rw [if_neg hh] at h
    cases h

/-- **expand_rejects_malformed.**  A byte string the strict reference rejects is never
decompressed (whatever its length, padding, trailing data). -/
theorem expand_rejects_malformed (x : List UInt8) (e : Reject) (h : Spec.Bzip2.decodeFile x = .error e) :
    ∃ e', expandFile x = .error e' := by
  cases hx : expandFile x with
  | error e' => exact ⟨e', rfl⟩
  | ok y =>
    rw [expand_sound x y hx] at h
    cases h

-- Non-vacuity: the hypothesis holds on a real file ("a", `bzip2 -9`; the model kernel-evaluated
-- in Lemmas/ExpandHello.lean), and the conclusion is the reference's own verdict on it.
example : Spec.Bzip2.decodeFile Lemmas.ExpandHello.aBz2 = .ok [97] :=
  expand_sound _ _ Lemmas.ExpandHello.expandFile_aBz2

-- … and of the contrapositive: a header with nothing behind it.
example : ∃ e', expandFile [0x42, 0x5A, 0x68, 0x39] = .error e' :=
  expand_rejects_malformed _ .truncated (by decide +kernel)

end LbzVerif.Props.C05.File
