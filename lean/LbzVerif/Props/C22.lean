/-
  C22 — Invocation name and option sources select the documented mode.

  Every theorem is about `Model.Cli` (`opts_setup`, `opts_outmode`,
  `opts_decompress`, `small = 0` in `main`) interpreting the tables that are
  regenerated from src/main.c on every run (`Gen.longOpts`, `Gen.shortOpts`,
  `Gen.evNames`, `Gen.envSep`, `Gen.decompressNames`, `Gen.catNames`,
  `Gen.smallForcedOff`).  They quantify over all program names, all
  environments and ALL token lists (no bound on length or content).

  Vocabulary:
    `parse p env argv`   what `main` works with (String face);
    `parseL p args`      the same for the homogeneous argument list `args`
                         (environment tokens ++ argv) as character lists;
    `flatten args`       the scanned option events, `lastMode` the last
                         mode-setting one among them;
    `scanState xs = .normal`  after the list `xs` the next element is read as
                         an operand/option (it is not the argument of a
                         trailing `-n`/`-m` and no `--` came before).
-/
import LbzVerif.Lemmas.CliParse
import LbzVerif.Lemmas.CliTokens

namespace LbzVerif.Props.C22
open LbzVerif.Gen LbzVerif.Model.Cli LbzVerif.Lemmas.CliParse

/-! ### The generated tables say what the usage text says -/

/-- Environment variables and their order, separators, the four program
names, the documented spelling of every mode / compatibility option. If
main.c renames, removes or reroutes one of them, this stops compiling. -/
theorem documented_tables :
    evNames = ["LBZIP2", "BZIP2", "BZIP"] ∧ envSep = [' ', '\t']
    ∧ decompressNames.Perm ["bunzip2", "lbunzip2"] ∧ catNames.Perm ["bzcat", "lbzcat"]
    ∧ smallForcedOff = true
    ∧ [('d', OptAct.decompressD), ('z', .decompressZ), ('c', .outmodeC), ('t', .outmodeT),
       ('k', .keep), ('f', .force), ('v', .verbose), ('u', .ultra), ('S', .cctrs),
       ('q', .nop), ('s', .small), ('h', .usage), ('V', .version), ('L', .version),
       ('n', .argN), ('m', .argM), ('1', .levelDigit), ('5', .levelDigit), ('9', .levelDigit)].all
        (fun p => shortOpts.lookup p.1 == some p.2) = true
    ∧ [("decompress", OptAct.decompressD), ("compress", .decompressZ), ("stdout", .outmodeC),
       ("test", .outmodeT), ("keep", .keep), ("force", .force), ("verbose", .verbose),
       ("sequential", .ultra), ("fast", .level 1), ("best", .level 9), ("small", .small),
       ("quiet", .nop), ("repetitive-fast", .nop), ("repetitive-best", .nop),
       ("exponential", .nop), ("help", .usage), ("version", .version), ("license", .version)].all
        (fun p => longOpts.lookup p.1 == some p.2) = true := by
  decide +kernel

/-! ### Environment variables -/

/-- tokens of an optional value -/
def tokensOpt : Option String → List String
  | none => []
  | some v => tokens v

private theorem map_toList_ofList (l : List Tok) :
    (l.map String.ofList).map String.toList = l := by
  induction l with
  | nil => rfl
  | cons a l ih => simp [String.toList_ofList]

/-- Tokens from the environment act exactly as if placed before the
command-line arguments: the environment can be traded for a prefix of argv. -/
theorem env_prefix (p : String) (env : String → Option String) (argv : List String) :
    parse p env argv
      = parse p (fun _ => none) ((envToks env).map String.ofList ++ argv) := by
  have h0 : envToks (fun _ => none) = [] := by
    unfold envToks
    induction evNames with
    | nil => rfl
    | cons a l ih => simp [List.flatMap_cons, ih]
  simp only [parse, argList, h0, List.nil_append, List.map_append, map_toList_ofList]

/-- … and the prefix is `tokens $LBZIP2 ++ tokens $BZIP2 ++ tokens $BZIP`, with
`tokens` = split at spaces and tabs, empty pieces dropped, no escaping. -/
theorem env_prefix_names (p : String) (env : String → Option String) (argv : List String) :
    parse p env argv
      = parse p (fun _ => none)
          (tokensOpt (env "LBZIP2") ++ tokensOpt (env "BZIP2") ++ tokensOpt (env "BZIP") ++ argv) := by
  rw [env_prefix]
  congr 2
  have : evNames = ["LBZIP2", "BZIP2", "BZIP"] := documented_tables.1
  unfold envToks
  rw [this]
  simp only [List.flatMap_cons, List.flatMap_nil, List.append_nil, List.map_append]
  cases env "LBZIP2" <;> cases env "BZIP2" <;> cases env "BZIP" <;>
    simp [tokensOpt, tokens]

/-- What `tokens` is: split at every space / tab, empty pieces dropped, nothing
else is special (no quoting, no escaping).  The three equations determine the
function. -/
theorem tokens_spec :
    tokensL [] = []
    ∧ (∀ t : Tok, t ≠ [] → (∀ c ∈ t, c ≠ ' ' ∧ c ≠ '\t') → tokensL t = [t])
    ∧ (∀ (a b : List Char) (sep : Char), sep = ' ' ∨ sep = '\t' →
        tokensL (a ++ sep :: b) = tokensL a ++ tokensL b) := by
  have hs : envSep = [' ', '\t'] := documented_tables.2.1
  refine ⟨rfl, ?_, ?_⟩
  · intro t ht hc
    unfold tokensL
    rw [LbzVerif.Lemmas.CliTokens.tokAux_run envSep t (by
      intro c hcm
      have := hc c hcm
      rw [hs]; simp [this.1, this.2])]
    simp [LbzVerif.Lemmas.CliTokens.flush, ht]
  · intro a b sep hsep
    unfold tokensL
    exact LbzVerif.Lemmas.CliTokens.tokAux_split envSep sep (by
      rw [hs]; rcases hsep with rfl | rfl <;> simp) b a []

example : tokens " -d\t \t-k  x " = ["-d", "-k", "x"] := by decide +kernel
example : tokens "\"-d -k\"" = ["\"-d", "-k\""] := by decide +kernel

/-! ### Inversion of `parse` -/

private theorem toOutcome_config {o : OutcomeL} {c : Config} {ops : List String}
    (h : o.toOutcome = .config c ops) : ∃ opsL, o = .config c opsL := by
  cases o with
  | config c0 o0 =>
    simp only [OutcomeL.toOutcome, Outcome.config.injEq] at h
    exact ⟨o0, by rw [h.1]⟩
  | _ => cases h

/-- the configuration `main` sees, from the one option processing ends with -/
def finalC (c0 : Config) (ops : List Tok) : Config :=
  if c0.outmode = .regf ∧ ops.isEmpty then { unsmallC c0 with outmode := .stdout }
  else unsmallC c0

theorem parseL_config {p : String} {args : List Tok} {c : Config} {ops : List Tok}
    (h : parseL p args = .config c ops) :
    ∃ c0, interp (initial p) (flatten args) = .config c0 ops ∧ c = finalC c0 ops := by
  rw [parseL_eq] at h
  cases hi : interp (initial p) (flatten args) with
  | config c0 ops0 =>
    rw [hi] at h
    simp only [unsmall, finalize, OutcomeL.config.injEq] at h
    obtain ⟨h1, h2⟩ := h
    subst h2
    exact ⟨c0, rfl, by rw [← h1]; rfl⟩
  | _ => rw [hi] at h; cases h

theorem initial_decompress (p : String) :
    (initial p).decompress = (decompressNames.contains p || catNames.contains p) := by
  unfold initial
  by_cases h1 : p ∈ decompressNames <;> by_cases h2 : p ∈ catNames <;> simp [h1, h2]

/-- the two name lists are disjoint -/
theorem names_disjoint (q : String) (h1 : q ∈ decompressNames) (h2 : q ∈ catNames) : False := by
  have m1 : q ∈ ["bunzip2", "lbunzip2"] := documented_tables.2.2.1.mem_iff.mp h1
  have m2 : q ∈ ["bzcat", "lbzcat"] := documented_tables.2.2.2.1.mem_iff.mp h2
  simp only [List.mem_cons, List.not_mem_nil, or_false] at m1 m2
  rcases m1 with rfl | rfl <;> rcases m2 with m2 | m2 <;> exact absurd m2 (by decide)

theorem initial_cat (p : String) (hp : catNames.contains p = true) :
    (initial p).outmode = .stdout := by
  have hp' : p ∈ catNames := by simpa using hp
  unfold initial
  by_cases h1 : p ∈ decompressNames
  · exact (names_disjoint p h1 hp').elim
  · simp [h1, hp']

def decompressOf : Outcome → Option Bool
  | .config c _ => some c.decompress
  | _ => none

/-! ### The mode -/

/-- `decompress` is decided by the LAST of `-d`/`--decompress` (on),
`-z`/`--compress` (off), `-t`/`--test` (on) among the options scanned from
environment and command line; without any of them by the invocation name:
on exactly for `bunzip2`, `lbunzip2`, `bzcat`, `lbzcat`. -/
theorem mode_last_wins_list (p : String) (args : List Tok) (c : Config) (ops : List Tok)
    (h : parseL p args = .config c ops) :
    c.decompress = (lastMode (flatten args)).getD
      (decompressNames.contains p || catNames.contains p) := by
  obtain ⟨c0, hi, hc⟩ := parseL_config h
  rw [hc, ← initial_decompress, ← interp_decompress _ _ _ _ hi]
  unfold finalC unsmallC
  split <;> rfl

theorem mode_last_wins (p : String) (env : String → Option String) (argv : List String)
    (c : Config) (ops : List String) (h : parse p env argv = .config c ops) :
    c.decompress
      = (lastMode (flatten (argList env (argv.map String.toList)))).getD
          (decompressNames.contains p || catNames.contains p) := by
  obtain ⟨opsL, h⟩ := toOutcome_config h
  exact mode_last_wins_list p _ c opsL h

private theorem lastMode_append_single (A B : List Ev) (e : Ev) (b : Bool)
    (he : modeOf e = some b) (hB : ∀ x ∈ B, modeOf x = none) :
    lastMode (A ++ e :: B) = some b := by
  have : B.filterMap modeOf = [] := List.filterMap_eq_nil_iff.mpr hB
  simp [lastMode, List.filterMap_append, he, this]

/-- the mode options, with the value of `decompress` each one selects -/
def modeTokens : List (String × Bool) :=
  [("-d", true), ("--decompress", true), ("-z", false), ("--compress", false),
   ("-t", true), ("--test", true)]

/-- Token form of "the last one wins": a mode option at an option position,
followed by anything that contains no further mode option (in particular:
the last mode option of the list), decides `decompress` — whatever came
before it in the environment or on the command line, whatever the name. -/
theorem mode_last_token (p : String) (t : String) (b : Bool) (ht : (t, b) ∈ modeTokens)
    (xs ys : List Tok) (hx : scanState xs = .normal)
    (hy : ∀ e ∈ flatten ys, modeOf e = none) (c : Config) (ops : List Tok)
    (h : parseL p (xs ++ t.toList :: ys) = .config c ops) : c.decompress = b := by
  have key : scanState [t.toList] = .normal
      ∧ ∃ e, flatten [t.toList] = [e] ∧ modeOf e = some b := by
    simp only [modeTokens, List.mem_cons, Prod.mk.injEq, List.not_mem_nil, or_false] at ht
    rcases ht with ⟨rfl, rfl⟩ | ⟨rfl, rfl⟩ | ⟨rfl, rfl⟩ | ⟨rfl, rfl⟩ | ⟨rfl, rfl⟩ | ⟨rfl, rfl⟩
    · exact ⟨by decide +kernel, .act .decompressD 'd', by decide +kernel, rfl⟩
    · exact ⟨by decide +kernel, .act .decompressD '0', by decide +kernel, rfl⟩
    · exact ⟨by decide +kernel, .act .decompressZ 'z', by decide +kernel, rfl⟩
    · exact ⟨by decide +kernel, .act .decompressZ '0', by decide +kernel, rfl⟩
    · exact ⟨by decide +kernel, .act .outmodeT 't', by decide +kernel, rfl⟩
    · exact ⟨by decide +kernel, .act .outmodeT '0', by decide +kernel, rfl⟩
  obtain ⟨hs, e, hf, hm⟩ := key
  rw [mode_last_wins_list p _ c ops h, flatten_append' xs _ hx]
  have : flatten (t.toList :: ys) = e :: flatten ys := by
    have := flatten_append' [t.toList] ys hs
    simpa [hf] using this
  rw [this, lastMode_append_single _ _ e b hm hy]
  rfl

example : decompressOf (parse "bunzip2" (fun _ => none) ["-d", "-k", "-z", "-v", "x", "-1"])
    = some false := by decide +kernel

example : parse "bunzip2" (fun n => if n = "BZIP2" then some "-z" else none) ["-v", "-dk", "--compress", "x"]
    = .config { decompress := false, keep := true, verbose := true } ["x"] := by decide +kernel

/-- the mode events of a token list: what `lastMode` looks at, spelled out on an
example (`-t` counts, `-c`/`-k`/operands/ignored options do not) -/
example : (flatten ["-zk".toList, "x".toList, "--test".toList, "-q".toList]).filterMap modeOf
    = [false, true] := by decide +kernel

/-- No mode option at all: the invocation name alone decides. -/
theorem mode_default (p : String) (env : String → Option String) (argv : List String)
    (c : Config) (ops : List String) (h : parse p env argv = .config c ops)
    (hno : ∀ e ∈ flatten (argList env (argv.map String.toList)), modeOf e = none) :
    c.decompress = (decompressNames.contains p || catNames.contains p) := by
  rw [mode_last_wins p env argv c ops h]
  have : (flatten (argList env (argv.map String.toList))).filterMap modeOf = [] := by
    rw [List.filterMap_eq_nil_iff]; exact hno
  simp [lastMode, this]

example : ∀ p ∈ ["bunzip2", "lbunzip2", "bzcat", "lbzcat"],
    decompressOf (parse p (fun _ => none) ["-k", "f"]) = some true := by decide +kernel
example : ∀ p ∈ ["bzip2", "lbzip2", "x", "BZCAT", ""],
    decompressOf (parse p (fun _ => none) ["-k", "f"]) = some false := by decide +kernel

/-- Invoked as `bzcat` / `lbzcat`, output goes to standard output whatever
the options are (and `-t` is refused, see `cat_t_conflict`). -/
theorem cat_names (p : String) (hp : catNames.contains p = true)
    (env : String → Option String) (argv : List String)
    (c : Config) (ops : List String) (h : parse p env argv = .config c ops) :
    c.outmode = .stdout := by
  obtain ⟨opsL, h⟩ := toOutcome_config h
  obtain ⟨c0, hi, hc⟩ := parseL_config h
  have h0 := initial_cat p hp
  have := interp_stdout_absorbing _ _ _ _ hi h0
  rw [hc]
  unfold finalC unsmallC
  split <;> simp_all

example : parse "lbzcat" (fun _ => none) ["-z", "-1", "f"]
    = .config { decompress := false, outmode := .stdout, bs100k := 1 } ["f"] := by decide +kernel

/-- `-t` (discard output) always comes with decompression. -/
theorem discard_implies_decompress (p : String) (env : String → Option String)
    (argv : List String) (c : Config) (ops : List String)
    (h : parse p env argv = .config c ops) (hd : c.outmode = .discard) :
    c.decompress = true := by
  obtain ⟨opsL, h⟩ := toOutcome_config h
  obtain ⟨c0, hi, hc⟩ := parseL_config h
  have h0 : (initial p).outmode = .discard → (initial p).decompress = true := by
    unfold initial
    split
    · simp
    · split <;> simp
  have := interp_discard_decompress _ _ _ _ hi h0
  rw [hc] at hd ⊢
  unfold finalC unsmallC at hd ⊢
  split at hd <;> simp_all

example : parse "lbzip2" (fun _ => none) ["-t", "f"]
    = .config { decompress := true, outmode := .discard } ["f"] := by decide +kernel

/-! ### The other documented options (what C17 relies on) -/

/-- `keep` / `force` are set exactly when some `-k`/`--keep` resp.
`-f`/`--force` is among the scanned options; the block size is that of the
last `-1 … -9` / `--fast` / `--best`, 9 without any. -/
theorem flags_and_level (p : String) (args : List Tok) (c : Config) (ops : List Tok)
    (h : parseL p args = .config c ops) :
    c.keep = (flatten args).any isKeepEv
    ∧ c.force = (flatten args).any isForceEv
    ∧ c.bs100k = (((flatten args).filterMap levelOf).getLast?).getD 9 := by
  obtain ⟨c0, hi, hc⟩ := parseL_config h
  have hk := interp_keep _ _ _ _ hi
  have hf := interp_force _ _ _ _ hi
  have hl := interp_level _ _ _ _ hi
  have i1 : (initial p).keep = false ∧ (initial p).force = false ∧ (initial p).bs100k = 9 := by
    unfold initial
    split
    · exact ⟨rfl, rfl, rfl⟩
    · split <;> exact ⟨rfl, rfl, rfl⟩
  rw [i1.1, Bool.false_or] at hk
  rw [i1.2.1, Bool.false_or] at hf
  rw [i1.2.2] at hl
  rw [hc]
  unfold finalC unsmallC
  split <;> exact ⟨hk, hf, hl⟩

example : parse "lbzip2" (fun _ => none) ["-1", "--keep", "-5f", "--fast", "-3", "x"]
    = .config { keep := true, force := true, bs100k := 3 } ["x"] := by decide +kernel

/-! ### Ignored options -/

/-- the options documented as accepted and ignored, and `--small` -/
def noopTokens : List String :=
  ["-q", "--quiet", "--repetitive-fast", "--repetitive-best", "--exponential", "-s", "--small"]

private theorem noopTokens_spec : ∀ t ∈ noopTokens, scanState [t.toList] = .normal ∧
    (flatten [t.toList] = [.act .nop '0'] ∨ flatten [t.toList] = [.act .nop 'q']
      ∨ flatten [t.toList] = [.act .small 's'] ∨ flatten [t.toList] = [.act .small '0']) := by
  decide +kernel

private theorem noop_flatten (t : String) (ht : t ∈ noopTokens) (xs ys : List Tok)
    (hpos : scanState xs = .normal) :
    ∃ a ch, (a = .nop ∨ a = .small) ∧
      flatten (xs ++ t.toList :: ys) = flatten xs ++ .act a ch :: flatten ys := by
  obtain ⟨hs, hf⟩ := noopTokens_spec t ht
  have h1 : flatten (xs ++ t.toList :: ys) = flatten xs ++ (flatten [t.toList] ++ flatten ys) := by
    rw [flatten_append' xs _ hpos]
    congr 1
    exact flatten_append' [t.toList] ys hs
  rcases hf with hf | hf | hf | hf
  · exact ⟨.nop, '0', Or.inl rfl, by rw [h1, hf]; rfl⟩
  · exact ⟨.nop, 'q', Or.inl rfl, by rw [h1, hf]; rfl⟩
  · exact ⟨.small, 's', Or.inr rfl, by rw [h1, hf]; rfl⟩
  · exact ⟨.small, '0', Or.inr rfl, by rw [h1, hf]; rfl⟩

/-- Up to `opts_setup` (before `main` clears `small`): inserting an ignored
option or `-s`/`--small` at any option position of the argument list leaves
the outcome, every option variable except `small`, and the operand list
unchanged. -/
theorem noop_insert_setup (p : String) (t : String) (ht : t ∈ noopTokens) (xs ys : List Tok)
    (hpos : scanState xs = .normal) :
    unsmall (optsSetupL p (xs ++ t.toList :: ys)) = unsmall (optsSetupL p (xs ++ ys)) := by
  obtain ⟨a, ch, ha, hf⟩ := noop_flatten t ht xs ys hpos
  simp only [optsSetupL, unsmall_finalize]
  rw [hf, flatten_append' xs ys hpos, interp_noop_insert a ch ha]

example : optsSetupL "lbzip2" ["-d".toList, "--small".toList, "f".toList]
      = .config { decompress := true, small := true } ["f".toList]
    ∧ optsSetupL "lbzip2" ["-d".toList, "f".toList]
      = .config { decompress := true } ["f".toList] := by decide +kernel

/-- As `main` sees it (`small` forced to 0): the whole outcome is unchanged. -/
theorem noop_insert_list (p : String) (t : String) (ht : t ∈ noopTokens) (xs ys : List Tok)
    (hpos : scanState xs = .normal) :
    parseL p (xs ++ t.toList :: ys) = parseL p (xs ++ ys) := by
  simp only [parseL, mainView_eq_unsmall]
  exact noop_insert_setup p t ht xs ys hpos

/-- The same on the command line, with any environment: inserting one of the
ignored options anywhere among the arguments where an option is expected
(i.e. not directly after a trailing `-n`/`-m`, not after `--`) changes
nothing. -/
theorem noop_insert (p : String) (env : String → Option String) (t : String)
    (ht : t ∈ noopTokens) (xs ys : List String)
    (hpos : scanState (argList env (xs.map String.toList)) = .normal) :
    parse p env (xs ++ t :: ys) = parse p env (xs ++ ys) := by
  simp only [parse, argList, List.map_append, List.map_cons, ← List.append_assoc] at hpos ⊢
  rw [noop_insert_list p t ht _ _ hpos]

example : parse "lbzip2" (fun _ => none) ["-d", "--quiet", "-k", "-s", "f"]
    = parse "lbzip2" (fun _ => none) ["-d", "-k", "f"] := by decide +kernel
/-- the position hypothesis is needed: after `-n` the token is the thread count -/
example : parse "lbzip2" (fun _ => none) ["-n", "-q", "2"] = .fatal
    ∧ scanState ["-n".toList] = .pending ∧ scanState ["--".toList] = .stopped
    ∧ scanState ["-dn".toList, "4".toList, "f".toList] = .normal := by decide +kernel

/-- Inside a cluster of short options: inserting the letter `q` or `s` at any
place before an `n`/`m` letter changes nothing. -/
theorem noop_insert_cluster (p : String) (l : Char) (hl : l = 'q' ∨ l = 's')
    (l1 l2 : List Char) (xs ys : List Tok)
    (h1 : ∀ ch ∈ l1, shortOpts.lookup ch ≠ some .argN ∧ shortOpts.lookup ch ≠ some .argM)
    (hh : (l1 ++ l2).head? ≠ some '-')
    (hpos : scanState xs = .normal) :
    parseL p (xs ++ ('-' :: (l1 ++ l :: l2)) :: ys) = parseL p (xs ++ ('-' :: (l1 ++ l2)) :: ys) := by
  have hlk : ∃ a, shortOpts.lookup l = some a ∧ (a = .nop ∨ a = .small) := by
    rcases hl with rfl | rfl
    · exact ⟨.nop, by decide, Or.inl rfl⟩
    · exact ⟨.small, by decide, Or.inr rfl⟩
  obtain ⟨a, hla, ha⟩ := hlk
  have hsimple : Simple a := by rcases ha with rfl | rfl <;> simp [Simple]
  have hh' : (l1 ++ l :: l2).head? ≠ some '-' := by
    cases l1 with
    | nil => rcases hl with rfl | rfl <;> simp
    | cons c t => simpa using hh
  have hk := argKind_short _ hh
  have hk' := argKind_short _ hh'
  simp only [parseL, mainView_eq_unsmall, optsSetupL, unsmall_finalize]
  congr 1
  rw [flatten_append' xs _ hpos, flatten_append' xs _ hpos,
    flatten_short _ _ ys hk, flatten_short _ _ ys hk']
  rcases cluster_insert l a hla hsimple l2 l1 h1 with he | ⟨A, B, e1, e2, e3⟩
  · rw [he]
  · rw [e1, e2, e3]
    have := interp_noop_insert a l ha (flatten xs ++ A)
      (B ++ tailOf (cluster (l1 ++ l2)).2 ys) (initial p)
    simpa [List.append_assoc] using this

example : parse "lbzip2" (fun _ => none) ["-dqk", "f"] = parse "lbzip2" (fun _ => none) ["-dk", "f"]
    ∧ parse "lbzip2" (fun _ => none) ["-sdk", "f"] = parse "lbzip2" (fun _ => none) ["-dk", "f"]
    ∧ parse "lbzip2" (fun _ => none) ["-dks", "f"] = parse "lbzip2" (fun _ => none) ["-dk", "f"] := by
  decide +kernel

/-! ### Clusters -/

/-- A cluster of option letters that take no argument (`-dkf`) is read
exactly like the separate options (`-d -k -f`), at any option position. -/
theorem cluster_eq_separate (p : String) (ls : List Char) (xs ys : List Tok)
    (h : ∀ ch ∈ ls, ch ≠ '-' ∧ shortOpts.lookup ch ≠ some .argN ∧ shortOpts.lookup ch ≠ some .argM)
    (hpos : scanState xs = .normal) :
    parseL p (xs ++ ('-' :: ls) :: ys)
      = parseL p (xs ++ (ls.map (fun ch => ['-', ch]) ++ ys)) := by
  simp only [parseL, optsSetupL]
  congr 2
  rw [flatten_append' xs _ hpos, flatten_append' xs _ hpos]
  exact interp_prefix_congr id (fun _ _ => rfl) _ _
    (interp_cluster_separate ys ls h) (flatten xs) (initial p)

example : parse "bzip2" (fun _ => none) ["-v", "-dkf", "x"]
    = parse "bzip2" (fun _ => none) ["-v", "-d", "-k", "-f", "x"] := by decide +kernel
/-- letters with an argument are different: `-n4` is not `-n -4` -/
example : parse "bzip2" (fun _ => none) ["-n4"] ≠ parse "bzip2" (fun _ => none) ["-n", "-4"] := by
  decide +kernel

/-! ### `-c` and `-t` -/

/-- `opts_outmode`: `-c` is refused exactly when output is being discarded
(`-t` in effect), `-t` exactly when output goes to standard output (`-c` in
effect, or invoked as `bzcat`/`lbzcat`). -/
theorem c_t_conflict (c : Config) (ch : Char) :
    (applyAct .outmodeC ch c = none ↔ c.outmode = .discard)
    ∧ (applyAct .outmodeT ch c = none ↔ c.outmode = .stdout) := by
  constructor <;> simp only [applyAct] <;> split <;> simp_all

example : applyAct .outmodeC 'c' { outmode := .discard, decompress := true } = none
    ∧ applyAct .outmodeT 't' { outmode := .stdout } = none
    ∧ (applyAct .outmodeT 't' {}).isSome = true := by decide

/-- Event form, all lists: `-c` followed LATER (anything in between) by `-t`
is never accepted; `-t` followed later by `-c` is never accepted unless a
`-d`/`-z` in between cancelled the test mode. -/
theorem c_t_conflict_events (p : String) (args : List Tok) (A M B : List Ev) (ch1 ch2 : Char) :
    (flatten args = A ++ .act .outmodeC ch1 :: M ++ .act .outmodeT ch2 :: B →
        ∀ c ops, parseL p args ≠ .config c ops)
    ∧ (flatten args = A ++ .act .outmodeT ch1 :: M ++ .act .outmodeC ch2 :: B →
        (∀ e ∈ M, modeOf e = none) → ∀ c ops, parseL p args ≠ .config c ops) := by
  constructor
  · intro hf c ops hcfg
    obtain ⟨c0, hi, _⟩ := parseL_config hcfg
    rw [hf, List.append_assoc] at hi
    obtain ⟨c1, o1, o2, _, h2, _⟩ := interp_append _ _ _ _ _ hi
    rw [List.cons_append] at h2
    simp only [interp, reduceCtorEq, if_false] at h2
    cases hx : applyAct .outmodeC ch1 c1 with
    | none => simp [hx] at h2
    | some c2 =>
      simp only [hx] at h2
      obtain ⟨c3, o3, o4, h3, h4, _⟩ := interp_append _ _ _ _ _ h2
      have hs2 : c2.outmode = .stdout := by
        simp only [applyAct] at hx
        split at hx <;> simp_all
        rw [← hx]
      have hs3 := interp_stdout_absorbing _ _ _ _ h3 hs2
      simp only [interp, reduceCtorEq, if_false, applyAct, hs3, if_true] at h4
  · intro hf hM c ops hcfg
    obtain ⟨c0, hi, _⟩ := parseL_config hcfg
    rw [hf, List.append_assoc] at hi
    obtain ⟨c1, o1, o2, _, h2, _⟩ := interp_append _ _ _ _ _ hi
    rw [List.cons_append] at h2
    simp only [interp, reduceCtorEq, if_false] at h2
    cases hx : applyAct .outmodeT ch1 c1 with
    | none => simp [hx] at h2
    | some c2 =>
      simp only [hx] at h2
      obtain ⟨c3, o3, o4, h3, h4, _⟩ := interp_append _ _ _ _ _ h2
      have hs2 : c2.outmode = .discard := by
        simp only [applyAct] at hx
        split at hx <;> simp_all
        rw [← hx]
      have hs3 : c3.outmode = .discard := interp_discard_stays _ hM _ _ _ h3 hs2
      simp only [interp, reduceCtorEq, if_false, applyAct, hs3, if_true] at h4

example : flatten ["-ck".toList, "x".toList, "--test".toList]
    = [] ++ .act .outmodeC 'c' :: [.act .keep 'k', .operand "x".toList] ++ .act .outmodeT '0' :: []
    ∧ parseL "lbzip2" ["-ck".toList, "x".toList, "--test".toList] = .fatal := by decide +kernel

/-- Token form: `-c`/`--stdout` … `-t`/`--test` in either order at option
positions (with no mode option in between for the second order). -/
theorem c_t_conflict_tokens (p : String) (tc tt : String)
    (htc : tc ∈ ["-c", "--stdout"]) (htt : tt ∈ ["-t", "--test"]) (xs ys zs : List Tok)
    (hx : scanState xs = .normal) (hy : scanState ys = .normal) :
    (∀ c ops, parseL p (xs ++ tc.toList :: (ys ++ tt.toList :: zs)) ≠ .config c ops)
    ∧ ((∀ e ∈ flatten ys, modeOf e = none) →
        ∀ c ops, parseL p (xs ++ tt.toList :: (ys ++ tc.toList :: zs)) ≠ .config c ops) := by
  have hc : scanState [tc.toList] = .normal ∧ ∃ ch, flatten [tc.toList] = [.act .outmodeC ch] := by
    simp only [List.mem_cons, List.not_mem_nil, or_false] at htc
    rcases htc with rfl | rfl
    · exact ⟨by decide +kernel, 'c', by decide +kernel⟩
    · exact ⟨by decide +kernel, '0', by decide +kernel⟩
  have ht : scanState [tt.toList] = .normal ∧ ∃ ch, flatten [tt.toList] = [.act .outmodeT ch] := by
    simp only [List.mem_cons, List.not_mem_nil, or_false] at htt
    rcases htt with rfl | rfl
    · exact ⟨by decide +kernel, 't', by decide +kernel⟩
    · exact ⟨by decide +kernel, '0', by decide +kernel⟩
  obtain ⟨hcs, chc, hcf⟩ := hc
  obtain ⟨hts, cht, htf⟩ := ht
  have split2 : ∀ (a b : Tok) (ea eb : Ev), scanState [a] = .normal → scanState [b] = .normal →
      flatten [a] = [ea] → flatten [b] = [eb] →
      flatten (xs ++ a :: (ys ++ b :: zs)) = flatten xs ++ ea :: flatten ys ++ eb :: flatten zs := by
    intro a b ea eb ha hb hfa hfb
    rw [flatten_append' xs _ hx]
    have e1 : a :: (ys ++ b :: zs) = [a] ++ (ys ++ b :: zs) := rfl
    have e2 : b :: zs = [b] ++ zs := rfl
    rw [e1, flatten_append' [a] _ ha, flatten_append' ys _ hy, e2, flatten_append' [b] _ hb,
      hfa, hfb]
    simp
  constructor
  · exact (c_t_conflict_events p _ (flatten xs) (flatten ys) (flatten zs) chc cht).1
      (split2 _ _ _ _ hcs hts hcf htf)
  · intro hM
    exact (c_t_conflict_events p _ (flatten xs) (flatten ys) (flatten zs) cht chc).2
      (split2 _ _ _ _ hts hcs htf hcf) hM

example : parse "lbzip2" (fun _ => none) ["-c", "-k", "--test", "f"] = .fatal
    ∧ parse "lbzip2" (fun _ => none) ["-tc"] = .fatal
    ∧ parse "lbzip2" (fun _ => none) ["-c", "-d", "-t"] = .fatal
    -- the asymmetry: -d / -z after -t cancels the test mode, so -c is accepted
    ∧ parse "lbzip2" (fun _ => none) ["-t", "-d", "-c"]
        = .config { decompress := true, outmode := .stdout } [] := by decide +kernel

/-- invoked as `bzcat`/`lbzcat`, `-t` is always refused -/
theorem cat_t_conflict (p : String) (hp : catNames.contains p = true) (args : List Tok)
    (A B : List Ev) (ch : Char) (hf : flatten args = A ++ .act .outmodeT ch :: B) :
    ∀ c ops, parseL p args ≠ .config c ops := by
  intro c ops hcfg
  obtain ⟨c0, hi, _⟩ := parseL_config hcfg
  rw [hf] at hi
  obtain ⟨c1, o1, o2, h1, h2, _⟩ := interp_append _ _ _ _ _ hi
  have h0 := initial_cat p hp
  have hs1 := interp_stdout_absorbing _ _ _ _ h1 h0
  simp only [interp, reduceCtorEq, if_false, applyAct, hs1, if_true] at h2

example : parse "bzcat" (fun _ => none) ["-t"] = .fatal := by decide +kernel

end LbzVerif.Props.C22
