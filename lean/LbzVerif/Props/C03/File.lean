/-
  C03 — compressed bytes depend only on the input and the options, at file
  level.

  `Props.C03.output_eq` says two terminated runs of the compression scheduler
  model write the same block records.  Here the records are turned into the
  bytes of the file with the real collector (`realCodec`), the encoder model
  (`encodeBlock`: encode() + transmit() with the block's choices) and the
  header / trailer / combined CRC (`assemble`):

    the file written by ANY terminated run — any worker count, any slot
    totals, any interleaving, spurious wake-ups included — is
    `compressFileGen level cap chunk mode input choose`,

  hence two runs on the same input with the same level and mode produce
  byte-identical files.  `choose` (origPtr, tables, selectors per block) is a
  function of the block's bytes: in the C code it is computed by encode() from
  the block alone, with no access to scheduler state (checked by the campaign
  of checks/C03.py: bytes compared with the -n1 run under perturbation).
-/
import LbzVerif.Props.C01.Roundtrip

namespace LbzVerif.Props.C03.File
open LbzVerif LbzVerif.Basic LbzVerif.Model.Compress
open LbzVerif.Model.SchedC LbzVerif.Props.C04.Blocks

/-- Two terminated runs, different configurations (worker counts, slot
    totals) and schedules, same chunk size and mode: identical files. -/
theorem file_eq {c₁ c₂ : Cfg} {cap : Nat} {input : List UInt8} {s₁ s₂ : State UInt8 Enc}
    (level : Nat) (choose : List UInt8 → Choice) (hcap : 1 ≤ cap)
    (hg : 0 < c₁.inGranul) (hgg : c₁.inGranul = c₂.inGranul) (hu : c₁.ultra = c₂.ultra)
    (h₁ : Reach c₁ (realCodec cap hcap) input s₁) (f₁ : finished c₁ s₁ = true)
    (h₂ : Reach c₂ (realCodec cap hcap) input s₂) (f₂ : finished c₂ s₂ = true) :
    assemble level choose (s₁.written.map blockOut) =
      assemble level choose (s₂.written.map blockOut) := by
  rw [Props.C01.Roundtrip.assemble_sched level choose hcap hg h₁ f₁,
      Props.C01.Roundtrip.assemble_sched level choose hcap (hgg ▸ hg) h₂ f₂, hgg, hu]

/-- … in particular for the configurations `set_memory_constraints()` computes
    for worker counts `n₁`, `n₂` at the same level and mode: the file does not
    depend on the number of threads. -/
theorem file_eq_gen {n₁ n₂ bs : Nat} {u : Bool} {cap : Nat} {input : List UInt8}
    {s₁ s₂ : State UInt8 Enc} (level : Nat) (choose : List UInt8 → Choice)
    (hcap : 1 ≤ cap) (hbs : 0 < bs)
    (h₁ : Reach (Cfg.ofGen n₁ bs u) (realCodec cap hcap) input s₁)
    (f₁ : finished (Cfg.ofGen n₁ bs u) s₁ = true)
    (h₂ : Reach (Cfg.ofGen n₂ bs u) (realCodec cap hcap) input s₂)
    (f₂ : finished (Cfg.ofGen n₂ bs u) s₂ = true) :
    assemble level choose (s₁.written.map blockOut) =
      assemble level choose (s₂.written.map blockOut) := by
  have hg : 0 < (Cfg.ofGen n₁ bs u).inGranul := by
    simp only [Cfg.ofGen, Gen.memCompress]; omega
  exact file_eq (c₁ := Cfg.ofGen n₁ bs u) (c₂ := Cfg.ofGen n₂ bs u) level choose hcap hg rfl rfl
    h₁ f₁ h₂ f₂

/-- The file is the sequential function of input and options. -/
theorem file_is_function {c : Cfg} {cap : Nat} {input : List UInt8} {s : State UInt8 Enc}
    (level : Nat) (choose : List UInt8 → Choice) (hcap : 1 ≤ cap) (hg : 0 < c.inGranul)
    (h : Reach c (realCodec cap hcap) input s) (hf : finished c s = true) :
    assemble level choose (s.written.map blockOut) =
      compressFileGen level cap c.inGranul c.ultra input choose :=
  Props.C01.Roundtrip.assemble_sched level choose hcap hg h hf

end LbzVerif.Props.C03.File
