/-
  Props.C18 — multiple operands are processed independently.

  Model: `LbzVerif.Model.Operands` (the operand loop of `main()`).  `runOne`
  (what one operand does to the outside world, and how it ends) is an
  arbitrary function: the theorems hold for every per-operand behaviour, every
  operand list and every initial world.

  The scheduler-state part (`terminal_restores`: the sticky statics are back
  at their initial values when a run ends) is proved from the scheduler models
  in Props/C18/Restore.lean by another work package; here it appears as the
  hypothesis `TerminalRestores` of `independence`.
-/
import LbzVerif.Model.Operands

namespace LbzVerif.Props.C18

open LbzVerif.Model.Operands

variable {ω σ : Type}

/-! ### The loop is a fold carrying only the world and `warned` -/

theorem foldl_fatal (runOne : ω → σ → σ × Outcome) (ops : List ω) (a : Acc σ) (h : a.fatal = true) :
    ops.foldl (stepAcc runOne) a = a := by
  induction ops with
  | nil => rfl
  | cons op ops ih => simp only [List.foldl_cons, stepAcc, h, if_true]; exact ih

theorem loop_eq_foldl (runOne : ω → σ → σ × Outcome) (ops : List ω) :
    ∀ a : Acc σ, a.fatal = false →
      loop runOne ops a.world a.warned a.completed = (ops.foldl (stepAcc runOne) a).result := by
  induction ops with
  | nil =>
    intro a h
    simp only [loop, List.foldl_nil, Acc.result, h]; rfl
  | cons op ops ih =>
    intro a h
    cases ho : (runOne op a.world).2 with
    | fatal =>
      simp only [loop, List.foldl_cons, stepAcc, h, Bool.false_eq_true, if_false, ho]
      rw [foldl_fatal runOne ops _ rfl]
      simp [Acc.result]
    | ok =>
      simp only [loop, List.foldl_cons, stepAcc, h, Bool.false_eq_true, if_false, ho]
      have := ih { a with world := (runOne op a.world).1, completed := a.completed + 1 } h
      simpa [h] using this
    | warned =>
      simp only [loop, List.foldl_cons, stepAcc, h, Bool.false_eq_true, if_false, ho]
      have := ih { a with world := (runOne op a.world).1, warned := true, completed := a.completed + 1 } h
      simpa [h] using this

/-- `runMany ops w` is the fold of the one-operand step over the operands; the
accumulator holds the world, `warned`, the absorbing `fatal` flag and a
counter — nothing else. -/
theorem runMany_eq_foldl (runOne : ω → σ → σ × Outcome) (ops : List ω) (w : σ) :
    runMany runOne ops w = (ops.foldl (stepAcc runOne) (Acc.start w)).result :=
  loop_eq_foldl runOne ops (Acc.start w) rfl

/-! ### Status algebra -/

theorem loop_statusOf (runOne : ω → σ → σ × Outcome) (ops : List ω) :
    ∀ (w : σ) (warned : Bool) (n : Nat),
      ((loop runOne ops w warned n).status, (loop runOne ops w warned n).completed) =
        statusOf (outcomes runOne ops w) warned n := by
  induction ops with
  | nil => intro w warned n; simp [loop, outcomes, statusOf]
  | cons op ops ih =>
    intro w warned n
    cases ho : (runOne op w).2 with
    | fatal => simp [loop, outcomes, ho, statusOf]
    | ok => simp only [loop, outcomes, ho, statusOf]; exact ih _ warned (n + 1)
    | warned => simp only [loop, outcomes, ho, statusOf]; exact ih _ true (n + 1)

/-- Exit status and number of finished operands are `statusOf` of the outcome
sequence (the function the driver command `status` evaluates). -/
theorem status_of_outcomes (runOne : ω → σ → σ × Outcome) (ops : List ω) (w : σ) :
    ((runMany runOne ops w).status, (runMany runOne ops w).completed) =
      statusOf (outcomes runOne ops w) false 0 :=
  loop_statusOf runOne ops w false 0

theorem statusOf_cases (os : List Outcome) :
    ∀ (warned : Bool) (n : Nat),
      ((statusOf os warned n).1 = exFail ↔ Outcome.fatal ∈ os) ∧
      ((statusOf os warned n).1 = exWarn ↔ Outcome.fatal ∉ os ∧ (warned = true ∨ Outcome.warned ∈ os)) ∧
      ((statusOf os warned n).1 = exOk ↔ warned = false ∧ ∀ o ∈ os, o = Outcome.ok) := by
  induction os with
  | nil => intro warned n; cases warned <;> simp [statusOf, exFail, exWarn, exOk]
  | cons o os ih =>
    intro warned n
    cases o with
    | fatal => simp [statusOf, exFail, exWarn, exOk]
    | ok =>
      obtain ⟨h1, h2, h3⟩ := ih warned (n + 1)
      simp only [statusOf]
      refine ⟨?_, ?_, ?_⟩
      · rw [h1]; simp
      · rw [h2]; simp
      · rw [h3]; simp
    | warned =>
      obtain ⟨h1, h2, h3⟩ := ih true (n + 1)
      simp only [statusOf]
      refine ⟨?_, ?_, ?_⟩
      · rw [h1]; simp
      · rw [h2]; simp
      · rw [h3]; simp

/-- The exit status is 1 iff some operand ended fatally; 4 iff none was fatal
and some operand warned; 0 iff every operand was processed without a warning.
(`outcomes` stops at the first fatal operand.) -/
theorem status_algebra (runOne : ω → σ → σ × Outcome) (ops : List ω) (w : σ) :
    ((runMany runOne ops w).status = exFail ↔ Outcome.fatal ∈ outcomes runOne ops w) ∧
    ((runMany runOne ops w).status = exWarn ↔
      Outcome.fatal ∉ outcomes runOne ops w ∧ Outcome.warned ∈ outcomes runOne ops w) ∧
    ((runMany runOne ops w).status = exOk ↔ ∀ o ∈ outcomes runOne ops w, o = Outcome.ok) := by
  have h := status_of_outcomes runOne ops w
  have hs : (runMany runOne ops w).status = (statusOf (outcomes runOne ops w) false 0).1 := by
    rw [← h]
  obtain ⟨h1, h2, h3⟩ := statusOf_cases (outcomes runOne ops w) false 0
  rw [hs]
  exact ⟨h1, by simpa using h2, by simpa using h3⟩

/-- The status is always one of 0, 4, 1. -/
theorem status_range (runOne : ω → σ → σ × Outcome) (ops : List ω) (w : σ) :
    (runMany runOne ops w).status = exOk ∨ (runMany runOne ops w).status = exWarn ∨
      (runMany runOne ops w).status = exFail := by
  suffices h : ∀ (w : σ) (b : Bool) (n : Nat), (loop runOne ops w b n).status = exOk ∨
      (loop runOne ops w b n).status = exWarn ∨ (loop runOne ops w b n).status = exFail from h w false 0
  induction ops with
  | nil => intro w b n; cases b <;> simp [loop]
  | cons op ops ih =>
    intro w b n
    cases ho : (runOne op w).2 with
    | fatal => simp [loop, ho]
    | ok => simp only [loop, ho]; exact ih _ b (n + 1)
    | warned => simp only [loop, ho]; exact ih _ true (n + 1)

/-! ### Splitting an invocation -/

/-- Effect of the incoming `warned` flag and counter on the loop. -/
theorem loop_shift (runOne : ω → σ → σ × Outcome) (ops : List ω) :
    ∀ (w : σ) (warned : Bool) (n : Nat),
      loop runOne ops w warned n =
        ⟨(loop runOne ops w false 0).world,
         if (loop runOne ops w false 0).status = exOk ∧ warned = true then exWarn
         else (loop runOne ops w false 0).status,
         (loop runOne ops w false 0).completed + n⟩ := by
  induction ops with
  | nil => intro w warned n; cases warned <;> simp [loop, exOk, exWarn]
  | cons op ops ih =>
    intro w warned n
    cases ho : (runOne op w).2 with
    | fatal => simp [loop, ho, exFail, exOk]
    | ok =>
      simp only [loop, ho]
      rw [ih _ warned (n + 1), ih _ false 1]
      simp only [Bool.false_eq_true, and_false, if_false, Result.mk.injEq, true_and]
      omega
    | warned =>
      simp only [loop, ho]
      rw [ih _ true (n + 1), ih _ true 1]
      simp only [and_true, Result.mk.injEq, true_and]
      refine ⟨?_, by omega⟩
      by_cases h0 : (loop runOne ops (runOne op w).1 false 0).status = exOk
      · simp [h0, exOk, exWarn]
      · simp [h0]

theorem loop_append (runOne : ω → σ → σ × Outcome) (xs ys : List ω) :
    ∀ (w : σ) (warned : Bool) (n : Nat),
      loop runOne (xs ++ ys) w warned n =
        if (loop runOne xs w warned n).status = exFail then loop runOne xs w warned n
        else loop runOne ys (loop runOne xs w warned n).world
          (decide ((loop runOne xs w warned n).status = exWarn)) (loop runOne xs w warned n).completed := by
  induction xs with
  | nil => intro w warned n; cases warned <;> simp [loop, exOk, exWarn, exFail]
  | cons op xs ih =>
    intro w warned n
    cases ho : (runOne op w).2 with
    | fatal => simp [loop, ho]
    | ok => simp only [List.cons_append, loop, ho]; exact ih _ warned (n + 1)
    | warned => simp only [List.cons_append, loop, ho]; exact ih _ true (n + 1)

/-- Processing `xs ++ ys` in one invocation = processing `xs`, and — unless that
ended fatally — processing `ys` in a second invocation on the world the first
one left; statuses combine with `combineStatus`.  The second half sees the
first only through the world. -/
theorem runMany_append (runOne : ω → σ → σ × Outcome) (xs ys : List ω) (w : σ) :
    runMany runOne (xs ++ ys) w =
      if (runMany runOne xs w).status = exFail then runMany runOne xs w
      else ⟨(runMany runOne ys (runMany runOne xs w).world).world,
            combineStatus (runMany runOne xs w).status (runMany runOne ys (runMany runOne xs w).world).status,
            (runMany runOne xs w).completed + (runMany runOne ys (runMany runOne xs w).world).completed⟩ := by
  unfold runMany
  rw [loop_append]
  by_cases hf : (loop runOne xs w false 0).status = exFail
  · simp [hf]
  · rw [if_neg hf, if_neg hf, loop_shift]
    have hx := status_range runOne xs w
    have hy := status_range runOne ys (loop runOne xs w false 0).world
    unfold runMany at hx hy
    simp only [Result.mk.injEq, true_and]
    refine ⟨?_, by omega⟩
    generalize (loop runOne xs w false 0).status = a at hf hx
    generalize (loop runOne ys (loop runOne xs w false 0).world false 0).status = b at hy
    simp only [exOk, exWarn, exFail] at hf hx hy ⊢
    rcases hx with rfl | rfl | rfl <;> rcases hy with rfl | rfl | rfl <;> simp [combineStatus, exOk, exWarn, exFail] at hf ⊢

/-- One invocation with all operands = one invocation per operand, in order,
each on the world left by the previous one, stopping at the first fatal one:
same final world, same number of finished operands, and the combined status is
the `combineStatus`-fold of the separate statuses. -/
theorem runMany_singletons (runOne : ω → σ → σ × Outcome) (ops : List ω) (w : σ) :
    runMany runOne ops w = separately runOne ops w := by
  induction ops generalizing w with
  | nil => rfl
  | cons op ops ih =>
    have h := runMany_append runOne [op] ops w
    simp only [List.singleton_append] at h
    rw [h]
    simp only [separately, ih]

/-- A fatal operand stops the invocation: status 1, the operands before it
are complete (world = what they produced, then the fatal operand's own effect,
e.g. its output removed), and nothing after it matters. -/
theorem fatal_stops (runOne : ω → σ → σ × Outcome) (pre post : List ω) (op : ω) (w : σ)
    (hpre : (runMany runOne pre w).status ≠ exFail)
    (hf : (runOne op (runMany runOne pre w).world).2 = Outcome.fatal) :
    runMany runOne (pre ++ op :: post) w =
      ⟨(runOne op (runMany runOne pre w).world).1, exFail, (runMany runOne pre w).completed⟩ := by
  rw [runMany_append, if_neg hpre]
  have : runMany runOne (op :: post) (runMany runOne pre w).world =
      ⟨(runOne op (runMany runOne pre w).world).1, exFail, 0⟩ := by
    simp only [runMany] at hf
    simp only [runMany, loop, hf]
  rw [this]
  simp only [Nat.add_zero, Result.mk.injEq, true_and, and_true]
  have hx := status_range runOne pre w
  generalize (runMany runOne pre w).status = a at hpre hx
  simp only [exOk, exWarn, exFail] at hpre hx ⊢
  rcases hx with rfl | rfl | rfl <;> simp [combineStatus, exFail] at hpre ⊢

/-- When no operand of `pre` is fatal, all of them are counted as finished. -/
theorem completed_all (runOne : ω → σ → σ × Outcome) (ops : List ω) (w : σ)
    (h : (runMany runOne ops w).status ≠ exFail) : (runMany runOne ops w).completed = ops.length := by
  suffices hh : ∀ (ops : List ω) (w : σ) (b : Bool) (n : Nat), (loop runOne ops w b n).status ≠ exFail →
      (loop runOne ops w b n).completed = ops.length + n by
    have := hh ops w false 0 h
    simpa [runMany] using this
  intro ops
  induction ops with
  | nil => intro w b n _; simp [loop]
  | cons op ops ih =>
    intro w b n
    cases ho : (runOne op w).2 with
    | fatal => simp [loop, ho]
    | ok => simp only [loop, ho]; intro h; rw [ih _ b (n + 1) h, List.length_cons]; omega
    | warned => simp only [loop, ho]; intro h; rw [ih _ true (n + 1) h, List.length_cons]; omega

/-! ### Independence from the statics, given `terminal_restores` -/

theorem loopS_eq (body : ω → σ → Statics → (σ × Outcome) × Statics)
    (hread : ReadsOnlySticky body) (hrest : TerminalRestores body) (v0 : Volatile) (ops : List ω) :
    ∀ (w : σ) (st : Statics) (warned : Bool) (n : Nat), st.sticky = Sticky.initial →
      loopS body ops w st warned n =
        loop (fun op w => (body op w ⟨Sticky.initial, v0⟩).1) ops w warned n := by
  induction ops with
  | nil => intro w st warned n _; rfl
  | cons op ops ih =>
    intro w st warned n hst
    have heq : body op w st = body op w ⟨Sticky.initial, v0⟩ := hread op w st ⟨Sticky.initial, v0⟩ hst
    have hr := hrest op w st hst
    cases ho : (body op w st).1.2 with
    | fatal => simp only [loopS, loop, ← heq, ho]
    | ok => simp only [loopS, loop, ← heq, ho]; exact ih _ _ warned (n + 1) (hr (by simp [ho]))
    | warned => simp only [loopS, loop, ← heq, ho]; exact ih _ _ true (n + 1) (hr (by simp [ho]))

/-- If every run reads the surviving statics only through the part nobody
resets (`ReadsOnlySticky`: `work()`, `primary_thread()`/`copy()`, `init_io()`
and `init()` overwrite the rest first) and every non-fatal run puts that part
back (`TerminalRestores`, Props/C18/Restore.lean), then the invocation that
physically threads the statics from operand to operand equals `runMany` of the
per-operand function started from the initial statics: operand k+1 behaves as
if it were the first. -/
theorem independence (body : ω → σ → Statics → (σ × Outcome) × Statics)
    (hread : ReadsOnlySticky body) (hrest : TerminalRestores body)
    (st0 : Statics) (h0 : st0.sticky = Sticky.initial) (ops : List ω) (w : σ) :
    loopS body ops w st0 false 0 =
      runMany (fun op w => (body op w ⟨Sticky.initial, st0.vol⟩).1) ops w :=
  loopS_eq body hread hrest st0.vol ops w st0 false 0 h0

/-! ### Non-vacuity -/

/-- A toy world: the list of file names.  "bad" is a corrupt file (fatal), a
name that exists is replaced by `name.bz2`, a missing one is skipped with a
warning. -/
def toyRun (op : String) (fs : List String) : List String × Outcome :=
  if op = "bad" then (fs, .fatal)
  else if fs.contains op then ((fs.erase op) ++ [op ++ ".bz2"], .ok)
  else (fs, .warned)

example : runMany toyRun ["a", "nope", "b"] ["a", "b", "c"] = ⟨["c", "a.bz2", "b.bz2"], 4, 3⟩ := by decide
example : runMany toyRun ["a", "bad", "b"] ["a", "b"] = ⟨["b", "a.bz2"], 1, 1⟩ := by decide
example : runMany toyRun ["a", "a"] ["a"] = ⟨["a.bz2"], 4, 2⟩ := by decide
example : outcomes toyRun ["a", "bad", "b"] ["a", "b"] = [.ok, .fatal] := by decide
example : separately toyRun ["a", "nope", "b"] ["a", "b", "c"] = ⟨["c", "a.bz2", "b.bz2"], 4, 3⟩ := by
  decide
/-- `fatal_stops` has satisfiable hypotheses. -/
example : (runMany toyRun ["a"] ["a", "b"]).status ≠ exFail ∧
    (toyRun "bad" (runMany toyRun ["a"] ["a", "b"]).world).2 = Outcome.fatal := by decide

/-- A body in the scope of `independence`: it looks at `collect_token` only,
refuses to work without it (in the C code: `can_collect_seq` never fires and
the run hangs), and hands it back. -/
def endVol : Volatile := ⟨2, 2, 65536, 0, true, 2, 2, 0, false, true⟩   -- e.g. what `copy()` leaves

def goodBody (op : String) (fs : List String) (st : Statics) : (List String × Outcome) × Statics :=
  if st.sticky.collectToken then (toyRun op fs, ⟨Sticky.initial, endVol⟩)
  else ((fs, .fatal), ⟨st.sticky, endVol⟩)

example : ReadsOnlySticky goodBody := by
  intro op w st st' h; simp [goodBody, h]
example : TerminalRestores goodBody := by
  intro op w st h _; simp [goodBody, h, Sticky.initial]

/-- `independence` applied: two operands in one invocation of `goodBody`. -/
example :
    loopS goodBody ["a", "nope"] ["a", "b"] ⟨Sticky.initial, endVol⟩ false 0 = ⟨["b", "a.bz2"], 4, 2⟩ := by
  decide

/-- …and one outside it: the token is not handed back.  The second operand of
the same invocation then behaves differently from a first operand — the
hypothesis `TerminalRestores` is what excludes this. -/
def leakyBody (op : String) (fs : List String) (st : Statics) : (List String × Outcome) × Statics :=
  if st.sticky.collectToken then
    (toyRun op fs, { st with sticky := { st.sticky with collectToken := false } })
  else ((fs, .fatal), st)

example :
    let st0 : Statics := ⟨Sticky.initial, ⟨0, 0, 0, 0, false, 0, 0, 0, false, false⟩⟩
    loopS leakyBody ["a", "b"] ["a", "b"] st0 false 0 ≠
      runMany (fun op w => (leakyBody op w st0).1) ["a", "b"] ["a", "b"] := by decide

end LbzVerif.Props.C18
