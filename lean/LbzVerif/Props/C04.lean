/-
  Props.C04 — Block boundaries follow the greedy run-length packing rule
  (and the RLE1 stage of C01).

  Reading guide.
    Spec.rle1 / unRle1 / rleLen / pack   what "right" means (Spec/Rle1.lean)
    Model.collect / collectMany / finish  what encode.c does   (Model/Collect.lean,
                                          tied to the C code by checks/C04.py)
  Every theorem quantifies over ALL inputs, capacities ≥ 1 and ways of cutting
  the input into buffers; none of them is `_partial`.
  Not here (they need the scheduler model of C03): `blocks_nonseq`/`blocks_seq`,
  i.e. that `do_collect`/`do_collect_seq` call `collect` on exactly the
  remainders `xs.drop …`; `collect_pack_single` + `blocksOf_unfold` are the two
  facts that proof needs from this package.
-/
import LbzVerif.Lemmas.CollectSpec

namespace LbzVerif.Props.C04
open LbzVerif.Spec LbzVerif.Model

/-! ## RLE1 (stage 1 of C01) -/

/-- RLE1 round trip: decoding the run-length encoding of any byte string gives
the string back (in particular the decoder never reports a missing count). -/
theorem unrle_rle (xs : List UInt8) : unRle1 (rle1 xs) = some xs :=
  unRle1_rle1 xs

example : rle1 [7, 7, 7, 7, 7, 9, 9, 9, 9] = [7, 7, 7, 7, 1, 9, 9, 9, 9, 0] := by decide
example : unRle1 [7, 7, 7, 7, 1, 9, 9, 9, 9, 0] = some [7, 7, 7, 7, 7, 9, 9, 9, 9] := by decide
example : unRle1 [7, 7, 7, 7] = none := by decide

theorem encAux_replicate (c : UInt8) (j r : Nat) (rest : List UInt8) (h : r + j ≤ maxRun) :
    encAux c r (List.replicate j c ++ rest) = encAux c (r + j) rest := by
  induction j generalizing r with
  | zero => simp
  | succ j ih =>
    have hlt : r < maxRun := by omega
    simp only [List.replicate_succ, List.cons_append, encAux, hlt, and_self, if_true]
    rw [ih (r + 1) (by omega)]
    congr 1; omega

/-- What `rle1` does, stated on runs: a maximal run of `n ≤ 259` copies of `c`
(followed by nothing or by a different byte) is written as `flush c n` — the
copies themselves when `n < 4`, four copies and the count `n - 4` otherwise —
and the rest is encoded independently. -/
theorem rle1_run (c : UInt8) (n : Nat) (rest : List UInt8) (h1 : 1 ≤ n) (h2 : n ≤ 259)
    (hrest : ∀ d ys, rest = d :: ys → d ≠ c) :
    rle1 (List.replicate n c ++ rest) = flush c n ++ rle1 rest := by
  obtain ⟨j, rfl⟩ : ∃ j, n = j + 1 := ⟨n - 1, by omega⟩
  simp only [List.replicate_succ, List.cons_append, rle1]
  rw [encAux_replicate c j 1 rest (by show 1 + j ≤ 259; omega)]
  have : 1 + j = j + 1 := by omega
  rw [this]
  cases rest with
  | nil => simp [encAux]
  | cons d ys =>
    have hd : d ≠ c := hrest d ys rfl
    simp [encAux, hd]

/-- … and a run is cut after 259 copies whatever follows. -/
theorem rle1_maxrun (c : UInt8) (rest : List UInt8) :
    rle1 (List.replicate 259 c ++ rest) = flush c 259 ++ rle1 rest := by
  have h : List.replicate 259 c = c :: List.replicate 258 c := List.replicate_succ
  rw [h]
  show encAux c 1 (List.replicate 258 c ++ rest) = _
  rw [encAux_replicate c 258 1 rest (by decide)]
  exact encAux_max c rest

example : rle1 (List.replicate 259 5 ++ [5, 6]) = [5, 5, 5, 5, 255, 5, 6] := by
  rw [rle1_maxrun]; decide

/-! ## `rleLen` and `pack` -/

/-- Appending one byte makes the encoding longer by 0, 1 or 2 bytes (2 exactly
when the byte is the fourth of a run: it brings its count byte with it). -/
theorem rleLen_snoc (xs : List UInt8) (x : UInt8) :
    rleLen xs ≤ rleLen (xs ++ [x]) ∧ rleLen (xs ++ [x]) ≤ rleLen xs + 2 :=
  rleLen_snoc_bounds xs x

example : rleLen [3, 3, 3] = 3 ∧ rleLen [3, 3, 3, 3] = 5 ∧ rleLen [3, 3, 3, 3, 3] = 5 ∧
    rleLen [3, 3, 3, 3, 3, 4] = 6 := by decide

/-- `rleLen` is monotone along prefixes. -/
theorem rleLen_take_mono (xs : List UInt8) (i j : Nat) (h : i ≤ j) :
    rleLen (xs.take i) ≤ rleLen (xs.take j) :=
  rleLen_take_mono' xs i j h

/-- The prefix chosen by `pack` fits, and (unless it is the whole input) one more
byte does not. -/
theorem pack_maximal (cap : Nat) (xs : List UInt8) :
    pack cap xs ≤ xs.length ∧
    rleLen (xs.take (pack cap xs)) ≤ cap ∧
    (pack cap xs < xs.length → cap < rleLen (xs.take (pack cap xs + 1))) :=
  ⟨pack_le_length cap xs, pack_fits cap xs, pack_next_overflows cap xs⟩

/-- No longer prefix fits either: `pack cap xs` is the largest `k` with
`rleLen (xs.take k) ≤ cap`. -/
theorem pack_largest (cap : Nat) (xs : List UInt8) (j : Nat) (hj : j ≤ xs.length)
    (h : rleLen (xs.take j) ≤ cap) : j ≤ pack cap xs :=
  pack_largest' cap xs j hj h

/-- The fourth byte of a run is left out when only one byte of room remains. -/
example : pack 4 [8, 8, 8, 8, 8, 2] = 3 ∧ pack 5 [8, 8, 8, 8, 8, 2] = 5 ∧
    pack 6 [8, 8, 8, 8, 8, 2] = 6 := by decide

/-- Progress: with room for at least one byte, a non-empty input always yields a
non-empty block (so cutting an input into blocks terminates). -/
theorem pack_pos (cap : Nat) (hcap : 1 ≤ cap) (xs : List UInt8) (hne : xs ≠ []) :
    1 ≤ pack cap xs :=
  pack_pos' cap hcap xs hne

/-- Cutting a chunk (default mode) or the whole input (`--sequential`) into
blocks: the first block is the `pack` prefix, the rest is cut the same way … -/
theorem blocksOf_unfold (cap : Nat) (hcap : 1 ≤ cap) (xs : List UInt8) :
    blocksOf cap xs =
      if xs = [] then []
      else xs.take (pack cap xs) :: blocksOf cap (xs.drop (pack cap xs)) :=
  blocksOf_eq cap hcap xs

/-- … and no byte is lost or reordered. -/
theorem blocksOf_flatten (cap : Nat) (hcap : 1 ≤ cap) (xs : List UInt8) :
    (blocksOf cap xs).flatten = xs :=
  blocksOf_flatten' cap hcap xs.length xs (Nat.le_refl _)

example : blocksOf 5 [1, 1, 1, 1, 1, 1, 2, 2, 2, 2, 3] = [[1, 1, 1, 1, 1, 1], [2, 2, 2, 2], [3]] ∧
    blocksOf 4 [1, 1, 1, 1, 1, 2] = [[1, 1, 1], [1, 1, 2]] := by
  decide

/-! ## `collect` -/

/-- Buffer boundaries are invisible: collecting `a ++ b` in one call is the same —
final state, number of bytes consumed, return value — as collecting `a` and, if
that did not fill the block, `b` in a second call.  (If `a` alone fills the
block, the joint call stops at the same byte.)  `s.Inv` holds for
`encoder_init` and is preserved by `collect` (`collect_preserves_inv`). -/
theorem collect_split (s : CollectState) (hs : s.Inv) (a b : List UInt8) :
    collect s (a ++ b) =
      (let ra := collect s a
       if ra.2.2 then ra
       else
         let rb := collect ra.1 b
         (rb.1, ra.2.1 + rb.2.1, rb.2.2)) :=
  collect_append s hs a b

theorem collect_preserves_inv (s : CollectState) (hs : s.Inv) (buf : List UInt8) :
    (collect s buf).1.Inv :=
  collect_inv s hs buf

theorem init_wellformed (cap : Nat) (h : 1 ≤ cap) : (init cap).Inv := init_inv cap h

/-- Any sequence of buffers (empty ones included) handed over as compress.c does
— stop at the first "full" — behaves like one call on the concatenation. -/
theorem collectMany_flatten (s : CollectState) (hs : s.Inv) (bufs : List (List UInt8)) :
    collectMany s bufs = collect s bufs.flatten :=
  collectMany_eq_collect_flatten bufs s hs

-- the resume path (`finish_run`) is really exercised: a run of seven bytes cut
-- after 1, 3 and 4 bytes, capacity reached inside it
example : (init 9).Inv := init_inv 9 (by decide)
example :
    (collectMany (init 9) [[1], [1, 1], [1], [], [1, 1, 1, 2, 2, 2], [2, 2, 2]]).2
      = (10, true) ∧
    (collect (init 9) [1, 1, 1, 1, 1, 1, 1, 2, 2, 2, 2, 2, 2]).2 = (10, true) := by
  decide

/-- The packing rule.  For every capacity ≥ 1 and every list of buffers, let
`xs` be their concatenation and let the encoder start from `encoder_init`.  Then
  * the number of bytes consumed is `Spec.pack cap xs`, the longest prefix whose
    run-length encoding fits into `cap` bytes;
  * the block handed to the sorter (`finish`) is exactly `Spec.rle1` of the
    bytes consumed, and it is at most `cap` bytes long;
  * `block_crc` is the CRC of the bytes consumed (continued from 0xFFFFFFFF);
  * if `collect` never reported "full", everything was consumed. -/
theorem collect_pack (cap : Nat) (hcap : 1 ≤ cap) (bufs : List (List UInt8)) :
    let xs := bufs.flatten
    let r := collectMany (init cap) bufs
    r.2.1 = pack cap xs ∧
    finish r.1 = rle1 (xs.take r.2.1) ∧
    (finish r.1).length ≤ cap ∧
    r.1.crc = crcFold 0xFFFFFFFF (xs.take r.2.1) ∧
    (r.2.2 = false → r.2.1 = xs.length) := by
  intro xs r
  have hr : r = collectCanon (init cap) xs := by
    show collectMany (init cap) bufs = _
    rw [collectMany_eq_collect_flatten bufs _ (init_inv cap hcap),
      collect_eq_canon _ (init_inv cap hcap)]
  have hrel : Rel cap [] Rle.idle ⟨[], 0, 0⟩ := by
    refine ⟨by simp, by simp, by simp, by simp⟩
  obtain ⟨k, hk, h1, h2, h3, h4⟩ :=
    canon_spec cap xs [] Rle.idle 0xFFFFFFFF ⟨[], 0, 0⟩ hrel (by simp [lenSt])
  have hcons : r.2.1 = k := by
    rw [hr]; simp only [collectCanon, init]; omega
  have hst : ∀ l : List UInt8, l.foldl stepSt ⟨[], 0, 0⟩ = stOf l := fun _ => rfl
  rw [hst] at h1 h3
  rw [hst] at h2
  rw [← rleLen_eq_lenSt] at h1 h2
  rw [← rle1_eq_encSt] at h3
  have hkl : k ≤ xs.length := by omega
  have hfin : finish r.1 = rle1 (xs.take k) := by
    rw [hr]; exact h3
  refine ⟨?_, ?_, ?_, ?_, ?_⟩
  · rw [hcons]; exact (pack_unique cap xs k hkl h1 h2).symm
  · rw [hcons]; exact hfin
  · rw [hfin]; exact h1
  · rw [hcons, hr]; exact h4
  · intro hnf
    rw [hcons]
    have hne : (canon cap [] Rle.idle 0xFFFFFFFF xs).1.rle ≠ Rle.full := by
      rw [hr] at hnf
      simpa [collectCanon, init] using hnf
    have := canon_notfull_left cap xs [] Rle.idle 0xFFFFFFFF hne
    omega

/-- Single-buffer form of `collect_pack` (what `do_collect` does with one
N·100000-byte chunk). -/
theorem collect_pack_single (cap : Nat) (hcap : 1 ≤ cap) (xs : List UInt8) :
    let r := collect (init cap) xs
    r.2.1 = pack cap xs ∧
    finish r.1 = rle1 (xs.take r.2.1) ∧
    (finish r.1).length ≤ cap ∧
    r.1.crc = crcFold 0xFFFFFFFF (xs.take r.2.1) ∧
    (r.2.2 = false → r.2.1 = xs.length) := by
  have h := collect_pack cap hcap [xs]
  simp only [List.flatten_cons, List.flatten_nil, List.append_nil] at h
  have e : collectMany (init cap) [xs] = collect (init cap) xs := by
    rw [collectMany_eq_collect_flatten _ _ (init_inv cap hcap)]; simp
  rw [e] at h
  exact h

-- capacity 6: "aaaaa" + count fills five bytes, one 'b' fits, the second does not
example :
    let r := collectMany (init 6) [[97, 97, 97], [97, 97, 98, 98]]
    r.2 = (6, true) ∧ finish r.1 = [97, 97, 97, 97, 1, 98] ∧ pack 6 [97, 97, 97, 97, 97, 98, 98] = 6 := by
  decide
-- capacity 4: after three 'a' one byte of room is left; the fourth 'a' is refused
example :
    let r := collectMany (init 4) [[97, 97, 97], [97, 97, 98, 98]]
    r.2 = (3, true) ∧ finish r.1 = [97, 97, 97] ∧ r.1.block.length = 3 := by
  decide

end LbzVerif.Props.C04
