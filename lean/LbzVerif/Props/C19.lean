/-
  Props.C19 — `-cdf` passes non-bzip2 data through unchanged.

  Model: `LbzVerif.Model.Copy` (sniff of `work()`, `xread`, the copy pipeline
  of `copy()` as a transition system whose steps are the critical sections and
  the individual read(2)/write(2) calls of the source and sink threads).
  Invariants: `LbzVerif.Lemmas.Copy`.

  Quantifiers: every input, every fragmentation of the reads (`frag`, and the
  `hint` carried by every `srcRead` label), every size of every write (`hint`
  of `snkWrite`), every interleaving of the two threads (`Reach` is the
  reflexive-transitive closure of `step` over arbitrary labels).
-/
import LbzVerif.Lemmas.Copy

namespace LbzVerif.Props.C19

open LbzVerif.Gen LbzVerif.Model.Copy LbzVerif.Lemmas.Copy

/-! ### `xread` and the sniff -/

/-- `xread` delivers exactly the first `vacant` bytes (fewer only at end of
input), leaves the rest unread and reports the shortfall — whatever sizes the
individual `read(2)` calls return. -/
theorem xread_spec (inp : List UInt8) (vacant : Nat) (frag : List Nat) :
    (xread inp vacant frag).got = inp.take vacant ∧
    (xread inp vacant frag).rest = inp.drop vacant ∧
    (xread inp vacant frag).vacant = vacant - inp.length :=
  Lemmas.Copy.xread_spec inp vacant frag

example : (xread [1, 2, 3, 4, 5, 6] 4 [1, 2, 7]).got = [1, 2, 3, 4] ∧
          (xread [1, 2] 4 [1, 1]).vacant = 2 := by decide

/-- Decompression is chosen iff the input has at least four bytes and they are
`B`, `Z`, `h`, `1`…`9`; independent of `-f`, of the output, and of how the
reads were fragmented. -/
theorem sniff_iff (inp : List UInt8) (frag : List Nat) (force stdout : Bool) :
    (∃ k, (sniff inp frag force stdout).1 = .decompress k) ↔
      ∃ b3 rest, inp = 0x42 :: 0x5A :: 0x68 :: b3 :: rest ∧ 0x31 ≤ b3.toNat ∧ b3.toNat ≤ 0x39 := by
  rw [sniff_decision]
  constructor
  · rintro ⟨k, hk⟩
    by_cases hh : hasHeader inp = true
    · match inp, hh with
      | b0 :: b1 :: b2 :: b3 :: rest, hh =>
        simp only [hasHeader, Bool.and_eq_true, beq_iff_eq, Nat.ble_eq] at hh
        obtain ⟨⟨⟨h0, h1⟩, h2⟩, h3, h4⟩ := hh
        refine ⟨b3, rest, ?_, h3, h4⟩
        have e0 : b0 = 0x42 := UInt8.toNat_inj.mp h0
        have e1 : b1 = 0x5A := UInt8.toNat_inj.mp h1
        have e2 : b2 = 0x68 := UInt8.toNat_inj.mp h2
        rw [e0, e1, e2]
    · rw [if_neg hh] at hk
      split at hk <;> cases hk
  · rintro ⟨b3, rest, rfl, h3, h4⟩
    refine ⟨b3.toNat - 0x30, ?_⟩
    have hh : hasHeader (0x42 :: 0x5A :: 0x68 :: b3 :: rest) = true := by
      simp only [hasHeader, Bool.and_eq_true, beq_iff_eq, Nat.ble_eq]
      exact ⟨⟨⟨rfl, rfl⟩, rfl⟩, h3, h4⟩
    rw [if_pos hh]; rfl

example : (sniff [0x42, 0x5A, 0x68, 0x39, 0x17] [1, 1, 1, 1] false false).1 = .decompress 9 ∧
          (sniff [0x42, 0x5A, 0x68, 0x30, 0x17] [] true true).1 = .copy [0x42, 0x5A, 0x68, 0x30] ∧
          (sniff [0x42, 0x5A, 0x68] [2] true true).1 = .copy [0x42, 0x5A, 0x68] ∧
          (sniff [0x42, 0x5A, 0x68, 0x3A] [] true false).1 = .fail := by decide

/-- The complete decision of `work()`: a header gives decompression at the
level of the digit; otherwise the copy (with the ≤ 4 bytes already read as the
partial header) iff `-f` and the output is stdout; otherwise the fatal "not a
valid bzip2 file". -/
theorem sniff_decision (inp : List UInt8) (frag : List Nat) (force stdout : Bool) :
    (sniff inp frag force stdout).1 =
      if hasHeader inp then .decompress (headerLevel inp)
      else if force && stdout then .copy (inp.take 4) else .fail :=
  Lemmas.Copy.sniff_decision inp frag force stdout

/-- Pipe fragmentation cannot change the decision nor what is left to read. -/
theorem sniff_frag_irrelevant (inp : List UInt8) (frag frag' : List Nat) (force stdout : Bool) :
    (sniff inp frag force stdout).1 = (sniff inp frag' force stdout).1 ∧
    (sniff inp frag force stdout).2.1 = inp.drop 4 := by
  refine ⟨by rw [sniff_decision, sniff_decision], ?_⟩
  exact (Lemmas.Copy.xread_spec inp sniffLen frag).2.1

example : (sniff [1, 2, 3, 4, 5] [1, 1, 1, 1] true true).1 = (sniff [1, 2, 3, 4, 5] [3, 9] true true).1 := by
  decide

/-- With a stream header the run is plain decompression: `-f` and the kind of
output play no role, the level is the header digit (1…9) and the decompressor
starts on the bytes after the header. -/
theorem header_case (inp : List UInt8) (frag : List Nat) (force stdout : Bool)
    (h : hasHeader inp = true) :
    (sniff inp frag force stdout).1 = (sniff inp frag false false).1 ∧
    (sniff inp frag force stdout).1 = .decompress (headerLevel inp) ∧
    1 ≤ headerLevel inp ∧ headerLevel inp ≤ 9 ∧
    (sniff inp frag force stdout).2.1 = inp.drop 4 := by
  refine ⟨by rw [sniff_decision, sniff_decision, if_pos h, if_pos h], by rw [sniff_decision, if_pos h],
    ?_, ?_, (sniff_frag_irrelevant inp frag frag force stdout).2⟩
  all_goals
    match inp, h with
    | b0 :: b1 :: b2 :: b3 :: rest, h =>
      simp only [hasHeader, Bool.and_eq_true, beq_iff_eq, Nat.ble_eq] at h
      simp only [headerLevel]; omega

example : hasHeader [0x42, 0x5A, 0x68, 0x35, 1, 2] = true ∧
    headerLevel [0x42, 0x5A, 0x68, 0x35, 1, 2] = 5 := by decide

/-! ### The copy pipeline -/

/-- Everything reachable from the start of `copy()` satisfies the invariant. -/
theorem reach_inv {hdr inp : List UInt8} {s : St} (hr : Reach (init hdr inp) s) :
    Inv (hdr ++ inp) s := by
  induction hr with
  | refl => exact inv_init hdr inp
  | step l _ hs ih => exact inv_step ih hs

/-- Bytes written = input (partial header included), in every state where both
threads are at rest — for every length, every fragmentation of reads and
writes, every interleaving. -/
theorem copy_identity {hdr inp : List UInt8} {s : St}
    (hr : Reach (init hdr inp) s) (ht : terminal s = true) : s.out = hdr ++ inp := by
  obtain ⟨hc, _⟩ := reach_inv hr
  obtain ⟨inp', inS, outS, eof, q, src, snk, out, usr2⟩ := s
  simp only [terminal, Bool.and_eq_true, beq_iff_eq, List.isEmpty_iff] at ht
  obtain ⟨⟨hsrc, hsnk⟩, hq⟩ := ht
  subst hsrc hsnk hq
  have hb := hc.bytes
  have hch := hc.chunk
  simp only [chunkOk] at hch
  simpa [snkBytes, srcBytes, hch] using hb

/-- The same, from the user's point of view: for a non-bzip2 input the sniff
chooses the copy, and header bytes plus copied bytes are the input. -/
theorem copy_identity_whole (inp : List UInt8) (frag : List Nat) (h : hasHeader inp = false) :
    ∃ hdr rest fr, sniff inp frag true true = (.copy hdr, rest, fr) ∧ hdr ++ rest = inp ∧
      ∀ s, Reach (init hdr rest) s → terminal s = true → s.out = inp ∧ s.usr2 = 1 := by
  have hd := sniff_decision inp frag true true
  have hr := (sniff_frag_irrelevant inp frag frag true true).2
  rw [h] at hd
  simp only [Bool.false_eq_true, if_false, Bool.and_self, if_true] at hd
  refine ⟨inp.take 4, inp.drop 4, (sniff inp frag true true).2.2, ?_, List.take_append_drop 4 inp, ?_⟩
  · rw [← hd, ← hr]
  · intro s hs ht
    have := copy_identity hs ht
    rw [List.take_append_drop] at this
    refine ⟨this, ?_⟩
    obtain ⟨hc, hu⟩ := reach_inv hs
    obtain ⟨inp', inS, outS, eof, q, src, snk, out, usr2⟩ := s
    simp only [terminal, Bool.and_eq_true, beq_iff_eq, List.isEmpty_iff] at ht
    obtain ⟨⟨hsrc, hsnk⟩, hq⟩ := ht
    subst hsrc hsnk hq
    have he := hc.eofI
    simpa [UsrOk, outstanding, srcOutst, snkOutst, he] using hu

/-- `n`-step executions. -/
inductive ReachN (s0 : St) : Nat → St → Prop
  | refl : ReachN s0 0 s0
  | step {n : Nat} {s s' : St} (l : Label) : ReachN s0 n s → step s l = some s' → ReachN s0 (n + 1) s'

theorem reachN_reach {s0 s : St} {n : Nat} (h : ReachN s0 n s) : Reach s0 s := by
  induction h with
  | refl => exact .refl
  | step l _ hs ih => exact .step l ih hs

/-- Termination: every step of either thread lowers `Lemmas.Copy.cost`, so an execution
of the copy has at most `cost (init hdr inp)` steps, whatever the schedule
and the read/write sizes. -/
theorem copy_terminates {hdr inp : List UInt8} {s : St} {n : Nat}
    (hr : ReachN (init hdr inp) n s) : n + cost s ≤ cost (init hdr inp) := by
  induction hr with
  | refl => omega
  | step l hprev hs ih =>
    have := cost_step (reach_inv (reachN_reach hprev)) hs
    omega

/-- The bound in closed form. -/
theorem copy_step_bound (hdr inp : List UInt8) : cost (init hdr inp) = 30 * inp.length + 5 := by
  simp [cost, init, srcBytes, snkBytes, srcW, snkW]

/-- No stuck state: a reachable state in which a thread is still busy or a
block is still queued always has an enabled step (no deadlock between the
`in_slots` wait of the source and the queue wait of the sink). -/
theorem copy_progress {hdr inp : List UInt8} {s : St}
    (hr : Reach (init hdr inp) s) (hnt : terminal s = false) : ∃ l s', step s l = some s' :=
  progress (reach_inv hr) hnt

/-- SIGUSR2 is raised exactly once in every complete run. -/
theorem usr2_once {hdr inp : List UInt8} {s : St}
    (hr : Reach (init hdr inp) s) (ht : terminal s = true) : s.usr2 = 1 := by
  obtain ⟨hc, hu⟩ := reach_inv hr
  obtain ⟨inp', inS, outS, eof, q, src, snk, out, usr2⟩ := s
  simp only [terminal, Bool.and_eq_true, beq_iff_eq, List.isEmpty_iff] at ht
  obtain ⟨⟨hsrc, hsnk⟩, hq⟩ := ht
  subst hsrc hsnk hq
  have he := hc.eofI
  simpa [UsrOk, outstanding, srcOutst, snkOutst, he] using hu

/-- … and never a second time, at any point of any execution (a second one
would stay pending while blocked and kill the process at `sti()`). -/
theorem usr2_never_twice {hdr inp : List UInt8} {s : St}
    (hr : Reach (init hdr inp) s) : s.usr2 ≤ 1 := by
  obtain ⟨_, hu⟩ := reach_inv hr
  unfold UsrOk at hu
  rw [hu]; split <;> omega

/-- When the signal has been raised, everything has been written and both
threads are at rest: the main thread, which leaves `halt()` at that moment,
cannot overtake pending output, and no step (hence no second `xraise`) is
possible afterwards. -/
theorem usr2_after_output {hdr inp : List UInt8} {s : St}
    (hr : Reach (init hdr inp) s) (h1 : s.usr2 = 1) :
    terminal s = true ∧ s.out = hdr ++ inp ∧ ∀ l, step s l = none := by
  obtain ⟨hc, hu⟩ := reach_inv hr
  have hterm : terminal s = true := by
    obtain ⟨inp', inS, outS, eof, q, src, snk, out, usr2⟩ := s
    simp only at h1
    unfold UsrOk at hu
    simp only at hu
    by_cases hcond : eof = true ∧ outstanding ⟨inp', inS, outS, eof, q, src, snk, out, usr2⟩ = 0
    · obtain ⟨he, ho⟩ := hcond
      have hsrc : src = .done := hc.eofI.1 he
      simp only [outstanding] at ho
      have hq : q = [] := List.eq_nil_of_length_eq_zero (by omega)
      have hsnk : snk = .idle := by
        cases snk <;> simp only [snkOutst] at ho <;> first | rfl | omega
      subst hsrc hq hsnk
      rfl
    · rw [if_neg hcond] at hu; omega
  refine ⟨hterm, copy_identity hr hterm, ?_⟩
  intro l
  obtain ⟨inp', inS, outS, eof, q, src, snk, out, usr2⟩ := s
  simp only [terminal, Bool.and_eq_true, beq_iff_eq, List.isEmpty_iff] at hterm
  obtain ⟨⟨hsrc, hsnk⟩, hq⟩ := hterm
  subst hsrc hsnk hq
  cases l <;> rfl

/-! ### Non-vacuity: concrete executions -/

/-- A 5-byte input `BZh0\n`: the sniff takes `BZh0`, the pipeline copies `\n`;
one schedule with one-byte reads. -/
example :
    runCopy [0x42, 0x5A, 0x68, 0x30, 0x0A] [1, 1, 2] [(0, 1), (5, 1), (3, 1), (7, 1)] 100 =
      some ([0x42, 0x5A, 0x68, 0x30, 0x0A], 1, true) := by decide

/-- The hypotheses of `copy_identity`/`usr2_once` are satisfiable: a complete
execution from `init [1] [2, 3]` exists (reader first, then writer). -/
example : ∃ s, Reach (init [1] [2, 3]) s ∧ terminal s = true ∧ s.out = [1, 2, 3] ∧ s.usr2 = 1 := by
  have h : (runLabels [.srcTake, .srcRead 1, .srcRead 5, .srcRead 5, .srcDispatch, .srcPush,
      .snkShift, .snkWrite 1, .srcEof, .snkWrite 9, .snkRelease, .snkInc] (init [1] [2, 3])).map
      (fun s => (terminal s, s.out, s.usr2)) = some (true, [1, 2, 3], 1) := by decide
  cases hs : runLabels [.srcTake, .srcRead 1, .srcRead 5, .srcRead 5, .srcDispatch, .srcPush,
      .snkShift, .snkWrite 1, .srcEof, .snkWrite 9, .snkRelease, .snkInc] (init [1] [2, 3]) with
  | none => rw [hs] at h; cases h
  | some s =>
    rw [hs] at h
    simp only [Option.map_some, Option.some.injEq, Prod.mk.injEq] at h
    exact ⟨s, reach_of_labels _ hs, h.1, h.2.1, h.2.2⟩

/-- The interleaving in which `out_slots` wraps below zero is reachable in the
model (it is observed in traces of the real program too): three blocks have
had their `out_slots--` while the sink, which already returned the input slot
of the first one, has not yet executed its `out_slots++`. -/
example : dec32 (dec32 (dec32 copyOutSlots)) = 4294967295 ∧
    inc32 (dec32 (dec32 (dec32 copyOutSlots))) = 0 := by decide

end LbzVerif.Props.C19
