/-
  Props.C12 — no data races between threads (compression scheduler and the
  `-cdf` copy pipeline).

  The annotation (`Model.Race.SchedC`, `Model.Race.Copy`) gives, for every
  atomic section of the models together with the unlocked work leading to it,
  the accesses it performs with the locks held; the discipline says who owns
  each variable / heap object in a state.  The theorems hold for every
  configuration (every worker count `n`, every slot total, both modes), every
  codec behaviour, every input and every reachable state, i.e. every
  interleaving, spurious wake-ups included.

  Not covered here (see DESIGN.md "Partial because"): the C memory model and
  the conformance of the binary to the footprints (ThreadSanitizer campaign of
  checks/C12.py, role check of checks/w14_race.py); the expansion scheduler
  `Model.SchedD` (an instance of `Model.Race.System` still to be written; the
  `Owner.writer` kind is provided for `tail_offs`).
-/
import LbzVerif.Lemmas.Race.Footprint
import LbzVerif.Lemmas.Race.Tie
import LbzVerif.Lemmas.Race.Copy
import LbzVerif.Lemmas.Race.Witness

namespace LbzVerif.Props.C12
open LbzVerif.Model.SchedC LbzVerif.Model.Race

variable {α σ : Type}

/-! ## Compression -/

/-- **owner_unique**: in every reachable state a heap object (input chunk,
    work_blk + encoder, compressed buffer — identified by position key) has at
    most one holder — one queue (`coll_q`, `trans_q`, `reord_q`,
    `unfinished_work`, `output_q`) or one thread — and that holder holds it
    exactly once; so a live object has exactly one owner. -/
theorem owner_unique {c : Cfg} {cd : Codec α σ} {input : List α} {s : State α σ}
    (h : Reach c cd input s) (v : C.CVar) :
    (∀ h₁ h₂, C.holds s v h₁ → C.holds s v h₂ → h₁ = h₂) ∧ (∀ h', C.holdCnt s v h' ≤ 1) ∧
      (C.live s v → ∃ o, C.holds s v o ∧ C.holdCnt s v o = 1 ∧ ∀ o', C.holds s v o' → o' = o) := by
  have inv := C.covInv_reach h
  refine ⟨fun _ _ a b => C.holder_unique inv a b, fun h' => C.holdCnt_one inv v h', ?_⟩
  rintro ⟨o, ho⟩
  refine ⟨o, ho, ?_, fun o' ho' => C.holder_unique inv ho' ho⟩
  have := C.holdCnt_one inv v o
  simp only [C.holds] at ho; omega

/-- non-vacuous: in `wThree` chunk 2 is with the reader, work_blk (0,0) with
    worker 0, work_blk (1,0) with worker 1 -/
example : Reach wCfg wCodec wInput C.wThree ∧ C.holds C.wThree (.inBlk 2) (.thread .reader) ∧
    C.holds C.wThree (.workBlk ⟨0, 0⟩) (.thread (.worker 0)) ∧
    C.holds C.wThree (.workBlk ⟨1, 0⟩) (.thread (.worker 1)) :=
  ⟨C.wThree_reach, by unfold C.holds; decide, by unfold C.holds; decide,
    by unfold C.holds; decide⟩

/-- … and in `wMid` (C11's witness) the compressed buffer of block (0,0) is in
    `output_q` while the work_blk of (2,0) waits in `reord_q` -/
example : Reach wCfg wCodec wInput wMid ∧ C.holds wMid (.outBuf ⟨0, 0⟩) (.queue .output) ∧
    C.holds wMid (.workBlk ⟨2, 0⟩) (.queue .reord) :=
  ⟨wMid_reach, by unfold C.holds; decide, by unfold C.holds; decide⟩

/-- hence the ownership discipline is unambiguous in every reachable state -/
theorem discipline_unique (c : Cfg) (cd : Codec α σ) (input : List α) :
    (C.sys c cd input).AllUnique :=
  fun _ h => C.disc_unique (C.covInv_reach h)

/-- **guarded_under_lock**: every access of every section to a variable with
    a guarding lock is made with that lock held: `work_units`, `out_slots`,
    `eof`, `next_task`, the three priority queues, `order`, `collect_token`,
    `unfinished_work`, `combined_crc` under `sched_mutex`; `in_slots`,
    `request_close` under `source_mutex`; `output_q`, `finish` under
    `sink_mutex`. -/
theorem guarded_under_lock (cd : Codec α σ) {s : State α σ} {x : C.Sec α σ}
    (hp : C.inProg cd s x) {a : C.Acc} (ha : a ∈ C.fp s x) :
    (a.var ∈ [C.CVar.workUnits, .outSlots, .eof, .nextTask, .collQ, .transQ, .reordQ, .order,
        .collectToken, .unfinished, .combinedCrc] → Lock.sched ∈ a.locks) ∧
      (a.var ∈ [C.CVar.inSlots, .requestClose] → Lock.source ∈ a.locks) ∧
      (a.var ∈ [C.CVar.outputQ, .finish] → Lock.sink ∈ a.locks) := by
  have key : ∀ l, C.staticOwner a.var = some (.lock l) → l ∈ a.locks := by
    intro l hl
    obtain ⟨o, ho, hr⟩ := C.fp_protected cd hp a ha
    simp only [C.disc, C.owns, hl] at ho
    subst ho
    exact hr
  refine ⟨fun hv => key _ ?_, fun hv => key _ ?_, fun hv => key _ ?_⟩
  · simp only [List.mem_cons, List.not_mem_nil, or_false] at hv
    rcases hv with h | h | h | h | h | h | h | h | h | h | h <;> rw [h] <;> rfl
  · simp only [List.mem_cons, List.not_mem_nil, or_false] at hv
    rcases hv with h | h <;> rw [h] <;> rfl
  · simp only [List.mem_cons, List.not_mem_nil, or_false] at hv
    rcases hv with h | h <;> rw [h] <;> rfl

/-- non-vacuous: worker 0 returning its input slot in `wTwo` -/
example : C.inProg wCodec C.wTwo (.c1Release 0 C.ib0) ∧
    wr (.worker 0) [.source] C.CVar.inSlots ∈ C.fp C.wTwo (.c1Release 0 C.ib0) :=
  ⟨by simp only [C.inProg]; decide, by decide⟩

/-- **unlocked_phase_private**: an access made with no lock held touches only
    a heap object held by the accessing thread, a variable only that thread
    ever touches (`next_id`, `ispec.total`: reader; `ospec.total`: writer), or
    data that is immutable once the threads run (`bs100k`, `num_worker`,
    `ultra`, granularities, `process`). -/
theorem unlocked_phase_private (cd : Codec α σ) {s : State α σ} {x : C.Sec α σ}
    (hp : C.inProg cd s x) {a : C.Acc} (ha : a ∈ C.fp s x) (hl : a.locks = []) :
    C.owns s a.var (.thread a.thread) ∨ (C.owns s a.var .frozen ∧ a.write = false) := by
  obtain ⟨o, ho, hr⟩ := C.fp_protected cd hp a ha
  cases o with
  | lock l => simp only [Respects, hl, List.not_mem_nil] at hr
  | thread t => simp only [Respects] at hr; subst hr; exact .inl ho
  | frozen => exact .inr ⟨ho, hr⟩
  | writer t l =>
    exfalso
    simp only [C.disc, C.owns] at ho
    cases hs : C.staticOwner a.var with
    | some o' =>
      rw [hs] at ho; subst ho
      cases hv : a.var <;> rw [hv] at hs <;> simp [C.staticOwner] at hs
    | none =>
      rw [hs] at ho
      obtain ⟨h, _, he⟩ := ho
      cases h <;> simp [C.Holder.owner] at he

/-- non-vacuous: the unlocked write of worker 1 to its own chunk in `wTwo` -/
example : C.inProg wCodec C.wTwo (.c1Release 1 C.ib1) ∧
    wr (.worker 1) [] (C.CVar.inBlk 1) ∈ C.fp C.wTwo (.c1Release 1 C.ib1) :=
  ⟨by simp only [C.inProg]; decide, by decide⟩

/-- every access of every section in progress respects the discipline -/
theorem all_protected (c : Cfg) (cd : Codec α σ) (input : List α) :
    (C.sys c cd input).AllProtected :=
  fun _ _ _ hp a ha => C.fp_protected cd hp a ha

/-- **race_free** (main theorem): in every reachable state, any two accesses
    that two sections in progress perform — by different threads, to the same
    variable or heap object, one of them a write — are both made under a common
    lock. -/
theorem race_free (c : Cfg) (cd : Codec α σ) (input : List α) : (C.sys c cd input).RaceFree :=
  System.raceFree_of _ (discipline_unique c cd input) (all_protected c cd input)

/-- the same, spelled out -/
theorem race_free' {c : Cfg} {cd : Codec α σ} {input : List α} {s : State α σ}
    (h : Reach c cd input s) {x y : C.Sec α σ} (hx : C.inProg cd s x) (hy : C.inProg cd s y)
    {a b : C.Acc} (ha : a ∈ C.fp s x) (hb : b ∈ C.fp s y)
    (hc : a.thread ≠ b.thread ∧ a.var = b.var ∧ (a.write = true ∨ b.write = true)) :
    ∃ l, l ∈ a.locks ∧ l ∈ b.locks :=
  race_free c cd input s h x y hx hy a ha b hb hc

/-- well-formedness of the annotation: the accesses listed for a section are
    made by the section's thread (reader / writer / worker `i`) -/
theorem footprint_thread (s : State α σ) (x : C.Sec α σ) : ∀ a ∈ C.fp s x, a.thread = x.thread :=
  C.fp_thread s x

/-- race freedom in terms of sections: two sections of different threads
    that are in progress in the same reachable state touch a common variable,
    one of them writing, only under a common lock -/
theorem race_free_sections {c : Cfg} {cd : Codec α σ} {input : List α} {s : State α σ}
    (h : Reach c cd input s) {x y : C.Sec α σ} (hx : C.inProg cd s x) (hy : C.inProg cd s y)
    (hne : x.thread ≠ y.thread) {a b : C.Acc} (ha : a ∈ C.fp s x) (hb : b ∈ C.fp s y)
    (hv : a.var = b.var) (hw : a.write = true ∨ b.write = true) :
    ∃ l, l ∈ a.locks ∧ l ∈ b.locks := by
  refine race_free' h hx hy ha hb ⟨?_, hv, hw⟩
  rw [footprint_thread s x a ha, footprint_thread s y b hb]
  exact hne

/-- non-vacuous (1): two workers in unlocked phases on different blocks — both
    sections are in progress in the reachable state `wTwo`, both write their
    in_blk without a lock, and the objects differ -/
example : Reach wCfg wCodec wInput C.wTwo ∧
    C.inProg wCodec C.wTwo (.c1Release 0 C.ib0) ∧ C.inProg wCodec C.wTwo (.c1Release 1 C.ib1) ∧
    wr (.worker 0) [] (C.CVar.inBlk 0) ∈ C.fp C.wTwo (.c1Release 0 C.ib0) ∧
    wr (.worker 1) [] (C.CVar.inBlk 1) ∈ C.fp C.wTwo (.c1Release 1 C.ib1) :=
  ⟨C.wTwo_reach, by simp only [C.inProg]; decide, by simp only [C.inProg]; decide, by decide,
    by decide⟩

/-- non-vacuous (2): a genuine conflict that the theorem resolves by a common
    lock — both workers give their input slot back (`in_slots++`) -/
example : conflict (wr (C.Thread.worker 0) [.source] C.CVar.inSlots)
      (wr (C.Thread.worker 1) [.source] C.CVar.inSlots) ∧
    common (wr (C.Thread.worker 0) [.source] C.CVar.inSlots)
      (wr (C.Thread.worker 1) [.source] C.CVar.inSlots) ∧
    wr (.worker 1) [.source] C.CVar.inSlots ∈ C.fp C.wTwo (.c1Release 1 C.ib1) :=
  ⟨⟨by decide, rfl, .inl rfl⟩, ⟨.source, by decide, by decide⟩, by decide⟩

/-- non-vacuous (3): three threads in unlocked phases at once (`wThree`): both
    workers in `encode()`, the reader in `xread` -/
example : Reach wCfg wCodec wInput C.wThree ∧ C.inProg wCodec C.wThree (.c2Enq 0 C.wb0) ∧
    C.inProg wCodec C.wThree (.c2Enq 1 C.wb1) ∧ C.inProg wCodec C.wThree .rDeliver ∧
    wr .reader [] C.CVar.nextId ∈ C.fp C.wThree .rDeliver :=
  ⟨C.wThree_reach, by simp only [C.inProg]; decide, by simp only [C.inProg]; decide,
    by simp only [C.inProg]; decide, by decide⟩

/-- **step_annotated** (tie between model and annotation): every transition
    of `Model.SchedC.step` is the locked part of a section in progress, and
    each shared variable of the model state it changes is written in that
    section's footprint. -/
theorem step_annotated {c : Cfg} {cd : Codec α σ} {s s' : State α σ} {l : Label}
    (h : step c cd s l = some s') : ∃ x, C.inProg cd s x ∧ C.Covers s s' (C.fp s x) :=
  C.step_annotated h

example : (step wCfg wCodec (init wCfg wInput) .rTake).isSome = true := by decide

/-! ## Copy pipeline (`-cdf`) -/

/-- every reachable state of `Model.Copy` carries ghost counters that make it a
    reachable state of the annotated system -/
theorem copy_instrumented {hdr inp : List UInt8} {s : Model.Copy.St}
    (h : Model.Copy.Reach (Model.Copy.init hdr inp) s) :
    ∃ g, Cp.GReach (Cp.ginit hdr inp) g ∧ g.st = s :=
  Cp.greach_of_reach h

/-- **copy_owner_unique**: each I/O buffer is held by the reader, by
    `output_q`, or by the writer — never by two of them -/
theorem copy_owner_unique {hdr inp : List UInt8} {g : Cp.GSt} (h : Cp.GReach (Cp.ginit hdr inp) g)
    {k : Nat} {h₁ h₂ : Cp.Holder} (a : Cp.holds g k h₁) (b : Cp.holds g k h₂) : h₁ = h₂ :=
  Cp.holder_unique (Cp.ginv_reach (Cp.ginv_init hdr inp) h) a b

example : Cp.GReach (Cp.ginit [] [7, 8, 9]) Cp.cpMid ∧ Cp.holds Cp.cpMid 0 .writer :=
  ⟨Cp.cpMid_reach, by simp only [Cp.holds]; decide⟩

/-- **copy_guarded_under_lock**: `out_slots`, `eof` (and `next_task`) under
    `sched_mutex`; `in_slots` under `source_mutex`; `output_q`, `finish` under
    `sink_mutex` -/
theorem copy_guarded_under_lock {hdr inp : List UInt8} {g : Cp.GSt}
    (h : Cp.GReach (Cp.ginit hdr inp) g) {x : Cp.Sec} (hp : Cp.inProg g x) {a : C.Acc}
    (ha : a ∈ Cp.fp g x) {l : Lock} (hl : Cp.staticOwner a.var = some (.lock l)) : l ∈ a.locks := by
  obtain ⟨o, ho, hr⟩ := Cp.fp_protected (Cp.ginv_reach (Cp.ginv_init hdr inp) h) hp a ha
  have : o = .lock l := by
    simp only [Cp.disc] at ho
    cases hv : a.var <;> rw [hv] at ho hl <;> simp only [Cp.owns] at ho <;>
      first
      | exact Option.some.inj (ho.symm.trans hl)
      | (simp [Cp.staticOwner] at hl)
  subst this
  exact hr

example : Cp.staticOwner .outSlots = some (.lock .sched) ∧ Cp.staticOwner .eof = some (.lock .sched) ∧
    Cp.staticOwner .inSlots = some (.lock .source) ∧ Cp.staticOwner .outputQ = some (.lock .sink) ∧
    Cp.inProg Cp.cpMid .srcEof ∧ wr .reader Cp.S C.CVar.eof ∈ Cp.fp Cp.cpMid .srcEof :=
  ⟨rfl, rfl, rfl, rfl, by simp only [Cp.inProg]; decide, by decide⟩

/-- **copy_race_free**: the reader, the writer and the main thread never
    conflict without a common lock; the buffer handed over through `output_q`
    is touched by one thread at a time. -/
theorem copy_race_free (hdr inp : List UInt8) : (Cp.sys hdr inp).RaceFree :=
  System.raceFree_of _
    (fun _ h => Cp.disc_unique (Cp.ginv_reach (Cp.ginv_init hdr inp) h))
    (fun _ h _ hp => Cp.fp_protected (Cp.ginv_reach (Cp.ginv_init hdr inp) h) hp)

/-- non-vacuous: the writer is inside `xwrite` on buffer 0 while the reader
    sets `eof`; and a real conflict (`in_slots`) resolved by `source_mutex` -/
example : Cp.GReach (Cp.ginit [] [7, 8, 9]) Cp.cpMid ∧ Cp.inProg Cp.cpMid .snkWrite ∧
    Cp.inProg Cp.cpMid .srcEof ∧ rd .writer [] (C.CVar.inBlk 0) ∈ Cp.fp Cp.cpMid .snkWrite ∧
    conflict (wr C.Thread.reader [.source] C.CVar.inSlots)
      (wr C.Thread.writer [.source] C.CVar.inSlots) :=
  ⟨Cp.cpMid_reach, ⟨_, (Cp.cpMid_facts).1⟩, by simp only [Cp.inProg]; decide, by decide,
    ⟨by decide, rfl, .inl rfl⟩⟩

end LbzVerif.Props.C12
