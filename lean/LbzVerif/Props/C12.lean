/-
  Props.C12 — no data races between threads (compression scheduler, the
  `-cdf` copy pipeline, and the expansion scheduler).

  The annotation (`Model.Race.SchedC`, `Model.Race.Copy`, `Model.Race.SchedD`) gives, for every
  atomic section of the models together with the unlocked work leading to it,
  the accesses it performs with the locks held; the discipline says who owns
  each variable / heap object in a state.  The theorems hold for every
  configuration (every worker count `n`, every slot total, both modes), every
  codec behaviour, every input and every reachable state, i.e. every
  interleaving, spurious wake-ups included.

  Not covered here (see DESIGN.md "Partial because"): the C memory model and
  the conformance of the binary to the footprints (ThreadSanitizer campaign of
  checks/C12.py, role check of checks/w14_race.py).  For the expansion
  scheduler (section "Expansion scheduler" below) additionally: the identity of
  an output buffer is cut at its hand-over to `output_q` (see
  `expand_owner_unique`).  The tie `expand_step_annotated` (every model
  transition is the locked part of a section in progress AND every shared
  variable it changes is written in that section's footprint) is full since
  Lemmas/Race/SchedDTie.lean.
-/
import LbzVerif.Lemmas.Race.Footprint
import LbzVerif.Lemmas.Race.Tie
import LbzVerif.Lemmas.Race.Copy
import LbzVerif.Lemmas.Race.Witness
import LbzVerif.Lemmas.Race.SchedDProt
import LbzVerif.Lemmas.Race.SchedDRelease
import LbzVerif.Lemmas.Race.SchedDWitness
import LbzVerif.Lemmas.Race.SchedDTie
import LbzVerif.Lemmas.Race.SchedDThread
import LbzVerif.Lemmas.SchedD.InSlots

namespace LbzVerif.Props.C12
open LbzVerif.Model.SchedC LbzVerif.Model.Race

variable {α σ : Type}

/-! ## Compression -/

/-- **owner_unique**: in every reachable state a heap object (input chunk,
    work_blk + encoder, compressed buffer — identified by position key) has at
    most one holder — one queue (`coll_q`, `trans_q`, `reord_q`,
    `unfinished_work`, `output_q`) or one thread — and that holder holds it
    exactly once; so a live object has exactly one owner. -/
theorem owner_unique {c : Cfg} {cd : Codec α σ} {input : List α} {s : State α σ}
    (h : Reach c cd input s) (v : C.CVar) :
    (∀ h₁ h₂, C.holds s v h₁ → C.holds s v h₂ → h₁ = h₂) ∧ (∀ h', C.holdCnt s v h' ≤ 1) ∧
      (C.live s v → ∃ o, C.holds s v o ∧ C.holdCnt s v o = 1 ∧ ∀ o', C.holds s v o' → o' = o) := by
  have inv := C.covInv_reach h
  refine ⟨fun _ _ a b => C.holder_unique inv a b, fun h' => C.holdCnt_one inv v h', ?_⟩
  rintro ⟨o, ho⟩
  refine ⟨o, ho, ?_, fun o' ho' => C.holder_unique inv ho' ho⟩
  have := C.holdCnt_one inv v o
  simp only [C.holds] at ho; omega

/-- non-vacuous: in `wThree` chunk 2 is with the reader, work_blk (0,0) with
    worker 0, work_blk (1,0) with worker 1 -/
example : Reach wCfg wCodec wInput C.wThree ∧ C.holds C.wThree (.inBlk 2) (.thread .reader) ∧
    C.holds C.wThree (.workBlk ⟨0, 0⟩) (.thread (.worker 0)) ∧
    C.holds C.wThree (.workBlk ⟨1, 0⟩) (.thread (.worker 1)) :=
  ⟨C.wThree_reach, by unfold C.holds; decide, by unfold C.holds; decide,
    by unfold C.holds; decide⟩

/-- … and in `wMid` (C11's witness) the compressed buffer of block (0,0) is in
    `output_q` while the work_blk of (2,0) waits in `reord_q` -/
example : Reach wCfg wCodec wInput wMid ∧ C.holds wMid (.outBuf ⟨0, 0⟩) (.queue .output) ∧
    C.holds wMid (.workBlk ⟨2, 0⟩) (.queue .reord) :=
  ⟨wMid_reach, by unfold C.holds; decide, by unfold C.holds; decide⟩

/-- hence the ownership discipline is unambiguous in every reachable state -/
theorem discipline_unique (c : Cfg) (cd : Codec α σ) (input : List α) :
    (C.sys c cd input).AllUnique :=
  fun _ h => C.disc_unique (C.covInv_reach h)

/-- **guarded_under_lock**: every access of every section to a variable with
    a guarding lock is made with that lock held: `work_units`, `out_slots`,
    `eof`, `next_task`, the three priority queues, `order`, `collect_token`,
    `unfinished_work`, `combined_crc` under `sched_mutex`; `in_slots`,
    `request_close` under `source_mutex`; `output_q`, `finish` under
    `sink_mutex`. -/
theorem guarded_under_lock (cd : Codec α σ) {s : State α σ} {x : C.Sec α σ}
    (hp : C.inProg cd s x) {a : C.Acc} (ha : a ∈ C.fp s x) :
    (a.var ∈ [C.CVar.workUnits, .outSlots, .eof, .nextTask, .collQ, .transQ, .reordQ, .order,
        .collectToken, .unfinished, .combinedCrc] → Lock.sched ∈ a.locks) ∧
      (a.var ∈ [C.CVar.inSlots, .requestClose] → Lock.source ∈ a.locks) ∧
      (a.var ∈ [C.CVar.outputQ, .finish] → Lock.sink ∈ a.locks) := by
  have key : ∀ l, C.staticOwner a.var = some (.lock l) → l ∈ a.locks := by
    intro l hl
    obtain ⟨o, ho, hr⟩ := C.fp_protected cd hp a ha
    simp only [C.disc, C.owns, hl] at ho
    subst ho
    exact hr
  refine ⟨fun hv => key _ ?_, fun hv => key _ ?_, fun hv => key _ ?_⟩
  · simp only [List.mem_cons, List.not_mem_nil, or_false] at hv
    rcases hv with h | h | h | h | h | h | h | h | h | h | h <;> rw [h] <;> rfl
  · simp only [List.mem_cons, List.not_mem_nil, or_false] at hv
    rcases hv with h | h <;> rw [h] <;> rfl
  · simp only [List.mem_cons, List.not_mem_nil, or_false] at hv
    rcases hv with h | h <;> rw [h] <;> rfl

/-- non-vacuous: worker 0 returning its input slot in `wTwo` -/
example : C.inProg wCodec C.wTwo (.c1Release 0 C.ib0) ∧
    wr (.worker 0) [.source] C.CVar.inSlots ∈ C.fp C.wTwo (.c1Release 0 C.ib0) :=
  ⟨by simp only [C.inProg]; decide, by decide⟩

/-- **unlocked_phase_private**: an access made with no lock held touches only
    a heap object held by the accessing thread, a variable only that thread
    ever touches (`next_id`, `ispec.total`: reader; `ospec.total`: writer), or
    data that is immutable once the threads run (`bs100k`, `num_worker`,
    `ultra`, granularities, `process`). -/
theorem unlocked_phase_private (cd : Codec α σ) {s : State α σ} {x : C.Sec α σ}
    (hp : C.inProg cd s x) {a : C.Acc} (ha : a ∈ C.fp s x) (hl : a.locks = []) :
    C.owns s a.var (.thread a.thread) ∨ (C.owns s a.var .frozen ∧ a.write = false) := by
  obtain ⟨o, ho, hr⟩ := C.fp_protected cd hp a ha
  cases o with
  | lock l => simp only [Respects, hl, List.not_mem_nil] at hr
  | thread t => simp only [Respects] at hr; subst hr; exact .inl ho
  | frozen => exact .inr ⟨ho, hr⟩
  | writer t l =>
    exfalso
    simp only [C.disc, C.owns] at ho
    cases hs : C.staticOwner a.var with
    | some o' =>
      rw [hs] at ho; subst ho
      cases hv : a.var <;> rw [hv] at hs <;> simp [C.staticOwner] at hs
    | none =>
      rw [hs] at ho
      obtain ⟨h, _, he⟩ := ho
      cases h <;> simp [C.Holder.owner] at he

/-- non-vacuous: the unlocked write of worker 1 to its own chunk in `wTwo` -/
example : C.inProg wCodec C.wTwo (.c1Release 1 C.ib1) ∧
    wr (.worker 1) [] (C.CVar.inBlk 1) ∈ C.fp C.wTwo (.c1Release 1 C.ib1) :=
  ⟨by simp only [C.inProg]; decide, by decide⟩

/-- every access of every section in progress respects the discipline -/
theorem all_protected (c : Cfg) (cd : Codec α σ) (input : List α) :
    (C.sys c cd input).AllProtected :=
  fun _ _ _ hp a ha => C.fp_protected cd hp a ha

/-- **race_free** (main theorem): in every reachable state, any two accesses
    that two sections in progress perform — by different threads, to the same
    variable or heap object, one of them a write — are both made under a common
    lock. -/
theorem race_free (c : Cfg) (cd : Codec α σ) (input : List α) : (C.sys c cd input).RaceFree :=
  System.raceFree_of _ (discipline_unique c cd input) (all_protected c cd input)

/-- the same, spelled out -/
theorem race_free' {c : Cfg} {cd : Codec α σ} {input : List α} {s : State α σ}
    (h : Reach c cd input s) {x y : C.Sec α σ} (hx : C.inProg cd s x) (hy : C.inProg cd s y)
    {a b : C.Acc} (ha : a ∈ C.fp s x) (hb : b ∈ C.fp s y)
    (hc : a.thread ≠ b.thread ∧ a.var = b.var ∧ (a.write = true ∨ b.write = true)) :
    ∃ l, l ∈ a.locks ∧ l ∈ b.locks :=
  race_free c cd input s h x y hx hy a ha b hb hc

/-- well-formedness of the annotation: the accesses listed for a section are
    made by the section's thread (reader / writer / worker `i`) -/
theorem footprint_thread (s : State α σ) (x : C.Sec α σ) : ∀ a ∈ C.fp s x, a.thread = x.thread :=
  C.fp_thread s x

/-- race freedom in terms of sections: two sections of different threads
    that are in progress in the same reachable state touch a common variable,
    one of them writing, only under a common lock -/
theorem race_free_sections {c : Cfg} {cd : Codec α σ} {input : List α} {s : State α σ}
    (h : Reach c cd input s) {x y : C.Sec α σ} (hx : C.inProg cd s x) (hy : C.inProg cd s y)
    (hne : x.thread ≠ y.thread) {a b : C.Acc} (ha : a ∈ C.fp s x) (hb : b ∈ C.fp s y)
    (hv : a.var = b.var) (hw : a.write = true ∨ b.write = true) :
    ∃ l, l ∈ a.locks ∧ l ∈ b.locks := by
  refine race_free' h hx hy ha hb ⟨?_, hv, hw⟩
  rw [footprint_thread s x a ha, footprint_thread s y b hb]
  exact hne

/-- non-vacuous (1): two workers in unlocked phases on different blocks — both
    sections are in progress in the reachable state `wTwo`, both write their
    in_blk without a lock, and the objects differ -/
example : Reach wCfg wCodec wInput C.wTwo ∧
    C.inProg wCodec C.wTwo (.c1Release 0 C.ib0) ∧ C.inProg wCodec C.wTwo (.c1Release 1 C.ib1) ∧
    wr (.worker 0) [] (C.CVar.inBlk 0) ∈ C.fp C.wTwo (.c1Release 0 C.ib0) ∧
    wr (.worker 1) [] (C.CVar.inBlk 1) ∈ C.fp C.wTwo (.c1Release 1 C.ib1) :=
  ⟨C.wTwo_reach, by simp only [C.inProg]; decide, by simp only [C.inProg]; decide, by decide,
    by decide⟩

/-- non-vacuous (2): a genuine conflict that the theorem resolves by a common
    lock — both workers give their input slot back (`in_slots++`) -/
example : conflict (wr (C.Thread.worker 0) [.source] C.CVar.inSlots)
      (wr (C.Thread.worker 1) [.source] C.CVar.inSlots) ∧
    common (wr (C.Thread.worker 0) [.source] C.CVar.inSlots)
      (wr (C.Thread.worker 1) [.source] C.CVar.inSlots) ∧
    wr (.worker 1) [.source] C.CVar.inSlots ∈ C.fp C.wTwo (.c1Release 1 C.ib1) :=
  ⟨⟨by decide, rfl, .inl rfl⟩, ⟨.source, by decide, by decide⟩, by decide⟩

/-- non-vacuous (3): three threads in unlocked phases at once (`wThree`): both
    workers in `encode()`, the reader in `xread` -/
example : Reach wCfg wCodec wInput C.wThree ∧ C.inProg wCodec C.wThree (.c2Enq 0 C.wb0) ∧
    C.inProg wCodec C.wThree (.c2Enq 1 C.wb1) ∧ C.inProg wCodec C.wThree .rDeliver ∧
    wr .reader [] C.CVar.nextId ∈ C.fp C.wThree .rDeliver :=
  ⟨C.wThree_reach, by simp only [C.inProg]; decide, by simp only [C.inProg]; decide,
    by simp only [C.inProg]; decide, by decide⟩

/-- **step_annotated** (tie between model and annotation): every transition
    of `Model.SchedC.step` is the locked part of a section in progress, and
    each shared variable of the model state it changes is written in that
    section's footprint. -/
theorem step_annotated {c : Cfg} {cd : Codec α σ} {s s' : State α σ} {l : Label}
    (h : step c cd s l = some s') : ∃ x, C.inProg cd s x ∧ C.Covers s s' (C.fp s x) :=
  C.step_annotated h

example : (step wCfg wCodec (init wCfg wInput) .rTake).isSome = true := by decide

/-! ## Copy pipeline (`-cdf`) -/

/-- every reachable state of `Model.Copy` carries ghost counters that make it a
    reachable state of the annotated system -/
theorem copy_instrumented {hdr inp : List UInt8} {s : Model.Copy.St}
    (h : Model.Copy.Reach (Model.Copy.init hdr inp) s) :
    ∃ g, Cp.GReach (Cp.ginit hdr inp) g ∧ g.st = s :=
  Cp.greach_of_reach h

/-- **copy_owner_unique**: each I/O buffer is held by the reader, by
    `output_q`, or by the writer — never by two of them -/
theorem copy_owner_unique {hdr inp : List UInt8} {g : Cp.GSt} (h : Cp.GReach (Cp.ginit hdr inp) g)
    {k : Nat} {h₁ h₂ : Cp.Holder} (a : Cp.holds g k h₁) (b : Cp.holds g k h₂) : h₁ = h₂ :=
  Cp.holder_unique (Cp.ginv_reach (Cp.ginv_init hdr inp) h) a b

example : Cp.GReach (Cp.ginit [] [7, 8, 9]) Cp.cpMid ∧ Cp.holds Cp.cpMid 0 .writer :=
  ⟨Cp.cpMid_reach, by simp only [Cp.holds]; decide⟩

/-- **copy_guarded_under_lock**: `out_slots`, `eof` (and `next_task`) under
    `sched_mutex`; `in_slots` under `source_mutex`; `output_q`, `finish` under
    `sink_mutex` -/
theorem copy_guarded_under_lock {hdr inp : List UInt8} {g : Cp.GSt}
    (h : Cp.GReach (Cp.ginit hdr inp) g) {x : Cp.Sec} (hp : Cp.inProg g x) {a : C.Acc}
    (ha : a ∈ Cp.fp g x) {l : Lock} (hl : Cp.staticOwner a.var = some (.lock l)) : l ∈ a.locks := by
  obtain ⟨o, ho, hr⟩ := Cp.fp_protected (Cp.ginv_reach (Cp.ginv_init hdr inp) h) hp a ha
  have : o = .lock l := by
    simp only [Cp.disc] at ho
    cases hv : a.var <;> rw [hv] at ho hl <;> simp only [Cp.owns] at ho <;>
      first
      | exact Option.some.inj (ho.symm.trans hl)
      | (simp [Cp.staticOwner] at hl)
  subst this
  exact hr

example : Cp.staticOwner .outSlots = some (.lock .sched) ∧ Cp.staticOwner .eof = some (.lock .sched) ∧
    Cp.staticOwner .inSlots = some (.lock .source) ∧ Cp.staticOwner .outputQ = some (.lock .sink) ∧
    Cp.inProg Cp.cpMid .srcEof ∧ wr .reader Cp.S C.CVar.eof ∈ Cp.fp Cp.cpMid .srcEof :=
  ⟨rfl, rfl, rfl, rfl, by simp only [Cp.inProg]; decide, by decide⟩

/-- **copy_race_free**: the reader, the writer and the main thread never
    conflict without a common lock; the buffer handed over through `output_q`
    is touched by one thread at a time. -/
theorem copy_race_free (hdr inp : List UInt8) : (Cp.sys hdr inp).RaceFree :=
  System.raceFree_of _
    (fun _ h => Cp.disc_unique (Cp.ginv_reach (Cp.ginv_init hdr inp) h))
    (fun _ h _ hp => Cp.fp_protected (Cp.ginv_reach (Cp.ginv_init hdr inp) h) hp)

/-- non-vacuous: the writer is inside `xwrite` on buffer 0 while the reader
    sets `eof`; and a real conflict (`in_slots`) resolved by `source_mutex` -/
example : Cp.GReach (Cp.ginit [] [7, 8, 9]) Cp.cpMid ∧ Cp.inProg Cp.cpMid .snkWrite ∧
    Cp.inProg Cp.cpMid .srcEof ∧ rd .writer [] (C.CVar.inBlk 0) ∈ Cp.fp Cp.cpMid .snkWrite ∧
    conflict (wr C.Thread.reader [.source] C.CVar.inSlots)
      (wr C.Thread.writer [.source] C.CVar.inSlots) :=
  ⟨Cp.cpMid_reach, ⟨_, (Cp.cpMid_facts).1⟩, by simp only [Cp.inProg]; decide, by decide,
    ⟨by decide, rfl, .inl rfl⟩⟩

/-! ## Expansion scheduler (`Model.SchedD`, src/expand.c)

  For every worker count `n ≥ 1`, every slot totals and input granularity
  `W ≥ 1`, every candidate set and every parse / retrieve functions (all of it
  is the `Cfg`), and every reachable state in which `failf` has not been called
  (`failf` exits the process; the model stops there). -/

/-- **expand_threads_distinct** (well-formedness of the thread naming): no two
    workers are in the same unlocked phase, so `Thread.busy ph` names one
    thread. -/
theorem expand_threads_distinct {c : Model.SchedD.Cfg} (hW : 0 < c.W) (hn : 1 ≤ c.n)
    {s : Model.SchedD.State} (h : Model.SchedD.Reach c s) (hf : s.failed = false) :
    s.busy.Nodup :=
  D.busy_nodup (D.facts_reach hW hn h hf)

/-- **expand_owner_unique**: in every reachable state a heap object — retr_blk
    + decoder, emit_blk, out_blk (up to its hand-over to the sink), in_blk, scan
    descriptor, keyed by position — has at most one holder: one of the queues
    `retr_q`, `emit_q`, `reord_q`, `input_q`, `scan_q`, or one thread; and every
    variable / heap object (the read-shared input buffer included, whose owner
    is a function of the reference holders) has at most one owner.
    PARTIAL in one respect, stated here because the name is fixed: an out_blk is
    `outBlk b i` until `sink_write_buffer` and `sinkBuf m` afterwards; that no
    emit job / `reord_q` entry carries the key of a buffer already handed over
    (one producer per block position EVER, not only at a time) is not proved.
    Duplicate keys inside `reord_q` are not excluded either (both copies would
    be monitor-owned). -/
theorem expand_owner_unique {c : Model.SchedD.Cfg} (hW : 0 < c.W) (hn : 1 ≤ c.n)
    {s : Model.SchedD.State} (h : Model.SchedD.Reach c s) (hf : s.failed = false) (v : D.DVar) :
    (∀ h₁ h₂, D.holds c s v h₁ → D.holds c s v h₂ → h₁ = h₂) ∧
      (∀ o₁ o₂, D.owns c s v o₁ → D.owns c s v o₂ → o₁ = o₂) :=
  let F := D.facts_reach hW hn h hf
  ⟨fun _ _ a b => D.holder_unique F a b, fun _ _ a b => D.disc_unique F v _ _ a b⟩

/-- non-vacuous: in `wD` the retr_blk of block 1 is with the retriever thread,
    the scan descriptor of input block 1 with the scanner thread, and input
    block 2 (pushed, nobody attached) is monitor-held -/
example : Model.SchedD.Reach Lemmas.SchedD.cfgF4 D.wD ∧
    D.holds Lemmas.SchedD.cfgF4 D.wD (.retrBlk 1) (.thread (.busy (.retr D.wJob (some 1)))) ∧
    D.holds Lemmas.SchedD.cfgF4 D.wD (.scanD 1) (.thread (.busy (.scan 2 1))) ∧
    D.holds Lemmas.SchedD.cfgF4 D.wD (.inBlk 2) (.queue .input) := by
  refine ⟨D.wD_reach, ?_, ?_, ?_⟩
  · simp only [D.holds, D.wD_facts.2.1]; decide
  · simp only [D.holds, D.wD_facts.2.1]; decide
  · simp only [D.holds, D.alive, D.wD_facts.2.2.1, D.wD_facts.2.2.2.1]; decide

/-- hence the ownership discipline is unambiguous in every reachable state -/
theorem expand_discipline_unique (c : Model.SchedD.Cfg) (hW : 0 < c.W) (hn : 1 ≤ c.n) :
    (D.sys c).AllUnique :=
  fun _ h => D.disc_unique (D.facts_reach hW hn h.1 h.2)

/-- every access of every section in progress respects the discipline -/
theorem expand_all_protected (c : Model.SchedD.Cfg) (hW : 0 < c.W) : (D.sys c).AllProtected :=
  fun _ h _ hp a ha => D.fp_protected (D.pfacts_reach hW h.1) hp a ha

/-- **expand_guarded_under_lock**: every access of every section in progress
    to a guarded variable is made with its lock held: `work_units`, `out_slots`,
    `eof`, `next_task`, `eof_missing`, `input_q`, `head_offs`, the four priority
    queues, `order_q`, `unord_q`, `parse_token`, `parsing_done`, `reord_offs`,
    `parser_bs` and every `unord_blk` under `sched_mutex`; `in_slots`,
    `request_close` under `source_mutex`; `output_q`, `finish` under
    `sink_mutex`; `tail_offs` is written only by the reader and under
    `sched_mutex`, and read either under `sched_mutex` or by the reader
    (expand.c:895-897). -/
theorem expand_guarded_under_lock {c : Model.SchedD.Cfg} (hW : 0 < c.W)
    {s : Model.SchedD.State} (h : Model.SchedD.Reach c s) {x : D.Sec} (hp : D.inProg c s x)
    {a : D.Acc} (ha : a ∈ D.fp c s x) :
    (a.var ∈ [D.DVar.workUnits, .outSlots, .eof, .nextTask, .eofMissing, .inputQ, .headOffs,
        .retrQ, .emitQ, .reordQ, .orderQ, .unordQ, .parseToken, .parsingDone, .scanQ, .reordOffs,
        .parserBs] → Lock.sched ∈ a.locks) ∧
      (∀ b, a.var = .unordBlk b → Lock.sched ∈ a.locks) ∧
      (a.var ∈ [D.DVar.inSlots, .requestClose] → Lock.source ∈ a.locks) ∧
      (a.var ∈ [D.DVar.outputQ, .finish] → Lock.sink ∈ a.locks) ∧
      (a.var = .tailOffs →
        (a.write = true → a.thread = .reader ∧ Lock.sched ∈ a.locks) ∧
        (a.write = false → a.thread = .reader ∨ Lock.sched ∈ a.locks)) := by
  have key : ∀ o, D.staticOwner a.var = some o → Respects a o := by
    intro o hl
    obtain ⟨o', ho, hr⟩ := D.fp_protected (D.pfacts_reach hW h) hp a ha
    simp only [D.disc, D.owns, hl] at ho
    subst ho
    exact hr
  refine ⟨fun hv => key (.lock .sched) ?_, fun b hv => key (.lock .sched) ?_,
    fun hv => key (.lock .source) ?_, fun hv => key (.lock .sink) ?_,
    fun hv => key (.writer .reader .sched) ?_⟩
  · simp only [List.mem_cons, List.not_mem_nil, or_false] at hv
    rcases hv with h | h | h | h | h | h | h | h | h | h | h | h | h | h | h | h | h <;>
      rw [h] <;> rfl
  · rw [hv]; rfl
  · simp only [List.mem_cons, List.not_mem_nil, or_false] at hv
    rcases hv with h | h <;> rw [h] <;> rfl
  · simp only [List.mem_cons, List.not_mem_nil, or_false] at hv
    rcases hv with h | h <;> rw [h] <;> rfl
  · rw [hv]; rfl

/-- non-vacuous: the retriever of `wD` returning an input slot
    (`source_release_buffer` inside the scheduler monitor) -/
example : D.inProg Lemmas.SchedD.cfgF4 D.wD (.retrEnd D.wJob (some 1)) ∧
    wr (.busy (.retr D.wJob (some 1))) D.SS D.DVar.inSlots ∈
      D.fp Lemmas.SchedD.cfgF4 D.wD (.retrEnd D.wJob (some 1)) := by
  refine ⟨?_, ?_⟩
  · simp only [D.inProg, D.wD_facts.2.1]; decide
  · simp [D.fp, D.releaseFp]

/-- **expand_unlocked_phase_private**: an access made with no lock held
    touches only: a heap object held by the accessing thread (own retr_blk +
    decoder, emit_blk, out_blk, the reader's fresh in_blk / buffer / scan
    descriptor, the writer's buffer) or a variable only that thread touches
    (`par`: the parser; `ispec.total`: reader; `ospec.total`: writer); data
    that nobody writes in this state — configuration, or an input buffer on
    which two or more threads hold a reference — and then it is a read; or (a
    read of) something only the accessing thread may write: `tail_offs` by the
    reader, an input buffer by the only thread holding a reference on it. -/
theorem expand_unlocked_phase_private {c : Model.SchedD.Cfg} (hW : 0 < c.W)
    {s : Model.SchedD.State} (h : Model.SchedD.Reach c s) {x : D.Sec} (hp : D.inProg c s x)
    {a : D.Acc} (ha : a ∈ D.fp c s x) (hl : a.locks = []) :
    D.owns c s a.var (.thread a.thread) ∨ (D.owns c s a.var .frozen ∧ a.write = false) ∨
      (∃ l, D.owns c s a.var (.writer a.thread l) ∧ a.write = false) := by
  obtain ⟨o, ho, hr⟩ := D.fp_protected (D.pfacts_reach hW h) hp a ha
  cases o with
  | lock l => simp only [Respects, hl, List.not_mem_nil] at hr
  | thread t => simp only [Respects] at hr; subst hr; exact .inl ho
  | frozen => exact .inr (.inl ⟨ho, hr⟩)
  | writer t l =>
    obtain ⟨h1, h2⟩ := hr
    cases hw : a.write with
    | true => have := (h1 hw).2; simp [hl] at this
    | false =>
      rcases h2 hw with e | e
      · subst e; exact .inr (.inr ⟨l, ho, rfl⟩)
      · simp [hl] at e

/-- non-vacuous: in `wD` the retriever and the scanner both read the buffer
    of input block 1 without a lock; its `ref_count` is 3 and its owner is
    `frozen` -/
example : D.inProg Lemmas.SchedD.cfgF4 D.wD (.retrEnd D.wJob (some 1)) ∧
    D.inProg Lemmas.SchedD.cfgF4 D.wD (.scanEnd 2 1) ∧
    rd (.busy (.retr D.wJob (some 1))) [] (D.DVar.inBuf 1) ∈
      D.fp Lemmas.SchedD.cfgF4 D.wD (.retrEnd D.wJob (some 1)) ∧
    rd (.busy (.scan 2 1)) [] (D.DVar.inBuf 1) ∈ D.fp Lemmas.SchedD.cfgF4 D.wD (.scanEnd 2 1) ∧
    D.refCount D.wD 1 = 3 ∧ D.inBufOwner D.wD 1 = some .frozen := by
  have hb := D.wD_facts.2.1
  have hh := D.wD_facts.2.2.1
  have hr := D.wD_facts.2.2.2.1
  have hpp := D.wD_facts.2.2.2.2
  refine ⟨?_, ?_, ?_, ?_, ?_, ?_⟩
  · simp only [D.inProg, hb]; decide
  · simp only [D.inProg, hb]; decide
  · simp [D.fp, D.bufRead]
  · simp [D.fp, D.bufRead]
  · simp only [D.refCount, D.attThreads, hb, hh, hr, hpp]; decide
  · have hrph : D.wD.rph ≠ .hold := by decide +kernel
    simp only [D.inBufOwner, D.alive, D.attThreads, Model.SchedD.attachedTo, hb, hh, hr, hpp]
    simp [hrph, Model.SchedD.Phase.block]

/-- **expand_race_free** (main theorem, expansion): in every reachable state,
    any two accesses that two sections in progress perform — by different
    threads, to the same variable or heap object, one of them a write — are
    both made under a common lock. -/
theorem expand_race_free (c : Model.SchedD.Cfg) (hW : 0 < c.W) (hn : 1 ≤ c.n) :
    (D.sys c).RaceFree :=
  System.raceFree_of _ (expand_discipline_unique c hW hn) (expand_all_protected c hW)

/-- the same, spelled out -/
theorem expand_race_free' {c : Model.SchedD.Cfg} (hW : 0 < c.W) (hn : 1 ≤ c.n)
    {s : Model.SchedD.State} (h : Model.SchedD.Reach c s) (hf : s.failed = false) {x y : D.Sec}
    (hx : D.inProg c s x) (hy : D.inProg c s y) {a b : D.Acc} (ha : a ∈ D.fp c s x)
    (hb : b ∈ D.fp c s y)
    (hc : a.thread ≠ b.thread ∧ a.var = b.var ∧ (a.write = true ∨ b.write = true)) :
    ∃ l, l ∈ a.locks ∧ l ∈ b.locks :=
  expand_race_free c hW hn s ⟨h, hf⟩ x y hx hy a ha b hb hc

/-- non-vacuous: a genuine conflict that the theorem resolves by a common
    lock — retriever and scanner of `wD` both drop their reference on input
    block 1 (`--blk->ref_count`, under `sched_mutex`) -/
example : conflict (wr (D.Thread.busy (.retr D.wJob (some 1))) D.S (D.DVar.inBlk 1))
      (wr (D.Thread.busy (.scan 2 1)) D.S (D.DVar.inBlk 1)) ∧
    wr (.busy (.retr D.wJob (some 1))) D.S (D.DVar.inBlk 1) ∈
      D.fp Lemmas.SchedD.cfgF4 D.wD (.retrEnd D.wJob (some 1)) ∧
    wr (.busy (.scan 2 1)) D.S (D.DVar.inBlk 1) ∈ D.fp Lemmas.SchedD.cfgF4 D.wD (.scanEnd 2 1) :=
  ⟨⟨by decide, rfl, .inl rfl⟩, by simp [D.fp, D.detachFp], by simp [D.fp, D.detachFp]⟩

/-- **expand_attached_in_block**: a running retriever reads inside the input
    block it holds a reference on (`offs k ≤ curr_pos.offset < offs (k+1)`),
    that block has been pushed (`k < rd`), and it is not behind `head_offs`
    unless … it cannot be: every retrieve job is queued at or after `head_offs`
    (`attach_in_range`), so `attach()` never resolves to a block the offset
    does not belong to.  Running scanners sit on pushed blocks, at or after
    their start.  (All reachable states, failed or not.) -/
theorem expand_attached_in_block {c : Model.SchedD.Cfg} (hW : 0 < c.W) {s : Model.SchedD.State}
    (h : Model.SchedD.Reach c s) :
    (∀ j k, Model.SchedD.Phase.retr j (some k) ∈ s.busy →
      k < s.rd ∧ Model.SchedD.offs c k ≤ j.curr ∧ j.curr < Model.SchedD.offs c (k + 1)) ∧
    (∀ st k, Model.SchedD.Phase.scan st k ∈ s.busy → k < s.rd ∧ Model.SchedD.offs c k ≤ st) ∧
    (∀ k, s.pphase = some (some k) → k < s.rd ∧ s.ppos < Model.SchedD.offs c (k + 1)) ∧
    (∀ j ∈ s.retrQ, Model.SchedD.headOffs c s ≤ j.curr) := by
  have hN := Lemmas.SchedD.ni_reach hW h
  refine ⟨fun j k hm => ⟨hN.kb j k hm, D.att_reach h _ hm⟩,
    fun st k hm => ⟨(Lemmas.SchedD.sq_reach hW h).bk _ hm, (Lemmas.SchedD.ui_reach hW h).tb st k hm⟩,
    fun k hk => ⟨hN.pkb k hk, (Lemmas.SchedD.pi_reach_all h).pk k hk⟩,
    (Lemmas.SchedD.ai_reach h).arQ⟩

/-- **inblk_not_freed_while_attached** (the property the F5 defect violated
    before /repo commit 7623822): while a thread `t` is between `attach()` and
    `detach()` on input block `k` (it holds a reference and reads the buffer
    without a lock),
    * block `k` is pushed and not freed (`alive`), its `ref_count` is at least 1
      for every attached thread, and its slot has not been given back: the
      slot accounting `in_slots + alive blocks (+ the reader's) = total_in`
      counts every attached block as in use;
    * NO section in progress, of any other thread, frees the buffer
      (`source_release_buffer` = a write of `inBuf k`), or writes it at all;
    * and what `t` reads lies inside that buffer (`expand_attached_in_block`). -/
theorem inblk_not_freed_while_attached {c : Model.SchedD.Cfg} (hW : 0 < c.W) (hn : 1 ≤ c.n)
    {s : Model.SchedD.State} (h : Model.SchedD.Reach c s) (hf : s.failed = false) {k : Nat}
    {t : D.Thread} (ht : t ∈ D.attThreads s k) :
    D.alive s k ∧ 1 ≤ (D.attThreads s k).length ∧
      s.inSlots + Model.SchedD.inputAlive s = c.totalIn ∧
      (∀ y, D.inProg c s y → ∀ b ∈ D.fp c s y, b.thread ≠ t → b.var = .inBuf k →
        b.write = false) := by
  have hatt := D.attached_of_mem ht
  -- the section of `t` that is in progress reads the buffer without a lock
  have hx : ∃ x, D.inProg c s x ∧ rd t [] (D.DVar.inBuf k) ∈ D.fp c s x ∧ k < s.rd := by
    have hN := Lemmas.SchedD.ni_reach hW h
    simp only [D.attThreads, List.mem_append, List.mem_map, List.mem_filter] at ht
    rcases ht with ht | ⟨ph, ⟨hm, hb⟩, rfl⟩
    · split at ht
      · next hp =>
        have e : t = .parser := by simpa using ht
        subst e
        exact ⟨.parseEnd (some k), hp, by simp [D.fp, D.bufRead], hN.pkb k hp⟩
      · cases ht
    · cases ph with
      | retr j k' =>
        have e : k' = some k := by simpa [Model.SchedD.Phase.block] using hb
        subst e
        exact ⟨.retrEnd j (some k), hm, by simp [D.fp, D.bufRead], hN.kb j k hm⟩
      | scan st k' =>
        have e : k' = k := by simpa [Model.SchedD.Phase.block] using hb
        subst e
        exact ⟨.scanEnd st k', hm, by simp [D.fp, D.bufRead],
          (Lemmas.SchedD.sq_reach hW h).bk _ hm⟩
      | retr2 e => simp [Model.SchedD.Phase.block] at hb
      | emit e => simp [Model.SchedD.Phase.block] at hb
  obtain ⟨x, hxp, hxa, hk⟩ := hx
  refine ⟨⟨hk, Or.inr hatt⟩, List.length_pos_of_mem ht, Lemmas.SchedD.in_slots_conserved hW h, ?_⟩
  intro y hy b hb hne hv
  cases hw : b.write with
  | false => rfl
  | true =>
    obtain ⟨l, hl, _⟩ := expand_race_free' hW hn h hf hxp hy hxa hb
      ⟨fun e => hne e.symm, hv.symm, .inr hw⟩
    simp [rd] at hl

/-- non-vacuous: the scanner of `wD` holds a reference on input block 1 -/
example : D.Thread.busy (.scan 2 1) ∈ D.attThreads D.wD 1 := by
  simp only [D.attThreads, D.wD_facts.2.1]; decide

/-- **expand_release_in_footprint** (tie for the one state-dependent part of
    the footprints): the model gives an input slot back only for a block that
    is unattached once the acting thread's own phase is removed (`detach`:
    `!attachedTo`; `advance` / `parseFinish`: `releaseCount` filters
    `!attachedTo`); every such block that is alive is in `mayFree`, so the
    `source_release_buffer` write is in the acting section's `releaseFp`. -/
theorem expand_release_in_footprint {s : Model.SchedD.State} {k : Nat} (ha : D.alive s k) :
    (∀ ph ∈ s.busy, Model.SchedD.attachedTo { s with busy := s.busy.erase ph } k = false →
      wr (.busy ph) D.S (D.DVar.inBuf k) ∈ D.releaseFp (.busy ph) s) ∧
    (Model.SchedD.attachedTo { s with pphase := none } k = false →
      wr .parser D.S (D.DVar.inBuf k) ∈ D.releaseFp .parser s) := by
  refine ⟨fun ph hm h => ?_, fun h => ?_⟩
  · have := D.release_mayFree_busy hm ha h
    simp only [D.releaseFp, wrs, List.mem_append, List.mem_map]
    exact Or.inl (Or.inl (Or.inl ⟨_, ⟨k, this, rfl⟩, rfl⟩))
  · have := D.release_mayFree_parser ha h
    simp only [D.releaseFp, wrs, List.mem_append, List.mem_map]
    exact Or.inl (Or.inl (Or.inl ⟨_, ⟨k, this, rfl⟩, rfl⟩))

/-- non-vacuous: in `wD`, once the scanner has left, only the retriever is
    attached to block 1 — the retriever does not free it (block 1 ≥ head), but
    block 1 is alive and the hypothesis shape is inhabited for block 2 -/
example : D.alive D.wD 2 ∧
    Model.SchedD.attachedTo { D.wD with busy := D.wD.busy.erase (.scan 2 1) } 2 = false := by
  have hb := D.wD_facts.2.1
  have hh := D.wD_facts.2.2.1
  have hr := D.wD_facts.2.2.2.1
  have hpp := D.wD_facts.2.2.2.2
  refine ⟨?_, ?_⟩
  · simp only [D.alive, hh, hr]; decide
  · simp only [Model.SchedD.attachedTo, hb, hpp]; decide

/-- the section of a model transition (`free 0` stands for whichever job-less
    worker takes it) -/
def expandSecOf (s : Model.SchedD.State) : Model.SchedD.Label → D.Sec
  | .rTake => .rTake
  | .rQuit => .rQuit
  | .rBlock => .rBlock
  | .rEmpty => .rEmpty
  | .rEof => .rEof
  | .wDone => .wDone
  | .reorder ob => .reorder 0 ob
  | .parseStart => .parseStart 0
  | .parseEnd => .parseEnd (s.pphase.getD none)
  | .retrStart j => .retrStart 0 j
  | .retrEnd j k => .retrEnd j k
  | .retrPost e => .retrPost e
  | .emitStart e => .emitStart 0 e
  | .emitEnd e => .emitEnd e
  | .scanStart sp => .scanStart 0 sp
  | .scanEnd st k => .scanEnd st k

/-- **expand_step_annotated_partial** (tie between model and annotation):
    every transition of `Model.SchedD.step` is the locked part of a section
    that is in progress.  MISSING relative to the compression half
    (`step_annotated`): that every field of the model state the transition
    changes is written in that section's footprint (`Covers`). -/
theorem expand_step_annotated_partial {c : Model.SchedD.Cfg} {s s' : Model.SchedD.State}
    {l : Model.SchedD.Label} (h : Model.SchedD.step c s l = some s') :
    D.inProg c s (expandSecOf s l) := by
  unfold Model.SchedD.step at h
  split at h
  · simp at h
  · cases l with
    | rTake =>
      simp only [Model.SchedD.stepRTake] at h
      split at h
      · next hg => simp only [Bool.and_eq_true, beq_iff_eq] at hg; exact hg.1.1
      · simp at h
    | rQuit =>
      simp only [Model.SchedD.stepRQuit] at h
      split at h
      · next hg => simp only [Bool.and_eq_true, beq_iff_eq] at hg; exact hg.1
      · simp at h
    | rBlock =>
      simp only [Model.SchedD.stepRBlock] at h
      split at h
      · next hg => simp only [Bool.and_eq_true, beq_iff_eq] at hg; exact hg.1
      · simp at h
    | rEmpty =>
      simp only [Model.SchedD.stepREmpty] at h
      split at h
      · next hg => simp only [Bool.and_eq_true, beq_iff_eq] at hg; exact hg.1
      · simp at h
    | rEof =>
      simp only [Model.SchedD.stepREof] at h
      split at h
      · next hg => simp only [beq_iff_eq] at hg; exact hg
      · simp at h
    | wDone =>
      simp only [Model.SchedD.stepWDone] at h
      split at h
      · next hg => exact (of_decide_eq_true hg : 0 < s.outq)
      · simp at h
    | reorder ob => simp only at h; simp [D.inProg, expandSecOf, h]
    | parseStart => simp only at h; simp [D.inProg, expandSecOf, h]
    | retrStart j => simp only at h; simp [D.inProg, expandSecOf, h]
    | emitStart e => simp only at h; simp [D.inProg, expandSecOf, h]
    | scanStart sp => simp only at h; simp [D.inProg, expandSecOf, h]
    | parseEnd =>
      simp only [Model.SchedD.stepParseEnd] at h
      split at h
      · simp at h
      · next k hk => simp [D.inProg, expandSecOf, hk]
    | retrEnd j k =>
      simp only [Model.SchedD.stepRetrEnd] at h
      split at h
      · next hg =>
        have hm : Model.SchedD.Phase.retr j k ∈ s.busy := by simpa using hg
        exact hm
      · simp at h
    | retrPost e =>
      simp only [Model.SchedD.stepRetrPost] at h
      split at h
      · next hg =>
        have hm : Model.SchedD.Phase.retr2 e ∈ s.busy := by simpa using hg
        exact hm
      · simp at h
    | emitEnd e =>
      simp only [Model.SchedD.stepEmitEnd] at h
      split at h
      · next hg =>
        have hm : Model.SchedD.Phase.emit e ∈ s.busy := by simpa using hg
        exact hm
      · simp at h
    | scanEnd st k =>
      simp only [Model.SchedD.stepScanEnd] at h
      split at h
      · next hg =>
        have hm : Model.SchedD.Phase.scan st k ∈ s.busy := by simpa using hg
        exact hm
      · simp at h

example : (Model.SchedD.step Lemmas.SchedD.cfgF4 D.wD (.scanEnd 2 1)).isSome = true := by
  decide +kernel

theorem expandSecOf_eq (s : Model.SchedD.State) (l : Model.SchedD.Label) :
    expandSecOf s l = D.secOf s l := by
  cases l <;> rfl

/-- **expand_step_annotated** (tie between model and annotation, decompression;
    the counterpart of `step_annotated`): every transition of
    `Model.SchedD.step` is the locked part of a section in progress, and each
    shared variable of the model state it changes (`eof`, `request_close`,
    `in_slots`, `scan_q`, `retr_q`, `emit_q`, `reord_q`, `order_q`, `unord_q`,
    `parse_token`, `parsing_done`, `parser_bs`, `tail_offs`, `head_offs`,
    `work_units`, `out_slots`, `output_q`) is written in that section's
    footprint.  Not shared variables, hence not in `Covers`: the per-thread
    program counters (`rph`, `pphase`, `busy`) and the history / ghost fields
    (`nread`, `written`, `porig`, `gnext`, `taint`, `failed`). -/
theorem expand_step_annotated {c : Model.SchedD.Cfg} {s s' : Model.SchedD.State}
    {l : Model.SchedD.Label} (h : Model.SchedD.step c s l = some s') :
    D.inProg c s (expandSecOf s l) ∧ D.Covers s s' (D.fp c s (expandSecOf s l)) := by
  rw [expandSecOf_eq]; exact D.step_annotated h

/-- non-vacuous: the witness transition really changes shared variables
    (`retr_q`, `scan_q`), the footprint of its section contains the
    corresponding writes, and it does not simply write everything -/
example :
    ((Model.SchedD.step Lemmas.SchedD.cfgF4 D.wD (.scanEnd 2 1)).map
        (fun t => (t.retrQ.length, t.scanQ))) = some (1, [3, 4]) ∧
    (D.wD.retrQ.length, D.wD.scanQ) = (0, [4]) ∧
    D.writesVar (D.fp Lemmas.SchedD.cfgF4 D.wD (.scanEnd 2 1)) .retrQ = true ∧
    D.writesVar (D.fp Lemmas.SchedD.cfgF4 D.wD (.scanEnd 2 1)) .scanQ = true ∧
    D.writesVar (D.fp Lemmas.SchedD.cfgF4 D.wD (.scanEnd 2 1)) .eof = false := by
  decide +kernel

/-- **expand_footprint_thread**: well-formedness of the decompression
    annotation — the accesses listed for a section are made by the section's
    thread (reader / writer / parser / the worker in that phase / a job-less
    worker `i`) -/
theorem expand_footprint_thread (c : Model.SchedD.Cfg) (s : Model.SchedD.State) (x : D.Sec) :
    ∀ a ∈ D.fp c s x, a.thread = x.thread :=
  D.fp_thread c s x

/-- **expand_race_free_sections**: race freedom of decompression in terms of
    sections — two sections of different threads that are in progress in the
    same reachable state touch a common variable or heap object, one of them
    writing, only under a common lock -/
theorem expand_race_free_sections {c : Model.SchedD.Cfg} (hW : 0 < c.W) (hn : 1 ≤ c.n)
    {s : Model.SchedD.State} (h : Model.SchedD.Reach c s) (hf : s.failed = false) {x y : D.Sec}
    (hx : D.inProg c s x) (hy : D.inProg c s y) (hne : x.thread ≠ y.thread) {a b : D.Acc}
    (ha : a ∈ D.fp c s x) (hb : b ∈ D.fp c s y) (hv : a.var = b.var)
    (hw : a.write = true ∨ b.write = true) : ∃ l, l ∈ a.locks ∧ l ∈ b.locks := by
  refine expand_race_free' hW hn h hf hx hy ha hb ⟨?_, hv, hw⟩
  rw [expand_footprint_thread c s x a ha, expand_footprint_thread c s y b hb]
  exact hne

/-- non-vacuous: in the reachable witness state `wD` the retriever's and the
    scanner's end sections are both in progress and belong to different threads -/
example : D.inProg Lemmas.SchedD.cfgF4 D.wD (.retrEnd D.wJob (some 1)) ∧
    D.inProg Lemmas.SchedD.cfgF4 D.wD (.scanEnd 2 1) ∧
    (D.Sec.retrEnd D.wJob (some 1)).thread ≠ (D.Sec.scanEnd 2 1).thread := by
  refine ⟨?_, ?_, by decide⟩ <;> (simp only [D.inProg]; decide)

/-- the lock that guards a shared scheduler variable of the decompressor
    (`source_mutex` for `in_slots` / `request_close`, `sink_mutex` for
    `output_q`, `sched_mutex` for the rest) -/
def expandGuard : D.DVar → Lock
  | .inSlots | .requestClose => .source
  | .outputQ | .finish => .sink
  | _ => .sched

/-- the shared variables whose model field differs between `s` and `s'` -/
def expandChanged (s s' : Model.SchedD.State) : List D.DVar :=
  (if s'.eof ≠ s.eof then [D.DVar.eof] else []) ++
  (if s'.rclose ≠ s.rclose then [.requestClose] else []) ++
  (if s'.inSlots ≠ s.inSlots then [.inSlots] else []) ++
  (if s'.scanQ ≠ s.scanQ then [.scanQ] else []) ++
  (if s'.retrQ ≠ s.retrQ then [.retrQ] else []) ++
  (if s'.emitQ ≠ s.emitQ then [.emitQ] else []) ++
  (if s'.reordQ ≠ s.reordQ then [.reordQ] else []) ++
  (if s'.orderQ ≠ s.orderQ then [.orderQ] else []) ++
  (if s'.orphans ≠ s.orphans then [.unordQ] else []) ++
  (if s'.ptok ≠ s.ptok then [.parseToken] else []) ++
  (if s'.pdone ≠ s.pdone then [.parsingDone] else []) ++
  (if s'.ppos ≠ s.ppos then [.parserBs] else []) ++
  (if s'.rd ≠ s.rd then [.tailOffs] else []) ++
  (if s'.head ≠ s.head then [.headOffs] else []) ++
  (if s'.wu ≠ s.wu then [.workUnits] else []) ++
  (if s'.outSlots ≠ s.outSlots then [.outSlots] else []) ++
  (if s'.outq ≠ s.outq then [.outputQ] else [])

theorem writesVar_exists {l : List D.Acc} {v : D.DVar} (h : D.writesVar l v = true) :
    ∃ a ∈ l, a.write = true ∧ a.var = v := by
  simp only [D.writesVar, List.any_eq_true, Bool.and_eq_true, decide_eq_true_eq] at h
  exact h

/-- **expand_changes_under_lock** (end to end: model → annotation → lock):
    in every reachable state, every shared variable that a transition of
    `Model.SchedD.step` changes is written, in the footprint of the section
    the transition belongs to, by an access that holds the variable's guarding
    lock (and `tail_offs` only by the reader). -/
theorem expand_changes_under_lock {c : Model.SchedD.Cfg} (hW : 0 < c.W)
    {s s' : Model.SchedD.State} {l : Model.SchedD.Label} (h : Model.SchedD.Reach c s)
    (hs : Model.SchedD.step c s l = some s') :
    ∀ v ∈ expandChanged s s', ∃ a ∈ D.fp c s (expandSecOf s l),
      a.write = true ∧ a.var = v ∧ expandGuard v ∈ a.locks ∧
      (v = .tailOffs → a.thread = .reader) := by
  obtain ⟨hp, hc⟩ := expand_step_annotated hs
  have key : ∀ v, D.writesVar (D.fp c s (expandSecOf s l)) v = true →
      v ∈ [D.DVar.eof, .requestClose, .inSlots, .scanQ, .retrQ, .emitQ, .reordQ, .orderQ, .unordQ,
        .parseToken, .parsingDone, .parserBs, .tailOffs, .headOffs, .workUnits, .outSlots,
        .outputQ] →
      ∃ a ∈ D.fp c s (expandSecOf s l),
        a.write = true ∧ a.var = v ∧ expandGuard v ∈ a.locks ∧
        (v = .tailOffs → a.thread = .reader) := by
    intro v hv hmem
    obtain ⟨a, ha, hw, hav⟩ := writesVar_exists hv
    obtain ⟨g1, _, g3, g4, g5⟩ := expand_guarded_under_lock hW h hp ha
    refine ⟨a, ha, hw, hav, ?_, ?_⟩
    · simp only [List.mem_cons, List.not_mem_nil, or_false] at hmem
      rcases hmem with rfl | rfl | rfl | rfl | rfl | rfl | rfl | rfl | rfl | rfl | rfl | rfl | rfl |
        rfl | rfl | rfl | rfl
      all_goals first
        | exact g1 (by rw [hav]; decide)
        | exact g3 (by rw [hav]; decide)
        | exact g4 (by rw [hav]; decide)
        | exact ((g5 hav).1 hw).2
    · intro ht; subst ht; exact ((g5 hav).1 hw).1
  intro v hv
  simp only [expandChanged, List.mem_append] at hv
  rcases hv with ((((((((((((((((hv | hv) | hv) | hv) | hv) | hv) | hv) | hv) | hv) | hv) | hv) |
    hv) | hv) | hv) | hv) | hv) | hv)
  all_goals
    split at hv
    · next hne =>
      rw [List.mem_singleton] at hv; subst hv
      first
        | exact key _ (hc.eof hne) (by decide)
        | exact key _ (hc.rclose hne) (by decide)
        | exact key _ (hc.inSlots hne) (by decide)
        | exact key _ (hc.scanQ hne) (by decide)
        | exact key _ (hc.retrQ hne) (by decide)
        | exact key _ (hc.emitQ hne) (by decide)
        | exact key _ (hc.reordQ hne) (by decide)
        | exact key _ (hc.orderQ hne) (by decide)
        | exact key _ (hc.orphans hne) (by decide)
        | exact key _ (hc.ptok hne) (by decide)
        | exact key _ (hc.pdone hne) (by decide)
        | exact key _ (hc.ppos hne) (by decide)
        | exact key _ (hc.rd hne) (by decide)
        | exact key _ (hc.head hne) (by decide)
        | exact key _ (hc.wu hne) (by decide)
        | exact key _ (hc.outSlots hne) (by decide)
        | exact key _ (hc.outq hne) (by decide)
    · exact absurd hv List.not_mem_nil

/-- non-vacuous: on the reachable witness state the transition `scanEnd 2 1`
    changes `scan_q` and `retr_q` -/
example : Model.SchedD.Reach Lemmas.SchedD.cfgF4 D.wD ∧
    (Model.SchedD.step Lemmas.SchedD.cfgF4 D.wD (.scanEnd 2 1)).map (expandChanged D.wD) =
      some [.scanQ, .retrQ] :=
  ⟨D.wD_reach, by decide +kernel⟩

end LbzVerif.Props.C12
