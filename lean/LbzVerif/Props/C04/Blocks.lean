/-
  Props.C04.Blocks — C04 at the level of the whole compressor.

  `Model.SchedC` is parametric in a collector (`Codec`).  Here it is
  instantiated with the REAL one — `Model.collect` of Model/Collect.lean, the
  byte-step machine tied to encode.c by checks/C04.py — with the capacity
  `cap` (`bs100k * 100000` in lbzip2).  The facts `Codec.OK` the scheduler
  theorems assume are proved for it (`realCodec_ok`, from Props.C04), and the
  canonical block list of C03 is computed:

    * non-sequential mode: every chunk is cut by `Spec.blocksOf cap`
      (`blocks_nonseq`);
    * `--sequential`: the WHOLE input is cut by `Spec.blocksOf cap`
      (`blocks_seq`);

  for every input, capacity ≥ 1, chunk size ≥ 1, worker count, slot totals,
  schedule (spurious wake-ups included) and `read()` fragmentation.  Blocks are
  compared through what the encoder hands to the sorter: `finish enc` (the
  run-length encoded block; `Spec.rle1` is injective, `Props.C04.unrle_rle`)
  and `block_crc`.
-/
import LbzVerif.Props.C04
import LbzVerif.Props.C03
import LbzVerif.Lemmas.SchedC.Witness

namespace LbzVerif.Props.C04.Blocks
open LbzVerif.Spec LbzVerif.Model LbzVerif.Model.SchedC

/-! ## the real collector as a `Codec` -/

/-- encoder states: `struct encoder_state` restricted to the states
    `encoder_init`/`collect` can produce (`CollectState.Inv`, preserved by
    `collect`: `Props.C04.collect_preserves_inv`) -/
abbrev Enc : Type := { s : CollectState // s.Inv }

/-- `encoder_init(enc, cap, …)` and `collect()` -/
def realCodec (cap : Nat) (hcap : 1 ≤ cap) : Codec UInt8 Enc where
  init := ⟨Model.init cap, init_inv cap hcap⟩
  collect := fun s buf =>
    (⟨(Model.collect s.1 buf).1, collect_inv s.1 s.2 buf⟩, (Model.collect s.1 buf).2.1,
      (Model.collect s.1 buf).2.2)

/-- what a finished block is, as far as C04 is concerned: the bytes given to
    the sorter and the block CRC -/
def blockOut (w : WBlk Enc) : List UInt8 × UInt32 := (finish w.enc.1, w.enc.1.crc)

/-- the same for a block of the specification: its input bytes `b` -/
def specOut (b : List UInt8) : List UInt8 × UInt32 := (rle1 b, crcFold 0xFFFFFFFF b)

theorem collect_consumed_le (s : CollectState) (hs : s.Inv) (buf : List UInt8) :
    (Model.collect s buf).2.1 ≤ buf.length := by
  rw [collect_eq_canon s hs]; simp only [collectCanon]; omega

theorem collect_notfull (s : CollectState) (hs : s.Inv) (buf : List UInt8)
    (h : (Model.collect s buf).2.2 = false) : (Model.collect s buf).2.1 = buf.length := by
  rw [collect_eq_canon s hs] at h ⊢
  simp only [collectCanon] at h ⊢
  have hne : (Model.canon s.cap s.block s.rle s.crc buf).1.rle ≠ Rle.full := by
    simpa using h
  have := canon_notfull_left s.cap buf s.block s.rle s.crc hne
  omega

/-- **the real collector satisfies what the scheduler theorems assume**: a
    fresh encoder takes at least one byte of a non-empty buffer; a call that
    does not report "full" has consumed the whole buffer; never more than
    offered. -/
theorem realCodec_ok (cap : Nat) (hcap : 1 ≤ cap) : (realCodec cap hcap).OK where
  fresh := by
    intro r hr
    have h := (collect_pack_single cap hcap r).1
    have hp := pack_pos cap hcap r hr
    show 1 ≤ (Model.collect (Model.init cap) r).2.1
    omega
  notFull := by
    intro s r h
    have := collect_notfull s.1 s.2 r h
    show r.length ≤ (Model.collect s.1 r).2.1
    omega
  le := fun s r => collect_consumed_le s.1 s.2 r

/-! ## non-sequential mode: one chunk -/

theorem blocksOf_nil (cap : Nat) : blocksOf cap [] = [] := rfl

/-- `do_collect` applied repeatedly to one chunk cuts it by `blocksOf`. -/
theorem chunkBlocks_spec (cap : Nat) (hcap : 1 ≤ cap) (pos : Pos) (data : List UInt8)
    (hd : data ≠ []) :
    (chunkBlocks (realCodec cap hcap) pos data).map blockOut =
      (blocksOf cap data).map specOut := by
  induction pos, data using chunkBlocks.induct (realCodec cap hcap) with
  | case1 pos data r h ih =>
    obtain ⟨h1, h2, _, h4, _⟩ := collect_pack_single cap hcap data
    rw [chunkBlocks]
    simp only [r] at h ih
    simp only [h, ne_eq, not_false_eq_true, and_self, ↓reduceDIte, List.map_cons]
    rw [blocksOf_unfold cap hcap data, if_neg hd, List.map_cons]
    have ih' := ih h.1
    simp only [collectOn, realCodec] at ih' h ⊢
    rw [h1] at ih' ⊢
    rw [ih']
    congr 1
    simp only [blockOut, specOut]
    rw [h2, h4, h1]
  | case2 pos data r h =>
    obtain ⟨h1, h2, _, h4, _⟩ := collect_pack_single cap hcap data
    have hp := pack_pos cap hcap data hd
    have hlen : 0 < data.length := List.length_pos_iff.mpr hd
    rw [chunkBlocks]
    simp only [r] at h
    simp only [h, ↓reduceDIte, List.map_cons, List.map_nil]
    rw [blocksOf_unfold cap hcap data, if_neg hd, List.map_cons]
    simp only [collectOn, realCodec] at h
    have hdrop : data.drop (pack cap data) = [] := by
      rw [h1] at h
      by_cases h0 : data.drop (pack cap data) = []
      · exact h0
      · exfalso; apply h; refine ⟨h0, ?_⟩
        simp only [List.length_drop]; omega
    rw [hdrop, blocksOf_nil, List.map_nil]
    congr 1
    simp only [blockOut, specOut, collectOn, realCodec]
    rw [h2, h4, h1]

/-! ## sequential mode: blocks spanning chunks -/

theorem collect_init_nil (cap : Nat) (_hcap : 1 ≤ cap) :
    Model.collect (Model.init cap) [] = (Model.init cap, 0, false) := by
  have : ¬ (0 > cap - 1) := by omega
  simp [Model.collect, Model.init, state0, done, this]

/-- the encoder `do_collect_seq` continues with -/
def startEnc (cap : Nat) (hcap : 1 ≤ cap) (cur : Option (WBlk Enc)) : Enc :=
  match cur with
  | some w => w.enc
  | none => (realCodec cap hcap).init

theorem startEnc_eq (cap : Nat) (hcap : 1 ≤ cap) (cur : Option (WBlk Enc)) (p : Pos) :
    (cur.getD ⟨p, p, (realCodec cap hcap).init⟩).enc = startEnc cap hcap cur := by
  cases cur <;> rfl

/-- `pre` = the bytes the pending encoder has already taken (none if there is
    no pending encoder) -/
def Pending (cap : Nat) (hcap : 1 ≤ cap) (cur : Option (WBlk Enc)) (pre : List UInt8) : Prop :=
  Model.collect (Model.init cap) pre = ((startEnc cap hcap cur).1, pre.length, false) ∧
  (cur = none → pre = []) ∧ (cur.isSome = true → pre ≠ [])

/-- collecting `pre ++ data` from a fresh encoder = continuing the pending
    encoder with `data` -/
theorem pending_step (cap : Nat) (hcap : 1 ≤ cap) (cur : Option (WBlk Enc)) (pre data : List UInt8)
    (hp : Pending cap hcap cur pre) :
    Model.collect (Model.init cap) (pre ++ data) =
      ((Model.collect (startEnc cap hcap cur).1 data).1,
        pre.length + (Model.collect (startEnc cap hcap cur).1 data).2.1,
        (Model.collect (startEnc cap hcap cur).1 data).2.2) := by
  rw [collect_split _ (init_inv cap hcap)]
  simp only [hp.1, Bool.false_eq_true, if_false]

/-- if the first `k` bytes of `xs` fill a block, that block is the first block
    of `blocksOf cap xs` -/
theorem first_block (cap : Nat) (hcap : 1 ≤ cap) (a b : List UInt8) (ha : a ≠ [])
    (st : CollectState) (k : Nat) (hc : Model.collect (Model.init cap) a = (st, k, true)) :
    (blocksOf cap (a ++ b)).map specOut =
      (finish st, st.crc) :: (blocksOf cap ((a ++ b).drop k)).map specOut := by
  have hsplit := collect_split _ (init_inv cap hcap) a b
  simp only [hc, if_true] at hsplit
  obtain ⟨h1, h2, _, h4, _⟩ := collect_pack_single cap hcap (a ++ b)
  rw [hsplit] at h1 h2 h4
  simp only at h1 h2 h4
  have hne : a ++ b ≠ [] := by simp [ha]
  rw [blocksOf_unfold cap hcap (a ++ b), if_neg hne, List.map_cons, ← h1]
  simp only [specOut, h2, h4]

theorem seqBlocks_spec (cap : Nat) (hcap : 1 ≤ cap) (cur : Option (WBlk Enc))
    (ibs : List (IBlk UInt8)) :
    ∀ pre, Pending cap hcap cur pre → (∀ ib ∈ ibs, ib.data ≠ []) →
    (seqBlocks (realCodec cap hcap) cur ibs).map blockOut =
      (blocksOf cap (pre ++ (ibs.map (·.data)).flatten)).map specOut := by
  induction cur, ibs using seqBlocks.induct (realCodec cap hcap) with
  | case1 =>
    intro pre hp _
    rw [hp.2.1 rfl, seqBlocks]; rfl
  | case2 w =>
    intro pre hp _
    rw [seqBlocks]
    have hne : pre ≠ [] := hp.2.2 rfl
    obtain ⟨h1, h2, _, h4, _⟩ := collect_pack_single cap hcap pre
    rw [hp.1] at h1 h2 h4
    simp only [startEnc] at h1 h2 h4
    simp only [List.map_nil, List.flatten_nil, List.append_nil, List.map_cons]
    rw [blocksOf_unfold cap hcap pre, if_neg hne, ← h1, List.drop_length, blocksOf_nil]
    simp only [List.map_cons, List.map_nil, blockOut, specOut, h2, h4]
  | case3 cur ib rest w0 r hl hc ih =>
    intro pre hp hdata
    rw [seqBlocks]
    simp only [w0, r] at hl hc ih
    simp only [hl, hc, ne_eq, not_false_eq_true, and_self, ↓reduceDIte, ↓reduceIte,
      List.map_cons, List.flatten_cons]
    simp only [startEnc_eq] at hl hc ih ⊢
    have hstep := pending_step cap hcap cur pre ib.data hp
    have hfull : (Model.collect (startEnc cap hcap cur).1 ib.data).2.2 = true := hc.1
    have hle := collect_consumed_le _ (startEnc cap hcap cur).2 ib.data
    rw [hfull] at hstep
    have hd : ib.data ≠ [] := hdata ib List.mem_cons_self
    have hfb := first_block cap hcap (pre ++ ib.data) (rest.map (·.data)).flatten
      (by simp [hd]) _ _ hstep
    rw [← List.append_assoc, hfb]
    have hdrop : (pre ++ ib.data ++ (rest.map (·.data)).flatten).drop
        (pre.length + (Model.collect (startEnc cap hcap cur).1 ib.data).2.1) =
        [] ++ (ib.data.drop (Model.collect (startEnc cap hcap cur).1 ib.data).2.1 ++
          (rest.map (·.data)).flatten) := by
      rw [List.append_assoc, List.drop_append, List.drop_of_length_le (by omega)]
      simp only [List.nil_append, Nat.add_sub_cancel_left]
      rw [List.drop_append_of_le_length hle]
    rw [hdrop]
    have hpn : Pending cap hcap none [] :=
      ⟨collect_init_nil cap hcap, fun _ => rfl, fun h => by cases h⟩
    have ih' := ih [] hpn (by
      intro jb hjb
      rcases List.mem_cons.mp hjb with rfl | hjb
      · exact hl
      · exact hdata jb (List.mem_cons_of_mem _ hjb))
    simp only [collectOn, realCodec, List.map_cons, List.flatten_cons] at ih' ⊢
    rw [ih']
    rfl
  | case4 cur ib rest w0 r hl hc =>
    intro pre hp hdata
    simp only [w0, r] at hl hc
    exact absurd (requeue_cond _ (realCodec_ok cap hcap) cur ib hl) hc
  | case5 cur ib rest w0 r hl hfull ih =>
    intro pre hp hdata
    rw [seqBlocks]
    simp only [w0, r] at hl hfull ih
    simp only [hl, hfull, ↓reduceIte, List.map_cons, List.flatten_cons]
    simp only [startEnc_eq] at hl hfull ih ⊢
    have hstep := pending_step cap hcap cur pre ib.data hp
    have hfull' : (Model.collect (startEnc cap hcap cur).1 ib.data).2.2 = true := hfull
    have hle := collect_consumed_le _ (startEnc cap hcap cur).2 ib.data
    rw [hfull'] at hstep
    have hd : ib.data ≠ [] := hdata ib List.mem_cons_self
    have hfb := first_block cap hcap (pre ++ ib.data) (rest.map (·.data)).flatten
      (by simp [hd]) _ _ hstep
    rw [← List.append_assoc, hfb]
    have hall : (Model.collect (startEnc cap hcap cur).1 ib.data).2.1 = ib.data.length := by
      have h0 : ib.data.drop (Model.collect (startEnc cap hcap cur).1 ib.data).2.1 = [] := by
        simpa [collectOn, realCodec] using hl
      have := List.drop_eq_nil_iff.mp h0
      omega
    have hdrop : (pre ++ ib.data ++ (rest.map (·.data)).flatten).drop
        (pre.length + (Model.collect (startEnc cap hcap cur).1 ib.data).2.1) =
        [] ++ (rest.map (·.data)).flatten := by
      rw [hall, ← List.length_append, List.drop_left]; rfl
    rw [hdrop]
    have hpn : Pending cap hcap none [] :=
      ⟨collect_init_nil cap hcap, fun _ => rfl, fun h => by cases h⟩
    have ih' := ih [] hpn (fun jb hjb => hdata jb (List.mem_cons_of_mem _ hjb))
    simp only [collectOn, realCodec] at ih' ⊢
    rw [ih']
    rfl
  | case6 cur ib rest w0 r hl w hfull ih =>
    intro pre hp hdata
    rw [seqBlocks]
    simp only [w0, r, w] at hl hfull ih
    simp only [hl, hfull, ↓reduceIte, List.map_cons, List.flatten_cons]
    simp only [startEnc_eq] at hl hfull ih ⊢
    have hstep := pending_step cap hcap cur pre ib.data hp
    have hfull' : (Model.collect (startEnc cap hcap cur).1 ib.data).2.2 = false := by
      simpa [collectOn, realCodec] using hfull
    have hall := collect_notfull _ (startEnc cap hcap cur).2 ib.data hfull'
    have hd : ib.data ≠ [] := hdata ib List.mem_cons_self
    rw [hfull', hall, ← List.length_append] at hstep
    rw [← List.append_assoc]
    apply ih (pre ++ ib.data) _ (fun jb hjb => hdata jb (List.mem_cons_of_mem _ hjb))
    refine ⟨?_, fun h => (by cases h), fun _ => (by simp [hd])⟩
    rw [hstep]
    rfl

/-! ## chunks -/

theorem cutChunks_flatten (g : Nat) (hg : 0 < g) (id : Nat) (input : List UInt8) :
    ((cutChunks g id input).map (·.data)).flatten = input := by
  induction id, input using cutChunks.induct g with
  | case1 id input h ih =>
    rw [cutChunks]
    simp only [h, ne_eq, not_false_eq_true, and_self, ↓reduceDIte, List.map_cons,
      List.flatten_cons, ih, List.take_append_drop]
  | case2 id input h =>
    rw [cutChunks]
    simp only [h, ↓reduceDIte, List.map_nil, List.flatten_nil]
    by_cases h0 : input = []
    · exact h0.symm
    · exact absurd ⟨h0, hg⟩ h

/-- the chunks the reader thread delivers (`xread` into buffers of `g` bytes),
    for any fragmentation of the underlying `read()` calls: the `g`-byte cut
    of the input -/
theorem reader_cut (g : Nat) (hg : 0 < g) (frags : Nat → List Nat) (input : List UInt8) :
    readChunks g frags (input.length + 1) 0 input = cutChunks g 0 input :=
  C03.reader_chunks g hg frags input

/-! ## the property -/

variable {c : Cfg} {cap : Nat} {input : List UInt8} {s : State UInt8 Enc}

/-- **blocks_nonseq** (C04, default mode).  In every terminated run of the
    compression scheduler with the real collector — any worker count, slot
    totals, interleaving, `read()` fragmentation `frags` — the blocks written
    are, in order: for each `in_granul`-byte chunk of the input in turn, the
    greedy packing `Spec.blocksOf cap` of that chunk (each block run-length
    encoded by `Spec.rle1`, with the CRC of its bytes).  Block boundaries never
    depend on anything but the chunk. -/
theorem blocks_nonseq (hcap : 1 ≤ cap) (hu : c.ultra = false) (hg : 0 < c.inGranul)
    (frags : Nat → List Nat)
    (h : Reach c (realCodec cap hcap) input s) (hf : finished c s = true) :
    s.written.map blockOut =
      ((readChunks c.inGranul frags (input.length + 1) 0 input).flatMap
        (fun ib => blocksOf cap ib.data)).map specOut := by
  rw [(C03.output_canon (realCodec_ok cap hcap) hg h hf).1, reader_cut _ hg]
  simp only [SchedC.canon, hu, Bool.false_eq_true, if_false, List.map_flatMap]
  have hne := (cutChunks_sorted c.inGranul 0 input).2
  generalize cutChunks c.inGranul 0 input = chunks at hne
  induction chunks with
  | nil => rfl
  | cons ib rest ih =>
    simp only [List.flatMap_cons]
    rw [chunkBlocks_spec cap hcap ib.pos ib.data (hne ib List.mem_cons_self).2.2,
      ih (fun jb hjb => hne jb (List.mem_cons_of_mem _ hjb))]

/-- **blocks_seq** (C04, `--sequential`).  In every terminated run in
    sequential mode the blocks written are the greedy packing
    `Spec.blocksOf cap` of the WHOLE input: chunk boundaries are invisible
    (a block may span chunks), whatever the worker count, slot totals,
    interleaving and chunk size. -/
theorem blocks_seq (hcap : 1 ≤ cap) (hu : c.ultra = true) (hg : 0 < c.inGranul)
    (h : Reach c (realCodec cap hcap) input s) (hf : finished c s = true) :
    s.written.map blockOut = (blocksOf cap input).map specOut := by
  rw [(C03.output_canon (realCodec_ok cap hcap) hg h hf).1]
  simp only [SchedC.canon, hu, if_true]
  have hp : Pending cap hcap none [] :=
    ⟨collect_init_nil cap hcap, fun _ => rfl, fun h => by cases h⟩
  rw [seqBlocks_spec cap hcap none _ [] hp
    (fun ib hib => ((cutChunks_sorted c.inGranul 0 input).2 ib hib).2.2)]
  rw [cutChunks_flatten _ hg, List.nil_append]

/-- the same two statements at the very end of a run — every thread gone
    (`isFinal`, what `primary_thread` sees after the joins) instead of
    `can_terminate()`; at least one worker -/
theorem blocks_final (hcap : 1 ≤ cap) (hg : 0 < c.inGranul) (hn : 1 ≤ c.n)
    (frags : Nat → List Nat)
    (h : Reach c (realCodec cap hcap) input s) (hfin : isFinal s = true) :
    s.written.map blockOut =
      if c.ultra then (blocksOf cap input).map specOut
      else ((readChunks c.inGranul frags (input.length + 1) 0 input).flatMap
        (fun ib => blocksOf cap ib.data)).map specOut := by
  have hall : s.ws.all (·.isExited) = true := by
    simp only [isFinal, Bool.and_eq_true] at hfin; exact hfin.1.1.1
  have hlen := (inv1_reach h).cons.nWorkers
  have hf : finished c s = true := by
    cases hws : s.ws with
    | nil => rw [hws] at hlen; simp at hlen; omega
    | cons p l =>
      have hp : p.isExited = true :=
        List.all_eq_true.mp hall p (by rw [hws]; exact List.mem_cons_self)
      have : p = .exited := by cases p <;> simp [WPhase.isExited] at hp ⊢
      exact ((wake_reach h).exitFin (by rw [hws, this]; exact List.mem_cons_self)).1
  cases hu : c.ultra with
  | true => simp only [if_true]; exact blocks_seq hcap hu hg h hf
  | false => simp only [Bool.false_eq_true, if_false]; exact blocks_nonseq hcap hu hg frags h hf

/-- the block boundaries themselves (input bytes of each block), recovered
    from what was written by undoing the run-length encoding -/
theorem blocks_seq_bytes (hcap : 1 ≤ cap) (hu : c.ultra = true) (hg : 0 < c.inGranul)
    (h : Reach c (realCodec cap hcap) input s) (hf : finished c s = true) :
    s.written.map (fun w => unRle1 (blockOut w).1) = (blocksOf cap input).map some ∧
    (s.written.map (fun w => unRle1 (blockOut w).1)).flatMap Option.toList =
      blocksOf cap input ∧ (blocksOf cap input).flatten = input := by
  have e := congrArg (List.map (fun p : List UInt8 × UInt32 => unRle1 p.1))
    (blocks_seq hcap hu hg h hf)
  simp only [List.map_map] at e
  have e2 : ((fun p : List UInt8 × UInt32 => unRle1 p.1) ∘ specOut) = some := by
    funext b; simp [specOut, unrle_rle]
  rw [e2] at e
  have e' : s.written.map (fun w => unRle1 (blockOut w).1) = (blocksOf cap input).map some := e
  refine ⟨e', ?_, blocksOf_flatten cap hcap input⟩
  rw [e']
  generalize blocksOf cap input = l
  induction l with
  | nil => rfl
  | cons a l ih => simp [List.flatMap_cons, ih]

/-- with the numbers of lbzip2: level `bs` (1…9), `n` workers,
    `set_memory_constraints()`'s slot totals, `in_granul = cap = bs·100000` -/
theorem blocks_nonseq_gen {n bs : Nat} (hbs : 1 ≤ bs) (frags : Nat → List Nat)
    {s : State UInt8 Enc}
    (h : Reach (Cfg.ofGen n bs false) (realCodec (bs * 100000) (by omega)) input s)
    (hf : finished (Cfg.ofGen n bs false) s = true) :
    s.written.map blockOut =
      ((readChunks (bs * 100000) frags (input.length + 1) 0 input).flatMap
        (fun ib => blocksOf (bs * 100000) ib.data)).map specOut :=
  blocks_nonseq (c := Cfg.ofGen n bs false) (by omega) rfl
    (by simp only [Cfg.ofGen, Gen.memCompress]; omega) frags h hf

theorem blocks_seq_gen {n bs : Nat} (hbs : 1 ≤ bs) {s : State UInt8 Enc}
    (h : Reach (Cfg.ofGen n bs true) (realCodec (bs * 100000) (by omega)) input s)
    (hf : finished (Cfg.ofGen n bs true) s = true) :
    s.written.map blockOut = (blocksOf (bs * 100000) input).map specOut :=
  blocks_seq (c := Cfg.ofGen n bs true) (by omega) rfl
    (by simp only [Cfg.ofGen, Gen.memCompress]; omega) h hf

/-! ## non-vacuity: two complete runs with the real collector

  capacity 4, input `5 5 5 5 5 6 6`, two workers.  The fourth `5` does not fit
  with its count byte, so the first block is `5 5 5` in both modes; then
  * `--sequential`, chunks of 2: the second block `5 5 6 6` spans three chunks;
  * default mode, chunks of 4: chunk `5 5 5 5` gives `5 5 5 | 5`, chunk
    `5 6 6` gives one block. -/

def xInput : List UInt8 := [5, 5, 5, 5, 5, 6, 6]
def xSeqCfg : Cfg := { Cfg.ofGen 2 1 true with inGranul := 2 }
def xNonCfg : Cfg := { Cfg.ofGen 2 1 false with inGranul := 4 }
def xCodec : Codec UInt8 Enc := realCodec 4 (by decide)

open Label in
def xSeqPath : List Label :=
  [acquire 0, run 0 0, acquire 1, run 1 0, rTake, rDeliver 0, acquire 0, run 0 0, cont 0 0,
   cont 0 0, run 0 0, rTake, rDeliver 0, acquire 0, run 0 0, cont 0 0, cont 0 1, cont 0 0,
   run 0 0, cont 0 0, cont 0 0, run 0 0, cont 0 0, run 0 0, run 0 0, acquire 1, run 1 0, rTake,
   rDeliver 0, acquire 0, run 0 0, cont 0 0, cont 0 0, run 0 0, rTake, rDeliver 0, acquire 0,
   run 0 0, cont 0 0, cont 0 0, cont 0 0, run 0 0, cont 0 0, run 0 0, run 0 0, rEof 0, wTake,
   wDone 0, wTake, wDone 0, acquire 0, run 0 0, acquire 1, run 1 0]

open Label in
def xNonPath : List Label :=
  [acquire 0, run 0 0, acquire 1, run 1 0, rTake, rDeliver 0, acquire 0, run 0 0, cont 0 1,
   cont 0 0, run 0 0, cont 0 0, run 0 0, run 0 0, cont 0 0, cont 0 0, run 0 0, cont 0 0,
   run 0 0, run 0 0, acquire 1, run 1 0, rTake, rDeliver 0, acquire 0, run 0 0, cont 0 0,
   cont 0 0, run 0 0, cont 0 0, run 0 0, run 0 0, rEof 0, wTake, wDone 0, wTake, wDone 0, wTake,
   wDone 0, acquire 0, run 0 0, acquire 1, run 1 0]

/-- what is observed of a run: `can_terminate()`, all threads gone, the
    run-length encoded blocks written -/
def observe (c : Cfg) (path : List Label) : Option (Bool × Bool × List (List UInt8)) :=
  (runLabels c xCodec (SchedC.init c xInput) path).map
    (fun s => (finished c s, isFinal s, s.written.map (fun w => (blockOut w).1)))

theorem xSeq_obs : observe xSeqCfg xSeqPath = some (true, true, [[5, 5, 5], [5, 5, 6, 6]]) := by
  decide +kernel
theorem xNon_obs : observe xNonCfg xNonPath = some (true, true, [[5, 5, 5], [5], [5, 6, 6]]) := by
  decide +kernel

theorem observe_reach {c : Cfg} {path : List Label} {f g : Bool} {out : List (List UInt8)}
    (h : observe c path = some (f, g, out)) :
    ∃ s, Reach c xCodec xInput s ∧ finished c s = f ∧ isFinal s = g ∧
      s.written.map (fun w => (blockOut w).1) = out := by
  simp only [observe, Option.map_eq_some_iff, Prod.mk.injEq] at h
  obtain ⟨s, hs, h1, h2, h3⟩ := h
  exact ⟨s, reach_of_run _ .init hs, h1, h2, h3⟩

example : ∃ s, Reach xSeqCfg xCodec xInput s ∧ finished xSeqCfg s = true ∧ isFinal s = true ∧
    s.written.map (fun w => (blockOut w).1) = [[5, 5, 5], [5, 5, 6, 6]] :=
  observe_reach xSeq_obs
example : xSeqCfg.ultra = true ∧ blocksOf 4 xInput = [[5, 5, 5], [5, 5, 6, 6]] := by decide

example : ∃ s, Reach xNonCfg xCodec xInput s ∧ finished xNonCfg s = true ∧ isFinal s = true ∧
    s.written.map (fun w => (blockOut w).1) = [[5, 5, 5], [5], [5, 6, 6]] :=
  observe_reach xNon_obs
example : xNonCfg.ultra = false ∧
    (readChunks 4 (fun _ => [1, 2]) 8 0 xInput).map (·.data) = [[5, 5, 5, 5], [5, 6, 6]] ∧
    blocksOf 4 [5, 5, 5, 5] = [[5, 5, 5], [5]] ∧ blocksOf 4 [5, 6, 6] = [[5, 6, 6]] := by decide

end LbzVerif.Props.C04.Blocks
