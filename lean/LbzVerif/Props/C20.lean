/-
  Props.C20 — the length-limited optimum `Spec.Prefix.optLL` really is the
  minimum over ALL complete codes within the limit, and therefore the
  executable checker `tableOptimal` is sound for property C20 as worded:
  "each used table gives the smallest possible total coded length for the
  symbols coded with it, among all complete prefix codes no longer than that
  table's longest code; no code is longer than 20 bits".

  Nothing here is about `package_merge`: the checker is applied to the tables
  the real encoder produces (checks/w11_prefix.py, and the per-stream table
  check of the C20 campaign).
-/
import LbzVerif.Spec.Prefix
import LbzVerif.Lemmas.PrefixOpt
import LbzVerif.Lemmas.PrefixOptTable

namespace LbzVerif.Props.C20
open LbzVerif.Spec.Prefix LbzVerif.Lemmas.PrefixOpt LbzVerif.Lemmas.PrefixOptTable

theorem optLL_eq (f : List Nat) (L : Nat) (hL : 1 ≤ L) :
    optLL f L = optN L (L - 1) 2 (sortDesc f) := optSorted_eq _ L hL

/-- `optLL f L = some c` is attained: some complete code for `f.length` symbols
with every length in `1..L` has cost exactly `c`. -/
theorem optLL_attained (f : List Nat) (L c : Nat) (hL1 : 1 ≤ L) (hL : L ≤ 20)
    (h : optLL f L = some c) :
    ∃ lens : List Nat, lens.length = f.length ∧ CompleteWithin L lens ∧ cost f lens = c := by
  rw [optLL_eq f L hL1] at h
  obtain ⟨ls, hl, hr, hk, hc⟩ := optN_attained L (L - 1) (by omega) 2 (sortDesc f) c h
  rw [sortDesc_length] at hl
  obtain ⟨lens, hs, hcost⟩ := fromSorted f ls hl
  refine ⟨lens, hs.1.trans hl, ?_, hcost.trans hc⟩
  apply (completeWithin_iff L hL lens).mpr
  constructor
  · have := hs.2.1 (fun l => 2 ^ (L - l))
    unfold kraftL at hk ⊢
    rw [this, hk]
    obtain ⟨k, rfl⟩ : ∃ k, L = k + 1 := ⟨L - 1, by omega⟩
    simp only [Nat.add_sub_cancel, Nat.pow_succ]; omega
  · intro l hl'
    have := hr l ((hs.2.2 l).mp hl')
    omega

/-- No complete code within `L` is cheaper than `optLL f L` — for EVERY
assignment of lengths to symbols, monotone in the frequencies or not (the
exchange argument `monotone_wlog` is `Lemmas.PrefixOpt.swapFront`, used inside
the induction `optRow_le`). -/
theorem optLL_le (f lens : List Nat) (L : Nat) (hL : L ≤ 20) (hlen : lens.length = f.length)
    (hc : CompleteWithin L lens) :
    ∃ c, optLL f L = some c ∧ c ≤ cost f lens := by
  have hk := (completeWithin_iff L hL lens).mp hc
  -- a complete code is non-empty, so L ≥ 1
  have hL1 : 1 ≤ L := by
    cases lens with
    | nil => simp [kraftL] at hk; have := Nat.two_pow_pos L; omega
    | cons l t => have := hk.2 l (List.mem_cons_self ..); omega
  obtain ⟨ls, hs, hcost⟩ := toSorted f lens hlen
  rw [optLL_eq f L hL1, ← hcost]
  apply optN_le L (L - 1) (by omega) 2 (sortDesc f) ls (sortDesc_sorted f)
  · rw [sortDesc_length, hs.1, hlen]
  · intro l hl
    have := hk.2 l ((hs.2.2 l).mp hl)
    omega
  · have := hs.2.1 (fun l => 2 ^ (L - l))
    unfold kraftL at hk ⊢
    rw [this, hk.1]
    obtain ⟨k, rfl⟩ : ∃ k, L = k + 1 := ⟨L - 1, by omega⟩
    simp only [Nat.add_sub_cancel, Nat.pow_succ]; omega

/-- The exchange step on its own: sorting is never needed, one swap with the
front suffices — if `d ≤ l0` occurs further back under a frequency not larger
than `g0`, swapping the two lengths does not increase the cost and keeps the
multiset of lengths. -/
theorem monotone_wlog (L d g0 l0 : Nat) (hl : d ≤ l0) (ls gs : List Nat)
    (hlen : gs.length = ls.length) (hg : ∀ g ∈ gs, g ≤ g0) (hd : d ∈ ls) :
    ∃ ls2 : List Nat, ls2.length = ls.length ∧
      kraftL L ls2 + 2 ^ (L - d) = kraftL L ls + 2 ^ (L - l0) ∧
      (∀ l ∈ ls2, l = l0 ∨ l ∈ ls) ∧
      cost (g0 :: gs) (d :: ls2) ≤ cost (g0 :: gs) (l0 :: ls) := by
  obtain ⟨ls2, h1, h2, h3, h4⟩ := swapFront L d g0 l0 hl ls gs hlen hg hd
  exact ⟨ls2, h1, h2, h3, by simpa [cost_cons] using h4⟩

theorem le_maxLen (lens : List Nat) : ∀ l ∈ lens, l ≤ maxLen lens := by
  have gen : ∀ (xs : List Nat) (a : Nat), a ≤ xs.foldl max a ∧ ∀ l ∈ xs, l ≤ xs.foldl max a := by
    intro xs
    induction xs with
    | nil => intro a; simp
    | cons x t ih =>
      intro a
      simp only [List.foldl_cons]
      have := ih (max a x)
      refine ⟨by omega, ?_⟩
      intro l hl
      rcases List.mem_cons.mp hl with e | e
      · subst e; omega
      · exact this.2 l e
  exact (gen lens 0).2

/-- Soundness of the C20 checker.  If `tableOptimal freq lens` holds for a
table `lens` (one length per alphabet symbol; symbols with frequency 0 are in
the alphabet and need codes; the padding symbol of the last group is not in the
alphabet) and the per-table symbol counts `freq`, then no code is longer than
20 bits and every complete prefix code for the same alphabet whose longest code
is no longer than this table's longest code costs at least as much. -/
theorem checker_sound (freq lens : List Nat) (_hlen : lens.length = freq.length)
    (h : tableOptimal freq lens = true) :
    (∀ l ∈ lens, l ≤ 20) ∧
    ∀ lens' : List Nat, lens'.length = freq.length → CompleteWithin (maxLen lens) lens' →
      cost freq lens ≤ cost freq lens' := by
  simp only [tableOptimal, Bool.and_eq_true, decide_eq_true_eq, beq_iff_eq] at h
  refine ⟨fun l hl => Nat.le_trans (le_maxLen lens l hl) h.1, ?_⟩
  intro lens' hlen' hc'
  obtain ⟨c, hc, hle⟩ := optLL_le freq lens' (maxLen lens) h.1 hlen' hc'
  rw [h.2] at hc
  have : cost freq lens = c := Option.some.inj hc
  omega

/-- The checker accepts a length-limited table that plain Huffman would not
produce (limit 3), and rejects a complete but more expensive one. -/
example : tableOptimal [5, 3, 2, 1, 1] [2, 2, 2, 3, 3] = true ∧
    tableOptimal [5, 3, 2, 1, 1] [1, 2, 3, 4, 4] = true ∧
    tableOptimal [5, 3, 2, 1, 1] [3, 3, 2, 2, 2] = false ∧
    optLL [5, 3, 2, 1, 1] 3 = some 26 ∧ CompleteWithin 3 [2, 2, 2, 3, 3] := by decide

example : ∃ lens : List Nat, lens.length = 5 ∧ CompleteWithin 3 lens ∧ cost [5, 3, 2, 1, 1] lens = 26 :=
  optLL_attained [5, 3, 2, 1, 1] 3 26 (by decide) (by decide) (by decide)

end LbzVerif.Props.C20
