/-
  Props.C03 — compressed output depends only on the input and the options.

  Scheduler side (`Model.SchedC`): what reaches the sink is determined by the
  input, `--sequential` and the chunk size alone — not by the worker count,
  the slot totals or the interleaving.  I/O side: `xread` / `xwrite` hide
  short reads and short writes.
-/
import LbzVerif.Lemmas.SchedC.OutputN
import LbzVerif.Lemmas.SchedC.Witness

namespace LbzVerif.Props.C03
open LbzVerif.Gen LbzVerif.Model.SchedC

variable {α σ : Type}

/-- **xread_chunks**: whatever sizes the successive `read()` calls return
    (`frags`, each clamped to 1 … bytes wanted), `xread` stores exactly the first
    `vacant` bytes of what is left of the input (all of it if shorter) and
    leaves the rest: a chunk is short only at end of input. -/
theorem xread_chunks (src : List α) (vacant : Nat) (frags : List Nat) :
    xread src vacant frags = (src.take vacant, src.drop vacant) :=
  xread_eq src vacant frags

/-- hence the chunk list the reader thread produces is the canonical
    `in_granul`-sized cut of the input, numbered from 0, for every
    fragmentation pattern. -/
theorem reader_chunks (g : Nat) (hg : 0 < g) (frags : Nat → List Nat) (input : List α) :
    readChunks g frags (input.length + 1) 0 input = cutChunks g 0 input :=
  readChunks_eq g hg frags _ 0 input (Nat.lt_succ_self _)

example : (readChunks 2 (fun i => [1, i, 7]) 6 0 [10, 11, 12, 13, 14]).map (·.data) =
    [[10, 11], [12, 13], [14]] := by decide

/-- **xwrite_all**: whatever sizes the successive `write()` calls accept
    (each clamped to 1 … bytes left), exactly the buffer reaches the file. -/
theorem xwrite_all (buf : List α) (frags : List Nat) : xwrite buf frags = buf :=
  xwrite_eq buf frags

example : xwrite [1, 2, 3, 4, 5] [2, 0, 9] = [1, 2, 3, 4, 5] := by decide

/-- **sink order**: the writer thread writes the buffers in the order they
    were handed to `sink_write_buffer`, and those follow the `next` chain from
    (0,0) (C11 order). -/
theorem sink_prefix {c : Cfg} {cd : Codec α σ} {input : List α} {s : State α σ}
    (h : Reach c cd input s) :
    s.handed = s.written ++ s.wr.toList ++ s.outputQ ∧ Chain ⟨0, 0⟩ s.handed s.order :=
  ⟨(order_reach h).fifo, (order_reach h).chain⟩

/-- **output_perm** (non-sequential mode): in a terminated run the blocks
    written are, as a multiset, exactly the canonical block list of the input
    (`canon`: cut into chunks, `collect` repeatedly inside each chunk), and
    they are strictly ordered by position. -/
theorem output_perm_partial {c : Cfg} {cd : Codec α σ} {input : List α} {s : State α σ}
    (ok : cd.OK) (hu : c.ultra = false) (hg : 0 < c.inGranul) (h : Reach c cd input s)
    (hf : finished c s = true) :
    s.written = s.handed ∧ s.handed.Perm (canon c cd input) ∧
      s.handed.Pairwise (fun x y => x.pos.lt y.pos = true) := by
  have r := restores_of_finished (inv1_reach h).cons (inv1_reach h).sel (reader_reach h) hf
  have hfifo := (order_reach h).fifo
  rw [r.2.2.2.2.2.1, r.2.2.2.2.2.2.1] at hfifo
  refine ⟨by simpa using hfifo.symm, handed_perm_canon_N ok hu hg h hf, ?_⟩
  exact (chain_pairwise (order_reach h).chain).1

/-- **output_eq** (`_partial`: non-sequential mode only).  Two terminated
    runs on the same input with the same chunk size — ANY two worker counts,
    ANY slot totals, ANY two interleavings — write the same block sequence.
    Missing for the full statement: the counting invariant for sequential mode
    (`ultra = true`, blocks spanning chunks, `seqBlocks`); there the equality
    `handed = canon` is only checked by exhaustive exploration
    (`schedc-bfs`, `final-viol = 0`). -/
theorem output_eq_partial {c₁ c₂ : Cfg} {cd : Codec α σ} {input : List α}
    {s₁ s₂ : State α σ} (ok : cd.OK) (hu₁ : c₁.ultra = false) (hu₂ : c₂.ultra = false)
    (hg : 0 < c₁.inGranul) (hgg : c₁.inGranul = c₂.inGranul)
    (h₁ : Reach c₁ cd input s₁) (f₁ : finished c₁ s₁ = true)
    (h₂ : Reach c₂ cd input s₂) (f₂ : finished c₂ s₂ = true) :
    s₁.written = s₂.written := by
  obtain ⟨w1, p1, o1⟩ := output_perm_partial ok hu₁ hg h₁ f₁
  obtain ⟨w2, p2, o2⟩ := output_perm_partial ok hu₂ (hgg ▸ hg) h₂ f₂
  have hc : canon c₁ cd input = canon c₂ cd input := by
    simp only [canon, hu₁, hu₂, hgg]
  rw [w1, w2]
  exact eq_of_perm_sorted (p1.trans (hc ▸ p2.symm)) o1 o2

/-- non-vacuity: the witness codec satisfies `Codec.OK`, and a terminated
    3-block run exists. -/
theorem wCodec_ok : wCodec.OK := by
  have key : ∀ (r st : List Nat) (k : Nat),
      k ≤ (wcollect st r k).2.1 ∧ (wcollect st r k).2.1 ≤ k + r.length ∧
      ((wcollect st r k).2.2 = false → (wcollect st r k).2.1 = k + r.length) ∧
      (r ≠ [] → k + 1 ≤ (wcollect st r k).2.1) := by
    intro r
    induction r with
    | nil => intro st k; simp [wcollect]
    | cons b r ih =>
      intro st k
      simp only [wcollect]
      split
      · simp
      · have := ih (st ++ [b]) (k + 1)
        simp only [List.length_cons]
        refine ⟨by omega, by omega, fun h => ?_, fun _ => by omega⟩
        have := this.2.2.1 h; omega
  refine ⟨fun r hr => ?_, fun s r h => ?_, fun s r => ?_⟩
  · have := (key r [] 0).2.2.2 hr; simpa [wCodec] using this
  · have := (key r s 0).2.2.1 h; simp only [wCodec] at this ⊢; omega
  · have := (key r s 0).2.1; simpa [wCodec] using this

example : finished wCfg wFinal = true ∧ Reach wCfg wCodec wInput wFinal ∧ wCodec.OK ∧
    wCfg.ultra = false ∧ 0 < wCfg.inGranul ∧ wFinal.written.map (·.enc) = [[0, 1], [0, 1], [0]] :=
  ⟨wFinal_facts.2.1, wFinal_reach, wCodec_ok, rfl, by decide, wFinal_facts.2.2.2⟩

end LbzVerif.Props.C03
