/-
  Props.C03 — compressed output depends only on the input and the options.

  Scheduler side (`Model.SchedC`): what reaches the sink is determined by the
  input, `--sequential` and the chunk size alone — not by the worker count,
  the slot totals or the interleaving.  I/O side: `xread` / `xwrite` hide
  short reads and short writes.
-/
import LbzVerif.Lemmas.SchedC.CanonSorted
import LbzVerif.Lemmas.SchedC.WitnessS
import LbzVerif.Lemmas.SchedC.Wake

namespace LbzVerif.Props.C03
open LbzVerif.Gen LbzVerif.Model.SchedC

variable {α σ : Type}

/-- **xread_chunks**: whatever sizes the successive `read()` calls return
    (`frags`, each clamped to 1 … bytes wanted), `xread` stores exactly the first
    `vacant` bytes of what is left of the input (all of it if shorter) and
    leaves the rest: a chunk is short only at end of input. -/
theorem xread_chunks (src : List α) (vacant : Nat) (frags : List Nat) :
    xread src vacant frags = (src.take vacant, src.drop vacant) :=
  xread_eq src vacant frags

/-- hence the chunk list the reader thread produces is the canonical
    `in_granul`-sized cut of the input, numbered from 0, for every
    fragmentation pattern. -/
theorem reader_chunks (g : Nat) (hg : 0 < g) (frags : Nat → List Nat) (input : List α) :
    readChunks g frags (input.length + 1) 0 input = cutChunks g 0 input :=
  readChunks_eq g hg frags _ 0 input (Nat.lt_succ_self _)

example : (readChunks 2 (fun i => [1, i, 7]) 6 0 [10, 11, 12, 13, 14]).map (·.data) =
    [[10, 11], [12, 13], [14]] := by decide

/-- **xwrite_all**: whatever sizes the successive `write()` calls accept
    (each clamped to 1 … bytes left), exactly the buffer reaches the file. -/
theorem xwrite_all (buf : List α) (frags : List Nat) : xwrite buf frags = buf :=
  xwrite_eq buf frags

example : xwrite [1, 2, 3, 4, 5] [2, 0, 9] = [1, 2, 3, 4, 5] := by decide

/-- **sink order**: the writer thread writes the buffers in the order they
    were handed to `sink_write_buffer`, and those follow the `next` chain from
    (0,0) (C11 order). -/
theorem sink_prefix {c : Cfg} {cd : Codec α σ} {input : List α} {s : State α σ}
    (h : Reach c cd input s) :
    s.handed = s.written ++ s.wr.toList ++ s.outputQ ∧ Chain ⟨0, 0⟩ s.handed s.order :=
  ⟨(order_reach h).fifo, (order_reach h).chain⟩

/-- **output_canon** (both modes, full strength).  In every reachable state
    in which `can_terminate()` holds — whatever the worker count, the slot
    totals, the interleaving, the spurious wake-ups — the blocks handed to the
    sink, and the blocks written, are exactly the canonical block list
    `canon c cd input`, which is a function of the input, `--sequential` and
    the chunk size only (`canon_depends`):
    non-sequential: cut the input into chunks, `collect` repeatedly inside each
    chunk; sequential: run `collect` over the chunks in order, a block may span
    chunks.  Hypotheses: the facts `Codec.OK` about `collect()` (theorems about
    the real collector in `Props.C04.Blocks.realCodec_ok`) and a positive chunk
    size. -/
theorem output_canon {c : Cfg} {cd : Codec α σ} {input : List α} {s : State α σ}
    (ok : cd.OK) (hg : 0 < c.inGranul) (h : Reach c cd input s) (hf : finished c s = true) :
    s.written = canon c cd input ∧ s.handed = canon c cd input := by
  have r := restores_of_finished (inv1_reach h).cons (inv1_reach h).sel (reader_reach h) hf
  have hfifo := (order_reach h).fifo
  rw [r.2.2.2.2.2.1, r.2.2.2.2.2.2.1] at hfifo
  have hw : s.written = s.handed := by simpa using hfifo.symm
  have hc := handed_eq_canon ok hg h hf
  exact ⟨hw.trans hc, hc⟩

/-- the same at the end of a run: when every thread has gone (`isFinal`: what
    `primary_thread` sees after the joins; at least one worker), a worker has
    exited, which it does only when `can_terminate()` holds. -/
theorem output_final {c : Cfg} {cd : Codec α σ} {input : List α} {s : State α σ}
    (ok : cd.OK) (hg : 0 < c.inGranul) (hn : 1 ≤ c.n) (h : Reach c cd input s)
    (hfin : isFinal s = true) : s.written = canon c cd input := by
  have hall : s.ws.all (·.isExited) = true := by
    simp only [isFinal, Bool.and_eq_true] at hfin; exact hfin.1.1.1
  have hlen := (inv1_reach h).cons.nWorkers
  cases hws : s.ws with
  | nil => rw [hws] at hlen; simp at hlen; omega
  | cons p l =>
    have hp : p.isExited = true := List.all_eq_true.mp hall p (by rw [hws]; exact List.mem_cons_self)
    have : p = .exited := by cases p <;> simp [WPhase.isExited] at hp ⊢
    have hf := ((wake_reach h).exitFin (by rw [hws, this]; exact List.mem_cons_self)).1
    exact (output_canon ok hg h hf).1

/-- `canon` reads nothing of the configuration but `--sequential` and the
    chunk size: not the worker count, not the slot totals. -/
theorem canon_depends {c₁ c₂ : Cfg} (cd : Codec α σ) (input : List α)
    (hu : c₁.ultra = c₂.ultra) (hgg : c₁.inGranul = c₂.inGranul) :
    canon c₁ cd input = canon c₂ cd input := by
  simp only [canon, hu, hgg]

/-- **output_eq** (both modes, full strength).  Two terminated runs on the
    same input with the same mode and chunk size — ANY two worker counts, ANY
    slot totals, ANY two interleavings — write the same block sequence. -/
theorem output_eq {c₁ c₂ : Cfg} {cd : Codec α σ} {input : List α}
    {s₁ s₂ : State α σ} (ok : cd.OK) (hu : c₁.ultra = c₂.ultra)
    (hg : 0 < c₁.inGranul) (hgg : c₁.inGranul = c₂.inGranul)
    (h₁ : Reach c₁ cd input s₁) (f₁ : finished c₁ s₁ = true)
    (h₂ : Reach c₂ cd input s₂) (f₂ : finished c₂ s₂ = true) :
    s₁.written = s₂.written := by
  rw [(output_canon ok hg h₁ f₁).1, (output_canon ok (hgg ▸ hg) h₂ f₂).1]
  exact canon_depends cd input hu hgg

/-- the same for the concrete configurations `set_memory_constraints()`
    computes: worker counts `n₁`, `n₂` arbitrary, same level and mode. -/
theorem output_eq_gen {n₁ n₂ bs : Nat} {u : Bool} {cd : Codec α σ} {input : List α}
    {s₁ s₂ : State α σ} (ok : cd.OK) (hbs : 0 < bs)
    (h₁ : Reach (Cfg.ofGen n₁ bs u) cd input s₁) (f₁ : finished (Cfg.ofGen n₁ bs u) s₁ = true)
    (h₂ : Reach (Cfg.ofGen n₂ bs u) cd input s₂) (f₂ : finished (Cfg.ofGen n₂ bs u) s₂ = true) :
    s₁.written = s₂.written := by
  have hg : 0 < (Cfg.ofGen n₁ bs u).inGranul := by
    simp only [Cfg.ofGen, memCompress]; omega
  exact output_eq (c₁ := Cfg.ofGen n₁ bs u) (c₂ := Cfg.ofGen n₂ bs u) ok rfl hg rfl h₁ f₁ h₂ f₂

/-- **output_perm**: the multiset form together with strict position order
    (what the counting invariants `OutN` / `OutS` give directly). -/
theorem output_perm {c : Cfg} {cd : Codec α σ} {input : List α} {s : State α σ}
    (ok : cd.OK) (hg : 0 < c.inGranul) (h : Reach c cd input s)
    (hf : finished c s = true) :
    s.written = s.handed ∧ s.handed.Perm (canon c cd input) ∧
      s.handed.Pairwise (fun x y => x.pos.lt y.pos = true) := by
  obtain ⟨a, b⟩ := output_canon ok hg h hf
  exact ⟨a.trans b.symm, b ▸ List.Perm.refl _, (chain_pairwise (order_reach h).chain).1⟩

/-- `output_eq` restricted to non-sequential mode.  NOT partial any more: kept
    under its old name because `checks/C03.py` asks for it; it is a corollary of
    `output_eq`. -/
theorem output_eq_partial {c₁ c₂ : Cfg} {cd : Codec α σ} {input : List α}
    {s₁ s₂ : State α σ} (ok : cd.OK) (hu₁ : c₁.ultra = false) (hu₂ : c₂.ultra = false)
    (hg : 0 < c₁.inGranul) (hgg : c₁.inGranul = c₂.inGranul)
    (h₁ : Reach c₁ cd input s₁) (f₁ : finished c₁ s₁ = true)
    (h₂ : Reach c₂ cd input s₂) (f₂ : finished c₂ s₂ = true) :
    s₁.written = s₂.written :=
  output_eq ok (hu₁.trans hu₂.symm) hg hgg h₁ f₁ h₂ f₂

/-- non-vacuity: the witness codec satisfies `Codec.OK`, and a terminated
    3-block run exists. -/
theorem wCodec_ok : wCodec.OK := by
  have key : ∀ (r st : List Nat) (k : Nat),
      k ≤ (wcollect st r k).2.1 ∧ (wcollect st r k).2.1 ≤ k + r.length ∧
      ((wcollect st r k).2.2 = false → (wcollect st r k).2.1 = k + r.length) ∧
      (r ≠ [] → k + 1 ≤ (wcollect st r k).2.1) := by
    intro r
    induction r with
    | nil => intro st k; simp [wcollect]
    | cons b r ih =>
      intro st k
      simp only [wcollect]
      split
      · simp
      · have := ih (st ++ [b]) (k + 1)
        simp only [List.length_cons]
        refine ⟨by omega, by omega, fun h => ?_, fun _ => by omega⟩
        have := this.2.2.1 h; omega
  refine ⟨fun r hr => ?_, fun s r h => ?_, fun s r => ?_⟩
  · have := (key r [] 0).2.2.2 hr; simpa [wCodec] using this
  · have := (key r s 0).2.2.1 h; simp only [wCodec] at this ⊢; omega
  · have := (key r s 0).2.1; simpa [wCodec] using this

example : finished wCfg wFinal = true ∧ Reach wCfg wCodec wInput wFinal ∧ wCodec.OK ∧
    wCfg.ultra = false ∧ 0 < wCfg.inGranul ∧ wFinal.written.map (·.enc) = [[0, 1], [0, 1], [0]] :=
  ⟨wFinal_facts.2.1, wFinal_reach, wCodec_ok, rfl, by decide, wFinal_facts.2.2.2⟩

/-- non-vacuity in sequential mode: a terminated run whose first block ends
    inside chunk 1 and whose second block spans chunks 1–2; and the canonical
    list obtained through `output_canon`. -/
example : finished sCfg sFinal = true ∧ Reach sCfg wCodec sInput sFinal ∧
    sCfg.ultra = true ∧ 0 < sCfg.inGranul ∧
    sFinal.written.map (·.enc) = [[0, 0, 1], [0, 0, 1], [0]] ∧
    (canon sCfg wCodec sInput).map (·.enc) = [[0, 0, 1], [0, 0, 1], [0]] :=
  ⟨sFinal_facts.2.1, sFinal_reach, rfl, by decide, sFinal_facts.2.2.2, by
    rw [← (output_canon wCodec_ok (by decide) sFinal_reach sFinal_facts.2.1).1]
    exact sFinal_facts.2.2.2⟩

/-- the two witnesses differ only in mode: the outputs differ, as they may -/
example : wFinal.written.map (·.enc) ≠ sFinal.written.map (·.enc) ∨ wInput ≠ sInput := by decide

end LbzVerif.Props.C03
