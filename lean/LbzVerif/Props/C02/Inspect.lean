/-
  Props.C02.Inspect — C02 "the output is a strictly well-formed bzip2 stream"
  for the WHOLE FILE: the strict inspector `Spec.Bzip2.inspect` accepts what
  the compressor model `Model.Compress.compressFile` writes — for every input,
  level 1…9, both modes and every contract-satisfying choice of the unverified
  parts — and its report shows exactly one stream of the requested level that
  starts at bit 0 and ends at the last bit of the file (byte-aligned end,
  nothing after it), whose blocks obey the producer-side rules
  (`Lemmas.CompressInspect.BlockRules`, written out in the theorem).

  `inspect` itself enforces, for acceptance: header digit, block and
  end-of-stream magics, stored block CRC = CRC of the decoded block, combined
  CRC, decoded-RLE size ≤ level·100000, `origPtr < nblock`, 2…6 tables, every
  start value and intermediate value of the delta coding in 1…20, no
  randomised block, EVERY table (used or not) Kraft-complete, ≤ 18002
  selectors, a single stream, nothing after the padding.

  Composition: `Props.C02.Transmit.transmit_strictBlockCheck`,
  `Props.C02.numSelectors_le` (through `numSelectors_lt`),
  `Props.C01.Transmit.parse_transmit`, the block size bound from the packing
  rule (`Lemmas.Rle1Len.pack_fits` — `Props.C04.collect_pack`'s third clause),
  and the file walk `Lemmas.CompressFile.walkFile_fileOf`.
-/
import LbzVerif.Model.Compress
import LbzVerif.Lemmas.CompressInspect
import LbzVerif.Lemmas.CompressSimple
import LbzVerif.Lemmas.CompressWitness

namespace LbzVerif.Props.C02.Inspect
open LbzVerif LbzVerif.Basic LbzVerif.Model.Compress
open LbzVerif.Lemmas.CompressFile LbzVerif.Lemmas.CompressCut LbzVerif.Lemmas.CompressInspect
open LbzVerif.Spec.Bzip2

/-- **inspect_compress_gen.**  The statement with the block capacity `cap`
    (1 … level·100000) and the chunk size `granul ≥ 1` as parameters. -/
theorem inspect_compress_gen (level cap granul : Nat) (h1 : 1 ≤ level) (h9 : level ≤ 9)
    (hcap : 1 ≤ cap) (hcl : cap ≤ level * 100000) (hg : 0 < granul) (seq : Bool)
    (input : List UInt8) (choose : List UInt8 → Choice)
    (hch : ∀ b ∈ cutBlocks cap granul seq input, ChoicesOK (Spec.rle1 b) (choose (Spec.rle1 b))) :
    ∃ r sr, inspect (compressFileGen level cap granul seq input choose) = .ok r ∧
      -- the whole plaintext
      r.size = input.length ∧ r.crc = (crc32 input).toNat ∧
      -- a single stream of the requested level, from bit 0 to the last bit of the file
      r.streams = [sr] ∧ sr.level = level ∧ sr.startBit = 0 ∧
      sr.endBit = 8 * (compressFileGen level cap granul seq input choose).length ∧
      -- one record per block of the packing rule
      sr.blocks.length = (cutBlocks cap granul seq input).length ∧
      ∀ br ∈ sr.blocks,
        br.block.level = level ∧
        1 ≤ br.nblock ∧ br.nblock ≤ level * 100000 ∧
        br.block.rand = false ∧
        br.block.origPtr < br.nblock ∧
        2 ≤ br.block.nGroups ∧ br.block.nGroups ≤ 6 ∧
        br.block.tables.length = br.block.nGroups ∧
        (∀ t ∈ br.block.tables, t.length = br.block.alphaSize ∧ (∀ x ∈ t, 1 ≤ x ∧ x ≤ 20) ∧
          kraftComplete t = true) ∧
        1 ≤ br.block.selectors.length ∧ br.block.selectors.length ≤ 18002 ∧
        (∀ s ∈ br.block.selectors, s < br.block.nGroups) := by
  have hmem := cutBlocks_mem cap granul seq input
  have hb : ∀ b ∈ cutBlocks cap granul seq input, b ≠ [] ∧ (Spec.rle1 b).length ≤ level * 100000 :=
    fun b hb => ⟨(hmem b hb).1, Nat.le_trans (hmem b hb).2 hcl⟩
  have hok := itemsOf_ok level h9 choose (cutBlocks cap granul seq input) hb hch
  have hfile : compressFileGen level cap granul seq input choose =
      fileOf level (itemsOf choose (cutBlocks cap granul seq input))
        (ccOf 0 (itemsOf choose (cutBlocks cap granul seq input))).toNat := by
    unfold compressFileGen; exact assemble_eq_fileOf _ _ _
  have hwalk := walkFile_fileOf true level h1 h9 _ hok _ rfl
  rw [← hfile] at hwalk
  have hplain : plainOf (itemsOf choose (cutBlocks cap granul seq input)) = input := by
    rw [plainOf_itemsOf, cutBlocks_flatten cap granul hcap hg]
  let items := itemsOf choose (cutBlocks cap granul seq input)
  let sr0 : StreamReport :=
    { level := level, startBit := 0,
      endBit := 8 * (compressFileGen level cap granul seq input choose).length,
      storedCrc := (ccOf 0 items).toNat, blocks := reportsOf level 32 items }
  have hins : inspect (compressFileGen level cap granul seq input choose) =
      .ok { streams := [sr0], size := (plainOf items).length,
            crc := (crc32Arr (plainOf items).toArray).toNat } := by
    unfold inspect
    rw [hwalk]
    simp [sr0, items]
  refine ⟨_, sr0, hins, ?_, ?_, rfl, rfl, rfl, rfl, ?_, ?_⟩
  · show (plainOf items).length = input.length
    rw [hplain]
  · show (crc32Arr (plainOf items).toArray).toNat = (crc32 input).toNat
    rw [crc32Arr_eq, List.toList_toArray, hplain]
  · show (reportsOf level 32 items).length = _
    simp only [reportsOf_length, items, itemsOf, List.length_map]
  · intro br hbr
    obtain ⟨p, it, hit, rfl⟩ := reportsOf_mem level _ 32 br hbr
    have hit' : it ∈ (cutBlocks cap granul seq input).map
        (fun b => (compressBlock choose b, b, (Spec.rle1 b).length)) := hit
    obtain ⟨b, hbm, rfl⟩ := List.mem_map.mp hit'
    exact report_rules level h9 choose b (hb b hbm).1 (hb b hbm).2 (hch b hbm) p

/-- **inspect_compress** (C02, whole file).  For every input, level 1…9, both
    modes, and every choice function satisfying the contract on the blocks of
    this input, the strict inspector ACCEPTS `compressFile level seq input
    choose` and reports: the plaintext size and CRC of the input; exactly one
    stream, of level `level`, from bit 0 to the last bit of the file (so the
    end is byte-aligned and nothing follows); and for every block: decoded-RLE
    size `nblock` in 1 … level·100000, not randomised, `origPtr < nblock`,
    2…6 tables — one row per table, each over the block's alphabet, with
    lengths 1…20 and Kraft-complete, including tables no selector uses —,
    1…18002 selectors each naming a table. -/
theorem inspect_compress (level : Nat) (h1 : 1 ≤ level) (h9 : level ≤ 9) (seq : Bool)
    (input : List UInt8) (choose : List UInt8 → Choice)
    (hch : ∀ b ∈ cutBlocks (level * 100000) (Gen.memCompress 1 level).2.2.1 seq input,
      ChoicesOK (Spec.rle1 b) (choose (Spec.rle1 b))) :
    ∃ r sr, inspect (compressFile level seq input choose) = .ok r ∧
      r.size = input.length ∧ r.crc = (crc32 input).toNat ∧
      r.streams = [sr] ∧ sr.level = level ∧ sr.startBit = 0 ∧
      sr.endBit = 8 * (compressFile level seq input choose).length ∧
      sr.blocks.length =
        (cutBlocks (level * 100000) (Gen.memCompress 1 level).2.2.1 seq input).length ∧
      ∀ br ∈ sr.blocks,
        br.block.level = level ∧
        1 ≤ br.nblock ∧ br.nblock ≤ level * 100000 ∧
        br.block.rand = false ∧
        br.block.origPtr < br.nblock ∧
        2 ≤ br.block.nGroups ∧ br.block.nGroups ≤ 6 ∧
        br.block.tables.length = br.block.nGroups ∧
        (∀ t ∈ br.block.tables, t.length = br.block.alphaSize ∧ (∀ x ∈ t, 1 ≤ x ∧ x ≤ 20) ∧
          kraftComplete t = true) ∧
        1 ≤ br.block.selectors.length ∧ br.block.selectors.length ≤ 18002 ∧
        (∀ s ∈ br.block.selectors, s < br.block.nGroups) :=
  inspect_compress_gen level (level * 100000) (Gen.memCompress 1 level).2.2.1 h1 h9 (by omega)
    (Nat.le_refl _) (by simp only [Gen.memCompress]; omega) seq input choose hch

/-- the stream ends on a byte boundary: immediate from `endBit = 8 · length` -/
theorem inspect_compress_aligned (level : Nat) (h1 : 1 ≤ level) (h9 : level ≤ 9) (seq : Bool)
    (input : List UInt8) (choose : List UInt8 → Choice)
    (hch : ∀ b ∈ cutBlocks (level * 100000) (Gen.memCompress 1 level).2.2.1 seq input,
      ChoicesOK (Spec.rle1 b) (choose (Spec.rle1 b))) :
    ∃ r, inspect (compressFile level seq input choose) = .ok r ∧
      ∀ sr ∈ r.streams, sr.endBit % 8 = 0 ∧ sr.level = level := by
  obtain ⟨r, sr, h, _, _, hs, hl, _, he, _⟩ := inspect_compress level h1 h9 seq input choose hch
  refine ⟨r, h, ?_⟩
  intro sr' hsr
  rw [hs, List.mem_singleton] at hsr
  subst hsr
  exact ⟨by rw [he]; omega, hl⟩

/-- **inspect_compress_naive**: `inspect_compress` without any hypothesis about
    choices — for every input, level 1…9 and both modes the compressor model
    with the simple choice function (rotation-sort BWT, dummy tables;
    `Lemmas.CompressSimple.simpleChoice_ok_rle`) writes a file the strict
    inspector accepts, with the report described at `inspect_compress`. -/
theorem inspect_compress_naive (level : Nat) (h1 : 1 ≤ level) (h9 : level ≤ 9) (seq : Bool)
    (input : List UInt8) :
    ∃ r sr, inspect (compressFile level seq input simpleChoice) = .ok r ∧
      r.size = input.length ∧ r.crc = (crc32 input).toNat ∧
      r.streams = [sr] ∧ sr.level = level ∧ sr.startBit = 0 ∧
      sr.endBit = 8 * (compressFile level seq input simpleChoice).length ∧
      sr.blocks.length =
        (cutBlocks (level * 100000) (Gen.memCompress 1 level).2.2.1 seq input).length ∧
      ∀ br ∈ sr.blocks,
        br.block.level = level ∧
        1 ≤ br.nblock ∧ br.nblock ≤ level * 100000 ∧
        br.block.rand = false ∧
        br.block.origPtr < br.nblock ∧
        2 ≤ br.block.nGroups ∧ br.block.nGroups ≤ 6 ∧
        br.block.tables.length = br.block.nGroups ∧
        (∀ t ∈ br.block.tables, t.length = br.block.alphaSize ∧ (∀ x ∈ t, 1 ≤ x ∧ x ≤ 20) ∧
          kraftComplete t = true) ∧
        1 ≤ br.block.selectors.length ∧ br.block.selectors.length ≤ 18002 ∧
        (∀ s ∈ br.block.selectors, s < br.block.nGroups) :=
  inspect_compress level h1 h9 seq input simpleChoice
    (fun b hb => Lemmas.CompressSimple.simpleChoice_ok_rle b
      (cutBlocks_mem _ _ seq input b hb).1)

/-! ## non-vacuity -/

/-- `inspect_compress_naive` needs no witness: any input will do -/
example (input : List UInt8) : ∃ r, inspect (compressFile 4 false input simpleChoice) = .ok r ∧
    r.size = input.length := by
  obtain ⟨r, _, h, hs, _⟩ := inspect_compress_naive 4 (by decide) (by decide) false input
  exact ⟨r, h, hs⟩


/-- three blocks (`5 5 5 | 5 | 5 6 6`, capacity 4, default mode with chunks of
    4) and two blocks (`5 5 5 | 5 5 6 6`, `--sequential`): accepted by the
    strict inspector, one stream, three resp. two block records -/
example : ∃ r sr, inspect (compressFileGen 1 4 4 false Lemmas.CompressWitness.xInput
      simpleChoice) = .ok r ∧ r.size = 7 ∧ r.streams = [sr] ∧ sr.blocks.length = 3 := by
  obtain ⟨r, sr, h, hsz, _, hs, _, _, _, hbl, _⟩ :=
    inspect_compress_gen 1 4 4 (by decide) (by decide) (by decide) (by decide) (by decide) false
      Lemmas.CompressWitness.xInput simpleChoice Lemmas.CompressWitness.xChoices_non
  exact ⟨r, sr, h, hsz, hs, by rw [hbl, Lemmas.CompressWitness.xCut.2]; rfl⟩

example : ∃ r sr, inspect (compressFileGen 1 4 2 true Lemmas.CompressWitness.xInput
      simpleChoice) = .ok r ∧ r.size = 7 ∧ r.streams = [sr] ∧ sr.blocks.length = 2 := by
  obtain ⟨r, sr, h, hsz, _, hs, _, _, _, hbl, _⟩ :=
    inspect_compress_gen 1 4 2 (by decide) (by decide) (by decide) (by decide) (by decide) true
      Lemmas.CompressWitness.xInput simpleChoice Lemmas.CompressWitness.xChoices_seq
  exact ⟨r, sr, h, hsz, hs, by rw [hbl, Lemmas.CompressWitness.xCut.1]; rfl⟩

/-- the empty input: a stream without blocks -/
example : ∃ r sr, inspect (compressFile 3 false [] simpleChoice) = .ok r ∧ r.size = 0 ∧
    r.streams = [sr] ∧ sr.level = 3 := by
  obtain ⟨r, sr, h, hsz, _, hs, hl, _⟩ :=
    inspect_compress 3 (by decide) (by decide) false [] simpleChoice (by
      have : cutBlocks (3 * 100000) (Gen.memCompress 1 3).2.2.1 false [] = [] := by
        simp [cutBlocks, Model.SchedC.cutChunks]
      rw [this]; intro b hb; cases hb)
  exact ⟨r, sr, h, hsz, hs, hl⟩

end LbzVerif.Props.C02.Inspect
