/-
  Props.C02.Transmit — the block `transmit()` writes obeys the syntactic rules
  of C02 that concern one block: 2…6 tables, every start value and every
  intermediate value of the delta coding in 1…20, at most 18002 selectors,
  rand bit 0 — for every well-formed encoder state (Model.Transmit.WF).
-/
import LbzVerif.Model.Transmit
import LbzVerif.Lemmas.TransmitCompose
import LbzVerif.Props.C01.Transmit

namespace LbzVerif.Props.C02.Transmit
open LbzVerif LbzVerif.Basic LbzVerif.Model.Canon LbzVerif.Model.Transmit
open LbzVerif.Lemmas.TransmitLen LbzVerif.Lemmas.TransmitBits LbzVerif.Lemmas.TransmitParse
open LbzVerif.Lemmas.TransmitGroups LbzVerif.Lemmas.TransmitCompose

/-- The start value `transmit()` sends for table `t`. -/
def startValue (b : EncBlock) (t : Nat) : Nat :=
  let a0 := (b.lens.getD t []).getD 0 0
  if t = 0 then paddedStart a0 b.treePad else a0

/-- The rand bit is bit 80 of the block (after 48 magic + 32 CRC bits). -/
theorem rand_bit_zero (b : EncBlock) : (transmitBits b)[80]? = some false := by
  unfold transmitBits headerBits
  simp only [List.append_assoc]
  rw [← List.append_assoc (send 24 _), ← List.append_assoc (send 24 _ ++ send 24 _)]
  rw [List.getElem?_append_right (by simp [send_length])]
  simp [send]
  rfl

/-- **transmit_wellformed.**  For every well-formed encoder state:
    * `2 ≤ num_trees ≤ 6`;
    * `1 ≤ num_selectors ≤ 18002` (dummy selector included), so the 15-bit
      field holds it;
    * the rand bit is 0;
    * every table's 5-bit start value is in 1…20 — also the first one, moved
      `tree_pad ≤ 3` away from `len[0]` (`a < 4 → a+3 ≤ 6`, `a ≥ 4 → a−3 ≥ 1`);
    * the strict reader `Spec.readTables`, which rejects a table as soon as a
      start value or ANY intermediate value of the delta coding leaves 1…20,
      accepts all tables and returns the encoder's lengths. -/
theorem transmit_wellformed (b : EncBlock) (hw : WF b) :
    (2 ≤ b.numTrees ∧ b.numTrees ≤ 6) ∧
    (1 ≤ b.numSelectors ∧ b.numSelectors ≤ 18002 ∧ b.numSelectors < 2 ^ 15) ∧
    (transmitBits b)[80]? = some false ∧
    (∀ t, t < b.numTrees → 1 ≤ startValue b t ∧ startValue b t ≤ 20) ∧
    (∀ (pos : Nat) (rest : Bits),
      Spec.Bzip2.readTables b.alphaSize b.numTrees pos
          ((List.range b.numTrees).flatMap (tableBits b) ++ rest) #[] =
        .ok (b.lens, pos + ((List.range b.numTrees).flatMap (tableBits b)).length, rest)) := by
  have hnt2 : 2 ≤ b.numTrees := by have := hw.trees_ge; simpa [Gen.MIN_TREES] using this
  have hnt6 : b.numTrees ≤ 6 := by have := hw.trees_le; simpa [Gen.MAX_TREES] using this
  have hns := numSelectors_lt hw
  refine ⟨⟨hnt2, hnt6⟩, ⟨hns.2, hns.1, by omega⟩, rand_bit_zero b, ?_,
    fun pos rest => Props.C01.Transmit.parse_transmit_tables b hw pos rest⟩
  intro t ht
  have htl : t < b.lens.length := by rw [hw.lens_len]; exact ht
  have hg : b.lens.getD t [] = b.lens[t] := by
    simp [List.getD_eq_getElem?_getD, List.getElem?_eq_getElem htl]
  have hok := hw.lens_ok _ (List.getElem_mem htl)
  rw [← hg] at hok
  have hpos := alphaSize_pos b
  unfold startValue
  match hq : b.lens.getD t [] with
  | [] => rw [hq] at hok; simp at hok; omega
  | a0 :: rest' =>
    rw [hq] at hok
    have ha0 := hok.2 a0 (List.mem_cons_self ..)
    simp only [List.getD_cons_zero]
    split
    · have := Props.C02.treePad_in_range a0 b.treePad ha0.1 ha0.2 (treePad_le hw)
      exact ⟨this.1, this.2.1⟩
    · simpa only [Gen.MIN_CODE_LENGTH, Gen.MAX_CODE_LENGTH] using ha0

/-- With complete tables (`Coded`), the block the reference parser returns
    (`Props.C01.Transmit.parse_transmit`) passes the producer-side block rules of
    `Spec.inspect`: not randomised, every table (used or not — the dummy second
    table too) Kraft-complete, at most 18002 selectors. -/
theorem transmit_strictBlockCheck (b : EncBlock) (hw : WF b) (hc : Coded b) (level start : Nat) :
    Spec.Bzip2.strictBlockCheck (expectedBlock level start b) = .ok () := by
  have hns := numSelectors_lt hw
  have hall : (expectedBlock level start b).tables.all Spec.Bzip2.kraftComplete = true := by
    rw [List.all_eq_true]
    intro l hl
    exact kraftComplete_of_complete l (hc.complete l hl)
  have hlen : (expectedBlock level start b).selectors.length = b.numSelectors := by
    simp [expectedBlock, hw.sel_len, hw.nsel_eq]
  unfold Spec.Bzip2.strictBlockCheck
  rw [hall, hlen]
  simp only [expectedBlock, Bool.false_eq_true, if_false, Bool.not_true]
  rw [if_neg (by simp only [Spec.Bzip2.maxSelectorsStrict]; omega)]

example : 2 ≤ Props.C01.Transmit.helloBlock.numTrees ∧
    (transmitBits Props.C01.Transmit.helloBlock)[80]? = some false :=
  ⟨(transmit_wellformed _ Props.C01.Transmit.helloBlock_wf).1.1,
   (transmit_wellformed _ Props.C01.Transmit.helloBlock_wf).2.2.1⟩

example : startValue Props.C01.Transmit.helloBlock 0 = 5 ∧
    startValue Props.C01.Transmit.helloBlock 1 = 2 := by decide

example : Spec.Bzip2.strictBlockCheck (expectedBlock 1 0 Props.C01.Transmit.helloBlock) = .ok () :=
  transmit_strictBlockCheck _ Props.C01.Transmit.helloBlock_wf Props.C01.Transmit.helloBlock_coded 1 0

end LbzVerif.Props.C02.Transmit
