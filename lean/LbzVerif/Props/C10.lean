/-
  C10 — speculative block discovery never influences the output.

  Model: `Model.SchedD` (expansion scheduler, every interleaving, every
  worker count `n`, every input granularity `W`, every slot count), parametric
  in the uninterpreted `parseAt`, `retrieveFrom` and in the ARBITRARY candidate
  set `cand` the scanner reports (true and spurious block starts, including
  spurious ones that decode as complete blocks).  `seqRun c` is the sequential
  decoder over the same `parseAt`/`retrieveFrom`; it does not mention `cand`,
  `n`, `W` or the slot counts.
-/
import LbzVerif.Lemmas.SchedD.Safe3
import LbzVerif.Lemmas.SchedD.Witness
import LbzVerif.Lemmas.SchedD.Taint

namespace LbzVerif.Props.C10
open LbzVerif.Model.SchedD LbzVerif.Lemmas.SchedD LbzVerif.Gen

/-- **spec_safe** (full strength, all `n`, inputs, candidate sets, schedules).
    In every reachable state:
    * if `failf` has not been called, the sequential decoding is exactly what
      was handed to the sink so far, followed by what the blocks waiting in
      `order_q` (from their current buffer index on) and then the rest of the
      sequential parse produce — so `order_q` is the not-yet-written part of
      the sequential parse chain;
    * the sink sequence is a prefix of the sequential decoding;
    * failure is reported only if the sequential decoding fails. -/
theorem spec_safe {c : Cfg} {s : State} (h : Reach c s) :
    (s.failed = false →
      seqRun c = (s.written ++ (expect c s).1, (expect c s).2)) ∧
    s.written <+: (seqRun c).1 ∧
    (s.failed = true → (seqRun c).2 = false) := by
  have g := good_reach h
  unfold Good at g
  cases hf : s.failed with
  | false =>
    simp only [hf, Bool.false_eq_true, if_false] at g
    refine ⟨fun _ => g.main, ?_, fun h' => Bool.noConfusion h'⟩
    rw [g.main]; exact List.prefix_append _ _
  | true =>
    simp only [hf, if_true] at g
    exact ⟨fun h' => Bool.noConfusion h', g.2, fun _ => g.1⟩

/-- Every buffer passed to `sink_write_buffer` is the head of `order_q` at
    that moment (same base, same buffer index) and is not an error buffer. -/
theorem sink_only_order_head {c : Cfg} {s s' : State} {ob : OB}
    (hs : step c s (.reorder ob) = some s') (hw : s'.written ≠ s.written) :
    (∃ r, s.orderQ = (ob.base, ob.idx) :: r) ∧ s'.written = s.written ++ [(ob.base, ob.idx)] := by
  unfold step at hs
  split at hs
  · simp at hs
  · simp only at hs
    unfold stepReorder at hs
    split at hs
    · next hg =>
      simp only [Bool.and_eq_true, List.contains_iff_mem, beq_iff_eq] at hg
      obtain ⟨⟨⟨_, hsel⟩, _⟩, hmin⟩ := hg
      split at hs
      · simp only [Option.some.injEq] at hs; subst hs; exact absurd rfl hw
      · next hb =>
        have hb' : dReorderBogus (view c s) = false := by simpa using hb
        have hr := reorder_head hsel hmin hb'
        split at hs <;> simp only [Option.some.injEq] at hs <;> subst hs
        · exact absurd rfl hw
        · exact ⟨hr, rfl⟩
        · exact ⟨hr, rfl⟩
    · simp at hs

/-- Bogus blocks (`base <` head of `order_q`, or `order_q` empty once parsing
    is done) are freed without reaching the sink; the slot comes back. -/
theorem bogus_dropped {c : Cfg} {s s' : State} {ob : OB}
    (hs : step c s (.reorder ob) = some s') (hb : dReorderBogus (view c s) = true) :
    s'.written = s.written ∧ s'.outSlots = s.outSlots + 1 ∧ s'.failed = false := by
  unfold step at hs
  split at hs
  · simp at hs
  · next hf =>
    simp only at hs
    unfold stepReorder at hs
    split at hs
    · simp only [hb, if_true, Option.some.injEq] at hs; subst hs
      exact ⟨rfl, rfl, by simpa using hf⟩
    · simp at hs

/-- An `unord_blk` is flagged legitimate only for the block the parser has just
    arrived at: the job that owns a legitimate entry decodes the LAST parsed
    block (its end is the origin of the next header parse). -/
theorem legit_only_at_parser_base {c : Cfg} {s : State} (h : Reach c s) (hf : s.failed = false)
    {j : Job} {f : UF} (hj : j ∈ s.retrQ ∨ ∃ k, Phase.retr j k ∈ s.busy)
    (hu : j.ub = some f) (hl : f.complete = true ∧ f.legit = true) :
    (rres c j.base).e = s.gnext := by
  have g := good_reach h
  simp only [Good, hf, Bool.false_eq_true, if_false] at g
  have hm : LbzVerif.Lemmas.SchedD.Job.mc j = true := by
    simp [LbzVerif.Lemmas.SchedD.Job.mc, hu, hl.1, hl.2]
  rcases hj with hj | ⟨k, hk⟩
  · exact (g.jobs j hj).2.1 hm
  · exact (g.busy _ hk).2.1 hm

/-- No retrieve job is ever attached behind `head_offs` (it would decode
    released input), hence none ever acts as master, is taken over by the parser
    or reaches the sink: the model's ghost `taint` flag is never set, and no
    job, emit job, buffer or unord_blk is ever marked corrupt. -/
theorem no_stale_data {c : Cfg} {s : State} (h : Reach c s) :
    s.taint = false ∧ (∀ j ∈ s.retrQ, j.corrupt = false) ∧ (∀ o ∈ s.reordQ, o.corrupt = false) :=
  let t := ti_reach h
  ⟨t.tt, t.jq, t.ob⟩

/-- Non-vacuity: on the F4/F2 witness shape (one real block, four spurious
    candidates, n = 2) a run reaches clean termination having written exactly
    the sequential output `[(1,0)]`, and passes through states where spurious
    entries sit in `unord_q`. -/
example : ∃ s, Reach cfgF4 s ∧ terminated cfgF4 s = true ∧ s.written = [(1, 0)]
    ∧ seqRun cfgF4 = ([(1, 0)], true) := by
  have h : (run cfgF4 (init cfgF4) traceF2).any
      (fun s => terminated cfgF4 s && decide (s.written = [(1, 0)])
        && decide (seqRun cfgF4 = ([(1, 0)], true))) = true := by decide +kernel
  cases hr : run cfgF4 (init cfgF4) traceF2 with
  | none => simp [hr] at h
  | some s =>
    simp only [hr, Option.any_some, Bool.and_eq_true, decide_eq_true_eq] at h
    exact ⟨s, reach_run _ Reach.init hr, h.1.1, h.1.2, h.2⟩

end LbzVerif.Props.C10
