/-
  C09 (scheduler half) — the decompression result does not depend on the
  worker count, the schedule, the input granularity, the slot counts or the
  candidate set: a run of `Model.SchedD` that is over produced what the
  sequential decoder `seqRun` produces, and `seqRun` reads none of those.
-/
import LbzVerif.Lemmas.SchedD.Safe3
import LbzVerif.Lemmas.SchedD.Witness
import LbzVerif.Lemmas.SchedD.Holder2

namespace LbzVerif.Props.C09.Sched
open LbzVerif.Model.SchedD LbzVerif.Lemmas.SchedD LbzVerif.Gen

/-- The reference result reads only `parseAt`, `retrieveFrom` and the input
    length: two configurations that differ in `n`, `W`, slot counts, `ultra`
    and the scanner's candidate set have the same reference result. -/
theorem seqRun_indep (c1 c2 : Cfg) (hp : c1.parseAt = c2.parseAt)
    (hr : c1.retrieveFrom = c2.retrieveFrom) (hT : c1.T = c2.T) : seqRun c1 = seqRun c2 := by
  have e1 : pres c1 = pres c2 := by funext p; simp [pres, hp, hT]
  have e2 : rres c1 = rres c2 := by funext b; simp [rres, hr, hT]
  have e3 : blockOut c1 = blockOut c2 := by funext b i; simp [blockOut, e2]
  have e4 : ∀ f p, seqFrom c1 f p = seqFrom c2 f p := by
    intro f
    induction f with
    | zero => intro p; rfl
    | succ f ih => intro p; simp only [seqFrom, e1, e2, e3, ih]
  simp [seqRun, hT, e4]

/-- **output_eq, failure side** (full strength): a run that ended in `failf`
    happens only on inputs whose sequential decoding fails, and what it handed
    to the sink is a prefix of the sequential output. -/
theorem output_eq_failed {c : Cfg} {s : State} (h : Reach c s) (hf : s.failed = true) :
    (seqRun c).2 = false ∧ s.written <+: (seqRun c).1 := by
  have g := good_reach h
  simp only [Good, hf, if_true] at g
  exact g

/-- success side, given that `order_q` is empty (auxiliary; the hypothesis is
    discharged by `terminated_order_empty` in `output_eq` below) -/
theorem output_eq_of_order_empty {c : Cfg} {s : State} (h : Reach c s) (ht : terminated c s = true)
    (ho : s.orderQ = []) : seqRun c = (s.written, true) := by
  simp only [terminated, Bool.and_eq_true, Bool.not_eq_true'] at ht
  obtain ⟨⟨hf, hc⟩, _⟩ := ht
  have hpd : s.pdone = true := by
    simp only [dCanTerminate, view, Bool.and_eq_true] at hc
    exact hc.1.1.1.2
  have g := good_reach h
  simp only [Good, hf, Bool.false_eq_true, if_false] at g
  have := g.main
  simpa [expect, future, ho, hpd, orderOut] using this

/-- **output_eq** (full strength; every `n`, input granularity, slot count,
    candidate set, `parseAt`/`retrieveFrom` and every interleaving): a run that
    terminated — all workers left the loop: `can_terminate` holds and nothing
    is selectable — handed exactly the sequential output to the sink, and the
    sequential decoding succeeds.  With `output_eq_failed` and `seqRun_indep`:
    result and status are those of the sequential run, whatever the
    configuration and the schedule.  (`order_q` is empty at termination because
    every entry keeps a producer holding a work unit or an output slot:
    `Lemmas/SchedD/Holder2.lean: terminated_order_empty`.) -/
theorem output_eq {c : Cfg} {s : State} (h : Reach c s) (ht : terminated c s = true) :
    seqRun c = (s.written, true) :=
  output_eq_of_order_empty h ht (terminated_order_empty h ht)

/-- Non-vacuity of `output_eq`: the F2 witness run (n = 2, four spurious
    candidates) terminates with `order_q` empty. -/
example : ∃ s, Reach cfgF4 s ∧ terminated cfgF4 s = true ∧ s.orderQ = [] := by
  have h : (run cfgF4 (init cfgF4) traceF2).any
      (fun s => terminated cfgF4 s && decide (s.orderQ = [])) = true := by decide +kernel
  cases hr : run cfgF4 (init cfgF4) traceF2 with
  | none => simp [hr] at h
  | some s =>
    simp only [hr, Option.any_some, Bool.and_eq_true, decide_eq_true_eq] at h
    exact ⟨s, reach_run _ Reach.init hr, h.1, h.2⟩

end LbzVerif.Props.C09.Sched
