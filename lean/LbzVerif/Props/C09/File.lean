/-
  C09 (file level) — the decompression scheduler, run on the instance built
  from a concrete FILE, writes exactly what the sequential decompressor
  `Model.Expand.expandFile` writes, whatever the worker count, the input
  granularity, the slot counts, `ultra`, the scanner's candidate set and the
  interleaving.

  `Lemmas.ExpandSched.cfgOf bs100k rest …` instantiates the abstract input
  functions of `Model.SchedD` (`parseAt`, `retrieveFrom`) with the functions
  underlying `expandFile` (position unit: one bit of the zero-padded input after
  the 4-byte header); `Lemmas.ExpandSched.render bs100k rest (b, i)` is the
  bytes of the sink record `(b, i)` (one output buffer per block: `i = 0`).
  The theorems compose `Props.C09.Sched.output_eq` / `output_eq_failed` (the
  scheduler against its sequential reference `seqRun`) with
  `Lemmas.ExpandSched.seqRun_expandRest` (`seqRun` of the instance against
  `expandRest`).
-/
import LbzVerif.Lemmas.ExpandSched
import LbzVerif.Lemmas.ExpandTop
import LbzVerif.Props.C09.Sched

namespace LbzVerif.Props.C09.File
open LbzVerif LbzVerif.Model.SchedD LbzVerif.Model.Expand
open LbzVerif.Lemmas.ExpandSched (cfgOf render seqRun_expandRest fileA cfgA traceA cfgB traceB
  runA_terminates runB_terminates render_fileA)

/-- **The sequential reference of the instance is `expandRest`**: `expandRest` answers
    `ok y` iff `seqRun` of the instance succeeds and `y` is its sink records, rendered. -/
theorem seqRun_is_expandRest (bs100k : Nat) (rest : List UInt8) (n W totalIn totalOut : Nat)
    (ultra : Bool) (cand : List Nat) (y : List UInt8) :
    expandRest bs100k rest = .ok y ↔
      ∃ recs, seqRun (cfgOf bs100k rest n W totalIn totalOut ultra cand) = (recs, true) ∧
        y = recs.flatMap (render bs100k rest) := by
  have h := seqRun_expandRest bs100k rest n W totalIn totalOut ultra cand
  constructor
  · intro hy
    cases hb : (seqRun (cfgOf bs100k rest n W totalIn totalOut ultra cand)).2 with
    | false =>
      obtain ⟨e, he⟩ := h.2 hb
      rw [he] at hy
      cases hy
    | true =>
      have h1 := h.1 hb
      rw [hy] at h1
      injection h1 with h1
      exact ⟨(seqRun (cfgOf bs100k rest n W totalIn totalOut ultra cand)).1, by rw [← hb], h1⟩
  · rintro ⟨recs, hs, rfl⟩
    have h1 := h.1 (by rw [hs])
    rw [hs] at h1
    exact h1

/-- Non-vacuity: on the one-block file `fileA` ("a" compressed) the sequential reference of the
    instance succeeds with the one record `(80, 0)`, and `expandRest` answers `ok "a"`. -/
example : seqRun cfgA = ([(80, 0)], true) ∧ expandRest 9 (fileA.drop 4) = .ok [97] := by
  decide +kernel

/-- The same for the failure side: `expandRest` rejects iff `seqRun` of the instance fails. -/
theorem seqRun_fails_iff (bs100k : Nat) (rest : List UInt8) (n W totalIn totalOut : Nat)
    (ultra : Bool) (cand : List Nat) :
    (∃ e, expandRest bs100k rest = .error e) ↔
      (seqRun (cfgOf bs100k rest n W totalIn totalOut ultra cand)).2 = false := by
  have h := seqRun_expandRest bs100k rest n W totalIn totalOut ultra cand
  constructor
  · rintro ⟨e, he⟩
    cases hb : (seqRun (cfgOf bs100k rest n W totalIn totalOut ultra cand)).2 with
    | false => rfl
    | true =>
      have h1 := h.1 hb
      rw [he] at h1
      cases h1
  · exact h.2

/-- Non-vacuity / shape of the instance: a 5-byte rest is zero-padded to two 32-bit words,
    i.e. 64 positions; with no input at all there is no position. -/
example : (cfgOf 9 [1, 2, 3, 4, 5] 2 1 4 4 false []).T = 64 := by decide
example : (cfgOf 9 [] 2 1 4 4 false []).T = 0 := by decide

/-- **A terminated run of the scheduler model on the instance built from a file writes exactly
    `expandFile`'s output** (and `expandFile` accepts the file): for every worker count `n`,
    input granularity `W`, slot counts, `ultra`, candidate set and interleaving. -/
theorem sched_output_is_expandFile (x : List UInt8) (hh : Lemmas.Copy.hasHeader x = true)
    (n W totalIn totalOut : Nat) (ultra : Bool) (cand : List Nat) {s : State}
    (hr : Reach (cfgOf (Lemmas.Copy.headerLevel x) (x.drop 4) n W totalIn totalOut ultra cand) s)
    (ht : terminated (cfgOf (Lemmas.Copy.headerLevel x) (x.drop 4) n W totalIn totalOut ultra cand) s
      = true) :
    expandFile x = .ok (s.written.flatMap (render (Lemmas.Copy.headerLevel x) (x.drop 4))) := by
  rw [Lemmas.ExpandTop.expandFile_eq, if_pos hh]
  have h := Props.C09.Sched.output_eq hr ht
  have h2 := (seqRun_expandRest (Lemmas.Copy.headerLevel x) (x.drop 4) n W totalIn totalOut ultra
    cand).1 (by rw [h])
  rw [h] at h2
  exact h2

/-- Non-vacuity of `sched_output_is_expandFile`: on the real one-block file `fileA` the run
    `traceA` terminates (kernel-evaluated: parser, retriever, decoder, emitter and CRC of the
    model on these bytes), it handed the record `(80, 0)` to the sink, and the theorem turns
    that into `expandFile fileA = ok "a"`. -/
example : ∃ s, Reach (cfgOf (Lemmas.Copy.headerLevel fileA) (fileA.drop 4) 2 1000 2 2 false []) s ∧
    terminated (cfgOf (Lemmas.Copy.headerLevel fileA) (fileA.drop 4) 2 1000 2 2 false []) s = true ∧
    s.written = [(80, 0)] ∧ expandFile fileA = .ok [97] := by
  have hl : Lemmas.Copy.headerLevel fileA = 9 := by decide
  have h := runA_terminates
  have hren := render_fileA
  cases hr : run cfgA (init cfgA) traceA with
  | none => rw [hr] at h; cases h
  | some s =>
    rw [hr] at h
    simp only [Option.any_some, Bool.and_eq_true, decide_eq_true_eq] at h
    have hreach : Reach cfgA s := reach_run _ Reach.init hr
    rw [hl]
    refine ⟨s, hreach, h.1, h.2, ?_⟩
    have := sched_output_is_expandFile fileA (by decide) 2 1000 2 2 false [] (s := s)
      (by rw [hl]; exact hreach) (by rw [hl]; exact h.1)
    rw [this, hl, h.2]
    simp only [List.flatMap_cons, List.flatMap_nil, List.append_nil, hren]

/-- **A run that ended in `failf` happens only on files `expandFile` rejects.** -/
theorem sched_failed_is_expandFile_error (x : List UInt8) (hh : Lemmas.Copy.hasHeader x = true)
    (n W totalIn totalOut : Nat) (ultra : Bool) (cand : List Nat) {s : State}
    (hr : Reach (cfgOf (Lemmas.Copy.headerLevel x) (x.drop 4) n W totalIn totalOut ultra cand) s)
    (hf : s.failed = true) : ∃ e, expandFile x = .error e := by
  rw [Lemmas.ExpandTop.expandFile_eq, if_pos hh]
  exact (seqRun_expandRest (Lemmas.Copy.headerLevel x) (x.drop 4) n W totalIn totalOut ultra
    cand).2 (Props.C09.Sched.output_eq_failed hr hf).1

/-- a file that is only the 4-byte header "BZh9" -/
def fileH : List UInt8 := [0x42, 0x5a, 0x68, 0x39]

/-- Non-vacuity of `sched_failed_is_expandFile_error`: on the header-only file the parser runs
    into the end of the input inside a stream (ERR_EOF) and the run ends in `failf`. -/
example : ∃ s, Reach (cfgOf (Lemmas.Copy.headerLevel fileH) (fileH.drop 4) 1 1 1 1 false []) s ∧
    s.failed = true ∧ ∃ e, expandFile fileH = .error e := by
  have hl : Lemmas.Copy.headerLevel fileH = 9 := by decide
  have h : (run (cfgOf 9 (fileH.drop 4) 1 1 1 1 false []) (init (cfgOf 9 (fileH.drop 4) 1 1 1 1 false []))
      [.rTake, .rEmpty, .rEof, .parseStart, .parseEnd]).any (fun s => s.failed) = true := by
    decide +kernel
  cases hr : run (cfgOf 9 (fileH.drop 4) 1 1 1 1 false []) (init (cfgOf 9 (fileH.drop 4) 1 1 1 1 false []))
      [.rTake, .rEmpty, .rEof, .parseStart, .parseEnd] with
  | none => rw [hr] at h; cases h
  | some s =>
    rw [hr] at h
    simp only [Option.any_some] at h
    have hreach := reach_run _ Reach.init hr
    refine ⟨s, by rw [hl]; exact hreach, h, ?_⟩
    exact sched_failed_is_expandFile_error fileH (by decide) 1 1 1 1 false [] (s := s)
      (by rw [hl]; exact hreach) h

/-- Corollary: on a file `expandFile` rejects no run of the scheduler terminates cleanly. -/
theorem rejected_never_terminates (x : List UInt8) (hh : Lemmas.Copy.hasHeader x = true)
    (e : Err) (he : expandFile x = .error e)
    (n W totalIn totalOut : Nat) (ultra : Bool) (cand : List Nat) {s : State}
    (hr : Reach (cfgOf (Lemmas.Copy.headerLevel x) (x.drop 4) n W totalIn totalOut ultra cand) s) :
    terminated (cfgOf (Lemmas.Copy.headerLevel x) (x.drop 4) n W totalIn totalOut ultra cand) s
      = false := by
  cases ht : terminated (cfgOf (Lemmas.Copy.headerLevel x) (x.drop 4) n W totalIn totalOut ultra
      cand) s with
  | false => rfl
  | true =>
    have := sched_output_is_expandFile x hh n W totalIn totalOut ultra cand hr ht
    rw [he] at this
    cases this

/-- Non-vacuity of `rejected_never_terminates`: the header-only file is rejected (ERR_EOF). -/
example : Lemmas.Copy.hasHeader fileH = true ∧ expandFile fileH = .error (.data Gen.ERR_EOF) := by
  decide +kernel

/-- Corollary: on a file `expandFile` accepts no run of the scheduler ends in `failf`, and a
    run that terminated wrote exactly the accepted output. -/
theorem accepted_never_fails (x : List UInt8) (hh : Lemmas.Copy.hasHeader x = true)
    (y : List UInt8) (hy : expandFile x = .ok y)
    (n W totalIn totalOut : Nat) (ultra : Bool) (cand : List Nat) {s : State}
    (hr : Reach (cfgOf (Lemmas.Copy.headerLevel x) (x.drop 4) n W totalIn totalOut ultra cand) s) :
    s.failed = false ∧
    (terminated (cfgOf (Lemmas.Copy.headerLevel x) (x.drop 4) n W totalIn totalOut ultra cand) s
      = true → s.written.flatMap (render (Lemmas.Copy.headerLevel x) (x.drop 4)) = y) := by
  constructor
  · cases hf : s.failed with
    | false => rfl
    | true =>
      obtain ⟨e, he⟩ := sched_failed_is_expandFile_error x hh n W totalIn totalOut ultra cand hr hf
      rw [hy] at he
      cases he
  · intro ht
    have := sched_output_is_expandFile x hh n W totalIn totalOut ultra cand hr ht
    rw [hy] at this
    injection this with this
    exact this.symm

/-- Non-vacuity of `accepted_never_fails`: `fileA` is accepted. -/
example : Lemmas.Copy.hasHeader fileA = true ∧ expandFile fileA = .ok [97] := by
  decide +kernel

/-- Corollary (C09 for files): two terminated runs on the same file — different worker counts,
    input granularities, slot counts, `ultra`, candidate sets, schedules — wrote the same
    bytes. -/
theorem sched_output_indep (x : List UInt8) (hh : Lemmas.Copy.hasHeader x = true)
    (n1 W1 in1 out1 : Nat) (u1 : Bool) (cand1 : List Nat)
    (n2 W2 in2 out2 : Nat) (u2 : Bool) (cand2 : List Nat) {s1 s2 : State}
    (hr1 : Reach (cfgOf (Lemmas.Copy.headerLevel x) (x.drop 4) n1 W1 in1 out1 u1 cand1) s1)
    (ht1 : terminated (cfgOf (Lemmas.Copy.headerLevel x) (x.drop 4) n1 W1 in1 out1 u1 cand1) s1
      = true)
    (hr2 : Reach (cfgOf (Lemmas.Copy.headerLevel x) (x.drop 4) n2 W2 in2 out2 u2 cand2) s2)
    (ht2 : terminated (cfgOf (Lemmas.Copy.headerLevel x) (x.drop 4) n2 W2 in2 out2 u2 cand2) s2
      = true) :
    s1.written.flatMap (render (Lemmas.Copy.headerLevel x) (x.drop 4)) =
      s2.written.flatMap (render (Lemmas.Copy.headerLevel x) (x.drop 4)) := by
  have a := sched_output_is_expandFile x hh n1 W1 in1 out1 u1 cand1 hr1 ht1
  have b := sched_output_is_expandFile x hh n2 W2 in2 out2 u2 cand2 hr2 ht2
  rw [a] at b
  injection b

/-- Non-vacuity of `sched_output_indep`: two terminated runs on `fileA` under different
    configurations (`cfgA`: two workers, one input block, run `traceA`; `cfgB`: one worker, five
    input blocks of 64 bits, `ultra`, a spurious scanner candidate, run `traceB`). -/
example : ∃ s1 s2, Reach cfgA s1 ∧ terminated cfgA s1 = true ∧
    Reach cfgB s2 ∧ terminated cfgB s2 = true := by
  have h1 := runA_terminates
  have h2 := runB_terminates
  cases hr1 : run cfgA (init cfgA) traceA with
  | none => rw [hr1] at h1; cases h1
  | some s1 =>
    cases hr2 : run cfgB (init cfgB) traceB with
    | none => rw [hr2] at h2; cases h2
    | some s2 =>
      rw [hr1] at h1
      rw [hr2] at h2
      simp only [Option.any_some, Bool.and_eq_true, decide_eq_true_eq] at h1 h2
      exact ⟨s1, s2, reach_run _ Reach.init hr1, h1.1, reach_run _ Reach.init hr2, h2.1⟩

end LbzVerif.Props.C09.File
