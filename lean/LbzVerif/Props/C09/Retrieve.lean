/-
  Props.C09.Retrieve — the block retriever gives the same result however its
  input is cut into segments, and its fast decoding branch is equivalent to
  the slow one (W15; also serves C08).

  Model: `Model.Retrieve` (the whole of `retrieve()` in src/decode.c with its
  seven resume states, the bit buffer, `NEED` / `NEED_FAST`, the fast and the
  slow group branch; tied to the C code by checks/w15_retrieve.py, which
  compares the real function with the model at every split point).

  * `retrieve_split`      ∀ state, ∀ segmentation: segment-by-segment = one call.
  * `fast_eq_slow`        ∀ state, ∀ segment: the retriever = the retriever
                          with the fast branch deleted; `fast_eq_slow_group`
                          is the statement for one group.
  * `fast_no_overread`    the fast branch never reads at `limit` (C08);
  * `fast_reads_within_segment`  … and takes at most `Gen.fastWords` words, all
                          from the front of the segment (via `C08.fastpath_refills`).
  * `retrieve_empty_resume`  why empty middle segments are excluded: the C
                          code asserts (and would answer ERR_EOF under NDEBUG).
-/
import LbzVerif.Lemmas.RetrieveSplit
import LbzVerif.Lemmas.RetrieveFast
import LbzVerif.Props.C08.Arith

namespace LbzVerif.Props.C09.Retrieve
open LbzVerif LbzVerif.Model.Retrieve
open LbzVerif.Lemmas.RetrieveSplit LbzVerif.Lemmas.RetrieveFast

/-- All segments but the last are non-empty. -/
def MiddleNonEmpty : List (List Nat) → Prop
  | [] => True
  | [_] => True
  | s :: s2 :: rest => s ≠ [] ∧ MiddleNonEmpty (s2 :: rest)

/-- The segmentations `retrieve()` may legally be driven with from state `st`:
every segment except the last holds at least one word — except that the very
first call of a block (`S_INIT`) may find no word at all.  (The caller,
`do_retrieve` in expand.c, attaches a retriever only when `can_attach` holds:
a word is available, or the input has ended.)  The LAST segment may be empty. -/
def Admissible (st : St) : List (List Nat) → Prop
  | s :: s2 :: rest => (s ≠ [] ∨ st.pc = .init) ∧ MiddleNonEmpty (s2 :: rest)
  | _ => True

theorem admissible_of_middle (st : St) (segs : List (List Nat)) (h : MiddleNonEmpty segs) :
    Admissible st segs := by
  match segs, h with
  | [], _ => trivial
  | [_], _ => trivial
  | _ :: _ :: _, h => exact ⟨Or.inl h.1, h.2⟩

theorem normPc_ne_init (st : St) (h : normPc st = st) : st.pc ≠ .init := by
  intro hi
  unfold normPc at h
  rw [if_pos hi] at h
  have : ({ st with pc := Pc.bwtIdx } : St).pc = st.pc := by rw [h]
  rw [hi] at this
  cases this

theorem halt_ne_more (h : Halt) : h.toStatus ≠ .more := by cases h <;> simp [Halt.toStatus]

/-- The step of `retrieve_split`: one call on `a ++ b` (end of input after
`b`) = one call on `a` without end of input and, if it answers MORE, a second
call on `b`. -/
theorem retrieve_append (st : St) (a b : List Nat) (ha : a ≠ [] ∨ st.pc = .init) :
    retrieve st (a ++ b) true =
      match (retrieve st a false).status with
      | .more => retrieve (retrieve st a false).st b true
      | _ => (retrieve st a false).addRest b := by
  -- the two runs, fast branch removed
  have key : (run true st (a ++ b)).result true =
      match ((run true st a).result false).status with
      | .more => retrieve ((run true st a).result false).st b true
      | _ => ((run true st a).result false).addRest b := by
    rw [run_fast_eq_slow, run_fast_eq_slow, run_append]
    cases hr : run false st a with
    | halt h s rest =>
      simp only [RunOut.result, addRestR]
      cases h <;> rfl
    | susp st' =>
      obtain ⟨hw, hn⟩ := run_susp false st a st' hr
      have hpc := normPc_ne_init st' hn
      show (run false st' b).result true = retrieve st' b true
      unfold retrieve retrieveWith
      rw [if_neg hpc]
      by_cases hb : b = []
      · subst hb
        rw [if_pos rfl, if_pos rfl]
        unfold run
        rw [toTop_at_need st' hw hn]
        rfl
      · rw [if_neg hb, if_neg (show ¬ 32 ≤ st'.w by omega), run_fast_eq_slow]
  unfold retrieve retrieveWith
  by_cases hi : st.pc = .init
  · rw [if_pos hi, if_pos hi]
    exact key
  · have ha' : a ≠ [] := by
      cases ha with
      | inl h => exact h
      | inr h => exact absurd h hi
    have hab : a ++ b ≠ [] := by
      intro h; exact ha' (List.append_eq_nil_iff.mp h).1
    rw [if_neg hi, if_neg hi, if_neg hab, if_neg ha']
    by_cases hw : 32 ≤ st.w
    · rw [if_pos hw, if_pos hw]; rfl
    · rw [if_neg hw, if_neg hw]
      exact key

/-- After MORE the state is a proper resume state (not `S_INIT`). -/
theorem retrieve_more_pc (st : St) (a : List Nat) (eof : Bool)
    (h : (retrieve st a eof).status = .more) : (retrieve st a eof).st.pc ≠ .init := by
  have key : ((run true st a).result eof).status = .more →
      ((run true st a).result eof).st.pc ≠ .init := by
    intro h
    cases hr : run true st a with
    | halt r s rest =>
      rw [hr] at h
      exact absurd h (halt_ne_more r)
    | susp st' =>
      obtain ⟨_, hn⟩ := run_susp true st a st' hr
      exact normPc_ne_init st' hn
  unfold retrieve retrieveWith at h ⊢
  by_cases hi : st.pc = .init
  · rw [if_pos hi] at h ⊢; exact key h
  · rw [if_neg hi] at h ⊢
    by_cases ha : a = []
    · rw [if_pos ha] at h ⊢
      cases eof <;> simp at h
    · rw [if_neg ha] at h ⊢
      by_cases hw : 32 ≤ st.w
      · rw [if_pos hw] at h; simp at h
      · rw [if_neg hw] at h ⊢; exact key h

/-- **retrieve_split (C09).**  For every state of the retriever (in particular
the initial one, with any bit-buffer contents), every word list and EVERY
admissible segmentation of it — one-word segments, an empty first segment of a
fresh block, an empty last segment, anything — feeding the segments one call
at a time (`eof` only with the last; further calls only after MORE) gives
exactly the result of ONE call on the whole list: same status, same final
state — bit position (`v`, `w`, unread words), `rand`, `bwt_idx`, block size,
the bytes written to `tt`, `ftab`; for MORE / ERR_EOF the same complete resume
state. -/
theorem retrieve_split : ∀ (segs : List (List Nat)) (st : St), Admissible st segs →
    retrieveAll st segs = retrieve st segs.flatten true := by
  intro segs
  induction segs with
  | nil => intro st _; rfl
  | cons s tl ih =>
    intro st hadm
    cases tl with
    | nil =>
      show retrieveWith true st s true = retrieve st ([s].flatten) true
      simp only [List.flatten_cons, List.flatten_nil, List.append_nil]; rfl
    | cons s2 rest =>
      obtain ⟨h1, h2⟩ := hadm
      have hflat : (s :: s2 :: rest).flatten = s ++ (s2 :: rest).flatten := rfl
      rw [hflat, retrieve_append st s _ h1]
      show (match (retrieveWith true st s false).status with
            | .more => retrieveAllWith true (retrieveWith true st s false).st (s2 :: rest)
            | _ => (retrieveWith true st s false).addRest (s2 :: rest).flatten) = _
      cases hs : (retrieveWith true st s false).status with
      | more =>
        have hs' : (retrieve st s false).status = .more := hs
        rw [hs']
        simp only
        exact ih _ (admissible_of_middle _ _ h2)
      | ok => have hs' : (retrieve st s false).status = .ok := hs; rw [hs']; rfl
      | err c => have hs' : (retrieve st s false).status = .err c := hs; rw [hs']; rfl
      | ub => have hs' : (retrieve st s false).status = .ub := hs; rw [hs']; rfl
      | overread => have hs' : (retrieve st s false).status = .overread := hs; rw [hs']; rfl
      | assertFail => have hs' : (retrieve st s false).status = .assertFail := hs; rw [hs']; rfl

/-- Why empty middle segments are excluded: a RESUMED call that finds no word
and no end of input trips `assert(bs->eof)` in the C code (the model's
`assertFail`; with `-DNDEBUG` the code would answer ERR_EOF — either way not
MORE).  `do_retrieve` never makes such a call (`can_attach`). -/
theorem retrieve_empty_resume (st : St) (h : st.pc ≠ .init) :
    (retrieve st [] false).status = .assertFail := by
  unfold retrieve retrieveWith
  rw [if_neg h]; rfl

/-- **fast_eq_slow (C09 / C08), one group.**  Whenever the guard of the fast
branch holds — at least `Gen.fastWords` (32) words remain in the segment — the
fast branch (`NEED_FAST`, locals, one tree pointer) and the slow branch
(`NEED(S_PREFIX)` per symbol), started after tree selection in the same state
on the same words, end the group identically: same state at the top of the
next group, or the same final result / error, and the same unread words. -/
theorem fast_eq_slow_group (st1 : St) (ws : List Nat) (h : Gen.fastWords ≤ ws.length) :
    fastGroup st1 ws = toTop { st1 with pc := .prefix, j := 0 } ws :=
  group_fast_eq_slow st1 ws h

/-- **fast_eq_slow (C09), whole call**: `retrieve()` = `retrieve()` with the
fast branch deleted, for every state, segment and `eof` flag. -/
theorem fast_eq_slow (st : St) (ws : List Nat) (eof : Bool) :
    retrieve st ws eof = retrieveSlow st ws eof := by
  unfold retrieve retrieveSlow retrieveWith
  rw [run_fast_eq_slow]

/-- … and therefore for every segmentation. -/
theorem fast_eq_slow_all : ∀ (segs : List (List Nat)) (st : St),
    retrieveAll st segs = retrieveAllWith false st segs := by
  intro segs
  induction segs with
  | nil => intro st; exact fast_eq_slow st [] true
  | cons s tl ih =>
    intro st
    cases tl with
    | nil => exact fast_eq_slow st s true
    | cons s2 rest =>
      show (match (retrieveWith true st s false).status with
            | .more => retrieveAllWith true (retrieveWith true st s false).st (s2 :: rest)
            | _ => (retrieveWith true st s false).addRest (s2 :: rest).flatten) =
           (match (retrieveWith false st s false).status with
            | .more => retrieveAllWith false (retrieveWith false st s false).st (s2 :: rest)
            | _ => (retrieveWith false st s false).addRest (s2 :: rest).flatten)
      have e : retrieveWith true st s false = retrieveWith false st s false := fast_eq_slow st s false
      rw [e]
      cases (retrieveWith false st s false).status <;> first | rfl | exact ih _

/-- **fast_no_overread (C08).**  Entered under its guard (≥ `Gen.fastWords`
words left, any buffer fill), the fast branch never executes `NEED_FAST` with
`next == limit`: for every tree, every 50-symbol group, whatever the code
lengths (they are ≤ 20 by construction of the lookup).  The arithmetic is that
of `Props.C08.fastpath_consts`: 50·20 + 12 ≤ 32·32 + w. -/
theorem fast_no_overread (T : Model.Canon.Tree) (v w : Nat) (ws : List Nat)
    (rs : Model.MtfDec.RunSt) (h : Gen.fastWords ≤ ws.length) (rest : List Nat) :
    fastLoop T Gen.GROUP_SIZE v w ws rs ≠ .stop .overread rest := by
  have hfw : Gen.fastWords = 32 := rfl
  exact fastLoop_no_overread T Gen.GROUP_SIZE v w ws rs
    (by simp only [Gen.GROUP_SIZE]; omega) rest

/-- **fast_reads_within_segment (C08)**, through `Props.C08.fastpath_refills`:
entered under its guard with a legal buffer fill (`w ≤ 63`), the fast branch
takes its words from the front of the segment, at most `Gen.fastWords` of them
(`refills w lens` with ≤ 50 lengths ≤ 20), and hands back the rest. -/
theorem fast_reads_within_segment (T : Model.Canon.Tree) (v w : Nat) (ws : List Nat)
    (rs : Model.MtfDec.RunSt) (hw : w ≤ 63) (h : Gen.fastWords ≤ ws.length) :
    ∃ taken rest, ws = taken ++ rest ∧ taken.length ≤ Gen.fastWords ∧
      match fastLoop T Gen.GROUP_SIZE v w ws rs with
      | .next _ _ ws' _ => ws' = rest
      | .eob _ _ ws' _ => ws' = rest
      | .stop _ ws' => ws' = rest := by
  obtain ⟨lens, taken, h1, h2, h3, h4⟩ := fastLoop_words T Gen.GROUP_SIZE v w ws rs
  have hb := (Props.C08.fastpath_refills w lens hw h1 (by simpa [Gen.MAX_CODE_LENGTH] using h2)).1
  cases hf : fastLoop T Gen.GROUP_SIZE v w ws rs with
  | next a b ws' c => rw [hf] at h4; exact ⟨taken, ws', h4, by rw [h3]; exact hb, rfl⟩
  | eob a b ws' c => rw [hf] at h4; exact ⟨taken, ws', h4, by rw [h3]; exact hb, rfl⟩
  | stop r ws' =>
    rw [hf] at h4
    simp only at h4
    cases h4 with
    | inl hr => subst hr; exact absurd hf (fast_no_overread T v w ws rs h ws')
    | inr h4 => exact ⟨taken, ws', h4, by rw [h3]; exact hb, rfl⟩

/-! ### non-vacuity -/

/-- A complete block (bytes in use `a`,`b`; tables [2,2,2,2] and [1,2,3,3];
symbols RUNA, position 1, EOB) followed by padding: the last column is "ab". -/
def tiny : List Nat := [1, 3145760, 3178537, 230686720, 2863311530, 2863311530]

example : (retrieve (St.start 0 0) tiny true).status = .ok ∧
    (retrieve (St.start 0 0) tiny true).st.run.out.reverse = [97, 98] ∧
    (retrieve (St.start 0 0) tiny true).rest = [2863311530] := by decide +kernel

-- three admissible segmentations (with an empty first, one-word, and an empty last segment)
example : Admissible (St.start 0 0) [[], [1], [3145760, 3178537], [230686720, 2863311530, 2863311530]] ∧
    Admissible (St.start 0 0) [[1], [3145760], [3178537], [230686720], [2863311530], [2863311530], []] := by
  simp [Admissible, MiddleNonEmpty, St.start, St.blank]

example : (retrieveAll (St.start 0 0) [[], [1], [3145760, 3178537], [230686720, 2863311530, 2863311530]]).status = .ok :=
  (congrArg Result.status (retrieve_split _ _ (by simp [Admissible, MiddleNonEmpty, St.start, St.blank]))).trans
    (by decide +kernel)

-- the call really suspends: one word is not enough
example : (retrieve (St.start 0 0) [1] false).status = .more ∧
    (retrieve (St.start 0 0) [1] false).st.pc = .bitmapBig := by decide +kernel

-- fast_eq_slow: the retriever without the fast branch decodes `tiny` as well
example : (retrieveSlow (St.start 0 0) tiny true).status = .ok ∧
    retrieve (St.start 0 0) tiny true = retrieveSlow (St.start 0 0) tiny true :=
  ⟨by decide +kernel, fast_eq_slow _ _ _⟩

/-- 40 zero words under the code [1,2,3,3]: every code is the 1-bit RUN-A. -/
def zeros40 : List Nat := List.replicate 40 0

-- the guard of the fast branch holds; the loop takes TWO words (`w` = 0, then 31
-- after the first code) for 21 one-bit RUN-A codes — after 20 of them `run` =
-- 2^20 - 1 > 900000 and the 21st is refused with ERR_OVERFLOW — and hands back 38
example : Gen.fastWords ≤ zeros40.length ∧
    (match fastLoop (Model.Canon.mkTree [1, 2, 3, 3]) Gen.GROUP_SIZE 0 0 zeros40 blankRun with
      | .next _ _ ws' _ => ws'.length + 1000
      | .eob _ _ ws' _ => ws'.length + 2000
      | .stop r ws' => ws'.length + (if r = .err Gen.ERR_OVERFLOW then 0 else 3000)) = 38 := by
  decide +kernel

example : ∃ taken rest, zeros40 = taken ++ rest ∧ taken.length ≤ Gen.fastWords ∧
    match fastLoop (Model.Canon.mkTree [1, 2, 3, 3]) Gen.GROUP_SIZE 0 0 zeros40 blankRun with
    | .next _ _ ws' _ => ws' = rest
    | .eob _ _ ws' _ => ws' = rest
    | .stop _ ws' => ws' = rest :=
  fast_reads_within_segment (Model.Canon.mkTree [1, 2, 3, 3]) 0 0 zeros40 blankRun (by decide) (by decide)

example : fastGroup (St.start 0 0) zeros40 = toTop { St.start 0 0 with pc := .prefix, j := 0 } zeros40 :=
  fast_eq_slow_group _ _ (by decide)

end LbzVerif.Props.C09.Retrieve
