/-
  C09 — the output of `emit()` does not depend on how the output space is cut
  into buffers.

  `Model.Emit.run st sizes` calls the six-state emitter once per buffer size
  (stopping at the first call that does not return MORE).  All theorems hold
  for EVERY list of sizes; the only conditions are those under which the C
  function itself is meaningful: `size < 0xFFFFFFFF` (`m = *buf_sz` is
  truncated to 32 bits and `0xFFFFFFFF` is the "exhausted" mark) and a block
  shorter than `0xFFFFFFFF` nodes (it has at most 900000).  Sizes of 0 are
  allowed here (such a call returns MORE without output).
-/
import LbzVerif.Lemmas.Emit

namespace LbzVerif.Props.C09

open LbzVerif
open LbzVerif.Model.Emit
open LbzVerif.Lemmas.Emit

/-- **emit_split.**  Two ways of cutting the output space — in particular any
list of buffers and one huge buffer — produce the same bytes (concatenated
over the calls), the same final status and the same block CRC, from the state
`decode()` leaves and from any consistent suspended state. -/
theorem emit_split (st : St) (hi : Inv st) (sizes₁ sizes₂ : List Nat)
    (h₁ : ∀ z ∈ sizes₁, z < M1) (h₂ : ∀ z ∈ sizes₂, z < M1)
    (f₁ : (run st sizes₁).final ≠ .more) (f₂ : (run st sizes₂).final ≠ .more) :
    (run st sizes₁).bytes = (run st sizes₂).bytes ∧
      (run st sizes₁).final = (run st sizes₂).final ∧
      ((run st sizes₁).final = .ok → (run st sizes₁).crc = (run st sizes₂).crc) := by
  have r₁ := run_R sizes₁ st hi h₁
  have r₂ := run_R sizes₂ st hi h₂
  unfold RunOK at r₁ r₂
  cases e₁ : (run st sizes₁).final <;> cases e₂ : (run st sizes₂).final <;>
    simp only [e₁, e₂] at r₁ r₂ f₁ f₂ ⊢ <;> try contradiction
  · obtain ⟨a1, a2, a3, _⟩ := r₁
    obtain ⟨b1, b2, b3, _⟩ := r₂
    have hb : (run st sizes₁).bytes = (run st sizes₂).bytes := by rw [← a1, ← b1]
    exact ⟨hb, trivial, fun _ => by rw [a3, b3, hb]⟩
  · obtain ⟨_, a2, _⟩ := r₁
    obtain ⟨_, b2, _⟩ := r₂
    rw [a2] at b2; contradiction
  · obtain ⟨_, a2, _⟩ := r₁
    obtain ⟨_, b2, _⟩ := r₂
    rw [a2] at b2; contradiction
  · obtain ⟨a1, _, _⟩ := r₁
    obtain ⟨b1, _, _⟩ := r₂
    exact ⟨by rw [← a1, ← b1], trivial, fun h => by contradiction⟩

/-- The instance asked for: a block as `decode()` leaves it, any list of
buffers against one buffer of size `big`. -/
theorem emit_split_oneshot (xs : List UInt8) (hx : xs.length < M1) (sizes : List Nat)
    (big : Nat) (h₁ : ∀ z ∈ sizes, z < M1) (hb : big < M1)
    (f₁ : (run (St.init xs) sizes).final ≠ .more)
    (f₂ : (emit (St.init xs) big).status ≠ .more) :
    (run (St.init xs) sizes).bytes = (emit (St.init xs) big).out ∧
      (run (St.init xs) sizes).final = (emit (St.init xs) big).status ∧
      ((run (St.init xs) sizes).final = .ok →
        (run (St.init xs) sizes).crc = (emit (St.init xs) big).crc) := by
  have h := emit_split (St.init xs) (init_Inv xs hx) sizes [big] h₁
    (by intro z hz; simp at hz; omega) f₁ (by simp [run, f₂])
  simpa [run, f₂, Run.bytes] using h

/-- Buffers exhausted early: what has been written so far is exactly as many
bytes as were offered, and it is a prefix of what any completed run writes;
the suspended state is consistent (so the run can be continued). -/
theorem emit_prefix (st : St) (hi : Inv st) (sizes₁ sizes₂ : List Nat)
    (h₁ : ∀ z ∈ sizes₁, z < M1) (h₂ : ∀ z ∈ sizes₂, z < M1)
    (f₁ : (run st sizes₁).final = .more) (f₂ : (run st sizes₂).final ≠ .more) :
    (run st sizes₁).bytes.length = sizes₁.sum ∧ Inv (run st sizes₁).st ∧
      ∃ rest, (run st sizes₂).bytes = (run st sizes₁).bytes ++ rest := by
  have r₁ := run_R sizes₁ st hi h₁
  have r₂ := run_R sizes₂ st hi h₂
  unfold RunOK at r₁ r₂
  simp only [f₁] at r₁
  obtain ⟨a1, _, a3, _, a5⟩ := r₁
  refine ⟨a3, a5, ?_⟩
  cases e₂ : (run st sizes₂).final <;> simp only [e₂] at r₂ f₂
  · exact ⟨_, by rw [← r₂.1, a1]⟩
  · contradiction
  · exact ⟨_, by rw [← r₂.1, a1]⟩

/-- Progress: once more space has been offered than the block decodes to, the
run has finished (with sizes ≥ 1 every call that returns MORE has filled its
buffer completely, by `emit_prefix`). -/
theorem emit_terminates (st : St) (hi : Inv st) (sizes : List Nat)
    (h : ∀ z ∈ sizes, z < M1) (hbig : (meaningOut st).length < sizes.sum) :
    (run st sizes).final ≠ .more := by
  intro hf
  have r := run_R sizes st hi h
  unfold RunOK at r
  simp only [hf] at r
  obtain ⟨a1, _, a3, _⟩ := r
  rw [a1, List.length_append, a3] at hbig
  omega

private def blk : List UInt8 := [7, 7, 7, 7, 2, 9, 9, 9, 9, 0, 5]

-- 7 7 7 7 (+2) 9 9 9 9 (+0) 5 with buffers 3,1,1,2,1,40 (suspends in states
-- 3, 4, 4, 5 …) against one buffer of 100 bytes
example : (run (St.init blk) [3, 1, 1, 2, 1, 40]).bytes = [7, 7, 7, 7, 7, 7, 9, 9, 9, 9, 5] ∧
    (run (St.init blk) [3, 1, 1, 2, 1, 40]).final = .ok ∧
    (run (St.init blk) [3, 1, 1, 2, 1, 40]).calls.length = 6 ∧
    (emit (St.init blk) 100).out = [7, 7, 7, 7, 7, 7, 9, 9, 9, 9, 5] ∧
    (emit (St.init blk) 100).left = 89 := by decide

end LbzVerif.Props.C09
