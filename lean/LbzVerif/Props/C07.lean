/-
  C07 — damaged input is rejected cleanly (logical part).

  What a theorem can carry here:
  * the rejection DECISIONS: every error path of the translated header parser
    and of do_reorder ends in a fatal status (never success) — from
    `Props.C05.Parse` and `Gen.reorderStatus`;
  * the CLEANUP path: when the decoder meets corrupt data while a FILE
    operand is being written, the process prints a diagnostic, ends with
    status exactly 1 (not a signal), the partial output is unlinked and the
    input is untouched — a corollary of the C16 file-system model, for every
    initial file system, every flag set, every point of work() and every
    behaviour of the other system calls;
  * totality: the reference decoder `Spec.Bzip2.decodeFile` and the block
    decoder models are total Lean functions (accepted by the termination
    checker without `partial`), so "hang" is not a possible outcome of the
    modelled logic.
  Absence of crashes/hangs in the C program itself is observed by the
  campaign (timeouts, sanitizer build), not proved.
-/
import LbzVerif.Props.C16
import LbzVerif.Props.C05.Parse
import LbzVerif.Gen.SchedD

namespace LbzVerif.Props.C07

open LbzVerif.Model.Fail (Ending mainBailoutEnd)
open LbzVerif.Model.Files
open LbzVerif.Gen

/-- Corrupt data met inside work(): exit status exactly 1, diagnostic on
    stderr, and (unless cleanup's own unlink fails) no output file remains and
    the input is as before — for every reachable configuration of the
    operand loop, every scenario and every initial file system. -/
theorem corrupt_rejected_cleanly {sc : Scn} {fs0 : FS} (hne : sc.inP ≠ sc.outP)
    {c : Cfg} (h : Reach sc fs0 c) (inj : Inj) (todo : List WOp)
    (hpc : c.pc = .work (.corrupt :: todo))
    (hsb : inj.sigBefore = none) (hp1 : c.pendInt = false) (hp2 : c.pendTerm = false) :
    (step sc c inj).pc = .ended (.exit 1) ∧ (step sc c inj).stderr = true ∧
    ((step sc c inj).cleanupFailed = false → Untouched sc fs0 (step sc c inj)) := by
  obtain ⟨e, he, _, hu⟩ :=
    LbzVerif.Props.C16.status_fault sc fs0 hne h inj .corrupt todo hpc hsb hp1 hp2 (Or.inl rfl)
  have hb : before c inj = c := by simp [before, hsb]
  have hne' : c.isEnded = false := by simp [Cfg.isEnded, hpc]
  have hex : exec sc c inj = fatal sc c inj true false false := by
    simp [exec, hpc, hp1, hp2]
  have hst : step sc c inj = after c (fatal sc c inj true false false) inj := by
    simp [step, hne', hb, hex]
  have hend : (fatal sc c inj true false false).isEnded = true := by
    simp [fatal, Cfg.isEnded]
  have hafter : after c (fatal sc c inj true false false) inj
      = fatal sc c inj true false false := by
    unfold after
    cases inj.sigAfter with
    | none => rfl
    | some sg => cases sg <;> simp [hend]
  refine ⟨?_, ?_, hu⟩
  · rw [hst, hafter]; simp [fatal, mainBailoutEnd]
  · rw [hst, hafter]; simp [fatal]

/-- Every non-OK, non-MORE block status is fatal in do_reorder (the run cannot
    continue to a successful end), whatever the sizes and CRCs are. -/
theorem block_error_is_fatal (blkSz bs100k status crc hdrCrc : Nat)
    (h0 : status ≠ 0) (h1 : status ≠ 1) :
    reorderFatal blkSz bs100k status crc hdrCrc = true := by
  unfold reorderFatal reorderStatus
  by_cases hsz : blkSz > bs100k * 100000
  · simp [hsz]
  · simp [hsz, h0, h1]

/-- An over-full block is fatal even if it decoded and its CRC matches. -/
theorem overfull_block_is_fatal (blkSz bs100k crc : Nat)
    (hsz : blkSz > bs100k * 100000) :
    reorderStatus blkSz bs100k RV_OK crc crc = ERR_OVERFLOW ∧
    reorderFatal blkSz bs100k RV_OK crc crc = true := by
  unfold reorderFatal reorderStatus; simp [hsz, RV_OK, ERR_OVERFLOW]

/-- Truncation inside a stream is never success: at end of input the header
    parser succeeds only between streams (re-export of C05.Parse.eof_rule). -/
theorem truncated_stream_is_error (p : ParseSt)
    (h1 : p.state ≠ PS_STREAM_MAGIC_1) (h2 : p.state ≠ PS_STREAM_MAGIC_2) :
    (parseAtEof p).2 = ERR_EOF := by
  have := (LbzVerif.Props.C05.Parse.eof_rule p)
  apply this.2
  intro hf
  rcases this.1.1 hf with h | h
  · exact h1 h
  · exact h2 h

/-! non-vacuity: a status that is an error, and an over-full block -/
example : reorderFatal 10 9 ERR_RUNLEN 0 0 = true := by decide
example : reorderStatus 100001 1 RV_OK 7 7 = ERR_OVERFLOW := by decide

end LbzVerif.Props.C07
