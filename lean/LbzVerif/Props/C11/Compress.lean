/-
  Props.C11.Compress — C11 (compression half): the compression scheduler is
  bounded, conserves its resources and hands blocks to the writer in stream
  order, in every reachable state of `Model.SchedC` — i.e. for every worker
  count `n`, every input, every codec behaviour and every interleaving
  (spurious wake-ups included).  Guards, priority order, thresholds and
  capacities are the generated ones (`Gen.SchedC`).
-/
import LbzVerif.Lemmas.SchedC.Witness
import LbzVerif.Lemmas.SchedC.WitnessS
import LbzVerif.Lemmas.SchedC.Progress
import LbzVerif.Lemmas.SchedC.Enabled
import LbzVerif.Lemmas.SchedC.Measure
import LbzVerif.Lemmas.SchedC.Quiet

namespace LbzVerif.Props.C11.Compress
open LbzVerif.Gen LbzVerif.Model.SchedC

variable {α σ : Type}

/-- **capacity**: no queue ever holds more than the extent given to
    `pqueue_init` / `deque_init` (generated `cCaps`: `coll_q` ≤ total_in_slots,
    `trans_q` ≤ num_worker, `reord_q` ≤ total_out_slots; `output_q` ≤
    total_out_slots). -/
theorem capacity {c : Cfg} {cd : Codec α σ} {input : List α} {s : State α σ}
    (h : Reach c cd input s) :
    s.collQ.length ≤ c.caps.1 ∧ s.transQ.length ≤ c.caps.2.1 ∧ s.reordQ.length ≤ c.caps.2.2 ∧
      s.outputQ.length ≤ c.totalOut :=
  capacity_of_conserved (inv1_reach h).cons

/-- capacity with the numbers `set_memory_constraints()` produces -/
theorem capacity_gen {n bs : Nat} {u : Bool} {cd : Codec α σ} {input : List α} {s : State α σ}
    (h : Reach (Cfg.ofGen n bs u) cd input s) :
    s.collQ.length ≤ 2 * n ∧ s.transQ.length ≤ n ∧ s.reordQ.length ≤ 2 * n + 2 :=
  let ⟨a, b, c, _⟩ := capacity h
  ⟨a, b, c⟩

example : wMid.reordQ.length = 1 ∧ Reach wCfg wCodec wInput wMid := ⟨by decide, wMid_reach⟩

/-- **conservation**: work units, output slots and input slots are either
    free or held by exactly one holder (`unitHolders` = workers inside a task +
    `trans_q` + `unfinished_work`; `slotHolders` = transmitting workers +
    `reord_q` + `output_q` + the buffer being written; `chunkHolders` =
    reader's buffer + `coll_q` + workers collecting), and there are `n`
    workers. -/
theorem conservation {c : Cfg} {cd : Codec α σ} {input : List α} {s : State α σ}
    (h : Reach c cd input s) :
    s.workUnits + unitHolders s = c.n ∧ s.outSlots + slotHolders s = c.totalOut ∧
      s.inSlots + chunkHolders s = c.totalIn ∧ s.ws.length = c.n :=
  let i := (inv1_reach h).cons
  ⟨i.units, i.slots, i.chunks, i.nWorkers⟩

example : wMid.workUnits = 1 ∧ unitHolders wMid = 1 ∧ slotHolders wMid = 2 ∧
    Reach wCfg wCodec wInput wMid := ⟨by decide, by decide, by decide, wMid_reach⟩

/-- the sequential-mode token is conserved too: either `collect_token` is set
    or exactly one worker is inside the protected part of `do_collect_seq`, and
    `unfinished_work` is NULL meanwhile. -/
theorem token_conservation {c : Cfg} {cd : Codec α σ} {input : List α} {s : State α σ}
    (h : Reach c cd input s) :
    (s.ws.map WPhase.tok).sum + boolCount s.collectToken = 1 ∧
      (s.collectToken = false → s.unfinished = none) :=
  let i := (inv1_reach h).cons
  ⟨i.token, i.unf⟩

/-- **order**: the blocks handed to `sink_write_buffer` are exactly the
    `next` chain from position (0,0) — each block starts where its
    predecessor's `next` points, `pos < next`, `order` is the end of the chain
    — and the writer thread writes them in hand-over order. -/
theorem order {c : Cfg} {cd : Codec α σ} {input : List α} {s : State α σ}
    (h : Reach c cd input s) :
    Chain ⟨0, 0⟩ s.handed s.order ∧ s.handed = s.written ++ s.wr.toList ++ s.outputQ :=
  let i := order_reach h
  ⟨i.chain, i.fifo⟩

/-- hence strictly increasing positions (each block once, no gaps by `Chain`) -/
theorem order_strict {c : Cfg} {cd : Codec α σ} {input : List α} {s : State α σ}
    (h : Reach c cd input s) : s.handed.Pairwise (fun x y => x.pos.lt y.pos = true) :=
  (chain_pairwise (order h).1).1

example : wFinal.handed.map (·.pos) = [⟨0, 0⟩, ⟨1, 0⟩, ⟨2, 0⟩] ∧
    Reach wCfg wCodec wInput wFinal := ⟨wFinal_facts.2.2.1, wFinal_reach⟩

/-- **wake-up discipline, first half**: in every state `next_task` equals
    `select_task()` of that state (so a worker that obtains the mutex and reads
    the stored `next_task` reads the right value). -/
theorem next_task_selected {c : Cfg} {cd : Codec α σ} {input : List α} {s : State α σ}
    (h : Reach c cd input s) : s.nextTask = selectTask (view c s) :=
  (inv1_reach h).sel

/-- **conservation at termination**: when `can_terminate()` holds everything
    is back (what `primary_thread` asserts, compiled out in the shipped build). -/
theorem terminal_conservation {c : Cfg} {cd : Codec α σ} {input : List α} {s : State α σ}
    (h : Reach c cd input s) (hf : finished c s = true) :
    s.workUnits = c.n ∧ s.outSlots = c.totalOut ∧ s.inSlots = c.totalIn ∧ s.eof = true ∧
      s.collQ = [] ∧ s.transQ = [] ∧ s.reordQ = [] ∧ s.outputQ = [] ∧ s.wr = none :=
  let r := restores_of_finished (inv1_reach h).cons (inv1_reach h).sel (reader_reach h) hf
  ⟨r.2.2.2.2.2.2.2.1, r.2.2.2.2.2.2.2.2.1, r.2.2.2.2.2.2.2.2.2.1, r.2.2.2.2.2.2.2.2.2.2.1,
    r.2.2.1, r.2.2.2.1, r.2.2.2.2.1, r.2.2.2.2.2.1, r.2.2.2.2.2.2.1⟩

example : finished wCfg wFinal = true ∧ Reach wCfg wCodec wInput wFinal :=
  ⟨wFinal_facts.2.1, wFinal_reach⟩

/-- a worker that holds the mutex at the head of the worker loop ALWAYS has an
    enabled step: the stored `next_task` is runnable because its generated
    guard implies the preconditions of the task body (non-empty queue, a work
    unit / output slot to take: no `dequeue` on an empty queue, no counter
    underflow), or it waits / exits. -/
theorem head_progress {c : Cfg} {cd : Codec α σ} {input : List α} {s : State α σ}
    (h : Reach c cd input s) (i : Nat) (hi : s.ws[i]? = some .atHead) :
    ∃ k s', step c cd s (.run i k) = some s' := by
  obtain ⟨k, s', hk⟩ := head_enabled (inv1_reach h).sel i
  exact ⟨k, s', by simp only [step, hi]; exact hk⟩

/-- `sched_unlock()` always succeeds (some waiter can be chosen for the signal) -/
theorem unlock_never_blocks (c : Cfg) (s : State α σ) : ∃ k s', unlock c s k = some s' :=
  unlock_some c s

example : ∃ s : State Nat (List Nat), Reach wCfg wCodec wInput s ∧ s.ws[0]? = some .atHead :=
  ⟨_, reach_of_run [.rTake, .rDeliver 0, .acquire 0] .init rfl, by decide⟩

/-- **wake-up discipline, second half (no lost wake-up)**: in every reachable
    state in which `sched_mutex` is free and a task is ready or the process has
    finished, some worker has a wake-up pending or nobody is in `xwait`; a
    worker exits only when `can_terminate()` holds, `can_terminate()` is stable,
    and after the first exit (`xbroadcast`) nobody waits; `do_collect_seq`
    never trips `assert(iblk != NULL)`; `eof` is set exactly when the reader
    is done.  All interleavings, spurious wake-ups included. -/
theorem no_lost_wakeup {c : Cfg} {cd : Codec α σ} {input : List α} {s : State α σ}
    (h : Reach c cd input s) :
    (lockFree s = true → (s.nextTask.isSome = true ∨ finished c s = true) →
      WPhase.ready ∈ s.ws ∨ ∀ p ∈ s.ws, p.isWaiting = false) ∧
    (WPhase.exited ∈ s.ws → finished c s = true ∧ ∀ p ∈ s.ws, p.isWaiting = false) ∧
    (∀ p ∈ s.ws, p ≠ .s1 none none) :=
  let w := wake_reach h
  ⟨w.noLost, w.exitFin, w.noBad⟩

theorem terminate_stable {c : Cfg} {cd : Codec α σ} {input : List α} {s s' : State α σ}
    {l : Label} (h : Reach c cd input s) (hf : finished c s = true)
    (hs : step c cd s l = some s') : finished c s' = true :=
  finished_stable h hf hs

/-- **progress, up to the quiet state** (superseded by `progress`; kept because
    it needs neither `Codec.OK` nor the slot hypotheses): with at least one
    worker, every reachable state that is not final has an enabled transition
    that is not a spurious wake-up — a thread that is not blocked on a condition
    variable can always move — OR the state is *quiet*: `sched_mutex` free,
    every worker in `xwait` and none gone, the reader done or stalled on
    `in_slots == 0`, the writer idle with an empty `output_q`. -/
theorem progress_partial {c : Cfg} {cd : Codec α σ} {input : List α} {s : State α σ}
    (hn : 1 ≤ c.n) (h : Reach c cd input s) (hnf : isFinal s = false) :
    (∃ l s', Label.isSpurious l = false ∧ step c cd s l = some s') ∨ Quiet s :=
  canStep_or_quiet hn h hnf

/-- **quiet states are unreachable** (the all-workers-waiting case).  In a
    quiet state the no-lost-wake-up invariant says that no task guard holds and
    `can_terminate()` is false; but the block at position `order` (`canon` is a
    `next`-chain, `handed` its prefix, the rest is what is in flight) is
      * the head of `reord_q` — `can_reorder`; or
      * the head of `trans_q`, and the reserve invariant behind TRANSM_THRESH
        (`out_slots` + slot holders at or before `order` ≥ min(2, total_out))
        leaves `out_slots > 0` — `can_transmit`; or
      * still to be collected: default mode — at most `n-1` unit holders are
        later than the minimal `coll_q` entry, so `work_units > 0` —
        `can_collect`; `--sequential` — blocks already made precede the blocks
        still to be made, so `trans_q` is empty — `can_collect_seq`; or
      * not yet read, and then `coll_q` would be empty and `in_slots > 0`; or
      * nothing is left at all, and then `can_terminate()` holds.
    Hypotheses: `Codec.OK`, chunk size, worker count, input and output slot
    totals all ≥ 1. -/
theorem no_quiet_state {c : Cfg} {cd : Codec α σ} {input : List α} {s : State α σ}
    (ok : cd.OK) (hg : 0 < c.inGranul) (hn : 1 ≤ c.n) (hin : 1 ≤ c.totalIn)
    (hout : 1 ≤ c.totalOut) (h : Reach c cd input s) : ¬ Quiet s :=
  quiet_unreachable ok hg hn hin hout h

/-- **progress** (full strength).  Every reachable state that is not final
    (all threads gone) has an enabled transition which is not a spurious
    wake-up: the compression scheduler cannot deadlock and loses no wake-up —
    for every worker count ≥ 1, slot totals ≥ 1, input, mode, and every
    interleaving (spurious wake-ups included) that led to the state. -/
theorem progress {c : Cfg} {cd : Codec α σ} {input : List α} {s : State α σ}
    (ok : cd.OK) (hg : 0 < c.inGranul) (hn : 1 ≤ c.n) (hin : 1 ≤ c.totalIn)
    (hout : 1 ≤ c.totalOut) (h : Reach c cd input s) (hnf : isFinal s = false) :
    ∃ l s', Label.isSpurious l = false ∧ step c cd s l = some s' := by
  rcases canStep_or_quiet hn h hnf with hc | hq
  · exact hc
  · exact absurd hq (quiet_unreachable ok hg hn hin hout h)

/-- with the numbers `set_memory_constraints()` computes (`n ≥ 1` workers,
    level `bs ≥ 1`: 2n input slots, 2n+2 output slots, chunks of bs·100000) -/
theorem progress_gen {n bs : Nat} {u : Bool} {cd : Codec α σ} {input : List α} {s : State α σ}
    (ok : cd.OK) (hn : 1 ≤ n) (hbs : 1 ≤ bs) (h : Reach (Cfg.ofGen n bs u) cd input s)
    (hnf : isFinal s = false) :
    ∃ l s', Label.isSpurious l = false ∧ step (Cfg.ofGen n bs u) cd s l = some s' :=
  progress ok (by simp only [Cfg.ofGen, memCompress]; omega) hn
    (by simp only [Cfg.ofGen, memCompress]; omega) (by simp only [Cfg.ofGen, memCompress]; omega)
    h hnf

/-- a state in which no thread can move (other than by a spurious wake-up) is
    the final state, `can_terminate()` holds there and everything is back -/
theorem stuck_is_final {c : Cfg} {cd : Codec α σ} {input : List α} {s : State α σ}
    (ok : cd.OK) (hg : 0 < c.inGranul) (hn : 1 ≤ c.n) (hin : 1 ≤ c.totalIn)
    (hout : 1 ≤ c.totalOut) (h : Reach c cd input s)
    (hstuck : ¬ ∃ l s', Label.isSpurious l = false ∧ step c cd s l = some s') :
    isFinal s = true ∧ finished c s = true := by
  have hfin : isFinal s = true := by
    cases hh : isFinal s with
    | true => rfl
    | false => exact absurd (progress ok hg hn hin hout h hh) hstuck
  refine ⟨hfin, ?_⟩
  have hall : s.ws.all (·.isExited) = true := by
    simp only [isFinal, Bool.and_eq_true] at hfin; exact hfin.1.1.1
  have hlen := (inv1_reach h).cons.nWorkers
  cases hws : s.ws with
  | nil => rw [hws] at hlen; simp at hlen; omega
  | cons p l =>
    have hp : p.isExited = true := List.all_eq_true.mp hall p (by rw [hws]; exact List.mem_cons_self)
    have : p = .exited := by cases p <;> simp [WPhase.isExited] at hp ⊢
    exact ((wake_reach h).exitFin (by rw [hws, this]; exact List.mem_cons_self)).1

theorem quiet_no_task {c : Cfg} {cd : Codec α σ} {input : List α} {s : State α σ}
    (h : Reach c cd input s) (q : Quiet s) :
    selectTask (view c s) = none ∧ finished c s = false :=
  quiet_idle h q

/-- non-vacuity: the hypotheses of `progress` hold for the witness
    configuration and its middle state, which is not final and indeed has an
    enabled non-spurious transition -/
example : 0 < wCfg.inGranul ∧ 1 ≤ wCfg.n ∧ 1 ≤ wCfg.totalIn ∧ 1 ≤ wCfg.totalOut := by decide


example : Reach wCfg wCodec wInput wMid ∧ isFinal wMid = false ∧ 1 ≤ wCfg.n ∧
    (∃ l, Label.isSpurious l = false ∧ (step wCfg wCodec wMid l).isSome = true) :=
  ⟨wMid_reach, wMid_facts.2.2.2.2.2.2.2, by decide, .wTake, rfl, by decide⟩

/-! ## termination -/

/-- **measure**: `mu s = (workers not yet gone, 3·work + phase)` (see
    `Lemmas.SchedC.Measure`: `work` bounds the sections still to be executed,
    `phase` what idle workers still do on their own) decreases in the
    lexicographic order `muLt` (well-founded: `muLt_wf`) along EVERY transition
    of a reachable state except a spurious wake-up.  Needs the collector facts
    `Codec.OK` (a fresh encoder takes a byte, …) and a positive chunk size. -/
theorem measure_decreases {c : Cfg} {cd : Codec α σ} {input : List α} {s s' : State α σ}
    {l : Label} (ok : cd.OK) (hg : 0 < c.inGranul) (h : Reach c cd input s)
    (hl : l.isSpurious = false) (hs : step c cd s l = some s') : muLt (mu s') (mu s) :=
  step_measure ok hg (inv1_reach h).sel hl hs

/-- a spurious wake-up costs exactly 2 units of `phase` and nothing else: the
    woken worker takes the mutex, sees `next_task == NULL` and waits again. -/
theorem spurious_cost {c : Cfg} {cd : Codec α σ} {s s' : State α σ} {i : Nat}
    (hs : step c cd s (.spurious i) = some s') :
    live s' = live s ∧ work s' = work s ∧ phase s' = phase s + 2 :=
  spurious_measure hs

theorem no_descending_chain {β : Type} {r : β → β → Prop} (wf : WellFounded r)
    (g : Nat → β) : ¬ ∀ i, r (g (i + 1)) (g i) := by
  intro hg
  have key : ∀ x, ∀ i, g i = x → False := by
    intro x
    induction x using wf.induction with
    | _ x ih =>
      intro i hi
      exact ih (g (i + 1)) (hi ▸ hg i) (i + 1) rfl
  exact key (g 0) 0 rfl

/-- **terminates**: every run is finite unless it contains infinitely many
    spurious wake-ups.  Precisely: for every infinite sequence of transitions
    `f 0 →ℓ 0→ f 1 →ℓ 1→ …` starting in a reachable state (any worker count,
    input, mode, slot totals; no fairness assumed) and every `N` there is an
    `i ≥ N` whose label `ℓ i` is a spurious wake-up.  In particular there is no
    infinite run without spurious wake-ups (`terminates_ns`), so every maximal
    such run is finite, and by `progress` / `stuck_is_final` it ends in the final
    state, where `can_terminate()` holds and (C03 `output_canon`) the canonical
    block list has been written.  (A run with infinitely many spurious wake-ups exists in the
    model — wake, take the mutex, wait again, forever — and is harmless.) -/
theorem terminates {c : Cfg} {cd : Codec α σ} {input : List α} (ok : cd.OK)
    (hg : 0 < c.inGranul) (f : Nat → State α σ) (ℓ : Nat → Label)
    (h0 : Reach c cd input (f 0)) (hstep : ∀ i, step c cd (f i) (ℓ i) = some (f (i + 1))) :
    ∀ N, ∃ i, N ≤ i ∧ (ℓ i).isSpurious = true := by
  intro N
  have hreach : ∀ i, Reach c cd input (f i) := by
    intro i
    induction i with
    | zero => exact h0
    | succ i ih => exact .step (ℓ i) ih (hstep i)
  apply Classical.byContradiction
  intro hno
  have hns : ∀ i, N ≤ i → (ℓ i).isSpurious = false := by
    intro i hi
    cases hh : (ℓ i).isSpurious with
    | false => rfl
    | true => exact absurd ⟨i, hi, hh⟩ hno
  apply no_descending_chain muLt_wf (fun i => mu (f (N + i)))
  intro i
  exact measure_decreases ok hg (hreach (N + i)) (hns (N + i) (by omega)) (hstep (N + i))

/-- no infinite run without spurious wake-ups -/
theorem terminates_ns {c : Cfg} {cd : Codec α σ} {input : List α} (ok : cd.OK)
    (hg : 0 < c.inGranul) (f : Nat → State α σ) (ℓ : Nat → Label)
    (h0 : Reach c cd input (f 0)) :
    ¬ ∀ i, (ℓ i).isSpurious = false ∧ step c cd (f i) (ℓ i) = some (f (i + 1)) := by
  intro h
  obtain ⟨i, _, hi⟩ := terminates ok hg f ℓ h0 (fun i => (h i).2) 0
  rw [(h i).1] at hi; cases hi

/-- non-vacuity: the measure along the sequential witness run: 2 live workers
    at the start, 0 at the end, and a concrete decrease on the first step -/
example : (mu (init (σ := List Nat) sCfg sInput)).1 = 2 ∧ (mu sFinal).1 = 0 ∧ (mu sFinal).2 = 0 ∧
    (mu (init (σ := List Nat) sCfg sInput)).2 = 3 * (28 * 7 + 3) + 4 := by decide

end LbzVerif.Props.C11.Compress
