/-
  Props.C11.Compress — C11 (compression half): the compression scheduler is
  bounded, conserves its resources and hands blocks to the writer in stream
  order, in every reachable state of `Model.SchedC` — i.e. for every worker
  count `n`, every input, every codec behaviour and every interleaving
  (spurious wake-ups included).  Guards, priority order, thresholds and
  capacities are the generated ones (`Gen.SchedC`).
-/
import LbzVerif.Lemmas.SchedC.Witness
import LbzVerif.Lemmas.SchedC.Progress

namespace LbzVerif.Props.C11.Compress
open LbzVerif.Gen LbzVerif.Model.SchedC

variable {α σ : Type}

/-- **capacity**: no queue ever holds more than the extent given to
    `pqueue_init` / `deque_init` (generated `cCaps`: `coll_q` ≤ total_in_slots,
    `trans_q` ≤ num_worker, `reord_q` ≤ total_out_slots; `output_q` ≤
    total_out_slots). -/
theorem capacity {c : Cfg} {cd : Codec α σ} {input : List α} {s : State α σ}
    (h : Reach c cd input s) :
    s.collQ.length ≤ c.caps.1 ∧ s.transQ.length ≤ c.caps.2.1 ∧ s.reordQ.length ≤ c.caps.2.2 ∧
      s.outputQ.length ≤ c.totalOut :=
  capacity_of_conserved (inv1_reach h).cons

/-- capacity with the numbers `set_memory_constraints()` produces -/
theorem capacity_gen {n bs : Nat} {u : Bool} {cd : Codec α σ} {input : List α} {s : State α σ}
    (h : Reach (Cfg.ofGen n bs u) cd input s) :
    s.collQ.length ≤ 2 * n ∧ s.transQ.length ≤ n ∧ s.reordQ.length ≤ 2 * n + 2 :=
  let ⟨a, b, c, _⟩ := capacity h
  ⟨a, b, c⟩

example : wMid.reordQ.length = 1 ∧ Reach wCfg wCodec wInput wMid := ⟨by decide, wMid_reach⟩

/-- **conservation**: work units, output slots and input slots are either
    free or held by exactly one holder (`unitHolders` = workers inside a task +
    `trans_q` + `unfinished_work`; `slotHolders` = transmitting workers +
    `reord_q` + `output_q` + the buffer being written; `chunkHolders` =
    reader's buffer + `coll_q` + workers collecting), and there are `n`
    workers. -/
theorem conservation {c : Cfg} {cd : Codec α σ} {input : List α} {s : State α σ}
    (h : Reach c cd input s) :
    s.workUnits + unitHolders s = c.n ∧ s.outSlots + slotHolders s = c.totalOut ∧
      s.inSlots + chunkHolders s = c.totalIn ∧ s.ws.length = c.n :=
  let i := (inv1_reach h).cons
  ⟨i.units, i.slots, i.chunks, i.nWorkers⟩

example : wMid.workUnits = 1 ∧ unitHolders wMid = 1 ∧ slotHolders wMid = 2 ∧
    Reach wCfg wCodec wInput wMid := ⟨by decide, by decide, by decide, wMid_reach⟩

/-- the sequential-mode token is conserved too: either `collect_token` is set
    or exactly one worker is inside the protected part of `do_collect_seq`, and
    `unfinished_work` is NULL meanwhile. -/
theorem token_conservation {c : Cfg} {cd : Codec α σ} {input : List α} {s : State α σ}
    (h : Reach c cd input s) :
    (s.ws.map WPhase.tok).sum + boolCount s.collectToken = 1 ∧
      (s.collectToken = false → s.unfinished = none) :=
  let i := (inv1_reach h).cons
  ⟨i.token, i.unf⟩

/-- **order**: the blocks handed to `sink_write_buffer` are exactly the
    `next` chain from position (0,0) — each block starts where its
    predecessor's `next` points, `pos < next`, `order` is the end of the chain
    — and the writer thread writes them in hand-over order. -/
theorem order {c : Cfg} {cd : Codec α σ} {input : List α} {s : State α σ}
    (h : Reach c cd input s) :
    Chain ⟨0, 0⟩ s.handed s.order ∧ s.handed = s.written ++ s.wr.toList ++ s.outputQ :=
  let i := order_reach h
  ⟨i.chain, i.fifo⟩

/-- hence strictly increasing positions (each block once, no gaps by `Chain`) -/
theorem order_strict {c : Cfg} {cd : Codec α σ} {input : List α} {s : State α σ}
    (h : Reach c cd input s) : s.handed.Pairwise (fun x y => x.pos.lt y.pos = true) :=
  (chain_pairwise (order h).1).1

example : wFinal.handed.map (·.pos) = [⟨0, 0⟩, ⟨1, 0⟩, ⟨2, 0⟩] ∧
    Reach wCfg wCodec wInput wFinal := ⟨wFinal_facts.2.2.1, wFinal_reach⟩

/-- **wake-up discipline, first half**: in every state `next_task` equals
    `select_task()` of that state (so a worker that obtains the mutex and reads
    the stored `next_task` reads the right value). -/
theorem next_task_selected {c : Cfg} {cd : Codec α σ} {input : List α} {s : State α σ}
    (h : Reach c cd input s) : s.nextTask = selectTask (view c s) :=
  (inv1_reach h).sel

/-- **conservation at termination**: when `can_terminate()` holds everything
    is back (what `primary_thread` asserts, compiled out in the shipped build). -/
theorem terminal_conservation {c : Cfg} {cd : Codec α σ} {input : List α} {s : State α σ}
    (h : Reach c cd input s) (hf : finished c s = true) :
    s.workUnits = c.n ∧ s.outSlots = c.totalOut ∧ s.inSlots = c.totalIn ∧ s.eof = true ∧
      s.collQ = [] ∧ s.transQ = [] ∧ s.reordQ = [] ∧ s.outputQ = [] ∧ s.wr = none :=
  let r := restores_of_finished (inv1_reach h).cons (inv1_reach h).sel (reader_reach h) hf
  ⟨r.2.2.2.2.2.2.2.1, r.2.2.2.2.2.2.2.2.1, r.2.2.2.2.2.2.2.2.2.1, r.2.2.2.2.2.2.2.2.2.2.1,
    r.2.2.1, r.2.2.2.1, r.2.2.2.2.1, r.2.2.2.2.2.1, r.2.2.2.2.2.2.1⟩

example : finished wCfg wFinal = true ∧ Reach wCfg wCodec wInput wFinal :=
  ⟨wFinal_facts.2.1, wFinal_reach⟩

/-- **progress** (`_partial`).  Proved for all `n`, inputs and schedules:
    a worker that holds the mutex at the head of the worker loop ALWAYS has an
    enabled step — the stored `next_task` is runnable because its generated
    guard implies the preconditions of the task body (non-empty queue, a work
    unit / output slot to take: no `dequeue` on an empty queue, no counter
    underflow), or it waits / exits; and a `sched_unlock` never blocks.
    Since a ready worker can take the free mutex and a worker inside a task
    needs at most the mutex, every state with a non-waiting, non-exited worker
    has an enabled transition.
    MISSING for the full statement (`every reachable non-final state has an
    enabled transition and a measure decreases`): (1) the case where every
    live worker is in `xwait` — needs the no-lost-wake-up invariant plus the
    reserve argument (`out_slots + #{slot holders at or before `order`} ≥
    min(TRANSM_THRESH, total_out)`, a unit is available to the minimal
    `coll_q` entry); (2) the decreasing measure.  Both are covered only by
    exhaustive exploration of the executable model with the generated guards
    (`schedc-bfs`: `stuck = 0` and every maximal path ends in the final state,
    n ≤ 3, all shapes tried). -/
theorem progress_partial {c : Cfg} {cd : Codec α σ} {input : List α} {s : State α σ}
    (h : Reach c cd input s) (i : Nat) (hi : s.ws[i]? = some .atHead) :
    ∃ k s', step c cd s (.run i k) = some s' := by
  obtain ⟨k, s', hk⟩ := head_enabled (inv1_reach h).sel i
  exact ⟨k, s', by simp only [step, hi]; exact hk⟩

/-- `sched_unlock()` always succeeds (some waiter can be chosen for the signal) -/
theorem unlock_never_blocks (c : Cfg) (s : State α σ) : ∃ k s', unlock c s k = some s' :=
  unlock_some c s

example : ∃ s : State Nat (List Nat), Reach wCfg wCodec wInput s ∧ s.ws[0]? = some .atHead :=
  ⟨_, reach_of_run [.rTake, .rDeliver 0, .acquire 0] .init rfl, by decide⟩

end LbzVerif.Props.C11.Compress
