/-
  C11, expansion half.

  PROVED here: order of sink writes; the three lifecycle WITNESSES (F2, F4, F5:
  the intended invariants are FALSE for the code as it is — reachable
  counterexamples replayed by the kernel).
  NOT PROVED (stated as what the BFS driver `schedd-bfs` and the trace
  acceptor check, never as theorems): conservation of work units / out slots /
  in slots, capacities of retr_q, emit_q, reord_q, order_q, the bound
  `|unord_q| ≤ cap + #stale` and deadlock-freedom with the `pos_le` guard.
-/
import LbzVerif.Lemmas.SchedD.Safe3
import LbzVerif.Lemmas.SchedD.Witness

namespace LbzVerif.Props.C11.Expand
open LbzVerif.Model.SchedD LbzVerif.Lemmas.SchedD LbzVerif.Gen

/-- **order** (full strength): in every reachable state the buffers handed to
    the sink are, in this order, an initial segment of the sequential output —
    so blocks reach the writer in stream order, without gap or repetition. -/
theorem order {c : Cfg} {s : State} (h : Reach c s) : s.written <+: (seqRun c).1 := by
  have g := good_reach h
  unfold Good at g
  split at g
  · exact g.2
  · rw [g.main]; exact List.prefix_append _ _

/-- **mastership** (full strength): the parse token and the master retrieve
    job exclude each other — at most one job in `retr_q` or running is
    master-capable (created by the parser, or confirmed legitimate), and none
    while the parser holds or may take the token. -/
theorem single_master {c : Cfg} {s : State} (h : Reach c s) (hf : s.failed = false) :
    mcount s ≤ 1 ∧ ((s.ptok = true ∨ s.pphase.isSome = true) → mcount s = 0) ∧
    (s.ptok = true → s.pphase = none) := by
  have g := good_reach h
  simp only [Good, hf, Bool.false_eq_true, if_false] at g
  exact ⟨g.mc1, g.mc0, g.excl⟩

example : ∃ s, Reach cfgF5 s ∧ s.failed = false ∧ mcount s = 1 := by
  have h : (run cfgF5 (init cfgF5) traceF5).any
      (fun s => !s.failed && decide (mcount s = 1)) = true := by decide +kernel
  cases hr : run cfgF5 (init cfgF5) traceF5 with
  | none => simp [hr] at h
  | some s =>
    simp only [hr, Option.any_some, Bool.and_eq_true, decide_eq_true_eq, Bool.not_eq_true'] at h
    exact ⟨s, reach_run _ Reach.init hr, h.1, h.2⟩

/-- helper: a kernel-evaluated run is a reachable state -/
theorem reach_of_run {c : Cfg} {ls : List Label} {p : State → Bool}
    (h : (run c (init c) ls).any p = true) : ∃ s, Reach c s ∧ p s = true := by
  cases hr : run c (init c) ls with
  | none => simp [hr] at h
  | some s => exact ⟨s, reach_run _ Reach.init hr, by simpa [hr] using h⟩

/-- **F4 witness** — the tight capacity of `unord_q` is FALSE for the code as
    it is: with n = 2, out_slots = 4 (capacity 2 + 4 − 3 = 3) a reachable state
    has 4 entries in `unord_q`; 3 of them are stale (their job was dropped by
    `advance()`, they hold neither a work unit nor an output slot).  The
    intended theorem `unord_cap_partial : |unord_q| ≤ cap + #stale` is checked
    by BFS only (`unordpartialviol = 0`). -/
theorem unord_cap_false :
    ∃ s, Reach cfgF4 s ∧ unordSize s > unordCapOf cfgF4 ∧ staleCount s = 3 := by
  obtain ⟨s, hr, hp⟩ := reach_of_run f4_run
  simp only [Bool.and_eq_true, decide_eq_true_eq] at hp
  exact ⟨s, hr, by omega, hp.2⟩

/-- **F5 witness** — `attach_in_range` is FALSE for the code as it is: a
    reachable state has a (speculative) retrieve job queued with
    `curr_pos.offset < head_offs`; the next `attach()` reads behind the
    released input. -/
theorem attach_in_range_false : ∃ s, Reach cfgF5 s ∧ staleAttach cfgF5 s = true :=
  reach_of_run f5_run

/-- **F2 witness** — live `unord_blk` objects are not bounded by the queues:
    a run terminates cleanly (all counters back, right output) with an
    `unord_blk` nobody will free. -/
theorem unord_blk_leak :
    ∃ s, Reach cfgF4 s ∧ terminated cfgF4 s = true ∧ leakedCount s = 1 := by
  obtain ⟨s, hr, hp⟩ := reach_of_run f2_run
  simp only [Bool.and_eq_true, decide_eq_true_eq] at hp
  exact ⟨s, hr, hp.1.1, hp.1.2⟩

end LbzVerif.Props.C11.Expand
