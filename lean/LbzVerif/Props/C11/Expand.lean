/-
  C11, expansion half (tree as of /repo commit b64cc56: `discard()` frees the
  job's unord_blk and takes it out of unord_q; F2, F4, F5 repaired).

  PROVED here, for every `n`, slot count, granularity, input abstraction,
  candidate set and interleaving (all reachable states of `Model.SchedD`):
    order, single mastership, conservation of work units / output slots /
    input slots, the capacities of retr_q, emit_q, reord_q, output_q, order_q
    and unord_q, quiescence at termination, no lost block, `attach_in_range`,
    `no_unord_leak`, and `progress` (deadlock-freedom: every reachable
    non-final state has an enabled transition, under `EMIT_THRESH < total_out`).
  NOT PROVED (checked by the BFS driver `schedd-bfs` and by trace acceptance
  only, never presented as theorems): wake-up discipline (the model has no
  condition variable: an idle worker may start the selected task at any time),
  and termination of every maximal run (a decreasing measure; deadlock-freedom
  alone does not exclude infinite runs of the model).
-/
import LbzVerif.Lemmas.SchedD.Safe3
import LbzVerif.Lemmas.SchedD.Attach
import LbzVerif.Lemmas.SchedD.Leak
import LbzVerif.Lemmas.SchedD.Cons
import LbzVerif.Lemmas.SchedD.InSlots
import LbzVerif.Lemmas.SchedD.Progress
import LbzVerif.Lemmas.SchedD.Holder2
import LbzVerif.Lemmas.SchedD.OrderCap
import LbzVerif.Lemmas.SchedD.UnordCap2
import LbzVerif.Lemmas.SchedD.ProgressFinal
import LbzVerif.Lemmas.SchedD.Witness

namespace LbzVerif.Props.C11.Expand
open LbzVerif.Model.SchedD LbzVerif.Lemmas.SchedD LbzVerif.Gen

/-- **order** (full strength): in every reachable state the buffers handed to
    the sink are, in this order, an initial segment of the sequential output —
    so blocks reach the writer in stream order, without gap or repetition. -/
theorem order {c : Cfg} {s : State} (h : Reach c s) : s.written <+: (seqRun c).1 := by
  have g := good_reach h
  unfold Good at g
  split at g
  · exact g.2
  · rw [g.main]; exact List.prefix_append _ _

/-- **mastership** (full strength): the parse token and the master retrieve
    job exclude each other — at most one job in `retr_q` or running is
    master-capable (created by the parser, or confirmed legitimate), and none
    while the parser holds or may take the token. -/
theorem single_master {c : Cfg} {s : State} (h : Reach c s) (hf : s.failed = false) :
    mcount s ≤ 1 ∧ ((s.ptok = true ∨ s.pphase.isSome = true) → mcount s = 0) ∧
    (s.ptok = true → s.pphase = none) := by
  have g := good_reach h
  simp only [Good, hf, Bool.false_eq_true, if_false] at g
  exact ⟨g.mc1, g.mc0, g.excl⟩

example : ∃ s, Reach cfgF5 s ∧ s.failed = false ∧ mcount s = 1 := by
  have h : (run cfgF5 (init cfgF5) traceF5).any
      (fun s => !s.failed && decide (mcount s = 1)) = true := by decide +kernel
  cases hr : run cfgF5 (init cfgF5) traceF5 with
  | none => simp [hr] at h
  | some s =>
    simp only [hr, Option.any_some, Bool.and_eq_true, decide_eq_true_eq, Bool.not_eq_true'] at h
    exact ⟨s, reach_run _ Reach.init hr, h.1, h.2⟩

/-- helper: a kernel-evaluated run is a reachable state -/
theorem reach_of_run {c : Cfg} {ls : List Label} {p : State → Bool}
    (h : (run c (init c) ls).any p = true) : ∃ s, Reach c s ∧ p s = true := by
  cases hr : run c (init c) ls with
  | none => simp [hr] at h
  | some s => exact ⟨s, reach_run _ Reach.init hr, by simpa [hr] using h⟩

/-- **conservation** (full strength): while `failf` has not been called, the
    free work units plus the jobs queued in `retr_q`/`emit_q` plus the busy
    workers make up `n`, and the free output slots plus the buffers in
    `reord_q`, at the writer, and being emitted make up `total_out`. -/
theorem conservation {c : Cfg} {s : State} (h : Reach c s) (hf : s.failed = false) :
    s.wu + s.retrQ.length + s.emitQ.length + busyCount s = c.n ∧
    s.outSlots + s.reordQ.length + s.outq + emitBusy s = c.totalOut :=
  let ci := ci_reach h hf
  ⟨ci.wuC, ci.osC⟩

/-- **capacity** (full strength) of `retr_q`, `emit_q` (≤ n) and `reord_q`,
    `output_q` (≤ total_out); the counters never exceed their totals. -/
theorem capacity {c : Cfg} {s : State} (h : Reach c s) (hf : s.failed = false) :
    s.retrQ.length ≤ c.n ∧ s.emitQ.length ≤ c.n ∧ s.reordQ.length ≤ c.totalOut ∧
    s.outq ≤ c.totalOut ∧ s.wu ≤ c.n ∧ s.outSlots ≤ c.totalOut ∧ busyCount s ≤ c.n :=
  capacities h hf

/-- **conservation of input slots** (full strength for input granularity
    `W ≥ 1`): free input slots + blocks in `input_q` + released blocks still
    attached by a worker + the buffer the reader holds = `total_in`. -/
theorem in_slots_conservation {c : Cfg} (hW : 0 < c.W) {s : State} (h : Reach c s) :
    s.inSlots + inputAlive s = c.totalIn :=
  in_slots_conserved hW h

/-- **no lost block** (full strength): every entry `(b,i)` of `order_q` keeps a
    producer — a master-capable retrieve job of block `b`, an emit job of block
    `b` that will still produce buffer `i`, or a buffer of block `b` with index
    `≥ i` in `reord_q` — so a parsed block can never be forgotten, and `order_q`
    is empty when the run terminates. -/
theorem no_lost_block {c : Cfg} {s : State} (h : Reach c s) :
    (s.failed = false → HI c s) ∧ (terminated c s = true → s.orderQ = []) :=
  ⟨fun hf => hi_reach h hf, fun ht => terminated_order_empty h ht⟩

/-- **unord_cap** (restored after the F4 repair; full strength under the stated
    hypotheses): with at least one worker, more output slots than the emit
    reserve (`EMIT_THRESH < total_out`; the shipped slot formulas give
    `total_out ≥ 2n`, and scanning needs `n ≥ 2`) and non-empty input blocks,
    `|unord_q| ≤ Gen.unordCap n total_out = n + total_out − UNORD_THRESH` in every
    reachable state: every entry is backed by a work unit (a live speculative
    job or an emit job of its finished block) or by an output slot (a buffer of
    its finished block in `reord_q`), and one work unit and two output slots are
    always free or held by something non-speculative (`unord_reserve`).  The
    hypotheses are necessary: BFS finds `|unord_q| > cap` when `total_out ≤ 2`. -/
theorem unord_q_capacity {c : Cfg} (hW : 0 < c.W) (hn : 1 ≤ c.n) (ho : EMIT_THRESH < c.totalOut)
    {s : State} (h : Reach c s) (hf : s.failed = false) :
    unordSize s ≤ unordCap c.n c.totalOut :=
  unord_cap hW hn ho h hf

/-- on the former F4 run the dropped jobs' entries have left unord_q -/
example : ∃ s, Reach cfgF4 s ∧ unordSize s = 1 ∧ unordCapOf cfgF4 = 3 := by
  obtain ⟨s, hr, hp⟩ := reach_of_run f4_repaired
  simp only [Bool.and_eq_true, decide_eq_true_eq] at hp
  exact ⟨s, hr, hp.1.1, hp.1.2⟩

/-- **capacity of `order_q`** (full strength): `|order_q| ≤ n + total_out`
    (`Gen.orderCap`, the extent given to `deque_init(order_q, …)`): entries have
    pairwise different bases and each has a producer holding a work unit or an
    output slot. -/
theorem order_q_capacity {c : Cfg} {s : State} (h : Reach c s) (hf : s.failed = false) :
    s.orderQ.length ≤ orderCap c.n c.totalOut :=
  order_cap h hf

/-- **everything is given back** (full strength): when all workers have left
    the loop, no job, buffer or busy worker is left, no `unord_blk` is live. -/
theorem quiescent_at_termination {c : Cfg} {s : State} (h : Reach c s)
    (ht : terminated c s = true) :
    s.retrQ = [] ∧ s.emitQ = [] ∧ s.busy = [] ∧ s.pphase = none ∧ s.reordQ = [] ∧ s.outq = 0
    ∧ s.orphans = [] ∧ s.orderQ = [] :=
  let q := terminated_quiescent h ht
  ⟨q.1, q.2.1, q.2.2.1, q.2.2.2.1, q.2.2.2.2.1, q.2.2.2.2.2, (no_unord_leak_terminated h ht).1,
    terminated_order_empty h ht⟩

example : ∃ s, Reach cfgF4 s ∧ terminated cfgF4 s = true :=
  let ⟨s, hr, hp⟩ := reach_of_run f2_repaired
  ⟨s, hr, by simp only [Bool.and_eq_true] at hp; exact hp.1.1.1⟩

/-- **attach_in_range** (full strength, restored after the F5 repair): every
    retrieve job in `retr_q` — master or speculative —, every scan job and,
    while parsing is not done, the parser position lie at or after `head_offs`;
    so `attach()` is only ever called in range (`can_attach` supplies the upper
    bound `≤ tail_offs`). -/
theorem attach_in_range {c : Cfg} {s : State} (h : Reach c s) :
    (∀ j ∈ s.retrQ, headOffs c s ≤ j.curr) ∧ (∀ sp ∈ s.scanQ, headOffs c s ≤ sp) ∧
    (s.pdone = false → headOffs c s ≤ s.ppos) ∧ staleAttach c s = false :=
  LbzVerif.Lemmas.SchedD.attach_in_range h

/-- on the former F5 run the overtaken job is discarded (its unord_blk leaves
    unord_q with it) and `retr_q` is in range -/
example : ∃ s, Reach cfgF5 s ∧ headOffs cfgF5 s = 6 ∧ unordSize s = 0 := by
  obtain ⟨s, hr, hp⟩ := reach_of_run f5_repaired
  simp only [Bool.and_eq_true, decide_eq_true_eq] at hp
  exact ⟨s, hr, hp.1.1.2, hp.2⟩

/-- **no_unord_leak** (full strength, restored after the F2 repair): every
    `unord_blk` that no retrieve job owns is still in `unord_q` (so the parser
    frees it when it pops it), none is left once parsing is done, and the leak
    counter of the model is 0.  (That an owned `unord_blk` is linked from exactly
    one job holds by construction of the model: `Job.ub`.) -/
theorem no_unord_leak {c : Cfg} {s : State} (h : Reach c s) (hf : s.failed = false) :
    (∀ u ∈ s.orphans, u.f.inq = true) ∧ (s.pdone = true → s.orphans = []) ∧ leakedCount s = 0 :=
  let l := LbzVerif.Lemmas.SchedD.no_unord_leak h hf
  ⟨l.1, l.2, leakedCount_zero h hf⟩

/-- **progress** (deadlock-freedom, full strength under the stated hypotheses):
    with at least one worker, more output slots than the emit reserve
    (`EMIT_THRESH < total_out`), non-empty input blocks and at least one input
    slot, every reachable state that is not final (`failf` not called, workers
    not all gone) has an enabled transition — of the reader, the writer or a
    worker.  The hypothesis on `total_out` is necessary: with `total_out ≤ 2` and
    `n ≥ 2` BFS finds stuck states (an emit job of a spurious block beyond the
    end of the stream can never take a slot once `order_q` is empty); the
    shipped slot formulas give `total_out ≥ 2n ≥ 4` whenever scanning is possible.
    Proof: a state without enabled transition is quiescent (`progress_partial`),
    and a reachable quiescent state is the terminated state
    (`Lemmas/SchedD/ProgressFinal.lean: quiescent_final`, from: the exact next
    buffer of the head of `order_q` exists or is still to be produced; at most
    `total_out − 2` slots are held ahead of the output position; while the
    parse token is available a work unit is free or held by the emit job of a
    confirmed block; a master or parser waiting for input stands at `tail_offs`
    and then `input_q` is empty, so the reader has a free slot). -/
theorem progress {c : Cfg} (hW : 0 < c.W) (hn : 1 ≤ c.n) (ho : EMIT_THRESH < c.totalOut)
    (hti : 1 ≤ c.totalIn) {s : State} (h : Reach c s) (hnf : final c s = false) :
    enabled c s ≠ [] :=
  progress_reach hW hn ho hti h hnf

/-- the hypotheses are satisfiable: the F4 shape (n = 2, in = 2, out = 4, W = 2) -/
example : enabled cfgF4 (init cfgF4) ≠ [] :=
  progress (c := cfgF4) (by decide) (by decide) (by decide) (by decide) Reach.init (by decide)

/-- **progress_partial** (a lemma of `progress`, without hypotheses on the
    configuration): a reachable state in which no transition at all is enabled
    is QUIESCENT: no worker is inside a task, the writer has nothing to write,
    the reader is done or blocked on `in_slots = 0`, and `select_task()` finds
    no runnable task (or `n = 0`). -/
theorem progress_partial {c : Cfg} {s : State} (_h : Reach c s) (hf : s.failed = false)
    (hs : enabled c s = []) : Quiescent c s :=
  stuck_quiescent hf hs

/-- the hypotheses of `progress_partial` are met by the terminated state of the
    F2 run (which is final, hence legitimately without successor) -/
example : ∃ s, Reach cfgF4 s ∧ s.failed = false ∧ enabled cfgF4 s = [] := by
  have h : (run cfgF4 (init cfgF4) traceF2).any
      (fun s => !s.failed && decide (enabled cfgF4 s = [])) = true := by decide +kernel
  obtain ⟨s, hr, hp⟩ := reach_of_run h
  simp only [Bool.and_eq_true, Bool.not_eq_true', decide_eq_true_eq] at hp
  exact ⟨s, hr, hp.1, hp.2⟩

end LbzVerif.Props.C11.Expand
