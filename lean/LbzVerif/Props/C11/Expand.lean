/-
  C11, expansion half (tree as of /repo commit b64cc56: `discard()` frees the
  job's unord_blk and takes it out of unord_q; F2, F4, F5 repaired).

  PROVED here, for every `n`, slot count, granularity, input abstraction,
  candidate set and interleaving (all reachable states of `Model.SchedD`):
    order, single mastership, conservation of work units / output slots /
    input slots, the capacities of retr_q, emit_q, reord_q, output_q, order_q
    and unord_q, quiescence at termination, no lost block, `attach_in_range`,
    `no_unord_leak`, and `progress` (deadlock-freedom: every reachable
    non-final state has an enabled transition, under `EMIT_THRESH < total_out`).
    `measure_decreases` / `terminates` (every transition decreases a
    well-founded measure, so every run is finite and — with `progress` — ends
    in the final state), and, on the refinement `Model.SchedDW` that adds
    `next_task`, the mutex holder and the workers' condition-variable states,
    `no_lost_wakeup`, `deadlock_free_w` (every reachable non-final refined state
    has an enabled transition that is not a spurious wake-up) and
    `measure_decreases_w` / `terminates_w` / `terminates_w_ns` /
    `maximal_run_final_w` (only spurious wake-ups can keep a run going; a run
    that cannot continue otherwise is final with all workers exited).
-/
import LbzVerif.Lemmas.SchedD.Safe3
import LbzVerif.Lemmas.SchedD.Attach
import LbzVerif.Lemmas.SchedD.Leak
import LbzVerif.Lemmas.SchedD.Cons
import LbzVerif.Lemmas.SchedD.InSlots
import LbzVerif.Lemmas.SchedD.Progress
import LbzVerif.Lemmas.SchedD.Holder2
import LbzVerif.Lemmas.SchedD.OrderCap
import LbzVerif.Lemmas.SchedD.UnordCap2
import LbzVerif.Lemmas.SchedD.ProgressFinal
import LbzVerif.Lemmas.SchedD.Measure2
import LbzVerif.Lemmas.SchedD.Wake2
import LbzVerif.Lemmas.SchedD.WakeLive2
import LbzVerif.Lemmas.SchedD.Witness

namespace LbzVerif.Props.C11.Expand
open LbzVerif.Model.SchedD LbzVerif.Lemmas.SchedD LbzVerif.Gen

/-- **order** (full strength): in every reachable state the buffers handed to
    the sink are, in this order, an initial segment of the sequential output —
    so blocks reach the writer in stream order, without gap or repetition. -/
theorem order {c : Cfg} {s : State} (h : Reach c s) : s.written <+: (seqRun c).1 := by
  have g := good_reach h
  unfold Good at g
  split at g
  · exact g.2
  · rw [g.main]; exact List.prefix_append _ _

/-- **mastership** (full strength): the parse token and the master retrieve
    job exclude each other — at most one job in `retr_q` or running is
    master-capable (created by the parser, or confirmed legitimate), and none
    while the parser holds or may take the token. -/
theorem single_master {c : Cfg} {s : State} (h : Reach c s) (hf : s.failed = false) :
    mcount s ≤ 1 ∧ ((s.ptok = true ∨ s.pphase.isSome = true) → mcount s = 0) ∧
    (s.ptok = true → s.pphase = none) := by
  have g := good_reach h
  simp only [Good, hf, Bool.false_eq_true, if_false] at g
  exact ⟨g.mc1, g.mc0, g.excl⟩

example : ∃ s, Reach cfgF5 s ∧ s.failed = false ∧ mcount s = 1 := by
  have h : (run cfgF5 (init cfgF5) traceF5).any
      (fun s => !s.failed && decide (mcount s = 1)) = true := by decide +kernel
  cases hr : run cfgF5 (init cfgF5) traceF5 with
  | none => simp [hr] at h
  | some s =>
    simp only [hr, Option.any_some, Bool.and_eq_true, decide_eq_true_eq, Bool.not_eq_true'] at h
    exact ⟨s, reach_run _ Reach.init hr, h.1, h.2⟩

/-- helper: a kernel-evaluated run is a reachable state -/
theorem reach_of_run {c : Cfg} {ls : List Label} {p : State → Bool}
    (h : (run c (init c) ls).any p = true) : ∃ s, Reach c s ∧ p s = true := by
  cases hr : run c (init c) ls with
  | none => simp [hr] at h
  | some s => exact ⟨s, reach_run _ Reach.init hr, by simpa [hr] using h⟩

/-- **conservation** (full strength): while `failf` has not been called, the
    free work units plus the jobs queued in `retr_q`/`emit_q` plus the busy
    workers make up `n`, and the free output slots plus the buffers in
    `reord_q`, at the writer, and being emitted make up `total_out`. -/
theorem conservation {c : Cfg} {s : State} (h : Reach c s) (hf : s.failed = false) :
    s.wu + s.retrQ.length + s.emitQ.length + busyCount s = c.n ∧
    s.outSlots + s.reordQ.length + s.outq + emitBusy s = c.totalOut :=
  let ci := ci_reach h hf
  ⟨ci.wuC, ci.osC⟩

/-- **capacity** (full strength) of `retr_q`, `emit_q` (≤ n) and `reord_q`,
    `output_q` (≤ total_out); the counters never exceed their totals. -/
theorem capacity {c : Cfg} {s : State} (h : Reach c s) (hf : s.failed = false) :
    s.retrQ.length ≤ c.n ∧ s.emitQ.length ≤ c.n ∧ s.reordQ.length ≤ c.totalOut ∧
    s.outq ≤ c.totalOut ∧ s.wu ≤ c.n ∧ s.outSlots ≤ c.totalOut ∧ busyCount s ≤ c.n :=
  capacities h hf

/-- **conservation of input slots** (full strength for input granularity
    `W ≥ 1`): free input slots + blocks in `input_q` + released blocks still
    attached by a worker + the buffer the reader holds = `total_in`. -/
theorem in_slots_conservation {c : Cfg} (hW : 0 < c.W) {s : State} (h : Reach c s) :
    s.inSlots + inputAlive s = c.totalIn :=
  in_slots_conserved hW h

/-- **no lost block** (full strength): every entry `(b,i)` of `order_q` keeps a
    producer — a master-capable retrieve job of block `b`, an emit job of block
    `b` that will still produce buffer `i`, or a buffer of block `b` with index
    `≥ i` in `reord_q` — so a parsed block can never be forgotten, and `order_q`
    is empty when the run terminates. -/
theorem no_lost_block {c : Cfg} {s : State} (h : Reach c s) :
    (s.failed = false → HI c s) ∧ (terminated c s = true → s.orderQ = []) :=
  ⟨fun hf => hi_reach h hf, fun ht => terminated_order_empty h ht⟩

/-- **unord_cap** (restored after the F4 repair; full strength under the stated
    hypotheses): with at least one worker, more output slots than the emit
    reserve (`EMIT_THRESH < total_out`; the shipped slot formulas give
    `total_out ≥ 2n`, and scanning needs `n ≥ 2`) and non-empty input blocks,
    `|unord_q| ≤ Gen.unordCap n total_out = n + total_out − UNORD_THRESH` in every
    reachable state: every entry is backed by a work unit (a live speculative
    job or an emit job of its finished block) or by an output slot (a buffer of
    its finished block in `reord_q`), and one work unit and two output slots are
    always free or held by something non-speculative (`unord_reserve`).  The
    hypotheses are necessary: BFS finds `|unord_q| > cap` when `total_out ≤ 2`. -/
theorem unord_q_capacity {c : Cfg} (hW : 0 < c.W) (hn : 1 ≤ c.n) (ho : EMIT_THRESH < c.totalOut)
    {s : State} (h : Reach c s) (hf : s.failed = false) :
    unordSize s ≤ unordCap c.n c.totalOut :=
  unord_cap hW hn ho h hf

/-- on the former F4 run the dropped jobs' entries have left unord_q -/
example : ∃ s, Reach cfgF4 s ∧ unordSize s = 1 ∧ unordCapOf cfgF4 = 3 := by
  obtain ⟨s, hr, hp⟩ := reach_of_run f4_repaired
  simp only [Bool.and_eq_true, decide_eq_true_eq] at hp
  exact ⟨s, hr, hp.1.1, hp.1.2⟩

/-- **capacity of `order_q`** (full strength): `|order_q| ≤ n + total_out`
    (`Gen.orderCap`, the extent given to `deque_init(order_q, …)`): entries have
    pairwise different bases and each has a producer holding a work unit or an
    output slot. -/
theorem order_q_capacity {c : Cfg} {s : State} (h : Reach c s) (hf : s.failed = false) :
    s.orderQ.length ≤ orderCap c.n c.totalOut :=
  order_cap h hf

/-- **everything is given back** (full strength): when all workers have left
    the loop, no job, buffer or busy worker is left, no `unord_blk` is live. -/
theorem quiescent_at_termination {c : Cfg} {s : State} (h : Reach c s)
    (ht : terminated c s = true) :
    s.retrQ = [] ∧ s.emitQ = [] ∧ s.busy = [] ∧ s.pphase = none ∧ s.reordQ = [] ∧ s.outq = 0
    ∧ s.orphans = [] ∧ s.orderQ = [] :=
  let q := terminated_quiescent h ht
  ⟨q.1, q.2.1, q.2.2.1, q.2.2.2.1, q.2.2.2.2.1, q.2.2.2.2.2, (no_unord_leak_terminated h ht).1,
    terminated_order_empty h ht⟩

example : ∃ s, Reach cfgF4 s ∧ terminated cfgF4 s = true :=
  let ⟨s, hr, hp⟩ := reach_of_run f2_repaired
  ⟨s, hr, by simp only [Bool.and_eq_true] at hp; exact hp.1.1.1⟩

/-- **attach_in_range** (full strength, restored after the F5 repair): every
    retrieve job in `retr_q` — master or speculative —, every scan job and,
    while parsing is not done, the parser position lie at or after `head_offs`;
    so `attach()` is only ever called in range (`can_attach` supplies the upper
    bound `≤ tail_offs`). -/
theorem attach_in_range {c : Cfg} {s : State} (h : Reach c s) :
    (∀ j ∈ s.retrQ, headOffs c s ≤ j.curr) ∧ (∀ sp ∈ s.scanQ, headOffs c s ≤ sp) ∧
    (s.pdone = false → headOffs c s ≤ s.ppos) ∧ staleAttach c s = false :=
  LbzVerif.Lemmas.SchedD.attach_in_range h

/-- on the former F5 run the overtaken job is discarded (its unord_blk leaves
    unord_q with it) and `retr_q` is in range -/
example : ∃ s, Reach cfgF5 s ∧ headOffs cfgF5 s = 6 ∧ unordSize s = 0 := by
  obtain ⟨s, hr, hp⟩ := reach_of_run f5_repaired
  simp only [Bool.and_eq_true, decide_eq_true_eq] at hp
  exact ⟨s, hr, hp.1.1.2, hp.2⟩

/-- **no_unord_leak** (full strength, restored after the F2 repair): every
    `unord_blk` that no retrieve job owns is still in `unord_q` (so the parser
    frees it when it pops it), none is left once parsing is done, and the leak
    counter of the model is 0.  (That an owned `unord_blk` is linked from exactly
    one job holds by construction of the model: `Job.ub`.) -/
theorem no_unord_leak {c : Cfg} {s : State} (h : Reach c s) (hf : s.failed = false) :
    (∀ u ∈ s.orphans, u.f.inq = true) ∧ (s.pdone = true → s.orphans = []) ∧ leakedCount s = 0 :=
  let l := LbzVerif.Lemmas.SchedD.no_unord_leak h hf
  ⟨l.1, l.2, leakedCount_zero h hf⟩

/-- **progress** (deadlock-freedom, full strength under the stated hypotheses):
    with at least one worker, more output slots than the emit reserve
    (`EMIT_THRESH < total_out`), non-empty input blocks and at least one input
    slot, every reachable state that is not final (`failf` not called, workers
    not all gone) has an enabled transition — of the reader, the writer or a
    worker.  The hypothesis on `total_out` is necessary: with `total_out ≤ 2` and
    `n ≥ 2` BFS finds stuck states (an emit job of a spurious block beyond the
    end of the stream can never take a slot once `order_q` is empty); the
    shipped slot formulas give `total_out ≥ 2n ≥ 4` whenever scanning is possible.
    Proof: a state without enabled transition is quiescent (`progress_partial`),
    and a reachable quiescent state is the terminated state
    (`Lemmas/SchedD/ProgressFinal.lean: quiescent_final`, from: the exact next
    buffer of the head of `order_q` exists or is still to be produced; at most
    `total_out − 2` slots are held ahead of the output position; while the
    parse token is available a work unit is free or held by the emit job of a
    confirmed block; a master or parser waiting for input stands at `tail_offs`
    and then `input_q` is empty, so the reader has a free slot). -/
theorem progress {c : Cfg} (hW : 0 < c.W) (hn : 1 ≤ c.n) (ho : EMIT_THRESH < c.totalOut)
    (hti : 1 ≤ c.totalIn) {s : State} (h : Reach c s) (hnf : final c s = false) :
    enabled c s ≠ [] :=
  progress_reach hW hn ho hti h hnf

/-- the hypotheses are satisfiable: the F4 shape (n = 2, in = 2, out = 4, W = 2) -/
example : enabled cfgF4 (init cfgF4) ≠ [] :=
  progress (c := cfgF4) (by decide) (by decide) (by decide) (by decide) Reach.init (by decide)

/-- **progress_partial** (a lemma of `progress`, without hypotheses on the
    configuration): a reachable state in which no transition at all is enabled
    is QUIESCENT: no worker is inside a task, the writer has nothing to write,
    the reader is done or blocked on `in_slots = 0`, and `select_task()` finds
    no runnable task (or `n = 0`). -/
theorem progress_partial {c : Cfg} {s : State} (_h : Reach c s) (hf : s.failed = false)
    (hs : enabled c s = []) : Quiescent c s :=
  stuck_quiescent hf hs

/-- the hypotheses of `progress_partial` are met by the terminated state of the
    F2 run (which is final, hence legitimately without successor) -/
example : ∃ s, Reach cfgF4 s ∧ s.failed = false ∧ enabled cfgF4 s = [] := by
  have h : (run cfgF4 (init cfgF4) traceF2).any
      (fun s => !s.failed && decide (enabled cfgF4 s = [])) = true := by decide +kernel
  obtain ⟨s, hr, hp⟩ := reach_of_run h
  simp only [Bool.and_eq_true, Bool.not_eq_true', decide_eq_true_eq] at hp
  exact ⟨s, hr, hp.1, hp.2⟩

/-! ### termination -/

/-- **measure**: `mu c s` is a 10-tuple (not failed; unread input and reader
    phase; parsing not done; distance of the next header origin to the end of
    the input; distance of the parser position to the end; scan tasks with the
    candidates they can still report; retrieve jobs with their distance to the
    end of the input; buffers still to emit; buffers in reord_q / at the writer;
    queued items not yet picked up) that decreases in the lexicographic order
    `muLt` (well-founded: `muLt_wf`) along EVERY transition of a reachable state
    — there is no label that may repeat for free (the base model has no
    spurious wake-up; the wake-up layer is `Model.SchedDW`).  Only `0 < W` (input
    blocks are non-empty) is needed: `T` is finite, each block emits finitely
    many buffers (`RRes.nb`), and speculative work is bounded because a scan
    position only moves forward and reports each candidate once. -/
theorem measure_decreases {c : Cfg} (hW : 0 < c.W) {s s' : State} {l : Label} (h : Reach c s)
    (hs : step c s l = some s') : muLt (mu c s') (mu c s) :=
  step_measure hW h hs

/-- **terminates**: there is no infinite run from a reachable state, for any
    schedule (no fairness assumption, no hypothesis on the slot counts). -/
theorem terminates {c : Cfg} (hW : 0 < c.W) (f : Nat → State) (ℓ : Nat → Label)
    (h0 : Reach c (f 0)) : ¬ ∀ i, step c (f i) (ℓ i) = some (f (i + 1)) :=
  no_infinite_run hW f ℓ h0

/-- … and a run that cannot be extended has ended in the final state (`failf`
    was called, or all workers left the loop — then `output_eq` applies).  So
    every maximal run is finite and ends in the final state. -/
theorem maximal_run_final {c : Cfg} (hW : 0 < c.W) (hn : 1 ≤ c.n) (ho : EMIT_THRESH < c.totalOut)
    (hti : 1 ≤ c.totalIn) {s : State} (h : Reach c s) (hmax : enabled c s = []) :
    final c s = true := by
  cases hfin : final c s with
  | true => rfl
  | false => exact absurd hmax (progress hW hn ho hti h hfin)

/-- non-vacuity: the measure of the initial state of the F4 shape, and the
    37-step run `traceF2` is a strictly descending chain ending in termination -/
example : ∃ s', run cfgF4 (init cfgF4) traceF2 = some s' ∧ terminated cfgF4 s' = true ∧
    Relation.TransGen muLt (mu cfgF4 s') (mu cfgF4 (init cfgF4)) := by
  cases hr : run cfgF4 (init cfgF4) traceF2 with
  | none =>
    have h : (run cfgF4 (init cfgF4) traceF2).isSome = true := by decide +kernel
    rw [hr] at h; cases h
  | some s' =>
    refine ⟨s', rfl, ?_, run_measure (c := cfgF4) (by decide) traceF2 Reach.init hr (by simp [traceF2])⟩
    have h : (run cfgF4 (init cfgF4) traceF2).any (fun s => terminated cfgF4 s) = true := by
      decide +kernel
    rw [hr] at h; exact h

/-! ### wake-up discipline (refinement `Model.SchedDW`) -/

open LbzVerif.Model.SchedDW in
/-- **no_lost_wakeup**.  `Model.SchedDW` refines the base model with the C
    variable `next_task`, the holder of `sched_mutex` and one state per worker
    (`ready`: runnable, wants the mutex; `inloop`: holds it at the top of
    `while (next_task != NULL)`; `running`: inside a task, mutex released;
    `waiting`: in `xwait`; `exited`), `sched_unlock` = `select_task()` + `xsignal`
    iff `next_task != NULL || finished()`, `xwait` without signal, `xbroadcast`
    at exit, and spurious wake-ups.  Every refined run projects to a run of the
    base model (`reachW_base`), so all theorems above apply.  In every reachable
    refined state:
    * whenever `sched_mutex` is free, `next_task = select_task(state)`, and if a
      task is ready or the process has finished then some worker is runnable
      (`ready`) or nobody is waiting — no wake-up is lost;
    * a worker has exited only if the base state is terminated, and then nobody
      waits any more;
    * the `running` workers are exactly the base model's busy workers, and a
      worker at the top of the loop always finds the base model's
      "a worker is available" guard true — the refinement never blocks a task
      the C program would start. -/
theorem no_lost_wakeup {c : Cfg} (hW : 0 < c.W) {w : WState} (h : ReachW c w) :
    (w.holder = none → (w.nextTask.isSome = true ∨ finished c w.base = true) →
      WPh.ready ∈ w.ws ∨ ∀ p ∈ w.ws, p ≠ .waiting) ∧
    (w.holder = none → w.nextTask = selectTask c w.base) ∧
    (WPh.exited ∈ w.ws → terminated c w.base = true ∧ ∀ p ∈ w.ws, p ≠ .waiting) ∧
    (w.ws.filter (· == .running)).length = busyCount w.base ∧
    (∀ i : Nat, w.ws[i]? = some WPh.inloop → freeWorker c w.base = true) ∧
    Reach c w.base :=
  let n := LbzVerif.Lemmas.SchedD.no_lost_wakeup h
  ⟨n.1, n.2, exit_final hW h, running_count h, fun _ hi => inloop_free h hi, reachW_base h⟩

open LbzVerif.Model.SchedDW in
/-- non-vacuity: a refined run (n = 2) reaches a state with the mutex free, a task
    selected, one worker waiting and the other one runnable; another one reaches
    the state where both workers have exited -/
example : (∃ w, ReachW wakeCfg w ∧ w.holder = none ∧ w.nextTask.isSome = true ∧
      WPh.waiting ∈ w.ws ∧ WPh.ready ∈ w.ws) ∧ (∃ w, ReachW wakeCfg w ∧ WPh.exited ∈ w.ws) := by
  refine ⟨?_, ?_⟩
  · obtain ⟨w, hr, hp⟩ := reachW_of_any wake_witness_signal
    simp only [Bool.and_eq_true, decide_eq_true_eq] at hp
    obtain ⟨⟨h1, h2⟩, h3⟩ := hp
    exact ⟨w, hr, h1, by rw [h2]; rfl, by rw [h3]; simp, by rw [h3]; simp⟩
  · obtain ⟨w, hr, hp⟩ := reachW_of_any wake_witness_exit
    simp only [Bool.and_eq_true, decide_eq_true_eq] at hp
    exact ⟨w, hr, by rw [hp.1]; simp⟩

/-! ### deadlock freedom and termination of the refined model -/

open LbzVerif.Model.SchedDW in
/-- **deadlock_free_w**.  On `Model.SchedDW` (threads, `sched_mutex`, `next_task`,
    `xwait`/`xsignal`/`xbroadcast`, spurious wake-ups): every reachable refined
    state that is not final — `finalW c w` = `failf` was called, or the scheduler
    data are terminated AND every worker thread has left its loop — has an
    enabled transition that is not a spurious wake-up.  Hypotheses exactly as
    for `progress`.  Combines `progress` (some task section / I/O step is
    enabled in the base model), `no_lost_wakeup` (when `next_task != NULL` or
    `finished()`, a worker is runnable or nobody waits; with the mutex free,
    `next_task` is `select_task()` of the current data) and `inloop_free` (the
    worker at the top of the loop can start the selected task).  So the C
    program cannot hang with all workers in `xwait` while work is left or the
    exit broadcast is due — for any schedule, no fairness assumption. -/
theorem deadlock_free_w {c : Cfg} (hW : 0 < c.W) (hn : 1 ≤ c.n) (ho : EMIT_THRESH < c.totalOut)
    (hti : 1 ≤ c.totalIn) {w : WState} (h : ReachW c w) (hnf : finalW c w = false) :
    ∃ l, WLabel.isSpurious l = false ∧ (stepW c w l).isSome = true :=
  LbzVerif.Lemmas.SchedD.deadlock_free_w hW hn ho hti h hnf

open LbzVerif.Model.SchedDW in
/-- non-vacuity: the hypotheses hold for the two-worker configuration `wakeCfg`;
    a reachable non-final state with worker 1 still in `xwait` (worker 0 was
    woken by the reader's signal) has an enabled non-spurious transition -/
example : ∃ w, ReachW wakeCfg w ∧ WPh.waiting ∈ w.ws ∧ finalW wakeCfg w = false ∧
    ∃ l, WLabel.isSpurious l = false ∧ (stepW wakeCfg w l).isSome = true := by
  obtain ⟨w, hr, hp⟩ := reachW_of_any wake_witness_live
  simp only [Bool.and_eq_true, Bool.not_eq_true', decide_eq_true_eq] at hp
  obtain ⟨hnf, h3⟩ := hp
  exact ⟨w, hr, by rw [h3]; simp, hnf,
    deadlock_free_w (by decide) (by decide) (by decide) (by decide) hr hnf⟩

open LbzVerif.Model.SchedDW in
/-- the measure of the refined model: the base measure `mu`, then the number of
    worker threads that have not exited, then the steps an idle worker still
    takes on its own (`ready` 2, `inloop` 1).  It decreases (`muLtW`,
    well-founded: `muLtW_wf`) along every transition of a reachable refined
    state except a spurious wake-up, which costs exactly 2 units of the last
    component and nothing else (`spurious_cost_w`). -/
theorem measure_decreases_w {c : Cfg} (hW : 0 < c.W) {w w' : WState} {l : WLabel}
    (h : ReachW c w) (hl : WLabel.isSpurious l = false) (hs : stepW c w l = some w') :
    muLtW (muW c w') (muW c w) :=
  stepW_measure hW h hl hs

open LbzVerif.Model.SchedDW in
/-- **terminates_w**: in every infinite run of the refined model, from any
    reachable state and for any schedule, the steps that are not spurious
    wake-ups run out again and again: after every index `N` there is an
    `i ≥ N` whose label is a spurious wake-up (the same form as on the
    compression side, `Props.C11.Compress.terminates`).  In particular there is
    no infinite run without spurious wake-ups (`terminates_w_ns`), so every
    maximal run in which the environment eventually stops waking waiters
    spuriously is finite, and it ends in the final state with all workers
    exited (`maximal_run_final_w`).  (Literally "finitely many non-spurious
    steps" would be false: each spurious wake-up is answered by the woken
    worker re-taking the mutex and calling `xwait` again — two non-spurious
    steps, which is exactly what `spurious_cost_w` accounts for.) -/
theorem terminates_w {c : Cfg} (hW : 0 < c.W) (f : Nat → WState) (ℓ : Nat → WLabel)
    (h0 : ReachW c (f 0)) (hstep : ∀ i, stepW c (f i) (ℓ i) = some (f (i + 1))) :
    ∀ N, ∃ i, N ≤ i ∧ WLabel.isSpurious (ℓ i) = true :=
  LbzVerif.Lemmas.SchedD.terminates_w hW f ℓ h0 hstep

open LbzVerif.Model.SchedDW in
/-- no infinite run without spurious wake-ups -/
theorem terminates_w_ns {c : Cfg} (hW : 0 < c.W) (f : Nat → WState) (ℓ : Nat → WLabel)
    (h0 : ReachW c (f 0)) :
    ¬ ∀ i, WLabel.isSpurious (ℓ i) = false ∧ stepW c (f i) (ℓ i) = some (f (i + 1)) :=
  LbzVerif.Lemmas.SchedD.terminates_w_ns hW f ℓ h0

open LbzVerif.Model.SchedDW in
/-- … and a run that ends in a state with no enabled non-spurious transition
    has ended in the final state: `failf` was called, or the scheduler data are
    terminated (then `output_eq` applies) and every worker thread has exited. -/
theorem maximal_run_final_w {c : Cfg} (hW : 0 < c.W) (hn : 1 ≤ c.n) (ho : EMIT_THRESH < c.totalOut)
    (hti : 1 ≤ c.totalIn) {w : WState} (h : ReachW c w)
    (hmax : ∀ l, WLabel.isSpurious l = false → stepW c w l = none) :
    w.base.failed = true ∨ (terminated c w.base = true ∧ ∀ p ∈ w.ws, p = .exited) :=
  maximal_final_w hW hn ho hti h hmax

open LbzVerif.Model.SchedDW in
/-- non-vacuity: in `wakeCfg` a first step strictly decreases the measure, a
    spurious wake-up is enabled in a reachable state (and adds 2 to the last
    component only), and the run `wakeTrace2` reaches the final state with both
    workers exited -/
example : (∃ w', stepW wakeCfg (initW wakeCfg) (.acquire 0) = some w' ∧
      muLtW (muW wakeCfg w') (muW wakeCfg (initW wakeCfg))) ∧
    (∃ w w', ReachW wakeCfg w ∧ stepW wakeCfg w (.spurious 0) = some w' ∧
      w'.base = w.base ∧ live w' = live w ∧ phW w' = phW w + 2) ∧
    (∃ w, ReachW wakeCfg w ∧ finalW wakeCfg w = true ∧ w.base.failed = false ∧
      ∀ p ∈ w.ws, p = WPh.exited) := by
  refine ⟨?_, ?_, ?_⟩
  · cases h : stepW wakeCfg (initW wakeCfg) (.acquire 0) with
    | none => exact absurd h (by decide +kernel)
    | some w' => exact ⟨w', rfl, measure_decreases_w (by decide) .init rfl h⟩
  · cases h : runW wakeCfg (initW wakeCfg) [.acquire 0, .wait 0] with
    | none => exact absurd h (by decide +kernel)
    | some w =>
      have hr := reachW_run _ .init h
      cases h2 : stepW wakeCfg w (.spurious 0) with
      | none =>
        have hx : ((runW wakeCfg (initW wakeCfg) [.acquire 0, .wait 0]).bind
            (fun w => stepW wakeCfg w (.spurious 0))).isSome = true := by decide +kernel
        rw [h] at hx; simp only [Option.bind_some] at hx; rw [h2] at hx; cases hx
      | some w' => exact ⟨w, w', hr, h2, spurious_cost_w h2⟩
  · have hw : (runW wakeCfg (initW wakeCfg) wakeTrace2).any
        (fun w => finalW wakeCfg w && !w.base.failed && w.ws.all (· == .exited)) = true := by
      decide +kernel
    obtain ⟨w, hr, hp⟩ := reachW_of_any hw
    simp only [Bool.and_eq_true, Bool.not_eq_true', List.all_eq_true, beq_iff_eq] at hp
    exact ⟨w, hr, hp.1.1, hp.1.2, hp.2⟩

end LbzVerif.Props.C11.Expand
