/-
  Props.C15.File — the stored CRC fields are enforced, for WHOLE FILES (W22b).

  `Props.C15` shows the two comparisons at the level of the translated pieces
  (`Gen.parseStep` compares the stream CRC, `Gen.reorderStatus` the block CRC).
  Here: in ANY byte string `lbzip2 -d` accepts (`Model.Expand.expandFile x =
  .ok y`, equivalently — `Props.C06.File.expand_iff` — any file the strict
  reference accepts), flipping ANY ONE bit of the stored 32-bit CRC of ANY block
  of ANY stream, or of the stored combined CRC of ANY stream (streams without
  blocks and every stream of a concatenation included), gives a file that
  `lbzip2 -d` rejects; the reference rejects it for exactly the CRC reason
  (`blockCrc` resp. `streamCrc`).

  WHERE the fields are is computed from the file by the reference's own walk:
  `Lemmas.CrcFlipMain.crcFields x : List Field` follows `Spec.Bzip2.decodeStreams`
  / `decodeBlocks` step by step — same sub-parsers (`takeNat`, `parseBlock`,
  `headerLevel`), same offsets (`Block.endBit`, `pos + 80` + padding) — and
  records `Field.block (pos + 48)` at every block magic and `Field.stream
  (pos + 48)` at every end-of-stream magic (`pos` = the bit offset the reference
  itself carries: `Block.startBit` = `pos`, `Lemmas.ExpandPos.parseBlock_pos`).
  `crc_field_position` states what these numbers are in the file itself: bit
  offsets ≥ 80, 32 bits inside the file, directly behind the 48-bit block magic
  resp. end-of-stream magic; `crcFields_fuel_enough`: the walk is not cut short
  by its fuel.  `flipBit x p` flips bit `p` of the byte string (bit 0 = most
  significant bit of byte 0), `bytesToBits_flipBit`.

  Proof: Lemmas/CrcFlipMain.flip_main (induction along the walk: a flip behind
  the current block / marker / header leaves what the reference reads there
  unchanged — `parseBlock_local`, `takeNat_flip_after` —; a flip inside the
  current field changes the 32-bit value — `takeNat_flip` — and nothing else —
  `parseBlock_crc_indep` —, so the comparison fails — `decodeBlock_crc_changed`),
  then `Props.C05.File.expand_sound` / `expand_rejects_malformed`; for the
  real scheduler `crc_flip_never_terminates` (with `Props.C09.File`): no run of
  the scheduler model on the damaged file, whatever the worker count and the
  interleaving, terminates cleanly.
-/
import LbzVerif.Lemmas.CrcFlipMain
import LbzVerif.Lemmas.CrcFlipWitness
import LbzVerif.Props.C06.File
import LbzVerif.Props.C09.File

namespace LbzVerif.Props.C15.File
open LbzVerif LbzVerif.Basic LbzVerif.Model.Expand LbzVerif.Model.SchedD
open LbzVerif.Lemmas.CrcFlipMain LbzVerif.Lemmas.CrcFlipBits
open LbzVerif.Lemmas.ExpandSched (cfgOf)

/-- **block_crc_flip_rejected.**  `x` any byte string that `lbzip2 -d` accepts; `q` the position
of the stored CRC of any block the reference walk finds in `x` (any stream); `k < 32` any of its
bits.  The file with that bit flipped is rejected by `lbzip2 -d`; the strict reference rejects it
with `blockCrc`. -/
theorem block_crc_flip_rejected (x y : List UInt8) (h : expandFile x = .ok y) (q : Nat)
    (hq : Field.block q ∈ crcFields x) (k : Nat) (hk : k < 32) :
    (∃ e, expandFile (flipBit x (q + k)) = .error e) ∧
    Spec.Bzip2.decodeFile (flipBit x (q + k)) = .error .blockCrc := by
  have hd := Props.C05.File.expand_sound x y h
  have hr := (decodeFile_flip x y hd (.block q) hq k hk).2
  exact ⟨Props.C05.File.expand_rejects_malformed _ _ hr, hr⟩

/-- **stream_crc_flip_rejected.**  The same for the stored combined CRC of any stream of `x`
(first or later stream of a concatenation, with or without blocks): rejected by `lbzip2 -d`, and
by the strict reference with `streamCrc`. -/
theorem stream_crc_flip_rejected (x y : List UInt8) (h : expandFile x = .ok y) (q : Nat)
    (hq : Field.stream q ∈ crcFields x) (k : Nat) (hk : k < 32) :
    (∃ e, expandFile (flipBit x (q + k)) = .error e) ∧
    Spec.Bzip2.decodeFile (flipBit x (q + k)) = .error .streamCrc := by
  have hd := Props.C05.File.expand_sound x y h
  have hr := (decodeFile_flip x y hd (.stream q) hq k hk).2
  exact ⟨Props.C05.File.expand_rejects_malformed _ _ hr, hr⟩

/-- Both, for any field: after the flip no output is accepted at all. -/
theorem crc_flip_never_accepted (x y : List UInt8) (h : expandFile x = .ok y) (f : Field)
    (hf : f ∈ crcFields x) (k : Nat) (hk : k < 32) (y' : List UInt8) :
    expandFile (flipBit x (f.pos + k)) ≠ .ok y' := by
  intro hy'
  have hd := Props.C05.File.expand_sound x y h
  have hr := (decodeFile_flip x y hd f hf k hk).2
  rw [Props.C05.File.expand_sound _ _ hy'] at hr
  cases hr

/-- **crc_field_position.**  What the recorded positions are, in the file itself: a recorded
field starts at a bit offset `≥ 80`, its 32 bits lie inside the file, and the 48 bits in front of
it are the block magic (for `Field.block`) resp. the end-of-stream magic (for `Field.stream`). -/
theorem crc_field_position (x : List UInt8) (f : Field) (hf : f ∈ crcFields x) :
    80 ≤ f.pos ∧ f.pos + 32 ≤ 8 * x.length ∧
    takeNat 48 ((bytesToBits x).drop (f.pos - 48)) = some (f.magic, (bytesToBits x).drop f.pos) :=
  crcFields_magic x f hf

/-- The walk that collects the fields is not cut short: any larger fuel finds the same fields. -/
theorem crcFields_fuel_enough (n : Nat) (level pos : Nat) (bits : Bits) (x : List UInt8)
    (hb : bits.length ≤ 8 * x.length) (hn : 8 * x.length < n) :
    fieldsGo (8 * x.length + 1) (some level) pos bits = fieldsGo n (some level) pos bits :=
  fieldsGo_fuel _ _ _ _ _ (by omega) (by omega)

/-- The flip really changes the file, and only that bit (so the theorems are about a different
file of the same length). -/
theorem flipBit_changes (x : List UInt8) (p : Nat) (hp : p < 8 * x.length) :
    flipBit x p ≠ x ∧ (flipBit x p).length = x.length ∧ flipBit (flipBit x p) p = x := by
  refine ⟨?_, flipBit_length x p, flipBit_flipBit x p⟩
  intro e
  have h1 := bytesToBits_flipBit x p
  rw [e] at h1
  exact flipAt_ne (bytesToBits x) p (by rw [bytesToBits_length]; exact hp) h1.symm

/-- a flip behind the 4-byte header leaves the header alone -/
theorem flipBit_header (x : List UInt8) (p : Nat) (hp : 32 ≤ p) :
    Lemmas.Copy.hasHeader (flipBit x p) = Lemmas.Copy.hasHeader x ∧
    Lemmas.Copy.headerLevel (flipBit x p) = Lemmas.Copy.headerLevel x := by
  have h0 : ¬ p < 8 := by omega
  have h1 : ¬ p - 8 < 8 := by omega
  have h2 : ¬ p - 8 - 8 < 8 := by omega
  have h3 : ¬ p - 8 - 8 - 8 < 8 := by omega
  match x with
  | [] => exact ⟨rfl, rfl⟩
  | [a] => simp [flipBit, h0, Lemmas.Copy.hasHeader, Lemmas.Copy.headerLevel]
  | [a, b] => simp [flipBit, h0, h1, Lemmas.Copy.hasHeader, Lemmas.Copy.headerLevel]
  | [a, b, c] => simp [flipBit, h0, h1, h2, Lemmas.Copy.hasHeader, Lemmas.Copy.headerLevel]
  | a :: b :: c :: d :: rest =>
    simp [flipBit, h0, h1, h2, h3, Lemmas.Copy.hasHeader, Lemmas.Copy.headerLevel]

/-- **No schedule lets the damaged file through**: on the file with a flipped CRC bit no reachable
state of the decompression scheduler model (any worker count, granularity, slot totals, candidate
set, interleaving) is a clean termination. -/
theorem crc_flip_never_terminates (x y : List UInt8) (h : expandFile x = .ok y) (f : Field)
    (hf : f ∈ crcFields x) (k : Nat) (hk : k < 32)
    (n W totalIn totalOut : Nat) (ultra : Bool) (cand : List Nat) {s : State}
    (hr : Reach (cfgOf (Lemmas.Copy.headerLevel (flipBit x (f.pos + k)))
      ((flipBit x (f.pos + k)).drop 4) n W totalIn totalOut ultra cand) s) :
    terminated (cfgOf (Lemmas.Copy.headerLevel (flipBit x (f.pos + k)))
      ((flipBit x (f.pos + k)).drop 4) n W totalIn totalOut ultra cand) s = false := by
  have hd := Props.C05.File.expand_sound x y h
  obtain ⟨h80, hrj⟩ := decodeFile_flip x y hd f hf k hk
  obtain ⟨e, he⟩ := Props.C05.File.expand_rejects_malformed _ _ hrj
  have hh : Lemmas.Copy.hasHeader x = true := by
    cases hx : Lemmas.Copy.hasHeader x with
    | true => rfl
    | false =>
      rw [Lemmas.ExpandTop.expandFile_eq, hx] at h
      simp at h
  have hh' : Lemmas.Copy.hasHeader (flipBit x (f.pos + k)) = true := by
    rw [(flipBit_header x (f.pos + k) (by omega)).1]; exact hh
  exact Props.C09.File.rejected_never_terminates _ hh' e he n W totalIn totalOut ultra cand hr

/-! ### non-vacuity: the real file `aBz2` ("a", `bzip2 -9`) and a two-stream file -/

open LbzVerif.Lemmas.ExpandHello LbzVerif.Lemmas.CrcFlipWitness

-- the hypotheses hold: the file is accepted and has one block field (bits 80…111) and one stream
-- field (bits 259…290); the conclusions, instantiated at bit 5 resp. bit 31
example : (∃ e, expandFile (flipBit aBz2 (80 + 5)) = .error e) ∧
    Spec.Bzip2.decodeFile (flipBit aBz2 (80 + 5)) = .error .blockCrc :=
  block_crc_flip_rejected aBz2 [97] expandFile_aBz2 80 (by rw [crcFields_aBz2]; simp) 5 (by omega)

example : (∃ e, expandFile (flipBit aBz2 (259 + 31)) = .error e) ∧
    Spec.Bzip2.decodeFile (flipBit aBz2 (259 + 31)) = .error .streamCrc :=
  stream_crc_flip_rejected aBz2 [97] expandFile_aBz2 259 (by rw [crcFields_aBz2]; simp) 31 (by omega)

-- … and the kernel evaluation of the model on the two flipped files agrees, with the error the
-- real program prints ("block CRC mismatch" from do_reorder, "stream CRC mismatch" from parse())
example : expandFile (flipBit aBz2 (80 + 5)) = .error (.block Gen.ERR_BLKCRC) ∧
    expandFile (flipBit aBz2 (259 + 31)) = .error (.data Gen.ERR_STRMCRC) :=
  ⟨flip_block_aBz2, flip_stream_aBz2⟩

-- a second stream without blocks: its CRC field (bits 376…407) is found and enforced too
example : (∃ e, expandFile (flipBit twoStreams (376 + 0)) = .error e) ∧
    Spec.Bzip2.decodeFile (flipBit twoStreams (376 + 0)) = .error .streamCrc :=
  stream_crc_flip_rejected twoStreams [97] expandFile_twoStreams 376
    (by rw [crcFields_twoStreams]; simp) 0 (by omega)

-- the scheduler form, instantiated (hypotheses satisfiable: the initial state is reachable)
example : terminated (cfgOf (Lemmas.Copy.headerLevel (flipBit aBz2 (80 + 5)))
    ((flipBit aBz2 (80 + 5)).drop 4) 4 65536 16 64 false [])
    (init (cfgOf (Lemmas.Copy.headerLevel (flipBit aBz2 (80 + 5)))
      ((flipBit aBz2 (80 + 5)).drop 4) 4 65536 16 64 false [])) = false :=
  crc_flip_never_terminates aBz2 [97] expandFile_aBz2 (.block 80) (by rw [crcFields_aBz2]; simp) 5
    (by omega) 4 65536 16 64 false [] Reach.init

-- the recorded positions of `aBz2`, and what stands in front of them
example : crcFields aBz2 = [.block 80, .stream 259] ∧
    takeNat 48 ((bytesToBits aBz2).drop 32) = some (Spec.Bzip2.blockMagic, (bytesToBits aBz2).drop 80) :=
  ⟨crcFields_aBz2, (crc_field_position aBz2 (.block 80) (by rw [crcFields_aBz2]; simp)).2.2⟩

end LbzVerif.Props.C15.File
