/-
  Props.C16 — interrupted or failed runs never lose data.

  All theorems are about `Model.Files`: every configuration reachable by
  `step` from `init fs0`, for EVERY initial file system `fs0`, EVERY scenario
  `sc` (compress / decompress, ±k, ±f, any list of work() events) and EVERY
  behaviour of the environment (`Inj` at every step: an errno for the call, a
  signal before / after it — SIGINT, SIGTERM, SIGKILL —, the asynchrony bit
  `defer`, a failing cleanup unlink).  The only hypothesis on the scenario
  is that input and output path differ (`sc.inP ≠ sc.outP`; the output name is
  the input name with a suffix added or removed).
-/
import LbzVerif.Model.Files

namespace LbzVerif.Props.C16

open LbzVerif.Model.Fail (Errno Signo Ending SIGINT SIGTERM SIGKILL SIGPIPE SIGXFSZ
  mainBailoutEnd silent genSignal ENOENT)
open LbzVerif.Model.Files

/-! ### The invariant -/

section
variable (sc : Scn) (fs0 : FS)

def InSame (c : Cfg) : Prop := c.fs sc.inP = fs0 sc.inP

def OutData (c : Cfg) (todo : List WOp) : Prop :=
  ∃ f, c.fs sc.outP = some f ∧ f.kind = .reg ∧ f.bytes ++ writes todo = expected sc

def InstatOk (c : Cfg) : Prop := fs0 sc.inP = some c.instat

def MetaUG (c : Cfg) : Prop :=
  ∀ f, c.fs sc.outP = some f → f.uid = c.instat.uid ∧ f.gid = c.instat.gid

def MetaM (c : Cfg) : Prop :=
  ∀ f, c.fs sc.outP = some f → f.mode = c.instat.mode &&& 0o777

def MetaT (c : Cfg) : Prop :=
  ∀ f, c.fs sc.outP = some f → f.atime = c.instat.atime ∧ f.mtime = c.instat.mtime

/-- The phase in which the output file is ours (created by this run with
O_EXCL and tracked in `opathn`): at creation time the path was free, so
either it was free from the start or `-f` had removed what was there. -/
def Ours (c : Cfg) (todo : List WOp) : Prop :=
  InSame sc fs0 c ∧ OutData sc c todo ∧ c.opathn = true ∧ c.blocked = true ∧
  InstatOk sc fs0 c ∧ (fs0 sc.outP = none ∨ sc.force = true)

/-- SIGKILL-safety of a configuration: the input is as before, or it is gone
and the complete, closed output exists. -/
def KillSafe (c : Cfg) : Prop :=
  c.fs sc.inP = fs0 sc.inP ∨ (c.fs sc.inP = none ∧ Complete sc c)

/-- State after the operand has been dealt with (skipped with a warning, or
done). -/
def Settled (c : Cfg) : Prop :=
  (c.warned = true ∧ c.stderr = true ∧ Untouched sc fs0 c) ∨
  (Done sc fs0 c ∧
   (c.warned = false → MetaUG sc c ∧ MetaM sc c ∧ MetaT sc c ∧ InstatOk sc fs0 c ∧
      (sc.keep = true ∨ c.fs sc.inP = none ∨ c.rmFailed = true)))

def Inv (c : Cfg) : Prop :=
  match c.pc with
  | .lstat | .openIn =>
    InSame sc fs0 c ∧ c.fs sc.outP = fs0 sc.outP ∧ c.opathn = false ∧ c.blocked = false
  | .closeInSkip =>
    InSame sc fs0 c ∧ c.fs sc.outP = fs0 sc.outP ∧ c.opathn = false ∧ c.blocked = false ∧
    c.warned = true ∧ c.stderr = true
  | .fstat =>
    InSame sc fs0 c ∧ c.fs sc.outP = fs0 sc.outP ∧ c.opathn = false ∧ c.blocked = false ∧
    (∃ f, fs0 sc.inP = some f)
  | .cli =>
    InSame sc fs0 c ∧ c.fs sc.outP = fs0 sc.outP ∧ c.opathn = false ∧ c.blocked = false ∧
    InstatOk sc fs0 c
  | .unlinkOut =>
    InSame sc fs0 c ∧ c.fs sc.outP = fs0 sc.outP ∧ c.opathn = false ∧ c.blocked = true ∧
    InstatOk sc fs0 c ∧ sc.force = true
  | .openOut =>
    InSame sc fs0 c ∧ (c.fs sc.outP = fs0 sc.outP ∨ (sc.force = true ∧ c.fs sc.outP = none)) ∧
    c.opathn = false ∧ c.blocked = true ∧ InstatOk sc fs0 c
  | .work todo => Ours sc fs0 c todo
  | .fchown => Ours sc fs0 c []
  | .fchmod => Ours sc fs0 c [] ∧ (c.warned = false → MetaUG sc c)
  | .futimens => Ours sc fs0 c [] ∧ (c.warned = false → MetaUG sc c ∧ MetaM sc c)
  | .closeOut =>
    Ours sc fs0 c [] ∧ (c.warned = false → MetaUG sc c ∧ MetaM sc c ∧ MetaT sc c)
  | .unlinkIn =>
    InSame sc fs0 c ∧ Complete sc c ∧ c.opathn = false ∧ c.blocked = true ∧
    InstatOk sc fs0 c ∧ sc.keep = false ∧
    (c.warned = false → MetaUG sc c ∧ MetaM sc c ∧ MetaT sc c)
  | .sti => Settled sc fs0 c ∧ c.opathn = false ∧ c.blocked = true
  | .closeIn => Settled sc fs0 c ∧ c.opathn = false ∧ c.blocked = false
  | .exit => Settled sc fs0 c ∧ c.opathn = false ∧ c.blocked = false
  | .ended e =>
    KillSafe sc fs0 c ∧
    (e ≠ .died SIGKILL → c.cleanupFailed = false → Untouched sc fs0 c ∨ Done sc fs0 c) ∧
    (e = .exit 0 → Settled sc fs0 c ∧ c.warned = false) ∧
    (e = .exit 4 → Settled sc fs0 c ∧ c.warned = true)

end

/-! ### File-system facts -/

@[simp] theorem set_same (fs : FS) (p : Path) (v : Option File) : (fs.set p v) p = v := by
  simp [FS.set]

theorem set_ne (fs : FS) {p q : Path} (v : Option File) (h : q ≠ p) :
    (fs.set p v) q = fs q := by
  simp [FS.set, h]

theorem bail_ne_exit0 (a b : Bool) : mainBailoutEnd a b ≠ .exit 0 := by
  unfold mainBailoutEnd; split <;> (try split) <;> simp

theorem bail_ne_exit4 (a b : Bool) : mainBailoutEnd a b ≠ .exit 4 := by
  unfold mainBailoutEnd; split <;> (try split) <;> simp

theorem bail_ne_kill (a b : Bool) : mainBailoutEnd a b ≠ .died SIGKILL := by
  unfold mainBailoutEnd; split <;> (try split) <;> simp [SIGKILL, SIGPIPE, SIGXFSZ]

section
variable {sc : Scn} {fs0 : FS}

theorem killSafe_of_inv {c : Cfg} (h : Inv sc fs0 c) : KillSafe sc fs0 c := by
  unfold Inv at h
  unfold KillSafe
  split at h
  all_goals first
    | exact Or.inl h.1
    | exact Or.inl h.1.1
    | exact h.1
    | (rcases h.1 with hs | hd
       · exact Or.inl hs.2.2.1
       · rcases hd.1.2 with hg | hk
         · exact Or.inr ⟨hg, hd.1.1⟩
         · exact Or.inl hk.1)

/-- Ending (not by SIGKILL, not with status 0/4) in a state that is untouched
or done. -/
theorem inv_end_plain {c c' : Cfg} {e : Ending}
    (hfs : c'.fs = c.fs) (hcl : c'.closedOk = c.closedOk) (hrm : c'.rmFailed = c.rmFailed)
    (hpc : c'.pc = .ended e)
    (hk : Untouched sc fs0 c ∨ Done sc fs0 c) (h0 : e ≠ .exit 0) (h4 : e ≠ .exit 4) :
    Inv sc fs0 c' := by
  have hk' : Untouched sc fs0 c' ∨ Done sc fs0 c' := by
    simpa [Untouched, Done, Complete, hfs, hcl, hrm] using hk
  simp only [Inv, hpc]
  refine ⟨?_, fun _ _ => hk', fun h => absurd h h0, fun h => absurd h h4⟩
  rcases hk' with hu | hd
  · exact Or.inl hu.1
  · rcases hd.2 with hg | hs
    · exact Or.inr ⟨hg, hd.1⟩
    · exact Or.inl hs.1

theorem untouched_of_pre {c : Cfg} (h1 : InSame sc fs0 c) (h2 : c.fs sc.outP = fs0 sc.outP) :
    Untouched sc fs0 c := ⟨h1, Or.inl h2⟩

/-- cleanup() in the phase where the output is ours gives back an untouched
operand (if its unlink works). -/
theorem cleanup_ours (hne : sc.inP ≠ sc.outP) {c : Cfg} {todo : List WOp} (inj : Inj)
    (h : Ours sc fs0 c todo) :
    InSame sc fs0 (cleanup sc c inj) ∧
    ((cleanup sc c inj).cleanupFailed = false → Untouched sc fs0 (cleanup sc c inj)) := by
  obtain ⟨hin, _, hop, _, _, hwas⟩ := h
  unfold cleanup
  simp only [hop, if_true]
  split
  · exact ⟨hin, fun hc => by simp at hc⟩
  · refine ⟨?_, fun _ => ⟨?_, ?_⟩⟩
    · simpa [InSame, set_ne _ _ hne] using hin
    · simpa [InSame, set_ne _ _ hne] using hin
    · rcases hwas with hw | hf
      · left; simp [hw]
      · right; simp [hf]

theorem fatal_ours (hne : sc.inP ≠ sc.outP) {c : Cfg} {todo : List WOp} (inj : Inj)
    (msg p x : Bool) (h : Ours sc fs0 c todo) : Inv sc fs0 (fatal sc c inj msg p x) := by
  obtain ⟨h1, h2⟩ := cleanup_ours hne inj h
  simp only [fatal, Inv]
  refine ⟨Or.inl ?_, fun _ hcf => Or.inl ?_, fun h => absurd h (bail_ne_exit0 _ _),
    fun h => absurd h (bail_ne_exit4 _ _)⟩
  · simpa [InSame] using h1
  · simpa [Untouched] using h2 hcf

theorem halt_ours (hne : sc.inP ≠ sc.outP) {c : Cfg} {todo : List WOp} (inj : Inj)
    (h : Ours sc fs0 c todo) : Inv sc fs0 (haltSignal sc c inj) := by
  obtain ⟨h1, h2⟩ := cleanup_ours hne inj h
  simp only [haltSignal, Inv]
  refine ⟨Or.inl ?_, fun _ hcf => Or.inl ?_, fun h => ?_, fun h => ?_⟩
  · simpa [InSame] using h1
  · simpa [Untouched] using h2 hcf
  · split at h <;> simp at h
  · split at h <;> simp at h

/-- A fatal error while no output is tracked. -/
theorem fatal_free {c : Cfg} (inj : Inj) (msg p x : Bool) (hop : c.opathn = false)
    (hk : Untouched sc fs0 c ∨ Done sc fs0 c) : Inv sc fs0 (fatal sc c inj msg p x) := by
  have hc : cleanup sc c inj = c := by simp [cleanup, hop]
  simp only [fatal, hc]
  exact inv_end_plain rfl rfl rfl rfl hk (bail_ne_exit0 _ _) (bail_ne_exit4 _ _)

/-- Updates of fields the invariant does not look at. -/
theorem inv_congr {c c' : Cfg} (h : Inv sc fs0 c)
    (h1 : c'.fs = c.fs) (h2 : c'.pc = c.pc) (h3 : c'.blocked = c.blocked)
    (h4 : c'.opathn = c.opathn) (h5 : c'.warned = c.warned) (h6 : c'.stderr = c.stderr)
    (h7 : c'.instat = c.instat) (h8 : c'.closedOk = c.closedOk)
    (h9 : c'.rmFailed = c.rmFailed) (h10 : c'.cleanupFailed = c.cleanupFailed) :
    Inv sc fs0 c' := by
  unfold Inv at h ⊢
  rw [h2]
  cases hpc : c.pc <;> simp only [hpc] at h ⊢ <;>
    simpa [InSame, OutData, InstatOk, MetaUG, MetaM, MetaT, Ours, KillSafe, Settled,
      Untouched, Done, Complete, h1, h3, h4, h5, h6, h7, h8, h9, h10] using h

theorem inv_kill {c : Cfg} (h : Inv sc fs0 c) :
    Inv sc fs0 { c with pc := .ended (.died SIGKILL) } := by
  have hk := killSafe_of_inv h
  simp only [Inv]
  refine ⟨by simpa [KillSafe, Complete] using hk, fun h => absurd rfl h, fun h => by simp at h,
    fun h => by simp at h⟩

/-- SIGINT / SIGTERM with the default action (outside cli()..sti()). -/
theorem inv_sigdfl {c : Cfg} (sg : Signo) (h : Inv sc fs0 c) (hb : c.blocked = false)
    (hne : c.isEnded = false) :
    Inv sc fs0 { c with pc := .ended (.died sg) } := by
  have hk : Untouched sc fs0 c ∨ Done sc fs0 c := by
    unfold Inv at h
    split at h
    all_goals first
      | exact Or.inl (untouched_of_pre h.1 h.2.1)
      | (have := h.2.2.2.1; simp [hb] at this; done)
      | (have := h.2.2.1; simp [hb] at this; done)
      | (have := h.1.2.2.2.1; simp [hb] at this; done)
      | (have := h.2.2; simp [hb] at this; done)
      | (rcases h.1 with hs | hd
         · exact Or.inl hs.2.2
         · exact Or.inr hd.1)
      | (rename_i hpc; simp [Cfg.isEnded, hpc] at hne)
  exact inv_end_plain rfl rfl rfl rfl hk (by simp) (by simp)

theorem inv_kill' {c : Cfg} (st w : Bool) (h : Inv sc fs0 c) :
    Inv sc fs0 { c with pc := .ended (.died SIGKILL), stderr := st, warned := w } := by
  have hk := killSafe_of_inv h
  simp only [Inv]
  refine ⟨by simpa [KillSafe, Complete] using hk, fun h => absurd rfl h, fun h => by simp at h,
    fun h => by simp at h⟩

theorem inv_arrive {c : Cfg} (sg : Sig) (h : Inv sc fs0 c) (hne : c.isEnded = false) :
    Inv sc fs0 (arrive c sg) := by
  cases sg with
  | kill => exact inv_kill h
  | int =>
    simp only [arrive]
    by_cases hb : c.blocked = true
    · rw [if_pos hb]
      exact inv_congr h rfl rfl rfl rfl rfl rfl rfl rfl rfl rfl
    · rw [if_neg hb]
      exact inv_sigdfl SIGINT h (by simpa using hb) hne
  | term =>
    simp only [arrive]
    by_cases hb : c.blocked = true
    · rw [if_pos hb]
      exact inv_congr h rfl rfl rfl rfl rfl rfl rfl rfl rfl rfl
    · rw [if_neg hb]
      exact inv_sigdfl SIGTERM h (by simpa using hb) hne

/-- `skip` (input_init returned -1) from a state before cli(). -/
theorem skip_inv {c : Cfg} (h1 : InSame sc fs0 c) (h2 : c.fs sc.outP = fs0 sc.outP)
    (h3 : c.opathn = false) (h4 : c.blocked = false) : Inv sc fs0 (skip c) := by
  simp only [skip, warn, Inv]
  exact ⟨Or.inl ⟨rfl, rfl, h1, Or.inl h2⟩, h3, h4⟩

theorem exec_lstat {c : Cfg} (inj : Inj) (h : Inv sc fs0 c) (hpc : c.pc = .lstat) :
    Inv sc fs0 (exec sc c inj) := by
  simp only [Inv, hpc] at h
  obtain ⟨h1, h2, h3, h4⟩ := h
  simp only [exec, hpc]
  split
  · simp only [Inv]; exact ⟨h1, h2, h3, h4⟩
  · split
    · exact skip_inv h1 h2 h3 h4
    · exact skip_inv h1 h2 h3 h4
    · split
      · exact skip_inv (c := { c with instat := _ }) h1 h2 h3 h4
      · split
        · exact skip_inv (c := { c with instat := _ }) h1 h2 h3 h4
        · simp only [Inv]; exact ⟨h1, h2, h3, h4⟩

theorem exec_openIn {c : Cfg} (inj : Inj) (h : Inv sc fs0 c) (hpc : c.pc = .openIn) :
    Inv sc fs0 (exec sc c inj) := by
  simp only [Inv, hpc] at h
  obtain ⟨h1, h2, h3, h4⟩ := h
  simp only [exec, hpc]
  split
  · exact skip_inv h1 h2 h3 h4
  · split
    · exact skip_inv h1 h2 h3 h4
    · exact skip_inv h1 h2 h3 h4
    · simp only [Inv]
      refine ⟨h1, h2, h3, h4, ?_⟩
      rw [← h1]
      exact ⟨_, by assumption⟩

theorem exec_fstat {c : Cfg} (inj : Inj) (h : Inv sc fs0 c) (hpc : c.pc = .fstat) :
    Inv sc fs0 (exec sc c inj) := by
  simp only [Inv, hpc] at h
  obtain ⟨h1, h2, h3, h4, f, hf⟩ := h
  simp only [exec, hpc]
  split
  · simp only [warn, Inv]; exact ⟨h1, h2, h3, h4, by simp⟩
  · split
    · rename_i g hg
      simp only [Inv]
      refine ⟨h1, h2, h3, h4, ?_⟩
      simp only [InstatOk]
      rw [← h1]; exact hg
    · rename_i hg
      rw [h1, hf] at hg
      simp at hg

theorem exec_closeInSkip {c : Cfg} (inj : Inj) (h : Inv sc fs0 c) (hpc : c.pc = .closeInSkip) :
    Inv sc fs0 (exec sc c inj) := by
  simp only [Inv, hpc] at h
  obtain ⟨h1, h2, h3, h4, h5, h6⟩ := h
  simp only [exec, hpc]
  split
  · exact fatal_free inj _ _ _ h3 (Or.inl (untouched_of_pre h1 h2))
  · simp only [Inv]
    exact ⟨Or.inl ⟨h5, h6, h1, Or.inl h2⟩, h3, h4⟩

theorem exec_cli {c : Cfg} (inj : Inj) (h : Inv sc fs0 c) (hpc : c.pc = .cli) :
    Inv sc fs0 (exec sc c inj) := by
  simp only [Inv, hpc] at h
  obtain ⟨h1, h2, h3, h4, h5⟩ := h
  simp only [exec, hpc]
  by_cases hf : sc.force = true
  · simp only [hf, if_true, Inv]; exact ⟨h1, h2, h3, by simp, h5, by simp⟩
  · simp only [hf, Inv]; exact ⟨h1, Or.inl h2, h3, by simp, h5⟩

theorem exec_unlinkOut (hne : sc.inP ≠ sc.outP) {c : Cfg} (inj : Inj) (h : Inv sc fs0 c)
    (hpc : c.pc = .unlinkOut) : Inv sc fs0 (exec sc c inj) := by
  simp only [Inv, hpc] at h
  obtain ⟨h1, h2, h3, h4, h5, h6⟩ := h
  simp only [exec, hpc]
  split
  · simp only [Inv]; exact ⟨h1, Or.inl h2, h3, h4, h5⟩
  · simp only [Inv]; exact ⟨h1, Or.inl h2, h3, h4, h5⟩
  · simp only [Inv]
    refine ⟨?_, Or.inr ⟨h6, by simp⟩, h3, h4, h5⟩
    simpa [InSame, set_ne _ _ hne] using h1

theorem exec_openOut (hne : sc.inP ≠ sc.outP) {c : Cfg} (inj : Inj) (h : Inv sc fs0 c)
    (hpc : c.pc = .openOut) : Inv sc fs0 (exec sc c inj) := by
  simp only [Inv, hpc] at h
  obtain ⟨h1, h2, h3, h4, h5⟩ := h
  simp only [exec, hpc]
  split
  · simp only [warn, Inv]; exact ⟨Or.inl ⟨rfl, rfl, h1, h2⟩, h3, h4⟩
  · simp only [warn, Inv]; exact ⟨Or.inl ⟨rfl, rfl, h1, h2⟩, h3, h4⟩
  · rename_i hnone _
    simp only [Inv, Ours]
    refine ⟨?_, ⟨newFile sc c, by simp, rfl, by simp [newFile, expected]⟩, by simp, h4, h5, ?_⟩
    · simpa [InSame, set_ne _ _ hne] using h1
    · rcases h2 with h2 | h2
      · left; rw [← h2]; exact hnone
      · exact Or.inr h2.1

theorem updOut_ours (hne : sc.inP ≠ sc.outP) {c : Cfg} {todo : List WOp} (g : File → File)
    (hk : ∀ f, (g f).kind = f.kind) (hb : ∀ f, (g f).bytes = f.bytes)
    (h : Ours sc fs0 c todo) : Ours sc fs0 (updOut sc c g) todo := by
  obtain ⟨h1, ⟨f, hf, hkind, hbytes⟩, h3, h4, h5, h6⟩ := h
  simp only [updOut, hf, Ours]
  refine ⟨?_, ⟨g f, by simp, by rw [hk]; exact hkind, by rw [hb]; exact hbytes⟩, h3, h4, h5, h6⟩
  simpa [InSame, set_ne _ _ hne] using h1

theorem exec_work (hne : sc.inP ≠ sc.outP) {c : Cfg} (inj : Inj) (todo : List WOp)
    (h : Inv sc fs0 c) (hpc : c.pc = .work todo) : Inv sc fs0 (exec sc c inj) := by
  simp only [Inv, hpc] at h
  cases todo with
  | nil =>
    simp only [exec, hpc]
    split
    · split
      · simp only [Inv]
        exact h
      · exact halt_ours hne inj h
    · simp only [Inv]; exact h
  | cons op todo =>
    simp only [exec, hpc]
    split
    · exact halt_ours hne inj h
    · split
      · exact fatal_ours hne inj _ _ _ h
      · exact fatal_ours hne inj _ _ _ h
      · exact fatal_ours hne inj _ _ _ h
      · simp only [Inv]
        obtain ⟨h1, ⟨f, hf, hkind, hbytes⟩, h3, h4, h5, h6⟩ := h
        exact ⟨h1, ⟨f, hf, hkind, by simpa [writes] using hbytes⟩, h3, h4, h5, h6⟩
      · rename_i ch _
        simp only [Inv]
        obtain ⟨h1, ⟨f, hf, hkind, hbytes⟩, h3, h4, h5, h6⟩ := h
        simp only [updOut, hf, Ours]
        refine ⟨?_, ⟨{ f with bytes := f.bytes ++ ch }, by simp, hkind, ?_⟩, h3, h4, h5, h6⟩
        · simpa [InSame, set_ne _ _ hne] using h1
        · simpa [writes, List.append_assoc] using hbytes

theorem ours_warn {c : Cfg} {todo : List WOp} (h : Ours sc fs0 c todo) :
    Ours sc fs0 (warn c) todo := by
  simpa [Ours, warn, InSame, OutData, InstatOk] using h

theorem exec_fchown (hne : sc.inP ≠ sc.outP) {c : Cfg} (inj : Inj) (h : Inv sc fs0 c)
    (hpc : c.pc = .fchown) : Inv sc fs0 (exec sc c inj) := by
  simp only [Inv, hpc] at h
  simp only [exec, hpc]
  split
  · simp only [Inv]
    exact ⟨by simpa [Ours, warn, InSame, OutData, InstatOk] using h, by simp [warn]⟩
  · obtain ⟨h1, ⟨f, hf, hkind, hbytes⟩, h3, h4, h5, h6⟩ := h
    simp only [updOut, hf]
    have hin : (c.fs.set sc.outP (some { f with uid := c.instat.uid, gid := c.instat.gid })) sc.inP
        = fs0 sc.inP := by simpa [InSame, set_ne _ _ hne] using h1
    split
    · simp only [Inv, warn]
      refine ⟨⟨hin, ⟨{ f with uid := c.instat.uid, gid := c.instat.gid }, by simp, hkind, hbytes⟩, h3, h4, h5, h6⟩, by simp⟩
    · simp only [Inv]
      refine ⟨⟨hin, ⟨{ f with uid := c.instat.uid, gid := c.instat.gid }, by simp, hkind, hbytes⟩, h3, h4, h5, h6⟩, fun _ => ?_⟩
      intro g hg
      simp at hg
      subst hg
      simp

theorem exec_fchmod (hne : sc.inP ≠ sc.outP) {c : Cfg} (inj : Inj) (h : Inv sc fs0 c)
    (hpc : c.pc = .fchmod) : Inv sc fs0 (exec sc c inj) := by
  simp only [Inv, hpc] at h
  simp only [exec, hpc]
  obtain ⟨hours, hmeta⟩ := h
  split
  · simp only [Inv]
    exact ⟨by simpa [Ours, warn, InSame, OutData, InstatOk] using hours, by simp [warn]⟩
  · obtain ⟨h1, ⟨f, hf, hkind, hbytes⟩, h3, h4, h5, h6⟩ := hours
    simp only [updOut, hf]
    have hin : (c.fs.set sc.outP (some { f with mode := c.instat.mode &&& 0o777 })) sc.inP
        = fs0 sc.inP := by simpa [InSame, set_ne _ _ hne] using h1
    simp only [Inv]
    refine ⟨⟨hin, ⟨{ f with mode := c.instat.mode &&& 0o777 }, by simp, hkind, hbytes⟩, h3, h4, h5, h6⟩, fun hw => ⟨?_, ?_⟩⟩
    · intro g hg
      simp at hg
      subst hg
      exact hmeta hw f hf
    · intro g hg
      simp at hg
      subst hg
      simp

theorem exec_futimens (hne : sc.inP ≠ sc.outP) {c : Cfg} (inj : Inj) (h : Inv sc fs0 c)
    (hpc : c.pc = .futimens) : Inv sc fs0 (exec sc c inj) := by
  simp only [Inv, hpc] at h
  simp only [exec, hpc]
  obtain ⟨hours, hmeta⟩ := h
  split
  · simp only [Inv]
    exact ⟨by simpa [Ours, warn, InSame, OutData, InstatOk] using hours, by simp [warn]⟩
  · obtain ⟨h1, ⟨f, hf, hkind, hbytes⟩, h3, h4, h5, h6⟩ := hours
    simp only [updOut, hf]
    have hin : (c.fs.set sc.outP (some { f with atime := c.instat.atime, mtime := c.instat.mtime }))
        sc.inP = fs0 sc.inP := by simpa [InSame, set_ne _ _ hne] using h1
    simp only [Inv]
    refine ⟨⟨hin, ⟨{ f with atime := c.instat.atime, mtime := c.instat.mtime }, by simp, hkind, hbytes⟩, h3, h4, h5, h6⟩, fun hw => ⟨?_, ?_, ?_⟩⟩
    · intro g hg
      simp at hg
      subst hg
      exact (hmeta hw).1 f hf
    · intro g hg
      simp at hg
      subst hg
      exact (hmeta hw).2 f hf
    · intro g hg
      simp at hg
      subst hg
      simp

theorem exec_closeOut (hne : sc.inP ≠ sc.outP) {c : Cfg} (inj : Inj) (h : Inv sc fs0 c)
    (hpc : c.pc = .closeOut) : Inv sc fs0 (exec sc c inj) := by
  simp only [Inv, hpc] at h
  simp only [exec, hpc]
  obtain ⟨hours, hmeta⟩ := h
  split
  · exact fatal_ours hne inj _ _ _ hours
  · obtain ⟨h1, ⟨f, hf, hkind, hbytes⟩, h3, h4, h5, h6⟩ := hours
    have hb : f.bytes = expected sc := by simpa [writes] using hbytes
    have hcomp : ∀ c' : Cfg, c'.fs = c.fs → c'.closedOk = true → Complete sc c' :=
      fun c' e1 e2 => ⟨f, by rw [e1]; exact hf, hkind, hb, e2⟩
    by_cases hk : sc.keep = true
    · simp only [hk, if_true, Inv]
      refine ⟨Or.inr ⟨⟨hcomp _ rfl rfl, Or.inr ⟨h1, Or.inl hk⟩⟩, fun hw => ?_⟩, by simp, h4⟩
      obtain ⟨m1, m2, m3⟩ := hmeta hw
      exact ⟨m1, m2, m3, h5, Or.inl hk⟩
    · simp only [hk, Inv]
      exact ⟨h1, hcomp _ rfl rfl, by simp, h4, h5, by first | trivial | exact (Bool.not_eq_true _).mp hk, hmeta⟩

theorem exec_unlinkIn (hne : sc.inP ≠ sc.outP) {c : Cfg} (inj : Inj) (h : Inv sc fs0 c)
    (hpc : c.pc = .unlinkIn) : Inv sc fs0 (exec sc c inj) := by
  simp only [Inv, hpc] at h
  simp only [exec, hpc]
  obtain ⟨h1, hcomp, h3, h4, h5, h6, hmeta⟩ := h
  split
  · rename_i hnone
    simp only [Inv]
    refine ⟨Or.inr ⟨⟨hcomp, Or.inl hnone⟩, fun hw => ?_⟩, h3, h4⟩
    obtain ⟨m1, m2, m3⟩ := hmeta hw
    exact ⟨m1, m2, m3, h5, Or.inr (Or.inl hnone)⟩
  · split
    · simp only [Inv]
      refine ⟨Or.inr ⟨⟨hcomp, Or.inr ⟨h1, Or.inr rfl⟩⟩, fun hw => ?_⟩, h3, h4⟩
      obtain ⟨m1, m2, m3⟩ := hmeta hw
      exact ⟨m1, m2, m3, h5, Or.inr (Or.inr rfl)⟩
    · simp only [Inv, warn]
      refine ⟨Or.inr ⟨⟨hcomp, Or.inr ⟨h1, Or.inr rfl⟩⟩, fun hw => by simp at hw⟩, h3, h4⟩
  · simp only [Inv]
    obtain ⟨f, hf, hrest⟩ := hcomp
    have hout : (c.fs.set sc.inP none) sc.outP = some f := by
      rw [set_ne _ _ (Ne.symm hne)]; exact hf
    have hcomp' : Complete sc { c with fs := c.fs.set sc.inP none, pc := .sti } :=
      ⟨f, hout, hrest⟩
    refine ⟨Or.inr ⟨⟨hcomp', Or.inl (by simp)⟩, fun hw => ?_⟩, h3, h4⟩
    obtain ⟨m1, m2, m3⟩ := hmeta hw
    refine ⟨?_, ?_, ?_, h5, Or.inr (Or.inl (by simp))⟩
    · intro g hg; exact m1 g (by rw [← hg]; exact (set_ne _ _ (Ne.symm hne)).symm)
    · intro g hg; exact m2 g (by rw [← hg]; exact (set_ne _ _ (Ne.symm hne)).symm)
    · intro g hg; exact m3 g (by rw [← hg]; exact (set_ne _ _ (Ne.symm hne)).symm)

theorem settled_cases {c : Cfg} (h : Settled sc fs0 c) : Untouched sc fs0 c ∨ Done sc fs0 c := by
  rcases h with hs | hd
  · exact Or.inl hs.2.2
  · exact Or.inr hd.1

theorem exec_sti {c : Cfg} (inj : Inj) (h : Inv sc fs0 c) (hpc : c.pc = .sti) :
    Inv sc fs0 (exec sc c inj) := by
  simp only [Inv, hpc] at h
  simp only [exec, hpc]
  obtain ⟨hs, h3, h4⟩ := h
  split
  · exact inv_end_plain rfl rfl rfl rfl (settled_cases hs) (by simp) (by simp)
  · split
    · exact inv_end_plain rfl rfl rfl rfl (settled_cases hs) (by simp) (by simp)
    · simp only [Inv]
      exact ⟨hs, h3, by simp⟩

theorem exec_closeIn {c : Cfg} (inj : Inj) (h : Inv sc fs0 c) (hpc : c.pc = .closeIn) :
    Inv sc fs0 (exec sc c inj) := by
  simp only [Inv, hpc] at h
  simp only [exec, hpc]
  obtain ⟨hs, h3, h4⟩ := h
  split
  · exact fatal_free inj _ _ _ h3 (settled_cases hs)
  · simp only [Inv]
    exact ⟨hs, h3, h4⟩

theorem exec_exit {c : Cfg} (inj : Inj) (h : Inv sc fs0 c) (hpc : c.pc = .exit) :
    Inv sc fs0 (exec sc c inj) := by
  simp only [Inv, hpc] at h
  simp only [exec, hpc]
  obtain ⟨hs, h3, h4⟩ := h
  have hk := killSafe_of_inv (sc := sc) (fs0 := fs0) (c := c) (by simp only [Inv, hpc]; exact ⟨hs, h3, h4⟩)
  simp only [Inv]
  refine ⟨hk, fun _ _ => settled_cases hs, fun h0 => ⟨hs, ?_⟩, fun h4 => ⟨hs, ?_⟩⟩
  · by_cases hw : c.warned = true
    · simp [hw] at h0
    · simpa using hw
  · by_cases hw : c.warned = true
    · exact hw
    · simp [hw] at h4

theorem inv_exec (hne : sc.inP ≠ sc.outP) {c : Cfg} (inj : Inj) (h : Inv sc fs0 c) :
    Inv sc fs0 (exec sc c inj) := by
  cases hpc : c.pc with
  | lstat => exact exec_lstat inj h hpc
  | openIn => exact exec_openIn inj h hpc
  | fstat => exact exec_fstat inj h hpc
  | closeInSkip => exact exec_closeInSkip inj h hpc
  | cli => exact exec_cli inj h hpc
  | unlinkOut => exact exec_unlinkOut hne inj h hpc
  | openOut => exact exec_openOut hne inj h hpc
  | work todo => exact exec_work hne inj todo h hpc
  | fchown => exact exec_fchown hne inj h hpc
  | fchmod => exact exec_fchmod hne inj h hpc
  | futimens => exact exec_futimens hne inj h hpc
  | closeOut => exact exec_closeOut hne inj h hpc
  | unlinkIn => exact exec_unlinkIn hne inj h hpc
  | sti => exact exec_sti inj h hpc
  | closeIn => exact exec_closeIn inj h hpc
  | exit => exact exec_exit inj h hpc
  | ended e =>
    have : exec sc c inj = c := by simp only [exec, hpc]
    rw [this]; exact h

theorem inv_before {c : Cfg} (inj : Inj) (h : Inv sc fs0 c) (hne : c.isEnded = false) :
    Inv sc fs0 (before c inj) := by
  unfold before
  split
  · exact inv_arrive _ h hne
  · exact h

theorem inv_after {c1 c2 : Cfg} (inj : Inj) (h : Inv sc fs0 c2) :
    Inv sc fs0 (after c1 c2 inj) := by
  unfold after
  split
  · by_cases he2 : c2.isEnded = true
    · rw [if_pos he2]; exact h
    · rw [if_neg he2]
      have h3 := inv_kill' (sc := sc) (fs0 := fs0) c1.stderr c1.warned h
      exact h3
  · by_cases he2 : c2.isEnded = true
    · rw [if_pos he2]; exact h
    · rw [if_neg he2]
      exact inv_arrive _ h (by simpa using he2)
  · exact h

theorem inv_step (hne : sc.inP ≠ sc.outP) {c : Cfg} (inj : Inj) (h : Inv sc fs0 c) :
    Inv sc fs0 (step sc c inj) := by
  unfold step
  by_cases he : c.isEnded = true
  · rw [if_pos he]; exact h
  · rw [if_neg he]
    have h1 := inv_before inj h (by simpa using he)
    by_cases he1 : (before c inj).isEnded = true
    · rw [if_pos he1]; exact h1
    · rw [if_neg he1]
      exact inv_after inj (inv_exec hne inj h1)

theorem inv_init : Inv sc fs0 (init fs0) := by
  simp [init, Inv, InSame]

theorem inv_reach (hne : sc.inP ≠ sc.outP) {c : Cfg} (h : Reach sc fs0 c) : Inv sc fs0 c := by
  induction h with
  | init => exact inv_init
  | step inj _ ih => exact inv_step hne inj ih

/-! ### Frame: no other path is touched -/

theorem cleanup_frame {c : Cfg} (inj : Inj) {q : Path} (h2 : q ≠ sc.outP) :
    (cleanup sc c inj).fs q = c.fs q := by
  unfold cleanup
  split
  · split
    · rfl
    · exact set_ne _ _ h2
  · rfl

theorem updOut_frame {c : Cfg} (g : File → File) {q : Path} (h2 : q ≠ sc.outP) :
    (updOut sc c g).fs q = c.fs q := by
  unfold updOut
  split
  · exact set_ne _ _ h2
  · rfl

set_option linter.unusedSimpArgs false in
theorem exec_frame {c : Cfg} (inj : Inj) {q : Path} (h1 : q ≠ sc.inP) (h2 : q ≠ sc.outP) :
    (exec sc c inj).fs q = c.fs q := by
  unfold exec
  repeat' split
  all_goals
    first
    | rfl
    | exact set_ne _ _ h2
    | exact set_ne _ _ h1
    | exact cleanup_frame inj h2
    | exact updOut_frame _ h2
    | (simp [skip, warn, fatal, haltSignal, cleanup_frame inj h2, updOut_frame _ h2]; done)
    | (simp only []; split <;> simp [warn, updOut_frame _ h2])

theorem arrive_fs (c : Cfg) (sg : Sig) : (arrive c sg).fs = c.fs := by
  cases sg <;> simp only [arrive] <;> (try split) <;> rfl

theorem step_frame {c : Cfg} (inj : Inj) {q : Path} (h1 : q ≠ sc.inP) (h2 : q ≠ sc.outP) :
    (step sc c inj).fs q = c.fs q := by
  have hb : (before c inj).fs = c.fs := by
    unfold before; split
    · exact arrive_fs _ _
    · rfl
  unfold step
  split
  · rfl
  · split
    · rw [hb]
    · have : (after (before c inj) (exec sc (before c inj) inj) inj).fs
          = (exec sc (before c inj) inj).fs := by
        unfold after
        split
        · split
          · rfl
          · exact arrive_fs _ _
        · split
          · rfl
          · exact arrive_fs _ _
        · rfl
      rw [this, exec_frame inj h1 h2, hb]

end

/-! ### The property theorems -/

section
variable (sc : Scn) (fs0 : FS)

/-- **kill_prefix.**  In EVERY reachable configuration — i.e. after every
prefix of the step sequence, which is where a SIGKILL (or a power cut) leaves
the file system — the input is exactly as it was, or it has been removed and
then the complete output exists and its close() has succeeded. -/
theorem kill_prefix (hne : sc.inP ≠ sc.outP) {c : Cfg} (h : Reach sc fs0 c) :
    c.fs sc.inP = fs0 sc.inP ∨ (c.fs sc.inP = none ∧ Complete sc c) :=
  killSafe_of_inv (inv_reach hne h)

/-- **two_states.**  When the process has ended in any way other than SIGKILL
(exit status, or death by SIGINT / SIGTERM / SIGPIPE / SIGXFSZ), the operand
is *untouched* or *done* — provided cleanup()'s own unlink did not fail (its
result is ignored by the code; if it fails a partial output stays, the input
is still intact: `kill_prefix`).

`Untouched` says precisely what holds at the output path: it names what it
named before the run, or — ONLY with `-f` — nothing, because `-f` removed a
pre-existing file there before the new output was created (the user's
request; that file is not restored when the run then fails). -/
theorem two_states (hne : sc.inP ≠ sc.outP) {c : Cfg} (h : Reach sc fs0 c) {e : Ending}
    (hpc : c.pc = .ended e) (hk : e ≠ .died SIGKILL) (hcf : c.cleanupFailed = false) :
    Untouched sc fs0 c ∨ Done sc fs0 c := by
  have hi := inv_reach hne h
  simp only [Inv, hpc] at hi
  exact hi.2.1 hk hcf

/-- Without `-f` an untouched operand means literally: both paths name what
they named before. -/
theorem untouched_without_force {c : Cfg} (hf : sc.force = false)
    (h : Untouched sc fs0 c) : c.fs sc.inP = fs0 sc.inP ∧ c.fs sc.outP = fs0 sc.outP := by
  refine ⟨h.1, ?_⟩
  rcases h.2 with h2 | h2
  · exact h2
  · rw [hf] at h2; exact absurd h2.1 (by simp)

/-- **status_ok.**  Exit status 0 ⇒ the operand is done, nothing was warned
about, the input is gone unless `-k` (or its unlink reported ENOENT), and the
output carries the input's owner, permission bits and times. -/
theorem status_ok (hne : sc.inP ≠ sc.outP) {c : Cfg} (h : Reach sc fs0 c)
    (hpc : c.pc = .ended (.exit 0)) :
    Done sc fs0 c ∧ c.warned = false ∧
    (sc.keep = true ∨ c.fs sc.inP = none ∨ c.rmFailed = true) ∧
    (∀ f i, c.fs sc.outP = some f → fs0 sc.inP = some i →
      f.uid = i.uid ∧ f.gid = i.gid ∧ f.mode = i.mode &&& 0o777 ∧
      f.atime = i.atime ∧ f.mtime = i.mtime) := by
  have hi := inv_reach hne h
  simp only [Inv, hpc] at hi
  obtain ⟨hs, hw⟩ := hi.2.2.1 trivial
  rcases hs with hs | hd
  · rw [hw] at hs; exact absurd hs.1 (by simp)
  · obtain ⟨m1, m2, m3, m4, m5⟩ := hd.2 hw
    refine ⟨hd.1, hw, m5, fun f i hf hi0 => ?_⟩
    have : i = c.instat := by
      have := m4; unfold InstatOk at this; rw [hi0] at this; exact Option.some.inj this
    subst this
    exact ⟨(m1 f hf).1, (m1 f hf).2, m2 f hf, (m3 f hf).1, (m3 f hf).2⟩

/-- **status_warn.**  Exit status 4 ⇒ the operand is done (something about
metadata or the input's removal was warned about), or it was skipped: untouched
and a message was printed. -/
theorem status_warn (hne : sc.inP ≠ sc.outP) {c : Cfg} (h : Reach sc fs0 c)
    (hpc : c.pc = .ended (.exit 4)) :
    c.warned = true ∧ ((Untouched sc fs0 c ∧ c.stderr = true) ∨ Done sc fs0 c) := by
  have hi := inv_reach hne h
  simp only [Inv, hpc] at hi
  obtain ⟨hs, hw⟩ := hi.2.2.2 trivial
  refine ⟨hw, ?_⟩
  rcases hs with hs | hd
  · exact Or.inl ⟨hs.2.2, hs.2.1⟩
  · exact Or.inr hd.1

/-- The ways a run ends after a fatal I/O error. -/
def FaultEnd (e : Ending) : Prop := e = .exit 1 ∨ e = .died SIGPIPE ∨ e = .died SIGXFSZ

theorem bail_faultEnd (a b : Bool) : FaultEnd (mainBailoutEnd a b) := by
  unfold mainBailoutEnd FaultEnd; split <;> (try split) <;> simp

/-- **status_fault.**  In any reachable configuration inside work(): if the
next read()/write() fails (any errno), or the data is corrupt, the process
ends right there with status 1 (or SIGPIPE / SIGXFSZ for EPIPE / EFBIG on a
write) and the operand is untouched. -/
theorem status_fault (hne : sc.inP ≠ sc.outP) {c : Cfg} (h : Reach sc fs0 c) (inj : Inj)
    (op : WOp) (todo : List WOp) (hpc : c.pc = .work (op :: todo))
    (hsb : inj.sigBefore = none) (hp1 : c.pendInt = false) (hp2 : c.pendTerm = false)
    (hfail : op = .corrupt ∨ inj.err.isSome = true) :
    ∃ e, (step sc c inj).pc = .ended e ∧ FaultEnd e ∧
      ((step sc c inj).cleanupFailed = false → Untouched sc fs0 (step sc c inj)) := by
  have hi := inv_reach hne h
  simp only [Inv, hpc] at hi
  have hb : before c inj = c := by simp [before, hsb]
  have hne' : c.isEnded = false := by simp [Cfg.isEnded, hpc]
  -- the call ends the process: `exec` is a `fatal`
  have hex : ∃ msg p x, exec sc c inj = fatal sc c inj msg p x := by
    simp only [exec, hpc, hp1, hp2, Bool.or_self, Bool.false_and, Bool.false_eq_true, if_false]
    rcases hfail with hc | he
    · subst hc; exact ⟨_, _, _, rfl⟩
    · cases op with
      | corrupt => exact ⟨_, _, _, rfl⟩
      | read =>
        cases hie : inj.err with
        | none => rw [hie] at he; simp at he
        | some e => exact ⟨_, _, _, rfl⟩
      | write ch =>
        cases hie : inj.err with
        | none => rw [hie] at he; simp at he
        | some e => exact ⟨_, _, _, rfl⟩
  obtain ⟨msg, p, x, hex⟩ := hex
  have hst : step sc c inj = fatal sc c inj msg p x := by
    have hen : (fatal sc c inj msg p x).isEnded = true := by simp [fatal, Cfg.isEnded]
    unfold step
    rw [if_neg (by simp [hne']), hb, if_neg (by simp [hne']), hex]
    unfold after
    split
    · rw [if_pos hen]
    · rw [if_pos hen]
    · rfl
  rw [hst]
  obtain ⟨_, h2⟩ := cleanup_ours hne inj hi
  refine ⟨mainBailoutEnd p x, by simp [fatal], bail_faultEnd _ _, fun hcf => ?_⟩
  simpa [fatal, Untouched] using h2 (by simpa [fatal] using hcf)

/-- **status_fault_close.**  A failing close() of the output ends the process
with status 1 and the operand untouched (cleanup() removes the output). -/
theorem status_fault_close (hne : sc.inP ≠ sc.outP) {c : Cfg} (h : Reach sc fs0 c) (inj : Inj)
    (hpc : c.pc = .closeOut) (hsb : inj.sigBefore = none) (e : Errno) (he : inj.err = some e) :
    (step sc c inj).pc = .ended (.exit 1) ∧
      ((step sc c inj).cleanupFailed = false → Untouched sc fs0 (step sc c inj)) := by
  have hi := inv_reach hne h
  simp only [Inv, hpc] at hi
  have hb : before c inj = c := by simp [before, hsb]
  have hne' : c.isEnded = false := by simp [Cfg.isEnded, hpc]
  have hex : exec sc c inj = fatal sc c inj (!silent e) false false := by
    simp only [exec, hpc, he]
  have hst : step sc c inj = fatal sc c inj (!silent e) false false := by
    have hen : (fatal sc c inj (!silent e) false false).isEnded = true := by
      simp [fatal, Cfg.isEnded]
    unfold step
    rw [if_neg (by simp [hne']), hb, if_neg (by simp [hne']), hex]
    unfold after
    split
    · rw [if_pos hen]
    · rw [if_pos hen]
    · rfl
  rw [hst]
  obtain ⟨_, h2⟩ := cleanup_ours hne inj hi.1
  refine ⟨by simp [fatal, mainBailoutEnd], fun hcf => ?_⟩
  simpa [fatal, Untouched] using h2 (by simpa [fatal] using hcf)

/-- **status_fault_halt.**  A SIGINT / SIGTERM that the main thread acts on
inside halt() (pending, not deferred) ends the process by that signal with the
operand untouched. -/
theorem status_fault_halt (hne : sc.inP ≠ sc.outP) {c : Cfg} (h : Reach sc fs0 c) (inj : Inj)
    (todo : List WOp) (hpc : c.pc = .work todo) (hsb : inj.sigBefore = none)
    (hp : c.pendInt = true ∨ c.pendTerm = true) (hd : inj.defer = false) :
    ∃ sg, (sg = SIGINT ∨ sg = SIGTERM) ∧ (step sc c inj).pc = .ended (.died sg) ∧
      ((step sc c inj).cleanupFailed = false → Untouched sc fs0 (step sc c inj)) := by
  have hi := inv_reach hne h
  simp only [Inv, hpc] at hi
  have hb : before c inj = c := by simp [before, hsb]
  have hne' : c.isEnded = false := by simp [Cfg.isEnded, hpc]
  have hpp : (c.pendInt || c.pendTerm) = true := by
    rcases hp with hp | hp <;> simp [hp]
  have hex : exec sc c inj = haltSignal sc c inj := by
    cases todo with
    | nil => simp only [exec, hpc, hpp, hd, if_true, Bool.false_eq_true, if_false]
    | cons op todo => simp [exec, hpc, hpp, hd]
  have hst : step sc c inj = haltSignal sc c inj := by
    have hen : (haltSignal sc c inj).isEnded = true := by simp [haltSignal, Cfg.isEnded]
    unfold step
    rw [if_neg (by simp [hne']), hb, if_neg (by simp [hne']), hex]
    unfold after
    split
    · rw [if_pos hen]
    · rw [if_pos hen]
    · rfl
  rw [hst]
  obtain ⟨_, h2⟩ := cleanup_ours hne inj hi
  refine ⟨if (cleanup sc c inj).pendInt then SIGINT else SIGTERM, ?_, by simp [haltSignal],
    fun hcf => ?_⟩
  · split <;> simp
  · simpa [haltSignal, Untouched] using h2 (by simpa [haltSignal] using hcf)

/-- **status_exit1.**  The one way to exit status 1 with the operand DONE: the
final close() of the *input* descriptor fails (input_uninit → failx).  By then
`opathn` is 0, so nothing is removed: the file system is not changed by this
step and the operand stays as it was — untouched (it had been skipped) or done.
Data-safe, but the status is 1 although the output is complete. -/
theorem status_exit1 (hne : sc.inP ≠ sc.outP) {c : Cfg} (h : Reach sc fs0 c) (inj : Inj)
    (hpc : c.pc = .closeIn) (hsb : inj.sigBefore = none) (e : Errno) (he : inj.err = some e) :
    (step sc c inj).pc = .ended (.exit 1) ∧ (step sc c inj).fs = c.fs ∧
      (Untouched sc fs0 c ∨ Done sc fs0 c) := by
  have hi := inv_reach hne h
  simp only [Inv, hpc] at hi
  have hb : before c inj = c := by simp [before, hsb]
  have hne' : c.isEnded = false := by simp [Cfg.isEnded, hpc]
  have hex : exec sc c inj = fatal sc c inj (!silent e) false false := by
    simp only [exec, hpc, he]
  have hst : step sc c inj = fatal sc c inj (!silent e) false false := by
    have hen : (fatal sc c inj (!silent e) false false).isEnded = true := by
      simp [fatal, Cfg.isEnded]
    unfold step
    rw [if_neg (by simp [hne']), hb, if_neg (by simp [hne']), hex]
    unfold after
    split
    · rw [if_pos hen]
    · rw [if_pos hen]
    · rfl
  rw [hst]
  refine ⟨by simp [fatal, mainBailoutEnd], by simp [fatal, cleanup, hi.2.1], settled_cases hi.1⟩

/-- **frame.**  No path other than the operand's input and output path is ever
changed. -/
theorem frame {c : Cfg} (h : Reach sc fs0 c) {q : Path} (h1 : q ≠ sc.inP) (h2 : q ≠ sc.outP) :
    c.fs q = fs0 q := by
  induction h with
  | init => rfl
  | step inj _ ih => rw [step_frame inj h1 h2, ih]

end

/-! ### The hypotheses are satisfiable: concrete runs

`a` (mode 0644) is compressed to `a.bz2` with `-f` while an old `a.bz2`
exists; work() does one read and two writes. -/

namespace Ex

def sc : Scn :=
  { decompress := false, force := true, keep := false, inP := "a", outP := "a.bz2",
    sufSkip := false, ops := [.read, .write [1, 2], .write [3]], euid := 0, egid := 0,
    now := 9, disp := ⟨true, true⟩ }

def fileA : File :=
  { kind := .reg, bytes := [7, 7], mode := 0o644, nlink := 1, uid := 5, gid := 6,
    atime := 1, mtime := 2 }

def old : File :=
  { kind := .reg, bytes := [0xEE], mode := 0o600, nlink := 1, uid := 0, gid := 0,
    atime := 3, mtime := 4 }

def fs0 : FS := fun q =>
  if q = "a" then some fileA else if q = "a.bz2" then some old else none

def runL (injs : List Inj) : Cfg := injs.foldl (step sc) (init fs0)

theorem reach_foldl {c : Cfg} (h : Reach sc fs0 c) (injs : List Inj) :
    Reach sc fs0 (injs.foldl (step sc) c) := by
  induction injs generalizing c with
  | nil => exact h
  | cons i l ih => exact ih (Reach.step i h)

theorem reach_runL (injs : List Inj) : Reach sc fs0 (runL injs) := reach_foldl Reach.init injs

theorem hne : sc.inP ≠ sc.outP := by decide

def ok : Inj := {}
def errAt (e : Errno) : Inj := { err := some e }

/-- fault-free: 18 steps, exit 0, `a` gone, `a.bz2` = [1,2,3] with a's mode -/
def good : List Inj := List.replicate 18 ok

example : (runL good).pc = .ended (.exit 0) := by decide
example : Done sc fs0 (runL good) := (status_ok sc fs0 hne (reach_runL good) (by decide)).1
example : (runL good).fs "a" = none ∧
    ((runL good).fs "a.bz2").map (fun f => (f.bytes, f.mode)) = some ([1, 2, 3], 0o644) := by
  decide

/-- the second write fails with ENOSPC: exit 1, `a` intact, and — `-f` — the
OLD `a.bz2` is gone as well (removed before the new one was created) -/
def wfail : List Inj := List.replicate 8 ok ++ [errAt 28]

example : (runL wfail).pc = .ended (.exit 1) := by decide
example : Untouched sc fs0 (runL wfail) ∨ Done sc fs0 (runL wfail) :=
  two_states sc fs0 hne (reach_runL wfail) (e := .exit 1) (by decide) (by decide) (by decide)
example : (runL wfail).fs "a" = some fileA ∧ (runL wfail).fs "a.bz2" = none := by decide
/-- the hypotheses of `status_fault` hold at that point -/
example :=
  status_fault sc fs0 hne (reach_runL (List.replicate 8 ok)) (errAt 28)
    (.write [3]) [] (by decide) rfl (by decide) (by decide) (Or.inr rfl)

/-- SIGKILL right after the first write: `a` intact, a partial `a.bz2` -/
def killed : List Inj := List.replicate 7 ok ++ [({ sigAfter := some .kill } : Inj)]

example : (runL killed).pc = .ended (.died SIGKILL) := by decide
example := kill_prefix sc fs0 hne (reach_runL killed)
example : (runL killed).fs "a" = some fileA ∧
    ((runL killed).fs "a.bz2").map (·.bytes) = some [1, 2] := by decide

/-- SIGTERM during fchmod: pending until sti(), operand done, death by SIGTERM -/
def late : List Inj :=
  List.replicate 11 ok ++ [({ sigBefore := some .term } : Inj)] ++ List.replicate 6 ok

example : (runL late).pc = .ended (.died SIGTERM) := by decide
example : (runL late).fs "a" = none ∧ ((runL late).fs "a.bz2").map (·.bytes) = some [1, 2, 3] := by
  decide

/-- close(output) fails: exit 1, untouched -/
example : (step sc (runL (List.replicate 13 ok)) (errAt 5)).pc = .ended (.exit 1) :=
  (status_fault_close sc fs0 hne (reach_runL (List.replicate 13 ok)) (errAt 5)
    (by decide) rfl 5 rfl).1

/-- close(input) fails: exit 1 although the operand is done -/
example : (step sc (runL (List.replicate 16 ok)) (errAt 5)).pc = .ended (.exit 1) :=
  (status_exit1 sc fs0 hne (reach_runL (List.replicate 16 ok)) (errAt 5)
    (by decide) rfl 5 rfl).1
example : ((runL (List.replicate 16 ok)).fs "a") = none := by decide

/-- SIGINT pending in halt(): hypotheses of `status_fault_halt` -/
example :=
  status_fault_halt sc fs0 hne
    (reach_runL (List.replicate 6 ok ++ [({ sigAfter := some .int } : Inj)])) ok
    [.write [1, 2], .write [3]] (by decide) rfl (Or.inl (by decide)) rfl

/-- the input cannot be opened → skipped: exit 4, untouched, message -/
def skipped : List Inj := [ok, errAt 13] ++ List.replicate 3 ok

example : (runL skipped).pc = .ended (.exit 4) := by decide
example := status_warn sc fs0 hne (reach_runL skipped) (by decide)

example (q : Path) (h1 : q ≠ "a") (h2 : q ≠ "a.bz2") : (runL good).fs q = fs0 q :=
  frame sc fs0 (reach_runL good) h1 h2

end Ex

end LbzVerif.Props.C16
