/-
  Props.C13.Compress — C13 (compression half): live heap memory of the
  compression pipeline is bounded by a linear function of the worker count,
  in every reachable state (every input, every schedule), as a corollary of
  C11's conservation laws.

  Allocation sites (src/compress.c, src/process.c) and what limits them:
    * `xmalloc(encoder_alloc_size(bs100k*100000))` + `struct work_blk`
      (do_collect / do_collect_seq), freed in do_transmit — one per WORK UNIT
      in use (`unitHolders`);
    * `XNMALLOC(in_granul)` in source_thread_proc + `struct in_blk`, freed by
      source_release_buffer — one per INPUT SLOT in use (`chunkHolders`);
    * `XNMALLOC((size+3)/4, uint32_t)` in do_transmit, freed in
      on_write_complete — one per OUTPUT SLOT in use (`slotHolders`).
  Sizes are parameters (`encBytes` = encoder_alloc_size(...) + sizeof work_blk,
  `chunkBytes` = in_granul + sizeof in_blk, `bufBytes` = bound on a compressed
  block + sizeof work_blk); the queue arrays are fixed-size (`cCaps`).
-/
import LbzVerif.Lemmas.SchedC.Witness

namespace LbzVerif.Props.C13.Compress
open LbzVerif.Gen LbzVerif.Model.SchedC

variable {α σ : Type}

structure Sizes where
  encBytes : Nat
  chunkBytes : Nat
  bufBytes : Nat

/-- bytes alive in a state (upper bound: every object at its maximal size) -/
def liveBytes (z : Sizes) (s : State α σ) : Nat :=
  z.encBytes * unitHolders s + z.chunkBytes * chunkHolders s + z.bufBytes * slotHolders s

def memBound (z : Sizes) (c : Cfg) : Nat :=
  z.encBytes * c.n + z.chunkBytes * c.totalIn + z.bufBytes * c.totalOut

/-- **C13 (compression)**: live bytes never exceed `memBound`, whatever the
    input size, compression ratio or schedule. -/
theorem live_le (z : Sizes) {c : Cfg} {cd : Codec α σ} {input : List α} {s : State α σ}
    (h : Reach c cd input s) : liveBytes z s ≤ memBound z c := by
  obtain ⟨_, i2, i3, i4, _, _⟩ := (inv1_reach h).cons
  have a : unitHolders s ≤ c.n := by omega
  have b : chunkHolders s ≤ c.totalIn := by omega
  have d : slotHolders s ≤ c.totalOut := by omega
  exact Nat.add_le_add (Nat.add_le_add (Nat.mul_le_mul_left _ a) (Nat.mul_le_mul_left _ b))
    (Nat.mul_le_mul_left _ d)

/-- with the generated `set_memory_constraints()` the bound is linear in the
    worker count: `n·(enc + 2·chunk + 2·buf) + 2·buf`, independent of the input. -/
theorem memBound_linear (z : Sizes) (n bs : Nat) (u : Bool) :
    memBound z (Cfg.ofGen n bs u) =
      n * (z.encBytes + 2 * z.chunkBytes + 2 * z.bufBytes) + 2 * z.bufBytes := by
  simp only [memBound, Cfg.ofGen, memCompress]
  rw [Nat.mul_add, Nat.mul_add, Nat.mul_add]
  have e1 : z.chunkBytes * (2 * n) = n * (2 * z.chunkBytes) := by
    rw [Nat.mul_comm, Nat.mul_comm 2 n, Nat.mul_assoc]
  have e2 : z.bufBytes * (2 * n) = n * (2 * z.bufBytes) := by
    rw [Nat.mul_comm, Nat.mul_comm 2 n, Nat.mul_assoc]
  rw [e1, e2, Nat.mul_comm z.encBytes n, Nat.mul_comm z.bufBytes 2]
  omega

/-- non-vacuity: a reachable state with 1 encoder, 2 chunks... alive -/
example : liveBytes ⟨1000, 100, 10⟩ wMid = 1000 * 1 + 100 * 0 + 10 * 2 ∧
    Reach wCfg wCodec wInput wMid := ⟨by decide, wMid_reach⟩

end LbzVerif.Props.C13.Compress
