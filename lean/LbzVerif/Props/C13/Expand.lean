/-
  Props.C13.Expand — C13 (decompression half): live heap memory of the
  expansion pipeline is bounded by a linear function of the worker count in
  every reachable state of `Model.SchedD` (every input abstraction, every
  candidate set, every schedule), as a corollary of C11's conservation and
  capacity theorems.  In particular the bound does not depend on the input: a
  million-fold decompression bomb occupies one decoder and `total_out` output
  buffers like any other block.

  Allocation sites (src/expand.c, src/process.c, src/decode.c) and what limits
  them (holders: `Lemmas/SchedD/Mem.lean`):
    * `struct retr_blk` + `decoder_init` (`tt` = 900000·4 bytes,
      `retriever_internal_state`): do_parse:572-575, do_scan:856-858;
      `struct emit_blk` takes the decoder over (do_retrieve:677-682); freed by
      `discard()`:381-382 and do_emit:736-737 — one per retrieve/emit job, each
      of which holds a WORK UNIT (`decHolders ≤ n`, conservation);
    * input buffer `XNMALLOC(in_granul)` (source thread) + `struct in_blk`
      (on_input_avail:891), freed when `ref_count` drops to 0 (detach:343-346,
      advance:402-405, do_parse:488-491) or at once when parsing is done
      (908-910) — one per INPUT SLOT in use (`inputAlive`, `in_slots_conservation`);
    * `xmalloc(sizeof(struct out_blk) + out_granul)`: do_emit:717 (after
      `out_slots--`), freed by do_reorder:765 (bogus block) and
      on_write_complete:928 (before `++out_slots`) — one per OUTPUT SLOT in use
      (`slotsHeld`, conservation);
    * `struct unord_blk` (72 bytes): do_scan:850, freed by `discard()`:378,
      do_parse:514/543/560, do_retrieve:669 — linked from a live retrieve job
      or queued in unord_q (`no_unord_leak`), so ≤ cap(unord_q) + n;
    * scan descriptor `struct detached_bitstream`: on_input_avail:902, freed
      by advance:420, do_parse:506, do_scan:831/868 — at most one per live
      input block (`scanLive ≤ inputAlive`, from `scanBlocks.Nodup`);
    * `struct head_blk`: stored by value in the array of `order_q`;
    * the seven queue arrays, allocated once in `init()`:970-977 with the
      capacities `Gen.unordCap`, `Gen.orderCap`, in_slots, work_units,
      out_slots (`fixedBytes`); `small_objects` shows they never overflow.
  Sizes are parameters (`Sizes`).  Not modelled: the fixed process-level
  allocations (thread descriptors, stdio, `struct parser_state` is static).

  Hypotheses, stated explicitly: input granularity `W ≥ 1`, `n ≥ 1`, and
  `EMIT_THRESH < total_out` (needed by `unord_q_capacity`; the shipped slot
  formulas give `total_out ≥ 2n`, and `16n` without `-s`).  `live_le` holds in
  ALL reachable states, including the one in which `failf` has just been called
  (C11's conservation laws are stated for non-failed states; a failing
  transition only takes a buffer out of `reord_q`: `Lemmas/SchedD/MemFail.lean`);
  `small_objects` (queue capacities) is stated for non-failed states.
-/
import LbzVerif.Lemmas.SchedD.Mem
import LbzVerif.Lemmas.SchedD.MemFail
import LbzVerif.Lemmas.SchedD.Witness

namespace LbzVerif.Props.C13.Expand
open LbzVerif.Model.SchedD LbzVerif.Lemmas.SchedD LbzVerif.Gen

structure Sizes where
  /-- sizeof(retr_blk) + sizeof(emit_blk) + 900000·4 (`tt`) + sizeof(retriever_internal_state) -/
  decBytes : Nat
  /-- in_granul + sizeof(in_blk) -/
  inBytes : Nat
  /-- out_granul + sizeof(out_blk) -/
  outBytes : Nat
  /-- sizeof(unord_blk) = 72 -/
  unordBytes : Nat
  /-- sizeof(detached_bitstream) -/
  scanBytes : Nat
  /-- sizeof(void *): element of a pqueue / of input_q -/
  ptrBytes : Nat
  /-- sizeof(head_blk): element of order_q -/
  headBytes : Nat

/-- the queue arrays of `init()` (expand.c:970-977): input_q, scan_q (in_slots
    each), retr_q, emit_q (work_units each), unord_q, reord_q, order_q -/
def fixedBytes (z : Sizes) (c : Cfg) : Nat :=
  z.ptrBytes * (2 * c.totalIn + 2 * c.n + unordCap c.n c.totalOut + c.totalOut)
    + z.headBytes * orderCap c.n c.totalOut

/-- bytes alive in a state (every object at its maximal size) -/
def liveBytes (z : Sizes) (c : Cfg) (s : State) : Nat :=
  z.decBytes * decHolders s + z.inBytes * inputAlive s + z.outBytes * slotsHeld s
    + z.unordBytes * unordLive s + z.scanBytes * scanLive s + fixedBytes z c

/-- the bound; `n + total_out` stands for cap(unord_q) = n + total_out − 3 -/
def memBound (z : Sizes) (c : Cfg) : Nat :=
  z.decBytes * c.n + z.inBytes * c.totalIn + z.outBytes * c.totalOut
    + z.unordBytes * (2 * c.n + c.totalOut) + z.scanBytes * c.totalIn
    + (z.ptrBytes * (2 * c.totalIn + 3 * c.n + 2 * c.totalOut) + z.headBytes * (c.n + c.totalOut))

/-- **C13 (decompression)**: live bytes never exceed `memBound`, whatever the
    input (size, compression ratio, planted block headers) and the schedule, in
    every reachable state (failed or not). -/
theorem live_le (z : Sizes) {c : Cfg} (hW : 0 < c.W) (hn : 1 ≤ c.n) (ho : EMIT_THRESH < c.totalOut)
    {s : State} (h : Reach c s) : liveBytes z c s ≤ memBound z c := by
  obtain ⟨a, d, e'⟩ := holders_le_all hW hn ho h
  have b : inputAlive s ≤ c.totalIn := by have := input_le hW h; omega
  have e : unordLive s ≤ 2 * c.n + c.totalOut := by
    have := unordCap_le c.n c.totalOut
    omega
  have f : scanLive s ≤ c.totalIn := scanLive_le hW h
  have g : fixedBytes z c ≤
      z.ptrBytes * (2 * c.totalIn + 3 * c.n + 2 * c.totalOut) + z.headBytes * (c.n + c.totalOut) := by
    have := unordCap_le c.n c.totalOut
    exact Nat.add_le_add (Nat.mul_le_mul_left _ (by omega)) (Nat.le_refl _)
  unfold liveBytes memBound
  exact Nat.add_le_add (Nat.add_le_add (Nat.add_le_add (Nat.add_le_add (Nat.add_le_add
    (Nat.mul_le_mul_left _ a) (Nat.mul_le_mul_left _ b)) (Nat.mul_le_mul_left _ d))
    (Nat.mul_le_mul_left _ e)) (Nat.mul_le_mul_left _ f)) g

/-- the part that needs no hypothesis on `failed`, `n` or `total_out`: input
    buffers and scan descriptors, in EVERY reachable state -/
theorem live_input_le (z : Sizes) {c : Cfg} (hW : 0 < c.W) {s : State} (h : Reach c s) :
    z.inBytes * inputAlive s + z.scanBytes * scanLive s ≤
      z.inBytes * c.totalIn + z.scanBytes * c.totalIn := by
  have b : inputAlive s ≤ c.totalIn := by have := input_le hW h; omega
  exact Nat.add_le_add (Nat.mul_le_mul_left _ b) (Nat.mul_le_mul_left _ (scanLive_le hW h))

/-- **small_objects**: the small heap objects and the queue entries are bounded
    by the capacities the queues are created with: live `unord_blk`s by
    cap(unord_q) + n (`unord_q_capacity`, `no_unord_leak`: each is queued or
    linked from one of at most n retrieve jobs), live scan descriptors by the
    live input blocks ≤ in_slots, and `unord_q`, `order_q`, `scan_q`, `input_q`,
    `retr_q`, `emit_q`, `reord_q` never hold more entries than `init()` sized
    them for. -/
theorem small_objects {c : Cfg} (hW : 0 < c.W) (hn : 1 ≤ c.n) (ho : EMIT_THRESH < c.totalOut)
    {s : State} (h : Reach c s) (hf : s.failed = false) :
    unordLive s ≤ unordCap c.n c.totalOut + c.n ∧
    scanLive s ≤ inputAlive s ∧ inputAlive s ≤ c.totalIn ∧
    unordSize s ≤ unordCap c.n c.totalOut ∧
    s.orderQ.length ≤ orderCap c.n c.totalOut ∧
    s.scanQ.length ≤ c.totalIn ∧ s.rd - s.head ≤ c.totalIn ∧
    s.retrQ.length ≤ c.n ∧ s.emitQ.length ≤ c.n ∧ s.reordQ.length ≤ c.totalOut := by
  have cap := capacities h hf
  have sq := scan_q_cap hW h
  have := input_le hW h
  exact ⟨unordLive_le hW hn ho h hf, scanLive_le_input hW h, by omega, unord_cap hW hn ho h hf,
    order_cap h hf, sq.1, sq.2, cap.1, cap.2.1, cap.2.2.1⟩

/-! ### the generated slot formulas -/

/-- the configuration `set_memory_constraints()` produces for `n` workers
    (`-d`, not `-s`): slot counts and input granularity from `Gen.memExpand` -/
def cfgOfGen (n T : Nat) (ultra : Bool) (parseAt : Nat → PRes) (retrieveFrom : Nat → RRes)
    (cand : List Nat) : Cfg :=
  { n := n, W := (memExpand n).2.2.1 / 4, T := T, totalIn := (memExpand n).1,
    totalOut := (memExpand n).2.1, ultra := ultra, parseAt := parseAt,
    retrieveFrom := retrieveFrom, cand := cand }

/-- … and for `-d -s` (`Gen.memExpandSmall`) -/
def cfgOfGenSmall (n T : Nat) (ultra : Bool) (parseAt : Nat → PRes) (retrieveFrom : Nat → RRes)
    (cand : List Nat) : Cfg :=
  { n := n, W := (memExpandSmall n).2.2.1 / 4, T := T, totalIn := (memExpandSmall n).1,
    totalOut := (memExpandSmall n).2.1, ultra := ultra, parseAt := parseAt,
    retrieveFrom := retrieveFrom, cand := cand }

/-- bytes per worker with the generated slot formulas -/
def perWorker (z : Sizes) : Nat :=
  z.decBytes + 4 * z.inBytes + 16 * z.outBytes + (18 * z.unordBytes + 4 * z.scanBytes
    + 43 * z.ptrBytes + 17 * z.headBytes)

/-- with the generated `set_memory_constraints()` the bound is linear in the
    worker count, `n·(decoder + 4·in + 16·out + small)` (+ 0), and mentions
    neither the input length `T` nor the input functions / candidate set. -/
theorem memBound_linear (z : Sizes) (n T : Nat) (u : Bool) (pa : Nat → PRes) (rf : Nat → RRes)
    (cd : List Nat) : memBound z (cfgOfGen n T u pa rf cd) = n * perWorker z := by
  simp only [memBound, cfgOfGen, memExpand, perWorker]
  grind

/-- `-s`: `n·(decoder + 2·out + small) + 2·in + const` -/
theorem memBound_linear_small (z : Sizes) (n T : Nat) (u : Bool) (pa : Nat → PRes)
    (rf : Nat → RRes) (cd : List Nat) :
    memBound z (cfgOfGenSmall n T u pa rf cd) =
      n * (z.decBytes + 2 * z.outBytes + (4 * z.unordBytes + 7 * z.ptrBytes + 3 * z.headBytes))
        + (2 * z.inBytes + 2 * z.scanBytes + 4 * z.ptrBytes) := by
  simp only [memBound, cfgOfGenSmall, memExpandSmall]
  grind

/-- the hypotheses of `live_le` hold for the generated configuration as soon
    as there is a worker -/
theorem cfgOfGen_hyps (n T : Nat) (u : Bool) (pa : Nat → PRes) (rf : Nat → RRes) (cd : List Nat)
    (hn : 1 ≤ n) :
    0 < (cfgOfGen n T u pa rf cd).W ∧ 1 ≤ (cfgOfGen n T u pa rf cd).n ∧
      EMIT_THRESH < (cfgOfGen n T u pa rf cd).totalOut := by
  simp only [cfgOfGen, memExpand, EMIT_THRESH]
  refine ⟨by decide, hn, by omega⟩

/-- C13 for the shipped configuration, in one statement -/
theorem live_le_gen (z : Sizes) (n T : Nat) (u : Bool) (pa : Nat → PRes) (rf : Nat → RRes)
    (cd : List Nat) (hn : 1 ≤ n) {s : State} (h : Reach (cfgOfGen n T u pa rf cd) s) :
    liveBytes z (cfgOfGen n T u pa rf cd) s ≤ n * perWorker z := by
  obtain ⟨h1, h2, h3⟩ := cfgOfGen_hyps n T u pa rf cd hn
  rw [← memBound_linear z n T u pa rf cd]
  exact live_le z h1 h2 h3 h

/-! ### non-vacuity -/

/-- the hypotheses are satisfiable: the F4 shape (n = 2, in = 2, out = 4,
    W = 2) at its initial state, where only the queue arrays are alive … -/
example : liveBytes ⟨1000, 100, 10, 72, 40, 8, 24⟩ cfgF4 (init cfgF4) =
    8 * (4 + 4 + 3 + 4) + 24 * 6 ∧
    liveBytes ⟨1000, 100, 10, 72, 40, 8, 24⟩ cfgF4 (init cfgF4) ≤
      memBound ⟨1000, 100, 10, 72, 40, 8, 24⟩ cfgF4 :=
  ⟨by decide, live_le _ (by decide) (by decide) (by decide) Reach.init⟩

/-- … and somewhere on the former F4 run decoders, input blocks, output
    buffers and an unord_blk are alive at the same time -/
example : ∃ s, Reach cfgF4 s ∧ s.failed = false ∧ 1 ≤ decHolders s ∧ 1 ≤ inputAlive s ∧
    1 ≤ unordLive s := by
  have h : (run cfgF4 (init cfgF4) (traceF4.take 13)).any
      (fun s => !s.failed && decide (1 ≤ decHolders s) && decide (1 ≤ inputAlive s)
        && decide (1 ≤ unordLive s)) = true := by decide +kernel
  cases hr : run cfgF4 (init cfgF4) (traceF4.take 13) with
  | none => simp [hr] at h
  | some s =>
    simp only [hr, Option.any_some, Bool.and_eq_true, decide_eq_true_eq, Bool.not_eq_true'] at h
    exact ⟨s, reach_run _ Reach.init hr, h.1.1.1, h.1.1.2, h.1.2, h.2⟩

end LbzVerif.Props.C13.Expand
