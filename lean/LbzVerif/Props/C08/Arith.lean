/-
  C08 — index / counter arithmetic of `retrieve()` that keeps it inside its
  buffers, with every limit taken from Gen (regenerated from the source):

  * `fastpath_refills`: the fast decoding path (taken only when at least
    `Gen.fastWords` = 32 input words are available) never reads more than
    `Gen.fastWords` words for one group; the bit buffer never underflows and
    never holds more than 63 bits.  The bound is tight (example).
  * `selectors_enough`: a block that ends successfully has its EOB among the
    first `Gen.selectorBound · GROUP_SIZE` symbols, so clamping the number of
    selectors to `Gen.selectorBound` (18001) cannot lose a needed group.
  * `run_shift_bound`: while RUN symbols are accepted the shift count stays
    ≤ 19 and `run` stays far below 2³² (no shift UB, no wrap-around).

  * `tt_link_bound`: the list construction of `decode()` stores only into
    `tt[0, n)`, at most once per cell, and leaves every cell with a pointer
    `< n`; `rle_index_bound_partial`: the traversal `emit()` performs
    (`t[p >> 8]`) never indexes at or beyond `block_size` — non-randomised
    blocks (the randomised path re-forms the list as `i ↦ i+1` and is covered
    by the tests `Props.C05.ibwt_sound_tests` and the ASan campaign only).

  Models: `Lemmas.DeltaFastpath` (`refills`, `bufOK`, `accStep`), `Model.Ibwt`.
-/
import LbzVerif.Lemmas.DeltaFastpath
import LbzVerif.Lemmas.Ibwt

namespace LbzVerif.Props.C08

open LbzVerif
open LbzVerif.Lemmas.DeltaFastpath

/-- The constants fit: 63 live bits at most, plus 49 symbols of 20 bits dumped
before the last fetch, is less than 33 words. -/
theorem fastpath_consts :
    63 + Gen.MAX_CODE_LENGTH * (Gen.GROUP_SIZE - 1) < 32 * (Gen.fastWords + 1) ∧
      Gen.MAX_CODE_LENGTH ≤ 32 := by decide

/-- **fastpath_refills.**  Each `NEED_FAST` fetches one word and only when
fewer than 32 bits are live (by definition of `refills`); over one group of at
most `GROUP_SIZE` symbols of at most `MAX_CODE_LENGTH` bits, starting with any
legal buffer fill `w ≤ 63`, at most `Gen.fastWords` words are fetched — exactly
the number the guard `(limit - next) >= 32` has made sure are there — and no
`DUMP` underflows / the buffer never exceeds 63 bits. -/
theorem fastpath_refills (w : Nat) (lens : List Nat) (hw : w ≤ 63)
    (hn : lens.length ≤ Gen.GROUP_SIZE) (hk : ∀ k ∈ lens, k ≤ Gen.MAX_CODE_LENGTH) :
    refills w lens ≤ Gen.fastWords ∧ bufOK w lens := by
  obtain ⟨hc, h32⟩ := fastpath_consts
  have hk32 : ∀ k ∈ lens, k ≤ 32 := fun k h => Nat.le_trans (hk k h) h32
  refine ⟨?_, bufOK_of_le lens w hw hk32⟩
  have h1 := refills_le lens w hw hk32
  have h2 := sum_le lens.dropLast Gen.MAX_CODE_LENGTH
    (fun k h => hk k (List.dropLast_subset lens h))
  have h3 : lens.dropLast.length ≤ Gen.GROUP_SIZE - 1 := by
    simp only [List.length_dropLast]; omega
  have h4 := Nat.mul_le_mul_left Gen.MAX_CODE_LENGTH h3
  omega

-- tight: 19 live bits and fifty 20-bit codes fetch exactly 32 words
example : refills 19 (List.replicate 50 20) = 32 ∧ refills 20 (List.replicate 50 20) = 31 := by
  decide

/-- The numeric fact behind the clamp `if (num_selectors > 18001)`. -/
theorem selectors_enough_consts :
    Gen.selectorBound * Gen.GROUP_SIZE > Gen.MAX_BLOCK_SIZE + 1 := by decide

/-- **selectors_enough.**  If the symbols `ss` (RUN-A / RUN-B / MTF values)
are accumulated without `ERR_OVERFLOW` from the initial state and the EOB that
follows them passes its own overflow test, then EOB is symbol number
`ss.length + 1 ≤ MAX_BLOCK_SIZE + 1`, i.e. it lies within the first
`Gen.selectorBound` groups. -/
theorem selectors_enough (ss : List Sym) (a : Acc)
    (h : accRun ⟨0, 0, 0⟩ ss = some a) (heob : ¬ a.run > Gen.MAX_BLOCK_SIZE - a.n) :
    ss.length + 1 ≤ Gen.MAX_BLOCK_SIZE + 1 ∧
      ss.length + 1 < Gen.selectorBound * Gen.GROUP_SIZE := by
  have hi : AccInv ⟨0, 0, 0⟩ := by simp [AccInv]
  obtain ⟨⟨hn, _⟩, hc⟩ := accRun_count ss ⟨0, 0, 0⟩ a hi h
  have := selectors_enough_consts
  simp only at hc
  omega

example : accRun ⟨0, 0, 0⟩ [.runA, .runB, .other, .other, .runB] = some ⟨6, 3, 1⟩ := by decide

/-- **run_shift_bound.**  Whenever a RUN symbol is accepted (`run ≤
MAX_BLOCK_SIZE`) in a reachable accumulator state, the shift count is ≤ 19
and the new run length is < 2³². -/
theorem run_shift_bound (a : Acc) (hi : AccInv a) (h : a.run ≤ Gen.MAX_BLOCK_SIZE) :
    a.shift ≤ 19 ∧ a.run + (2 <<< a.shift) < 2 ^ 32 := by
  obtain ⟨_, h2⟩ := hi
  have hs : a.shift ≤ 19 := by
    by_cases hc : a.shift ≤ 19
    · exact hc
    · exfalso
      have : 2 ^ 20 ≤ 2 ^ a.shift := Nat.pow_le_pow_right (by omega) (by omega)
      simp only [Gen.MAX_BLOCK_SIZE] at h
      omega
  refine ⟨hs, ?_⟩
  have : 2 ^ a.shift ≤ 2 ^ 19 := Nat.pow_le_pow_right (by omega) hs
  simp only [Nat.shiftLeft_eq, Gen.MAX_BLOCK_SIZE] at *
  omega

example : AccInv ⟨0, 524287, 19⟩ ∧ (524287 : Nat) ≤ Gen.MAX_BLOCK_SIZE := by
  simp [AccInv, Gen.MAX_BLOCK_SIZE]

/-- **tt_link_bound.**  In iteration `k < n` of
`tt[ftab[uc]] += i << 8; ftab[uc]++` the store index `ftab[tt[k] & 0xff]` is
`pos L k < n` (inside the block, hence inside the `tt` allocation), distinct
iterations store to distinct cells, and afterwards every cell of `tt[0,n)`
still has its byte and has a pointer `< n` (so `+=` never carried into the
pointer of another node, and nothing exceeds 28 bits). -/
theorem tt_link_bound (L : List UInt8) :
    (∀ k, k < L.length → Lemmas.Ibwt.pos L k < L.length) ∧
    (∀ i j, i < L.length → j < L.length → Lemmas.Ibwt.pos L i = Lemmas.Ibwt.pos L j → i = j) ∧
    (let tt := (Model.Ibwt.link (L.map (·.toNat)) (Model.Ibwt.cumulate 0 (Model.Ibwt.counts L))
        L.length).1
     tt.length = L.length ∧ ∀ q, q < L.length →
       tt.getD q 0 % 256 = Lemmas.Ibwt.byteAt L q ∧ tt.getD q 0 >>> 8 < L.length) := by
  obtain ⟨hfl, hfc⟩ := Lemmas.Ibwt.cumulate_counts L
  have hl := Lemmas.Ibwt.link_correct L _ hfl hfc
  exact ⟨fun k hk => Lemmas.Ibwt.pos_lt L k hk,
    fun i j hi hj h => Lemmas.Ibwt.pos_inj L i j hi hj h, hl.1, hl.2.2⟩

/-- In the loop itself: the slot read from `ftab` in iteration `k` IS
`pos L k` (so the model's `List.set`, which ignores out-of-range indices, never
hides an out-of-bounds store). -/
theorem tt_link_store_index (L : List UInt8) (tt ftab : List Nat) (k : Nat)
    (hk : k < L.length) (h : Lemmas.Ibwt.Ik L tt ftab k) :
    ftab.getD (tt.getD k 0 % 256) 0 = Lemmas.Ibwt.pos L k ∧
      Lemmas.Ibwt.pos L k < tt.length := by
  refine ⟨(Lemmas.Ibwt.linkStep_inv L tt ftab k hk h).2, ?_⟩
  rw [h.ttLen]; exact Lemmas.Ibwt.pos_lt L k hk

/-- **rle_index_bound_partial** (non-randomised blocks; see header). -/
theorem rle_index_bound_partial (L : List UInt8) (idx : Nat) (hidx : idx < L.length) :
    let d := Model.Ibwt.decode false idx L (Model.Ibwt.counts L)
    Model.Ibwt.walkMaxPtr d.tt L.length d.rleIndex < L.length :=
  Lemmas.Ibwt.decode_walk_bound L idx hidx

example :
    (let d := Model.Ibwt.decode false 3 [110, 110, 98, 97, 97, 97]
        (Model.Ibwt.counts [110, 110, 98, 97, 97, 97]);
     Model.Ibwt.walkMaxPtr d.tt 6 d.rleIndex = 5 ∧ d.tt.map (· >>> 8) = [3, 4, 5, 2, 0, 1]) := by
  decide +kernel

end LbzVerif.Props.C08
