/-
  C08 — `rle_index_bound`: the traversal `emit()` performs over the list that
  `decode()` leaves (`c = p = t[p >> 8]`, `block_size` times from
  `rle_index`) never indexes at or beyond `block_size` — for BOTH paths of
  `decode()`.  (Props/C08/Arith.lean has `rle_index_bound_partial` for the
  non-randomised path only; the randomised path — in-situ IBWT, derandomised,
  list re-formed as `i ↦ i+1`, `rle_index = 0` — is added by W21:
  Lemmas/IbwtRand.lean `decode_walk_bound_rand`.  The last cell's pointer is
  `block_size` itself; it is stored but never followed.)

  `tt_cells_28bit`: for a block of at most `MAX_BLOCK_SIZE` bytes every cell
  `decode()` leaves is below 2^28 ("Bits 28-31 are unused (always clear)"), so
  the model's use of unbounded `Nat` cells hides no `uint32_t` wrap-around.
-/
import LbzVerif.Lemmas.Ibwt
import LbzVerif.Lemmas.IbwtRand
import LbzVerif.Gen.Consts

namespace LbzVerif.Props.C08

open LbzVerif

/-- **rle_index_bound.**  For every block `L`, every primary index
`idx < |L|` (what `retrieve()` guarantees) and either value of the
randomisation flag: the largest pointer the traversal dereferences is below
`block_size`. -/
theorem rle_index_bound (rand : Bool) (L : List UInt8) (idx : Nat) (hidx : idx < L.length) :
    let d := Model.Ibwt.decode rand idx L (Model.Ibwt.counts L)
    Model.Ibwt.walkMaxPtr d.tt L.length d.rleIndex < L.length := by
  cases rand with
  | false => exact Lemmas.Ibwt.decode_walk_bound L idx hidx
  | true =>
    obtain ⟨_, h⟩ := Lemmas.IbwtRand.decode_walk_bound_rand L idx (by omega)
    intro d
    have : Model.Ibwt.walkMaxPtr d.tt L.length d.rleIndex = L.length - 1 := h
    omega

example :
    (let d := Model.Ibwt.decode true 3 [110, 110, 98, 97, 97, 97]
        (Model.Ibwt.counts [110, 110, 98, 97, 97, 97]);
     Model.Ibwt.walkMaxPtr d.tt 6 d.rleIndex = 5 ∧ d.rleIndex = 0 ∧
       d.tt.map (· >>> 8) = [1, 2, 3, 4, 5, 6]) ∧
    (let d := Model.Ibwt.decode false 3 [110, 110, 98, 97, 97, 97]
        (Model.Ibwt.counts [110, 110, 98, 97, 97, 97]);
     Model.Ibwt.walkMaxPtr d.tt 6 d.rleIndex = 5) := by
  decide +kernel

/-- **tt_cells_28bit.**  Every cell of the list `decode()` leaves (either
path) is `< (n + 1)·256`, hence `< 2^28` for `n ≤ MAX_BLOCK_SIZE`. -/
theorem tt_cells_28bit (rand : Bool) (L : List UInt8) (idx : Nat)
    (hL : L.length ≤ Gen.MAX_BLOCK_SIZE) (q : Nat) :
    (Model.Ibwt.decode rand idx L (Model.Ibwt.counts L)).tt.getD q 0 < 2 ^ 28 := by
  have h := Lemmas.IbwtRand.decode_cells_lt rand L idx q
  have h2 : (L.length + 1) * 256 ≤ (Gen.MAX_BLOCK_SIZE + 1) * 256 :=
    Nat.mul_le_mul_right _ (by omega)
  have h3 : (Gen.MAX_BLOCK_SIZE + 1) * 256 < 2 ^ 28 := by decide
  omega

-- the largest cell of the re-formed list of a 6-byte block is (6 << 8) + 'a'
example : (Model.Ibwt.decode true 3 [110, 110, 98, 97, 97, 97]
    (Model.Ibwt.counts [110, 110, 98, 97, 97, 97])).tt.getD 5 0 = 6 * 256 + 97 ∧
    (6 : Nat) ≤ Gen.MAX_BLOCK_SIZE := by
  decide +kernel

end LbzVerif.Props.C08
