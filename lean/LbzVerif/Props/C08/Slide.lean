/-
  Props.C08.Slide — index bounds of decode.c's sliding lists (`mtf_one`).

  The model (Model.MtfDec) performs every access to `imtf_slide` through the
  checked `rd` / `wr` and every pointer decrement through a test against the
  array base, returning `none` on a violation; `imtf_row` offsets are natural
  numbers.  Hence "`mtfOne` returns `some`" *is* "every index read or written
  lies in `[0, SLIDE_LENGTH)` and no row pointer moves below `imtf_slide`".
  `Inv` (Lemmas.MtfOne) is the layout invariant: `imtf_slide` has
  `SLIDE_LENGTH` cells, there are 16 rows, row `j` starts at least
  `16 * (j - i)` cells above row `i ≤ j`, and row 15 ends inside the pool.
-/
import LbzVerif.Model.MtfDec
import LbzVerif.Lemmas.MtfOne
import LbzVerif.Lemmas.MtfRun

namespace LbzVerif.Props.C08.Slide
open LbzVerif LbzVerif.Model.MtfDec LbzVerif.Lemmas.MtfOne LbzVerif.Lemmas.MtfSlide

/-- The state `retrieve()` sets up (`imtf_row[i] = imtf_slide + CMAP_BASE +
i * ROW_WIDTH`) satisfies the invariant, whatever the 256 list bytes are. -/
theorem slide_init (bytes : List UInt8) : Inv (slideOf bytes) := inv_slideOf bytes

/-- C08 (sliding lists): from any state satisfying the invariant, `mtf_one`
with any index 1…255 stays inside `imtf_slide[0, SLIDE_LENGTH)` (the model
returns `some`) and re-establishes the invariant.  (Index 0 is `abort()` in
the C code and is never passed by `retrieve()`.) -/
theorem slide_bounds (s : Slide) (h : Inv s) (c : UInt8) (hc : c ≠ 0) :
    ∃ b s', mtfOne s c = some (b, s') ∧ Inv s' := by
  have hc0 : 1 ≤ c.toNat := by
    have : c.toNat ≠ 0 := fun h0 => hc (UInt8.toNat_inj.mp (by simpa using h0))
    omega
  obtain ⟨s', e1, e2, _⟩ := mtfOne_spec s h c hc0
  exact ⟨_, s', e1, e2⟩

/-- … hence for any sequence of calls from the initial state. -/
theorem slide_bounds_seq (bytes : List UInt8) (cs : List UInt8) (hcs : ∀ c ∈ cs, c ≠ 0) :
    ∃ bs s', mtfMany (slideOf bytes) cs = some (bs, s') ∧ Inv s' := by
  obtain ⟨bs, s', e1, e2, _⟩ := mtfMany_abs cs (slideOf bytes) (inv_slideOf bytes) hcs
  exact ⟨bs, s', e1, e2⟩

/-- Movement of the rows.  The fast path (index < ROW_WIDTH) leaves all row
pointers where they are.  The general path moves rows `0 … c / 16 - 1` down by
exactly one cell — after first rebuilding when row 0 sits at offset 0, which
puts row `i` at `CMAP_BASE + 16 * i` (the rows then occupy the top 256 bytes).
So row 0 is decremented only from a positive offset: it reaches offset 0 only
as the result of such a step and the next general-path call rebuilds. -/
theorem slide_rows (s : Slide) (h : Inv s) (c : UInt8) (hc : c ≠ 0) :
    ∃ b s', mtfOne s c = some (b, s') ∧
      (c.toNat < Gen.ROW_WIDTH → s'.row = s.row) ∧
      (Gen.ROW_WIDTH ≤ c.toNat → ∀ i, i < NUM_ROWS → s'.row.getD i 0 =
        (if s.row.getD 0 0 = 0 then CMAP_BASE + Gen.ROW_WIDTH * i else s.row.getD i 0)
          - (if i < c.toNat / Gen.ROW_WIDTH then 1 else 0)) := by
  have hc0 : 1 ≤ c.toNat := by
    have : c.toNat ≠ 0 := fun h0 => hc (UInt8.toNat_inj.mp (by simpa using h0))
    omega
  obtain ⟨s', e1, _, _, e4, e5⟩ := mtfOne_spec s h c hc0
  exact ⟨_, s', e1, e4, e5⟩

/-- After a rebuild the rows occupy exactly the top 256 bytes of the pool and
the logical list is unchanged. -/
theorem rebuild_top (s : Slide) (h : Inv s) :
    ∃ s1, rebuild s = some s1 ∧ Inv s1 ∧
      (∀ i, i < NUM_ROWS → s1.row.getD i 0 = CMAP_BASE + Gen.ROW_WIDTH * i) ∧
      abs s1 = abs s := by
  obtain ⟨s1, e1, e2, e3, e4⟩ := rebuild_spec s h
  refine ⟨s1, e1, e2, e3, ?_⟩
  apply List.ext_getElem
  · simp [abs_length]
  · intro k hk _
    rw [abs_length] at hk
    rw [abs_getElem, abs_getElem, e4 k hk]

/- Non-vacuity: the invariant holds in the initial state (identity list), so
the theorems apply to it; e.g. a general-path call with index 200 (rows 0…11
slide down by one; the campaign checks the concrete offsets against the C
code). -/
example : Inv (slideOf ((List.range 256).map UInt8.ofNat)) := slide_init _
example : ∃ b s', mtfOne (slideOf ((List.range 256).map UInt8.ofNat)) 200 = some (b, s') ∧ Inv s' :=
  slide_bounds _ (slide_init _) 200 (by decide)
example : ∃ b s', mtfOne (slideOf ((List.range 256).map UInt8.ofNat)) 200 = some (b, s') ∧
    s'.row.getD 0 0 = 7935 ∧ s'.row.getD 11 0 = 8111 ∧ s'.row.getD 12 0 = 8128 := by
  obtain ⟨b, s', e1, _, e3⟩ := slide_rows _ (slide_init _) 200 (by decide)
  refine ⟨b, s', e1, ?_, ?_, ?_⟩
  · have := e3 (by decide) 0 (by decide); rw [this]; decide
  · have := e3 (by decide) 11 (by decide); rw [this]; decide
  · have := e3 (by decide) 12 (by decide); rw [this]; decide

/-! ### `run += RUN(s) << shift++` and the writes to `tt` -/

/-- C08 (`shift_bound`): whenever a shift is performed — a RUN symbol arrives
and the guard `run <= MAX_BLOCK_SIZE` holds — in a state with
`2^shift ≤ run + 1` (true at `run = 0, shift = 0`, at `run = 1, shift = 0`
after an MTF symbol, and re-established by this very step):
`shift ≤ 19 < 32` (no undefined shift), `RUN(s) << shift ≤ 2^20`, the 32-bit
addition does not wrap (`run` stays below `2^21`). -/
theorem shift_bound (run shift s : Nat) (hs : s = 257 ∨ s = 258)
    (hpow : 2 ^ shift ≤ run + 1) (hrun : run ≤ Gen.MAX_BLOCK_SIZE) :
    shift ≤ 19 ∧
    (s - 256) <<< shift ≤ 2 ^ 20 ∧
    (run + ((s - 256) <<< shift) % 4294967296) % 4294967296 = run + (s - 256) * 2 ^ shift ∧
    run + (s - 256) * 2 ^ shift < 2 ^ 21 ∧
    2 ^ (shift + 1) ≤ run + (s - 256) * 2 ^ shift + 1 :=
  Lemmas.MtfRun.accum_step run shift s hs hpow hrun

/-- C08 (`tt_write_bound` and absence of UB in the symbol loop): for every
sequence of symbols `make_tree` can produce (EOB, MTF index 1…255, RUN_A,
RUN_B), from every state with the layout invariant, `2^shift ≤ run + 1` and
`n = |bytes written| ≤ limit ≤ MAX_BLOCK_SIZE`, the loop never performs an
undefined shift, never makes `mtf_one` abort or touch memory outside
`imtf_slide` (`≠ .ub`), and all bytes it writes to `tt` lie below `tt_limit`
(a successful result has at most `limit` bytes; a run is flushed only after
the `run > tt_limit - tt` test). -/
theorem tt_write_bound (limit : Nat) (hl : limit ≤ Gen.MAX_BLOCK_SIZE)
    (syms : List Nat) (st : RunSt) (hv : ∀ s ∈ syms, Lemmas.MtfRun.validSym s)
    (hinv : Inv st.sl) (hpow : 2 ^ st.shift ≤ st.run + 1)
    (hout : st.out.length = st.n) (hn : st.n ≤ limit) :
    consume limit st syms ≠ .ub ∧
    ∀ out f, consume limit st syms = .ok out f → out.length ≤ limit :=
  Lemmas.MtfRun.consume_safe limit hl syms st hv hinv hpow hout hn

/- Non-vacuity: the loop's initial state (`run = 0`, `shift = 0`) with twenty
RUN_B symbols in a row; the state after nineteen accumulations still satisfies
the guard's precondition. -/
example : (2 : Nat) ^ 0 ≤ 0 + 1 := by decide
/- the extreme case: nineteen RUN_A symbols from `run = 0` give `run = 2^19 - 1`,
`shift = 19`; the twentieth shift is still defined -/
example : (19 : Nat) ≤ 19 ∧ (258 - 256) <<< 19 ≤ 2 ^ 20 :=
  let h := shift_bound 524287 19 258 (Or.inr rfl) (by decide) (by decide)
  ⟨h.1, h.2.1⟩
example : ∃ st0, initRun (slideOf []) = some st0 ∧
    consume 900000 st0 (List.replicate 40 258 ++ [0]) ≠ .ub := by
  refine ⟨_, Lemmas.MtfRun.initRun_spec _ (slide_init []), ?_⟩
  refine (tt_write_bound 900000 (by decide) _ _ ?_ (slide_init []) (by decide) rfl (by decide)).1
  intro s hs
  rcases List.mem_append.mp hs with h | h
  · rw [List.eq_of_mem_replicate h]; exact Or.inr (Or.inr (Or.inr rfl))
  · simp at h; subst h; exact Or.inl rfl

end LbzVerif.Props.C08.Slide
