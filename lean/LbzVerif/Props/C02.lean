/-
  Props.C02 — arithmetic facts behind "the output is a strictly well-formed
  bzip2 stream", over the constants regenerated from the C source
  (`Gen.encSelectorExtent`, `Gen.encSelectorMtfExtent`, `Gen.cl0`,
  `Gen.GROUP_SIZE`, `Gen.MAX_BLOCK_SIZE`, `Gen.selectorBound`).
-/
import LbzVerif.Spec.Prefix
import LbzVerif.Model.Canon
import LbzVerif.Lemmas.PrefixDummy

namespace LbzVerif.Props.C02
open LbzVerif LbzVerif.Spec.Prefix LbzVerif.Model.Canon LbzVerif.Lemmas.PrefixDummy

/-! ### Selector count -/

/-- A block of `nblock ≤ 900000` run-length-encoded bytes gives `nm ≤ nblock+1`
MTF values (`do_mtf`: at most one value per byte, plus EOB).  Then, with
`ns = ⌈nm/50⌉` = `num_selectors` of `generate_prefix_code`:
* the sentinel `selector[ns] = MAX_TREES` is inside `selector[18000+1+1]`;
* `ns` real selectors plus the dummy selector `encode()` may append are inside
  `selectorMTF[18000+1+7]`;
* the transmitted selector count `ns + dummy` is at most 18002 (the property's
  bound) and fits the 15-bit field;
* all real selectors are among the first 18001, the ones lbzip2's own
  decoder keeps (`Gen.selectorBound`). -/
theorem numSelectors_le (nblock nm dummy : Nat)
    (hb : nblock ≤ Gen.MAX_BLOCK_SIZE) (hm : nm ≤ nblock + 1) (hd : dummy ≤ 1) :
    numSelectors nm + 1 ≤ Gen.encSelectorExtent ∧
    numSelectors nm + dummy ≤ Gen.encSelectorMtfExtent ∧
    numSelectors nm + dummy ≤ 18002 ∧
    numSelectors nm + dummy ≤ Gen.MAX_SELECTORS ∧
    numSelectors nm ≤ Gen.selectorBound := by
  simp only [numSelectors, Gen.MAX_BLOCK_SIZE, Gen.GROUP_SIZE, Gen.encSelectorExtent,
    Gen.encSelectorMtfExtent, Gen.MAX_SELECTORS, Gen.selectorBound] at *
  omega

/-- The bound is reached: a full level-9 block of 900000 distinct-run bytes. -/
example : numSelectors (Gen.MAX_BLOCK_SIZE + 1) + 1 = 18002 := by decide

/-- The dummy selector of `encode()` is 0 or 1, so `numSelectors_le` applies. -/
theorem dummySelectors_le (cost : Nat) : dummySelectors cost ≤ 1 := by
  unfold dummySelectors
  exact Nat.le_of_lt_succ (Nat.and_lt_two_pow _ (by decide : 1 < 2 ^ 1))

/-! ### Dummy second table -/

/-- For every alphabet size 3…258, `cl0` as written in encode.c is ⌊log₂ as⌋ and
the dummy second table of a single-table block (`cl0` for the first
`2^(cl0+1) − as` symbols, `cl0+1` for the rest) is a complete prefix code with
lengths in 1…20, one length per symbol. -/
theorem dummyTable_complete (as : Nat) (h3 : Gen.MIN_ALPHA_SIZE ≤ as)
    (h258 : as ≤ Gen.MAX_ALPHA_SIZE) :
    Gen.cl0 as = Nat.log2 as ∧ Complete (dummyLens as) ∧ (dummyLens as).length = as := by
  simp only [Gen.MIN_ALPHA_SIZE, Gen.MAX_ALPHA_SIZE] at h3 h258
  have h := dummyOK_all (as - 3) (by omega)
  have e : as - 3 + 3 = as := by omega
  rw [e] at h
  simp only [dummyOK, Bool.and_eq_true, decide_eq_true_eq] at h
  exact ⟨h.1.1, h.1.2, h.2⟩

example : dummyLens 5 = [2, 2, 2, 3, 3] := by decide
example : Complete (dummyLens 258) := (dummyTable_complete 258 (by decide) (by decide)).2.1

/-! ### Padding to a byte boundary -/

/-- `encode()`: after adding `2·tree_pad` bits (delta codes) and the dummy
selector bit, the block length is a multiple of 8; `tree_pad ≤ 3`. -/
theorem pad_mod8 (cost : Nat) :
    (cost + 2 * treePad cost + dummySelectors cost) % 8 = 0 ∧ treePad cost ≤ 3 ∧
    padBits cost = 2 * treePad cost + dummySelectors cost := by
  have h7 : cost &&& 7 = cost % 8 := Nat.and_two_pow_sub_one_eq_mod cost 3
  have hp : padBits cost = (8 - cost % 8) % 8 := by
    unfold padBits
    rw [h7]
    exact Nat.and_two_pow_sub_one_eq_mod _ 3
  have h1 : dummySelectors cost = padBits cost % 2 := by
    unfold dummySelectors
    exact Nat.and_two_pow_sub_one_eq_mod _ 1
  have h2 : treePad cost = padBits cost / 2 := by
    unfold treePad
    rw [Nat.shiftRight_eq_div_pow]
  rw [h1, h2, hp]
  omega

/-- All values strictly inside the walk lie between its end points. -/
theorem deltaWalk_between (fuel a c : Nat) :
    ∀ x ∈ deltaWalk fuel a c, min a c ≤ x ∧ x ≤ max a c := by
  induction fuel generalizing a with
  | zero => intro x hx; simp only [deltaWalk, List.mem_singleton] at hx; omega
  | succ n ih =>
    intro x hx
    unfold deltaWalk at hx
    split at hx
    · rcases List.mem_cons.mp hx with h | h
      · omega
      · have := ih (a + 1) x h; omega
    · split at hx
      · rcases List.mem_cons.mp hx with h | h
        · omega
        · have := ih (a - 1) x h; omega
      · simp only [List.mem_singleton] at hx; omega

/-- `transmit()`: with `len[0] = a ∈ 1…20` and `tree_pad = pad ≤ 3`, the 5-bit
start value `a < 4 ? a + pad : a − pad` is in 1…20, it is exactly `pad` steps
away from `a` (so the delta code back to `len[0]` costs `2·pad` bits), and every
intermediate value of the walk back is in 1…20. -/
theorem treePad_in_range (a pad : Nat) (ha1 : Gen.MIN_CODE_LENGTH ≤ a)
    (ha20 : a ≤ Gen.MAX_CODE_LENGTH) (hp : pad ≤ 3) :
    1 ≤ paddedStart a pad ∧ paddedStart a pad ≤ 20 ∧
    (if a < 4 then paddedStart a pad - a else a - paddedStart a pad) = pad ∧
    ∀ x ∈ deltaWalk pad (paddedStart a pad) a, 1 ≤ x ∧ x ≤ 20 := by
  simp only [Gen.MIN_CODE_LENGTH, Gen.MAX_CODE_LENGTH] at ha1 ha20
  have hs : 1 ≤ paddedStart a pad ∧ paddedStart a pad ≤ 20 := by
    unfold paddedStart; split <;> omega
  refine ⟨hs.1, hs.2, ?_, ?_⟩
  · unfold paddedStart; split <;> omega
  · intro x hx
    have := deltaWalk_between pad (paddedStart a pad) a x hx
    omega

example : paddedStart 3 3 = 6 ∧ paddedStart 4 3 = 1 ∧ deltaWalk 3 (paddedStart 4 3) 4 = [1, 2, 3, 4] := by
  decide

end LbzVerif.Props.C02
