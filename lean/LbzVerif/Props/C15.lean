/-
  C15 — stored CRC fields are enforced.

  The comparison sites are taken from the source on every run:
  * `Gen.parseStep` is the translated `switch (ps->state)` body of `parse()`
    (arms BLOCK_CRC_1/2 capture the stored block CRC and fold it into the
    computed stream CRC; arm EOS_CRC_2 compares the stored stream CRC);
  * `Gen.reorderStatus` is `do_reorder`'s declared-size / block-CRC decision
    (source text checked verbatim by the translator).

  The theorems say: whatever the two 16-bit words of a stored CRC field are,
  flipping any single bit of the field makes the comparison fail, hence the
  run is fatal (status 1).  They quantify over all parser states, all CRC
  values and all 32 bit positions.
-/
import LbzVerif.Gen.Parse
import LbzVerif.Gen.SchedD

namespace LbzVerif.Props.C15
open LbzVerif.Gen

/-- The 32-bit value `parse()` assembles from two consecutive 16-bit words. -/
def join (hi lo : Nat) : Nat := ((hi <<< 16) % 4294967296 ||| lo) % 4294967296

/-- Flipping bit `k` (0 = most significant of the field) of the 32-bit field
    whose big-endian halves are `hi`, `lo`. -/
abbrev flipHi (hi : Nat) (k : Nat) : Nat := hi ^^^ (1 <<< (15 - k))
abbrev flipLo (lo : Nat) (k : Nat) : Nat := lo ^^^ (1 <<< (15 - k))

theorem join_eq (hi lo : Nat) (hh : hi < 65536) (hl : lo < 65536) :
    join hi lo = hi * 65536 + lo := by
  unfold join
  have h1 : hi <<< 16 = hi * 65536 := by rw [Nat.shiftLeft_eq]
  rw [h1]
  have h2 : hi * 65536 < 4294967296 := by omega
  rw [Nat.mod_eq_of_lt h2]
  have h3 : hi * 65536 ||| lo = hi * 65536 + lo := by
    have : hi * 65536 = hi <<< 16 := by rw [Nat.shiftLeft_eq]
    rw [this, Nat.shiftLeft_add_eq_or_of_lt (by omega : lo < 2 ^ 16)]
  rw [h3]
  omega

theorem join_inj (hi lo hi' lo' : Nat) (hh : hi < 65536) (hl : lo < 65536)
    (hh' : hi' < 65536) (hl' : lo' < 65536) (h : join hi lo = join hi' lo') :
    hi = hi' ∧ lo = lo' := by
  rw [join_eq hi lo hh hl, join_eq hi' lo' hh' hl'] at h
  omega

theorem flip16_lt (w k : Nat) (hw : w < 65536) (hk : k < 16) :
    w ^^^ (1 <<< (15 - k)) < 65536 := by
  have : (1 : Nat) <<< (15 - k) < 2 ^ 16 := by
    rw [Nat.shiftLeft_eq, Nat.one_mul]
    exact Nat.pow_lt_pow_right (by omega) (by omega)
  exact Nat.xor_lt_two_pow (n := 16) hw this

theorem flip16_ne (w k : Nat) : w ^^^ (1 <<< (15 - k)) ≠ w := by
  intro h
  have h2 : (w ^^^ (1 <<< (15 - k))) ^^^ w = 0 := by rw [h]; exact Nat.xor_self w
  rw [Nat.xor_comm, ← Nat.xor_assoc, Nat.xor_self, Nat.zero_xor] at h2
  have : (1 : Nat) <<< (15 - k) ≠ 0 := by
    rw [Nat.shiftLeft_eq, Nat.one_mul]; exact Nat.pos_iff_ne_zero.mp (Nat.two_pow_pos _)
  exact this h2

/-- Any single-bit flip of the field changes the assembled value. -/
theorem join_flip_ne (hi lo k : Nat) (hh : hi < 65536) (hl : lo < 65536)
    (hk : k < 32) :
    (if k < 16 then join (flipHi hi k) lo else join hi (flipLo lo (k - 16)))
      ≠ join hi lo := by
  split
  · rename_i h
    intro e
    have := join_inj _ _ _ _ (flip16_lt hi k hh h) hl hh hl e
    exact flip16_ne hi k this.1
  · rename_i h
    intro e
    have := join_inj _ _ _ _ hh (flip16_lt lo (k - 16) hl (by omega)) hh hl e
    exact flip16_ne lo (k - 16) this.2

/-! ### stream CRC (parse(), arms EOS_CRC_1 / EOS_CRC_2) -/

/-- Running the two arms that read the stored stream CRC. -/
def readStreamCrc (p : ParseSt) (hi lo : Nat) : ParseSt × Option Nat :=
  let r1 := parseStep p hi
  match r1.2 with
  | some rv => (r1.1, some rv)
  | none => parseStep r1.1 lo

theorem streamCrc_compare (p : ParseSt) (hi lo : Nat)
    (hs : p.state = PS_EOS_CRC_1) (hh : hi < 65536) :
    (readStreamCrc p hi lo).2 = some ERR_STRMCRC ↔ join hi lo ≠ p.computedCrc := by
  unfold readStreamCrc parseStep
  simp only [hs, PS_EOS_CRC_1]
  have h1 : hi % 4294967296 = hi := Nat.mod_eq_of_lt (by omega)
  simp only [h1, join, ERR_STRMCRC]
  by_cases h : ((hi <<< 16) % 4294967296 ||| lo) % 4294967296 = p.computedCrc
  · simp [h]
    split <;> simp
  · simp [h]

/-- **Stream CRC is enforced**: if the stored field equals the computed value
    (the file was valid up to here), flipping any one of its 32 bits makes
    `parse()` return ERR_STRMCRC — for every parser state at EOS_CRC_1, every
    CRC value and every bit position. -/
theorem stream_flip_rejected (p : ParseSt) (hi lo k : Nat)
    (hs : p.state = PS_EOS_CRC_1) (hh : hi < 65536) (hl : lo < 65536)
    (hk : k < 32) (hvalid : join hi lo = p.computedCrc) :
    (if k < 16 then readStreamCrc p (flipHi hi k) lo
     else readStreamCrc p hi (flipLo lo (k - 16))).2 = some ERR_STRMCRC := by
  have hne := join_flip_ne hi lo k hh hl hk
  split
  · rename_i h
    rw [if_pos h] at hne
    exact (streamCrc_compare p _ lo hs (flip16_lt hi k hh h)).2 (hvalid ▸ hne)
  · rename_i h
    rw [if_neg h] at hne
    exact (streamCrc_compare p hi _ hs hh).2 (hvalid ▸ hne)

/-- and an unflipped valid field is not rejected by this comparison. -/
theorem stream_valid_accepted (p : ParseSt) (hi lo : Nat)
    (hs : p.state = PS_EOS_CRC_1) (hh : hi < 65536)
    (hvalid : join hi lo = p.computedCrc) :
    (readStreamCrc p hi lo).2 ≠ some ERR_STRMCRC := by
  intro h
  exact (streamCrc_compare p hi lo hs hh).1 h hvalid

/-! ### block CRC (parse() arms BLOCK_CRC_1 / BLOCK_CRC_2, then do_reorder) -/

def readBlockCrc (p : ParseSt) (hi lo : Nat) : ParseSt × Option Nat :=
  let r1 := parseStep p hi
  match r1.2 with
  | some rv => (r1.1, some rv)
  | none => parseStep r1.1 lo

/-- The parser hands the stored block CRC to the block's header unchanged. -/
theorem blockCrc_captured (p : ParseSt) (hi lo : Nat)
    (hs : p.state = PS_BLOCK_CRC_1) (hh : hi < 65536) :
    (readBlockCrc p hi lo).2 = some RV_OK ∧
    (readBlockCrc p hi lo).1.hdCrc = join hi lo := by
  unfold readBlockCrc parseStep
  simp only [hs, PS_BLOCK_CRC_1]
  have h1 : hi % 4294967296 = hi := Nat.mod_eq_of_lt (by omega)
  simp [h1, join, RV_OK]

/-- **Block CRC is enforced**: a block that decoded successfully (status OK,
    within its declared size) with computed CRC `crc` equal to the stored field
    becomes fatal (ERR_BLKCRC) in `do_reorder` when any one bit of the stored
    field is flipped — for every block, CRC value and bit position. -/
theorem block_flip_rejected (p : ParseSt) (hi lo k blkSz bs100k : Nat)
    (hs : p.state = PS_BLOCK_CRC_1) (hh : hi < 65536) (hl : lo < 65536)
    (hk : k < 32) (hsz : ¬ blkSz > bs100k * 100000) :
    let crc := join hi lo        -- the block is valid: computed = stored
    let stored' := (if k < 16 then readBlockCrc p (flipHi hi k) lo
                    else readBlockCrc p hi (flipLo lo (k - 16))).1.hdCrc
    reorderStatus blkSz bs100k RV_OK crc stored' = ERR_BLKCRC ∧
    reorderFatal blkSz bs100k RV_OK crc stored' = true := by
  intro crc stored'
  have hne := join_flip_ne hi lo k hh hl hk
  have hst : stored' ≠ crc := by
    show (if k < 16 then readBlockCrc p (flipHi hi k) lo
          else readBlockCrc p hi (flipLo lo (k - 16))).1.hdCrc ≠ join hi lo
    split
    · rename_i h
      rw [if_pos h] at hne
      rw [(blockCrc_captured p _ lo hs (flip16_lt hi k hh h)).2]; exact hne
    · rename_i h
      rw [if_neg h] at hne
      rw [(blockCrc_captured p hi _ hs hh).2]; exact hne
  have hst' : crc ≠ stored' := fun e => hst e.symm
  unfold reorderFatal reorderStatus
  simp [hsz, RV_OK, ERR_BLKCRC, hst']

/-- An unmodified valid block is not turned into an error by `do_reorder`. -/
theorem block_valid_accepted (blkSz bs100k crc : Nat)
    (hsz : ¬ blkSz > bs100k * 100000) :
    reorderStatus blkSz bs100k RV_OK crc crc = RV_OK := by
  unfold reorderStatus; simp [hsz, RV_OK]

/-- The stored block CRC also enters the computed stream CRC (so a flipped
    block CRC cannot be masked by the stream check being skipped): the update
    is `rotl1(computed) xor stored`. -/
theorem computedCrc_update (p : ParseSt) (hi lo : Nat)
    (hs : p.state = PS_BLOCK_CRC_1) (hh : hi < 65536) :
    (readBlockCrc p hi lo).1.computedCrc =
      ((((p.computedCrc <<< 1) % 4294967296) ^^^ (p.computedCrc >>> 31)) ^^^
        join hi lo) % 4294967296 := by
  unfold readBlockCrc parseStep
  simp only [hs, PS_BLOCK_CRC_1]
  have h1 : hi % 4294967296 = hi := Nat.mod_eq_of_lt (by omega)
  simp [h1, join]

/-! non-vacuity: a concrete state at EOS_CRC_1 with a matching CRC, bit 5 and
    bit 27 flipped -/
example :
    let p : ParseSt := { state := PS_EOS_CRC_1, bs100k := 9, storedCrc := 0,
                         computedCrc := 0x12345678, streamMode := false }
    join 0x1234 0x5678 = p.computedCrc ∧
    (readStreamCrc p (flipHi 0x1234 5) 0x5678).2 = some ERR_STRMCRC ∧
    (readStreamCrc p 0x1234 (flipLo 0x5678 (27 - 16))).2 = some ERR_STRMCRC ∧
    (readStreamCrc p 0x1234 0x5678).2 = none := by decide

example : reorderStatus 5000 9 RV_OK 0xCAFEBABE 0xCAFEBABF = ERR_BLKCRC := by decide

end LbzVerif.Props.C15
