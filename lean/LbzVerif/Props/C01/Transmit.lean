/-
  Props.C01.Transmit — the bit-level emitter `transmit()` and the cost
  arithmetic of `encode()` (Model.Transmit):

  * `selectorMtf_spec` — the branch-free selector MTF of `encode()` (the
    `0x543210` nibble trick) is ordinary move-to-front coding;
  * `cost_eq_length`, `len_mod8` — `transmit()` writes exactly the number of
    bits `encode()` computed, a multiple of 8, i.e. `8·out_expect_len` (the C
    `assert`s that guard this are compiled out in the shipped build);
  * `parse_transmit` — the strict reference parser reads back exactly what
    was transmitted (full strength; `parse_transmit_bitmap/_selectors/_tables`
    are the per-field-group statements, `parse_transmit_partial` the form with
    an explicit symbol-decoding hypothesis).
-/
import LbzVerif.Model.Transmit
import LbzVerif.Lemmas.TransmitSelMtf
import LbzVerif.Lemmas.TransmitLen
import LbzVerif.Lemmas.TransmitCompose
import LbzVerif.Lemmas.TransmitSym

namespace LbzVerif.Props.C01.Transmit
open LbzVerif LbzVerif.Basic LbzVerif.Model.Canon LbzVerif.Model.Transmit
open LbzVerif.Lemmas.TransmitSelMtf LbzVerif.Lemmas.TransmitLen
open LbzVerif.Lemmas.TransmitGroups LbzVerif.Lemmas.TransmitCompose LbzVerif.Lemmas.TransmitParse

/-! ### a concrete block (what `encode()` makes of "hello", level 1, see
    harness/h_transmit.c: `encode 100000 8 68656c6c6f`) -/

def helloBlock : EncBlock :=
  { crc := 3872299714, bwtIdx := 1,
    cmap := (List.range 256).map (fun v => v == 101 || v == 104 || v == 108 || v == 111),
    numTrees := 2,
    lens := [[2, 3, 3, 3, 2, 3], [2, 2, 3, 3, 3, 3]],
    codes := [[0, 4, 5, 6, 1, 7], [0, 0, 0, 0, 0, 0]],
    selectors := [0], selectorMtf := [0, 0], numSelectors := 2, treePad := 3,
    mtfv := [2, 4, 3, 4, 0, 5] }

theorem helloBlock_wf : WF helloBlock := by decide +kernel
theorem helloBlock_coded : Coded helloBlock := by decide +kernel

/-- The 26 bytes the real `transmit()` wrote for "hello" (plus the zero padding
    of the last 32-bit word). -/
example : transmitBytes helloBlock =
    [0x31, 0x41, 0x59, 0x26, 0x53, 0x59, 0x19, 0x31, 0x65, 0x3d, 0x00, 0x00, 0x00, 0x81, 0x00,
     0x02, 0x44, 0xa0, 0x00, 0x41, 0x7f, 0x43, 0x41, 0x10, 0x57, 0x27, 0x00, 0x00] := by
  decide +kernel

/-! ### selector MTF -/

/-- **selectorMtf_spec.**  For every sequence of table numbers below 6, the
    loop of `encode()` that keeps the MTF list in the nibbles of a 32-bit word
    (`p = 0x543210`, `v = p ^ 0x111111·c`, `z = (v + 0xEEEEEF) & 0x888888`, …,
    `j = (ctz(h) >> 2) − 1`) stores exactly the ordinary move-to-front
    positions w.r.t. the list `[0,1,2,3,4,5]`. -/
theorem selectorMtf_spec (sels : List Nat) (h : ∀ c ∈ sels, c < Gen.MAX_TREES) :
    selectorMtfOf sels = mtfEnc (List.range Gen.MAX_TREES) sels :=
  selectorMtfOf_eq sels h

/-- … and the reference decoder, told that `n ≤ 6` tables exist, recovers the
    selectors from these values (all selectors below `n`). -/
theorem selectorMtf_decodes (n : Nat) (hn : n ≤ Gen.MAX_TREES) (sels : List Nat)
    (h : ∀ c ∈ sels, c < n) :
    Spec.Bzip2.unMtfSelectors (List.range n) (selectorMtfOf sels) #[] = some sels.toArray := by
  have := unMtf_selectorMtfOf n hn sels h #[]
  simpa using this

example : selectorMtfOf [0, 0, 1, 2, 1, 5, 0, 3, 3, 4] = [0, 0, 1, 2, 1, 5, 3, 4, 0, 5] := by
  decide +kernel
example : mtfEnc (List.range 6) [0, 0, 1, 2, 1, 5, 0, 3, 3, 4] = [0, 0, 1, 2, 1, 5, 3, 4, 0, 5] := by
  decide

/-! ### length of the transmitted block -/

/-- **cost_eq_length.**  For a well-formed encoder state, `transmit()` writes
    exactly `cost` bits, where `cost` is the value `encode()` accumulated
    (header 48+32+1+24+3+15, the tables and symbols as counted by
    `generate_prefix_code`, `j+1` per selector, the padding
    `j = (8 − cost&7)&7` realised as `tree_pad = j>>1` extra delta steps on the
    first table and `j&1` dummy selector, 16 + 16 per used bitmap row). -/
theorem cost_eq_length (b : EncBlock) (h : WF b) : (transmitBits b).length = cost b :=
  transmitBits_length h

/-- **len_mod8.**  The block is a whole number of bytes, exactly the
    `out_expect_len` bytes `encode()` promised. -/
theorem len_mod8 (b : EncBlock) (h : WF b) :
    (transmitBits b).length % 8 = 0 ∧ (transmitBits b).length = 8 * outExpectLen b := by
  rw [cost_eq_length b h]
  have := cost_mod8 b
  refine ⟨this, ?_⟩
  unfold outExpectLen
  rw [Nat.shiftRight_eq_div_pow]
  omega

example : (transmitBits helloBlock).length = 208 ∧ outExpectLen helloBlock = 26 :=
  ⟨by rw [cost_eq_length _ helloBlock_wf]; decide +kernel, by decide +kernel⟩

/-! ### the reference parser reads the block back -/

/-- **parse_transmit, header part** (full strength): the fields up to the
    bitmap.  After the 48-bit magic the strict parser reads the complemented
    CRC register, a zero rand bit, `bwt_idx`, and the bitmap words, and finds
    exactly the byte values marked in `cmap`. -/
theorem parse_transmit_bitmap (cmap : List Bool) (pos : Nat) (rest : Bits) :
    takeNat 16 (bitmapBits cmap ++ rest) =
      some (bigWord cmap, (List.range 16).flatMap (LbzVerif.Lemmas.TransmitBits.rowBits cmap) ++ rest) ∧
    Spec.Bzip2.readBitmapRows (bigWord cmap) (List.range 16) pos
        ((List.range 16).flatMap (LbzVerif.Lemmas.TransmitBits.rowBits cmap) ++ rest) =
      some (usedBytes cmap, pos + (bitmapCost cmap - 16), rest) :=
  LbzVerif.Lemmas.TransmitBits.readBitmap cmap pos rest

/-- **parse_transmit, selector part** (full strength): the unary codes are read
    back as `selectorMTF[]`, and undoing the MTF gives the selectors, the dummy
    selector (MTF value 0) repeating the last real one. -/
theorem parse_transmit_selectors (b : EncBlock) (hw : WF b) (pos : Nat) (rest : Bits) :
    Spec.Bzip2.readSelectorMtf b.numTrees b.numSelectors pos (selectorBits b ++ rest) #[] =
      .ok (b.selectorMtf.toArray, pos + (b.selectorMtf.map (· + 1)).sum, rest) ∧
    Spec.Bzip2.unMtfSelectors (List.range b.numTrees) b.selectorMtf #[] =
      some (b.selectors ++
        List.replicate (dummySelectors (costBase b)) (b.selectors.getLastD 0)).toArray := by
  have hsl := selectorMtf_length hw
  constructor
  · have := readSelectorMtf_unary b.numTrees b.selectorMtf (selMtf_lt hw) pos rest #[]
    rw [hsl, ← selectorBits_eq b hsl] at this
    simpa using this
  · have hsne : b.selectors ≠ [] := by
      intro he
      have := ns_pos hw.mtfv_ne
      rw [← hw.sel_len, he] at this
      simp at this
    have hlast : b.selectors.getLast? = some (b.selectors.getLastD 0) := by
      rw [List.getLastD_eq_getLast?, List.getLast?_eq_some_getLast hsne]
      simp
    have hun := unMtf_mtfEnc_zeros (List.range b.numTrees) b.selectors
      (fun c hc => List.mem_range.mpr (hw.sel_lt c hc)) (dummySelectors (costBase b))
      (b.selectors.getLastD 0) (Or.inl hlast) #[]
    rw [← selMtf_form hw] at hun
    simpa using hun

/-- **parse_transmit, table part** (full strength): every table is accepted by
    the strict reader — start value and EVERY intermediate value of the delta
    walk within 1…20 — and the lengths come back unchanged, also for the first
    table whose start value is `tree_pad` away from `len[0]`. -/
theorem parse_transmit_tables (b : EncBlock) (hw : WF b) (pos : Nat) (rest : Bits) :
    Spec.Bzip2.readTables b.alphaSize b.numTrees pos
        ((List.range b.numTrees).flatMap (tableBits b) ++ rest) #[] =
      .ok (b.lens, pos + ((List.range b.numTrees).flatMap (tableBits b)).length, rest) := by
  have hrt := readTables_tables hw (List.range b.numTrees) (fun t ht => List.mem_range.mp ht)
    pos rest #[]
  rw [List.length_range] at hrt
  rw [hrt]
  have htab : (List.range b.numTrees).map (fun t => b.lens.getD t []) = b.lens := by
    rw [← hw.lens_len, map_range_getD b.lens [] (fun x => x)]
    simp
  rw [htab]
  rfl

/-- **parse_transmit_partial.**  For a well-formed, coded encoder state the
    strict reference parser, started after the 48-bit magic on the transmitted
    block followed by ANY further bits `rest`, returns exactly the fields of
    the state — stored CRC = complemented register, rand = false, origPtr =
    `bwt_idx`, used bytes = `cmap`, the tables in transmitted order (tree 0
    restored despite the `tree_pad` start), the selectors including the dummy
    one, all symbols before EOB, `endBit = start + cost` — and leaves exactly
    `rest`.

    Intermediate form with the explicit hypothesis `hsym` — the reference
    symbol decoder `Spec.Bzip2.decodeSym (mkCode lens)` reads the code word
    `code[t][v]` of every symbol `v` of every table in use; `symOK_of_coded`
    below discharges it, giving the full-strength `parse_transmit`.  (Kept
    because it does not need the code words to be the canonical ones, only
    decodable.) -/
theorem parse_transmit_partial (b : EncBlock) (hw : WF b) (hc : Coded b)
    (hsym : ∀ s ∈ b.selectors, SymOK (b.lens.getD s []) (b.codes.getD s []))
    (level start : Nat) (rest : Bits) :
    Spec.Bzip2.parseBlock level start (bodyBits b ++ rest) =
      .ok (expectedBlock level start b, rest) :=
  parseBlock_transmit b hw hc hsym level start rest

/-- The hypothesis `hsym` of `parse_transmit_partial` follows from `Coded`:
    complete tables with canonical code words are read correctly by the
    reference symbol decoder (the bridge `Lemmas.TransmitSym.decodeSym_canon`,
    via the rank formula `canonCode lens i = first(ℓᵢ) + #{j < i | ℓⱼ = ℓᵢ}`). -/
theorem symOK_of_coded (b : EncBlock) (hw : WF b) (hc : Coded b) :
    ∀ s ∈ b.selectors, SymOK (b.lens.getD s []) (b.codes.getD s []) := by
  intro s hs i hi pos rest
  have hst : s < b.lens.length := by rw [hw.lens_len]; exact hw.sel_lt s hs
  have hg : b.lens.getD s [] = b.lens[s] := by
    simp [List.getD_eq_getElem?_getD, List.getElem?_eq_getElem hst]
  have hmem : b.lens.getD s [] ∈ b.lens := by rw [hg]; exact List.getElem_mem hst
  have hcomp := hc.complete _ hmem
  have hlen := (hw.lens_ok _ hmem).1
  have hB : (b.lens.getD s []).getD i 0 = (b.lens.getD s [])[i]! := by
    simp [List.getD_eq_getElem?_getD]
  have hL : (b.codes.getD s []).getD i 0 = Spec.Prefix.canonCode (b.lens.getD s []) i := by
    rw [hc.canon s hs, List.getD_eq_getElem?_getD, List.getElem?_map,
      List.getElem?_range (by rw [← hlen]; exact hi)]
    rfl
  rw [hB, hL]
  exact LbzVerif.Lemmas.TransmitSym.decodeSym_canon _ hcomp i hi pos rest

/-- **parse_transmit** (full strength).  For every well-formed, coded encoder
    state `b` (what `encode()` leaves behind: `WF` — field ranges, lengths in
    1…20, selector MTF and padding as `encode()` computes them; `Coded` —
    complete tables, canonical code words for the tables in use, symbols below
    the alphabet size with EOB exactly at the end, non-empty bitmap), any
    level, any bit offset and ANY following bits `rest`:
    the strict reference parser, started after the 48-bit magic, returns the
    block with stored CRC = complemented CRC register, rand = false, origPtr =
    `bwt_idx`, used = the bytes marked in `cmap`, nGroups = `num_trees`, the
    selectors (the dummy one repeating the last real one), the tables in
    transmitted order — tree 0's lengths restored despite its `tree_pad`
    start —, all symbols before EOB, `endBit = start + cost b`; and it leaves
    exactly `rest` unread. -/
theorem parse_transmit (b : EncBlock) (hw : WF b) (hc : Coded b)
    (level start : Nat) (rest : Bits) :
    Spec.Bzip2.parseBlock level start (bodyBits b ++ rest) =
      .ok (expectedBlock level start b, rest) :=
  parse_transmit_partial b hw hc (symOK_of_coded b hw hc) level start rest

/-- The hypotheses are satisfiable: the "hello" block. -/
theorem helloBlock_symOK : ∀ s ∈ helloBlock.selectors,
    SymOK (helloBlock.lens.getD s []) (helloBlock.codes.getD s []) := by
  intro s hs
  have : s = 0 := by simpa [helloBlock] using hs
  subst this
  intro i hi pos rest
  have hi' : i < 6 := hi
  match i, hi' with
  | 0, _ => rfl
  | 1, _ => rfl
  | 2, _ => rfl
  | 3, _ => rfl
  | 4, _ => rfl
  | 5, _ => rfl

example (rest : Bits) : Spec.Bzip2.parseBlock 1 0 (bodyBits helloBlock ++ rest) =
    .ok (expectedBlock 1 0 helloBlock, rest) :=
  parse_transmit helloBlock helloBlock_wf helloBlock_coded 1 0 rest

example : (expectedBlock 1 0 helloBlock).syms = #[2, 4, 3, 4, 0] ∧
    (expectedBlock 1 0 helloBlock).selectors = [0, 0] ∧
    (expectedBlock 1 0 helloBlock).endBit = 208 := by decide +kernel

end LbzVerif.Props.C01.Transmit
