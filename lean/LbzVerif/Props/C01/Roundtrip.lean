/-
  Props.C01.Roundtrip — C01 "compression round-trips exactly" for the WHOLE
  FILE: the strict reference decoder `Spec.Bzip2.decodeFile` inverts the
  compressor model `Model.Compress.compressFile`, for every input (the empty
  one included), every level 1…9, both modes, and every choice of the three
  unverified parts (BWT, table clustering, code lengths) that satisfies the
  decidable contract `Model.Compress.ChoicesOK`.

  The proof composes the finished stage theorems:
    block cutting    Props.C04 (`blocksOf_flatten`, `pack_fits`) and, for the
                     scheduler form, Props.C04.Blocks (`blocks_seq`,
                     `blocks_nonseq`) over Props.C03 (`output_canon`);
    RLE1             `Props.C04.unrle_rle` (via `Spec.unRle1_rle1`) and the
                     oracle link `Lemmas.SpecStageLinkRle.bzip2_unRle1_eq`;
    BWT              the contract `BwtOK` (what `divbwt` must satisfy);
    MTF / zero runs  `Props.C01.Mtf.doMtf_eq_spec`, `un_mtf_spec` and the
                     oracle link `Lemmas.SpecMtfLink.unMtfRle2_link`;
    prefix codes     `Props.C01.Prefix.assign_eq_canon`;
    bit emission     `Props.C01.Transmit.parse_transmit`, `len_mod8`;
    CRCs             `Lemmas.CompressBits.combineCrc_eq` (lbzip2's
                     `combine_crc` over raw registers = the format's
                     combination of stored CRCs), `storedCrc_eq`;
    file structure   `Lemmas.CompressFile.walkFile_fileOf` (blocks follow each
                     other in the bit list; all of them are whole bytes, so the
                     stream ends byte-aligned and nothing follows).
-/
import LbzVerif.Model.Compress
import LbzVerif.Lemmas.CompressCut
import LbzVerif.Lemmas.CompressSimple
import LbzVerif.Lemmas.CompressWitness
import LbzVerif.Lemmas.CompressWitnessHello
import LbzVerif.Props.C04.Blocks

namespace LbzVerif.Props.C01.Roundtrip
open LbzVerif LbzVerif.Basic LbzVerif.Model.Compress LbzVerif.Model.Transmit
open LbzVerif.Lemmas.CompressFile LbzVerif.Lemmas.CompressCut LbzVerif.Lemmas.CompressBlock
open LbzVerif.Lemmas.TransmitCompose

/-! ## one block -/

/-- **block_roundtrip.**  For every non-empty block `bytes` whose run-length
    encoding fits the level's capacity, and every choice satisfying the
    contract for it: the bytes `compressBlock` puts into the file are the bits
    `transmit()` writes (a whole number of bytes); they start with the 48-bit
    block magic; the strict reference parser, started after the magic at ANY
    bit offset `start` and followed by ANY bits `rest`, returns a block and
    leaves exactly `rest`; and the reference block decoder (MTF/zero-run
    stage, inverse BWT, final run-length decoding, CRC comparison) turns that
    block back into `bytes`. -/
theorem block_roundtrip (level : Nat) (h9 : level ≤ 9) (choose : List UInt8 → Choice)
    (bytes : List UInt8) (hne : bytes ≠ [])
    (hfit : (Spec.rle1 bytes).length ≤ level * 100000)
    (hok : ChoicesOK (Spec.rle1 bytes) (choose (Spec.rle1 bytes))) (start : Nat) (rest : Bits) :
    let b := compressBlock choose bytes
    bytesToBits (blockBytes b) = transmitBits b ∧
    takeNat 48 (transmitBits b ++ rest) = some (Spec.Bzip2.blockMagic, bodyBits b ++ rest) ∧
    ∃ blk, Spec.Bzip2.parseBlock level start (bodyBits b ++ rest) = .ok (blk, rest) ∧
      blk.endBit = start + 8 * (blockBytes b).length ∧
      Spec.Bzip2.decodeBlock blk =
        .ok { nblock := (Spec.rle1 bytes).length, bytes := bytes.toArray } := by
  intro b
  have hitem := itemsOf_ok level h9 choose [bytes]
    (fun x hx => by rw [List.mem_singleton.mp hx]; exact ⟨hne, hfit⟩)
    (fun x hx => by rw [List.mem_singleton.mp hx]; exact hok)
    (b, bytes, (Spec.rle1 bytes).length) (by simp [itemsOf, b])
  refine ⟨Lemmas.CompressBits.blockBytes_bits b hitem.wf,
    Lemmas.CompressBits.takeNat_magic b rest,
    expectedBlock level start b,
    Props.C01.Transmit.parse_transmit b hitem.wf hitem.coded level start rest, ?_,
    hitem.dec start⟩
  rw [Lemmas.CompressBits.blockBytes_length b hitem.wf]
  rfl

/-! ## the whole file -/

/-- **roundtrip_gen.**  The round trip with the block capacity `cap`
    (1 … level·100000) and the chunk size `granul ≥ 1` as parameters. -/
theorem roundtrip_gen (level cap granul : Nat) (h1 : 1 ≤ level) (h9 : level ≤ 9)
    (hcap : 1 ≤ cap) (hcl : cap ≤ level * 100000) (hg : 0 < granul) (seq : Bool)
    (input : List UInt8) (choose : List UInt8 → Choice)
    (hch : ∀ b ∈ cutBlocks cap granul seq input, ChoicesOK (Spec.rle1 b) (choose (Spec.rle1 b))) :
    Spec.Bzip2.decodeFile (compressFileGen level cap granul seq input choose) = .ok input := by
  have hmem := cutBlocks_mem cap granul seq input
  have hok := itemsOf_ok level h9 choose (cutBlocks cap granul seq input)
    (fun b hb => ⟨(hmem b hb).1, Nat.le_trans (hmem b hb).2 hcl⟩) hch
  unfold Spec.Bzip2.decodeFile compressFileGen
  rw [assemble_eq_fileOf, walkFile_fileOf false level h1 h9 _ hok _ rfl]
  rw [plainOf_itemsOf, cutBlocks_flatten cap granul hcap hg]

/-- **roundtrip** (C01, whole file).  For every input, every level 1…9, both
    modes (`seq` = `--sequential`), and every choice function `choose` that
    satisfies the contract `ChoicesOK` on the blocks of this input: the strict
    reference decoder decodes what the compressor writes back to the input.
    In particular the stream is accepted: magics, stored block CRCs, combined
    CRC, byte-aligned end, no block over the level's capacity. -/
theorem roundtrip (level : Nat) (h1 : 1 ≤ level) (h9 : level ≤ 9) (seq : Bool)
    (input : List UInt8) (choose : List UInt8 → Choice)
    (hch : ∀ b ∈ cutBlocks (level * 100000) (Gen.memCompress 1 level).2.2.1 seq input,
      ChoicesOK (Spec.rle1 b) (choose (Spec.rle1 b))) :
    Spec.Bzip2.decodeFile (compressFile level seq input choose) = .ok input :=
  roundtrip_gen level (level * 100000) (Gen.memCompress 1 level).2.2.1 h1 h9 (by omega)
    (Nat.le_refl _) (by simp only [Gen.memCompress]; omega) seq input choose hch

/-- The empty input: header and trailer only, no contract to satisfy. -/
theorem roundtrip_empty (level : Nat) (h1 : 1 ≤ level) (h9 : level ≤ 9) (seq : Bool)
    (choose : List UInt8 → Choice) :
    compressFile level seq [] choose = headerBytes level ++ trailerBytes 0 ∧
    Spec.Bzip2.decodeFile (compressFile level seq [] choose) = .ok [] := by
  have hcut : cutBlocks (level * 100000) (Gen.memCompress 1 level).2.2.1 seq [] = [] := by
    unfold cutBlocks
    cases seq
    · simp [Model.SchedC.cutChunks]
    · rfl
  refine ⟨?_, roundtrip level h1 h9 seq [] choose (by rw [hcut]; intro b hb; cases hb)⟩
  unfold compressFile compressFileGen
  rw [hcut]
  rfl

/-- **roundtrip_simple.**  The contract is satisfiable for EVERY input: for the
    simple executable choice function (naive rotation-sort BWT, two copies of
    the dummy table of `generate_prefix_code`, every group coded with table 0)
    the table half `TablesOK` holds for every block
    (`Lemmas.CompressSimple.simpleChoice_tablesOK`, from
    `Props.C02.dummyTable_complete`), so the round trip needs only `BwtOK` of
    the naive BWT on each block — a decidable statement about the input (the
    driver evaluates it on every campaign case).  `roundtrip_naive` below
    discharges it once and for all. -/
theorem roundtrip_simple (level : Nat) (h1 : 1 ≤ level) (h9 : level ≤ 9) (seq : Bool)
    (input : List UInt8)
    (hbwt : ∀ b ∈ cutBlocks (level * 100000) (Gen.memCompress 1 level).2.2.1 seq input,
      BwtOK (Spec.rle1 b) (naiveBwt (Spec.rle1 b)).1 (naiveBwt (Spec.rle1 b)).2) :
    Spec.Bzip2.decodeFile (compressFile level seq input simpleChoice) = .ok input := by
  apply roundtrip level h1 h9 seq input simpleChoice
  intro b hb
  have hne := (cutBlocks_mem _ _ seq input b hb).1
  have hrne : Spec.rle1 b ≠ [] := by
    intro he
    have := Spec.unRle1_rle1 b
    rw [he] at this
    have h0 : Spec.unRle1 [] = some [] := by decide
    rw [h0] at this
    exact hne (Option.some.inj this).symm
  exact (Lemmas.CompressSimple.simpleChoice_ok_iff _ hrne).mpr (hbwt b hb)

/-- **roundtrip_naive** (the contract is satisfiable for EVERY input).  No
    hypothesis about choices: for every input, every level 1…9 and both modes,
    the compressor model with the simple executable choice function — the
    rotation-sort BWT `naiveBwt`, two copies of the dummy table, every group
    coded with table 0 — writes a file that the strict reference decoder
    decodes to exactly the input.  The BWT half of the contract is
    `Lemmas.BwtInverse.naiveBwt_ok`: the format's inverse BWT recovers every
    non-empty block from the last column of its sorted rotations and the row of
    the unrotated block (LF-mapping argument, `Lemmas.BwtInverse.lf_eq`; equal
    rotations of periodic blocks included). -/
theorem roundtrip_naive (level : Nat) (h1 : 1 ≤ level) (h9 : level ≤ 9) (seq : Bool)
    (input : List UInt8) :
    Spec.Bzip2.decodeFile (compressFile level seq input simpleChoice) = .ok input :=
  roundtrip level h1 h9 seq input simpleChoice
    (fun b hb => Lemmas.CompressSimple.simpleChoice_ok_rle b
      (cutBlocks_mem _ _ seq input b hb).1)

/-- the contract `ChoicesOK` is satisfiable on every non-empty block -/
theorem choicesOK_satisfiable (rb : List UInt8) (hne : rb ≠ []) : ∃ ch, ChoicesOK rb ch :=
  ⟨simpleChoice rb, Lemmas.CompressSimple.simpleChoice_ok rb hne⟩

/-! ## what a terminated run of the scheduler writes -/

open LbzVerif.Model.SchedC LbzVerif.Props.C04.Blocks in
/-- **assemble_sched.**  In every terminated run of the compression scheduler
    model with the real collector — any worker count, slot totals,
    interleaving (spurious wake-ups included) — the file made of the header,
    the blocks WRITTEN by the run in the order written (each one
    `encode()` + `transmit()` of its collector state `finish enc`,
    `block_crc`), and the trailer with the combined CRC of those blocks, is
    `compressFileGen` of the input: a function of input, level, capacity,
    chunk size and mode only. -/
theorem assemble_sched {c : Cfg} {cap : Nat} {input : List UInt8} {s : State UInt8 Enc}
    (level : Nat) (choose : List UInt8 → Choice) (hcap : 1 ≤ cap) (hg : 0 < c.inGranul)
    (h : Reach c (realCodec cap hcap) input s) (hf : finished c s = true) :
    assemble level choose (s.written.map blockOut) =
      compressFileGen level cap c.inGranul c.ultra input choose := by
  unfold compressFileGen cutBlocks
  cases hu : c.ultra with
  | true =>
    rw [blocks_seq hcap hu hg h hf]
    rfl
  | false =>
    rw [blocks_nonseq hcap hu hg (fun _ => []) h hf, reader_cut _ hg]
    rfl

open LbzVerif.Model.SchedC LbzVerif.Props.C04.Blocks in
/-- **roundtrip_sched** (C01 over the scheduler).  For every terminated run of
    the compression scheduler model (every worker count, every schedule) with
    the real `collect()`, capacity `cap ≤ level·100000`: the file the run
    writes — header, written blocks in order, trailer — is decoded by the
    strict reference decoder to exactly the input. -/
theorem roundtrip_sched {c : Cfg} {cap : Nat} {input : List UInt8} {s : State UInt8 Enc}
    (level : Nat) (h1 : 1 ≤ level) (h9 : level ≤ 9) (hcap : 1 ≤ cap)
    (hcl : cap ≤ level * 100000) (hg : 0 < c.inGranul)
    (choose : List UInt8 → Choice)
    (hch : ∀ b ∈ cutBlocks cap c.inGranul c.ultra input,
      ChoicesOK (Spec.rle1 b) (choose (Spec.rle1 b)))
    (h : Reach c (realCodec cap hcap) input s) (hf : finished c s = true) :
    Spec.Bzip2.decodeFile (assemble level choose (s.written.map blockOut)) = .ok input := by
  rw [assemble_sched level choose hcap hg h hf]
  exact roundtrip_gen level cap c.inGranul h1 h9 hcap hcl hg c.ultra input choose hch

open LbzVerif.Model.SchedC LbzVerif.Props.C04.Blocks in
/-- … with the numbers of lbzip2: `n` workers, level `bs`, the slot totals and
    chunk size of `set_memory_constraints()`, capacity `bs·100000`: every
    terminated run writes `compressFile bs u input choose`, which decodes to the
    input. -/
theorem roundtrip_sched_gen {n bs : Nat} {u : Bool} {input : List UInt8} {s : State UInt8 Enc}
    (h1 : 1 ≤ bs) (h9 : bs ≤ 9) (choose : List UInt8 → Choice)
    (hch : ∀ b ∈ cutBlocks (bs * 100000) (Gen.memCompress 1 bs).2.2.1 u input,
      ChoicesOK (Spec.rle1 b) (choose (Spec.rle1 b)))
    (h : Reach (Cfg.ofGen n bs u) (realCodec (bs * 100000) (by omega)) input s)
    (hf : finished (Cfg.ofGen n bs u) s = true) :
    assemble bs choose (s.written.map blockOut) = compressFile bs u input choose ∧
    Spec.Bzip2.decodeFile (assemble bs choose (s.written.map blockOut)) = .ok input := by
  have hg : 0 < (Cfg.ofGen n bs u).inGranul := by
    simp only [Cfg.ofGen, Gen.memCompress]; omega
  refine ⟨assemble_sched (c := Cfg.ofGen n bs u) bs choose (by omega) hg h hf, ?_⟩
  exact roundtrip_sched (c := Cfg.ofGen n bs u) bs h1 h9 (by omega) (Nat.le_refl _) hg choose hch
    h hf

open LbzVerif.Model.SchedC LbzVerif.Props.C04.Blocks in
/-- **roundtrip_sched_naive**: `roundtrip_sched` without any hypothesis about
    choices — every terminated run of the scheduler model (any worker count,
    slot totals, schedule, either mode) with the real `collect()`, capacity
    `cap ≤ level·100000`, and the simple choice function writes a file that
    the strict reference decoder decodes to the input. -/
theorem roundtrip_sched_naive {c : Cfg} {cap : Nat} {input : List UInt8} {s : State UInt8 Enc}
    (level : Nat) (h1 : 1 ≤ level) (h9 : level ≤ 9) (hcap : 1 ≤ cap)
    (hcl : cap ≤ level * 100000) (hg : 0 < c.inGranul)
    (h : Reach c (realCodec cap hcap) input s) (hf : finished c s = true) :
    Spec.Bzip2.decodeFile (assemble level simpleChoice (s.written.map blockOut)) = .ok input :=
  roundtrip_sched level h1 h9 hcap hcl hg simpleChoice
    (fun b hb => Lemmas.CompressSimple.simpleChoice_ok_rle b
      (cutBlocks_mem _ _ c.ultra input b hb).1) h hf

open LbzVerif.Model.SchedC LbzVerif.Props.C04.Blocks in
/-- … with the numbers of lbzip2 (`n` workers, level `bs`, slot totals and chunk
    size of `set_memory_constraints()`, capacity `bs·100000`). -/
theorem roundtrip_sched_naive_gen {n bs : Nat} {u : Bool} {input : List UInt8}
    {s : State UInt8 Enc} (h1 : 1 ≤ bs) (h9 : bs ≤ 9)
    (h : Reach (Cfg.ofGen n bs u) (realCodec (bs * 100000) (by omega)) input s)
    (hf : finished (Cfg.ofGen n bs u) s = true) :
    assemble bs simpleChoice (s.written.map blockOut) = compressFile bs u input simpleChoice ∧
    Spec.Bzip2.decodeFile (assemble bs simpleChoice (s.written.map blockOut)) = .ok input :=
  roundtrip_sched_gen h1 h9 simpleChoice
    (fun b hb => Lemmas.CompressSimple.simpleChoice_ok_rle b (cutBlocks_mem _ _ u input b hb).1)
    h hf

/-! ## non-vacuity

  The kernel-evaluated witnesses live in Lemmas/CompressWitness*.lean: the
  contract holds for the simple executable choice function
  (`Model.Compress.simpleChoice`) on the blocks `5 5 5 | 5 5 6 6` (capacity 4,
  `--sequential`, chunks of 2 — the witness run of Props.C04.Blocks), on the
  blocks `5 5 5 | 5 | 5 6 6` of the default mode with chunks of 4, and on
  "hello" at level 9. -/

open LbzVerif.Lemmas.CompressWitness (xChoices_seq xChoices_non xCut)
open LbzVerif.Lemmas.CompressWitnessHello (hello helloChoices helloBytes)

example : Props.C04.Blocks.xInput = Lemmas.CompressWitness.xInput := rfl

example : cutBlocks 4 2 true Props.C04.Blocks.xInput = [[5, 5, 5], [5, 5, 6, 6]] ∧
    cutBlocks 4 4 false Props.C04.Blocks.xInput = [[5, 5, 5], [5], [5, 6, 6]] := xCut

/-- `block_roundtrip` on the block `5 5 6 6` -/
example (start : Nat) (rest : Bits) :
    ∃ blk, Spec.Bzip2.parseBlock 1 start
        (bodyBits (compressBlock simpleChoice [5, 5, 6, 6]) ++ rest) = .ok (blk, rest) ∧
      Spec.Bzip2.decodeBlock blk = .ok { nblock := 4, bytes := #[5, 5, 6, 6] } := by
  have hmem : [5, 5, 6, 6] ∈ cutBlocks 4 2 true Lemmas.CompressWitness.xInput := by
    rw [xCut.1]; simp
  obtain ⟨_, _, blk, h1, _, h2⟩ := block_roundtrip 1 (by decide) simpleChoice [5, 5, 6, 6]
    (by decide) (by decide) (xChoices_seq _ hmem) start rest
  exact ⟨blk, h1, h2⟩

example : Spec.Bzip2.decodeFile
    (compressFileGen 1 4 2 true Props.C04.Blocks.xInput simpleChoice) =
      .ok Props.C04.Blocks.xInput :=
  roundtrip_gen 1 4 2 (by decide) (by decide) (by decide) (by decide) (by decide) true _ _
    xChoices_seq

example : Spec.Bzip2.decodeFile
    (compressFileGen 1 4 4 false Props.C04.Blocks.xInput simpleChoice) =
      .ok Props.C04.Blocks.xInput :=
  roundtrip_gen 1 4 4 (by decide) (by decide) (by decide) (by decide) (by decide) false _ _
    xChoices_non

/-- the one-block file for "hello" at level 9 (`helloBytes`: the 39 bytes the
    model writes, kernel-evaluated) -/
example : Spec.Bzip2.decodeFile (compressFile 9 false hello simpleChoice) = .ok hello :=
  roundtrip 9 (by decide) (by decide) false _ _ helloChoices

example : (compressFile 9 false hello simpleChoice).length = 39 := by rw [helloBytes]; rfl

example : Spec.Bzip2.decodeFile (compressFile 9 false hello simpleChoice) = .ok hello :=
  roundtrip_simple 9 (by decide) (by decide) false hello (fun b hb => (helloChoices b hb).1)

/-- `roundtrip_naive` needs no witness: any input will do -/
example (input : List UInt8) :
    Spec.Bzip2.decodeFile (compressFile 7 true input simpleChoice) = .ok input :=
  roundtrip_naive 7 (by decide) (by decide) true input

example : ∃ ch, ChoicesOK [1, 2, 2, 3] ch := choicesOK_satisfiable _ (by decide)

example : Spec.Bzip2.decodeFile (compressFile 1 true [] simpleChoice) = .ok [] :=
  (roundtrip_empty 1 (by decide) (by decide) true simpleChoice).2

/-- the scheduler form on the two witness runs of Props.C04.Blocks (two
    workers, capacity 4): the file made of the blocks each run wrote decodes to
    the input -/
example : ∃ s, Model.SchedC.Reach Props.C04.Blocks.xSeqCfg Props.C04.Blocks.xCodec
      Props.C04.Blocks.xInput s ∧
    Model.SchedC.finished Props.C04.Blocks.xSeqCfg s = true ∧
    Spec.Bzip2.decodeFile
      (assemble 1 simpleChoice (s.written.map Props.C04.Blocks.blockOut)) =
        .ok Props.C04.Blocks.xInput := by
  obtain ⟨s, hr, hf, _, _⟩ := Props.C04.Blocks.observe_reach Props.C04.Blocks.xSeq_obs
  exact ⟨s, hr, hf, roundtrip_sched (c := Props.C04.Blocks.xSeqCfg) 1 (by decide) (by decide)
    (by decide) (by decide) (by decide) simpleChoice xChoices_seq hr hf⟩

example : ∃ s, Model.SchedC.Reach Props.C04.Blocks.xNonCfg Props.C04.Blocks.xCodec
      Props.C04.Blocks.xInput s ∧
    Model.SchedC.finished Props.C04.Blocks.xNonCfg s = true ∧
    Spec.Bzip2.decodeFile
      (assemble 1 simpleChoice (s.written.map Props.C04.Blocks.blockOut)) =
        .ok Props.C04.Blocks.xInput := by
  obtain ⟨s, hr, hf, _, _⟩ := Props.C04.Blocks.observe_reach Props.C04.Blocks.xNon_obs
  exact ⟨s, hr, hf, roundtrip_sched (c := Props.C04.Blocks.xNonCfg) 1 (by decide) (by decide)
    (by decide) (by decide) (by decide) simpleChoice xChoices_non hr hf⟩

/-- `roundtrip_sched_naive` on the sequential witness run -/
example : ∃ s, Model.SchedC.Reach Props.C04.Blocks.xSeqCfg Props.C04.Blocks.xCodec
      Props.C04.Blocks.xInput s ∧
    Model.SchedC.finished Props.C04.Blocks.xSeqCfg s = true ∧
    Spec.Bzip2.decodeFile
      (assemble 1 simpleChoice (s.written.map Props.C04.Blocks.blockOut)) =
        .ok Props.C04.Blocks.xInput := by
  obtain ⟨s, hr, hf, _, _⟩ := Props.C04.Blocks.observe_reach Props.C04.Blocks.xSeq_obs
  exact ⟨s, hr, hf, roundtrip_sched_naive (c := Props.C04.Blocks.xSeqCfg) 1 (by decide)
    (by decide) (by decide) (by decide) (by decide) hr hf⟩

end LbzVerif.Props.C01.Roundtrip
