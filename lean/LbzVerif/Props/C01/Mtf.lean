/-
  Props.C01.Mtf — the MTF / zero-run stage of the compressor is inverted by the
  reference decoder (W10's contribution to C01 "compression round-trips
  exactly").

  `used` is the list of byte values in use in strictly ascending order (what
  `make_map_e` turns `inuse[256]` into); `block` is the stage's input (the BWT
  output), every byte of which is in use.
-/
import LbzVerif.Spec.Mtf
import LbzVerif.Model.MtfEnc
import LbzVerif.Lemmas.MtfSpec
import LbzVerif.Lemmas.MtfEnc

namespace LbzVerif.Props.C01.Mtf
open LbzVerif

/-- The model of `make_map_e` + `do_mtf` (front symbol `u`, array `order[255]`,
zero-run counter, RUN() macro) never indexes outside its arrays and produces
exactly the reference MTF / zero-run encoding of the block. -/
theorem doMtf_eq_spec (used block : List UInt8) (hs : used.Pairwise (· < ·))
    (hmem : ∀ x ∈ block, x ∈ used) :
    Model.MtfEnc.doMtf used block = some (Spec.Mtf.mtfRle2 used block) :=
  Lemmas.MtfEnc.doMtf_spec used block hs hmem

/-- The reference decoder inverts the reference encoder (any `used`, sorted or
not), for every capacity `limit` the block fits in. -/
theorem un_mtf_spec (used block : List UInt8) (limit : Nat)
    (hmem : ∀ x ∈ block, x ∈ used) (hfit : block.length ≤ limit) :
    Spec.Mtf.unMtfRle2 used (Spec.Mtf.mtfRle2 used block) limit = some block :=
  Lemmas.MtfSpec.unMtfRle2_mtfRle2 used block limit hmem hfit

/-- C01 (MTF stage): whatever `do_mtf` emits for a block decodes back to that
block under the reference inverse, for every block over `used` that fits
`limit`. -/
theorem un_mtf (used block : List UInt8) (limit : Nat) (hs : used.Pairwise (· < ·))
    (hmem : ∀ x ∈ block, x ∈ used) (hfit : block.length ≤ limit) :
    ∃ syms, Model.MtfEnc.doMtf used block = some syms ∧
      Spec.Mtf.unMtfRle2 used syms limit = some block :=
  ⟨_, doMtf_eq_spec used block hs hmem, un_mtf_spec used block limit hmem hfit⟩

/-- The numeral written by the RUN() macro denotes the run length. -/
theorem runEmit_value (k : Nat) : Spec.Mtf.runValue 1 (Model.MtfEnc.runEmit k) = k := by
  rw [Lemmas.MtfEnc.runEmit_eq_runDigits, Lemmas.MtfSpec.runValue_runDigits]; simp

/- Non-vacuity: a block with an initial run, a run after an MTF symbol, a run of
length 2 (RUNB) and position 2. -/
example : Model.MtfEnc.doMtf [97, 98, 99] [97, 97, 98, 99, 99, 99, 99, 97]
    = some [1, 2, 3, 0, 0, 3, 4] := by decide +kernel
example : ([97, 98, 99] : List UInt8).Pairwise (· < ·) := by decide
example : ∃ syms, Model.MtfEnc.doMtf [97, 98, 99] [97, 97, 98, 99, 99, 99, 99, 97] = some syms ∧
    Spec.Mtf.unMtfRle2 [97, 98, 99] syms 8 = some [97, 97, 98, 99, 99, 99, 99, 97] :=
  un_mtf _ _ 8 (by decide) (by decide) (by decide)
/- one byte too small a capacity is rejected by the reference -/
example : Spec.Mtf.unMtfRle2 [97, 98, 99] [1, 2, 3, 0, 0, 3, 4] 7 = none := by decide

end LbzVerif.Props.C01.Mtf
