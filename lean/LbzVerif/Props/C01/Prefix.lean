/-
  Props.C01.Prefix — the prefix-coding stage round-trips: for every complete
  length list (Kraft sum one, lengths 1…20) the canonical code is prefix-free
  and the bit-by-bit reference decoder inverts the encoder.
-/
import LbzVerif.Spec.Prefix
import LbzVerif.Model.Canon
import LbzVerif.Lemmas.PrefixCanon
import LbzVerif.Lemmas.TransmitSym
import LbzVerif.Lemmas.AssignCanon

namespace LbzVerif.Props.C01.Prefix
open LbzVerif LbzVerif.Spec.Prefix LbzVerif.Lemmas.PrefixCanon LbzVerif.Lemmas.TransmitSym
open LbzVerif.Model.Canon (M32 cnt baseLoop baseCodes assignLoop height assignCodes)

/-- Decoding the concatenated code words of any symbol string `s`, followed by
arbitrary further bits `r`, gives back `s` and leaves exactly `r`. -/
theorem decode_encode (lens : List Nat) (hc : Complete lens) (s : List Nat)
    (hs : ∀ x ∈ s, x < lens.length) (r : List Bool) :
    decodeSyms lens s.length (encodeSyms lens s ++ r) = some (s, r) := by
  induction s with
  | nil => simp [decodeSyms, encodeSyms]
  | cons a t ih =>
    have ha := hs a (List.mem_cons_self ..)
    have ht := ih (fun x hx => hs x (List.mem_cons_of_mem _ hx))
    simp only [encodeSyms, List.flatMap_cons, List.append_assoc, List.length_cons, decodeSyms]
    rw [decodeSym_encodeSym lens hc a ha]
    simp only [encodeSyms] at ht
    simp only [ht]

example : decodeSyms [2, 3, 1, 3] 5 (encodeSyms [2, 3, 1, 3] [3, 0, 2, 2, 1] ++ [true, false])
    = some ([3, 0, 2, 2, 1], [true, false]) := by decide

/-- No code word of a complete canonical code is a prefix of another. -/
theorem canon_prefix_free (lens : List Nat) (hc : Complete lens) (i j : Nat)
    (hi : i < lens.length) (hj : j < lens.length)
    (hp : encodeSym lens i <+: encodeSym lens j) : i = j := by
  obtain ⟨t, ht⟩ := hp
  have h1 := decodeSym_encodeSym lens hc i hi t
  have h2 := decodeSym_encodeSym lens hc j hj []
  rw [List.append_nil, ← ht, h1] at h2
  exact (Prod.mk.inj (Option.some.inj h2)).1

example : Complete [2, 3, 1, 3] := by decide

/-! ## lbzip2's encoder-side code assignment is the canonical code
(lemmas: Lemmas/AssignCanon.lean) -/

/-- lbzip2's encoder-side code assignment (the tail of `assign_codes`: per-depth
`base_code[]` via `next_code = (next_code + avail) << 1`, then
`code[symbol] = base_code[length[symbol]]++`, all in uint32 arithmetic) gives
every symbol exactly the Spec's canonical code word, for every complete length
list.  No extra hypothesis (no bound on the alphabet size, `lens = []` is not
complete). -/
theorem assign_eq_canon (lens : List Nat) (hc : Complete lens) :
    Model.Canon.assignCodes lens = (List.range lens.length).map (canonCode lens) :=
  Lemmas.AssignCanon.assignCodes_eq_canon lens hc

example : Model.Canon.assignCodes [2, 3, 1, 3] =
    (List.range [2, 3, 1, 3].length).map (canonCode [2, 3, 1, 3]) :=
  assign_eq_canon [2, 3, 1, 3] (by decide)

example : Model.Canon.assignCodes [2, 3, 1, 3] = (List.range 4).map (canonCode [2, 3, 1, 3]) := by
  decide

end LbzVerif.Props.C01.Prefix
