/-
  Props.C01.Prefix — the prefix-coding stage round-trips: for every complete
  length list (Kraft sum one, lengths 1…20) the canonical code is prefix-free
  and the bit-by-bit reference decoder inverts the encoder.
-/
import LbzVerif.Spec.Prefix
import LbzVerif.Model.Canon
import LbzVerif.Lemmas.PrefixCanon

namespace LbzVerif.Props.C01.Prefix
open LbzVerif LbzVerif.Spec.Prefix LbzVerif.Lemmas.PrefixCanon

/-- Decoding the concatenated code words of any symbol string `s`, followed by
arbitrary further bits `r`, gives back `s` and leaves exactly `r`. -/
theorem decode_encode (lens : List Nat) (hc : Complete lens) (s : List Nat)
    (hs : ∀ x ∈ s, x < lens.length) (r : List Bool) :
    decodeSyms lens s.length (encodeSyms lens s ++ r) = some (s, r) := by
  induction s with
  | nil => simp [decodeSyms, encodeSyms]
  | cons a t ih =>
    have ha := hs a (List.mem_cons_self ..)
    have ht := ih (fun x hx => hs x (List.mem_cons_of_mem _ hx))
    simp only [encodeSyms, List.flatMap_cons, List.append_assoc, List.length_cons, decodeSyms]
    rw [decodeSym_encodeSym lens hc a ha]
    simp only [encodeSyms] at ht
    simp only [ht]

example : decodeSyms [2, 3, 1, 3] 5 (encodeSyms [2, 3, 1, 3] [3, 0, 2, 2, 1] ++ [true, false])
    = some ([3, 0, 2, 2, 1], [true, false]) := by decide

/-- No code word of a complete canonical code is a prefix of another. -/
theorem canon_prefix_free (lens : List Nat) (hc : Complete lens) (i j : Nat)
    (hi : i < lens.length) (hj : j < lens.length)
    (hp : encodeSym lens i <+: encodeSym lens j) : i = j := by
  obtain ⟨t, ht⟩ := hp
  have h1 := decodeSym_encodeSym lens hc i hi t
  have h2 := decodeSym_encodeSym lens hc j hj []
  rw [List.append_nil, ← ht, h1] at h2
  exact (Prod.mk.inj (Option.some.inj h2)).1

example : Complete [2, 3, 1, 3] := by decide

/-
  NOT proved (time): `assign_eq_canon` —
    `Complete lens → Model.Canon.assignCodes lens = (List.range lens.length).map (canonCode lens)`
  (the per-depth `base_code[]` of assign_codes plus the running count of equal
  lengths is `offset20 / width`).  Missing: the rank formula
  `offset20 lens i = S(ℓᵢ) + rankᵢ·2^(20-ℓᵢ)` and the loop invariant of
  `assignLoop`.  The tie is checked per run instead (checks/w11_prefix.py, part
  `assign`): for every table the real assign_codes produces, its code words =
  `Model.Canon.assignCodes` = `Spec.canonCode` = an independent textbook
  canonical assignment.  A concrete instance:
-/
example : Model.Canon.assignCodes [2, 3, 1, 3] = (List.range 4).map (canonCode [2, 3, 1, 3]) := by
  decide

end LbzVerif.Props.C01.Prefix
