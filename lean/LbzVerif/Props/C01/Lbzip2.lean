/-
  C01 — the round trip through lbzip2's OWN decompressor, at model level.

  `Props.C01.Roundtrip` shows that the strict reference decoder recovers the
  input from `compressFile …`; `Props.C06.File.expand_complete` shows that the
  model of `lbzip2 -d` (`Model.Expand.expandFile`, built from the translated
  parser `Gen.parseStep` and the retrieve/decode/emit models) accepts whatever
  the reference accepts, with the same bytes.  Composed:

    lbzip2 -d (lbzip2 -z input) = input

  for every input, level 1…9, both modes, every contract-meeting choice
  function — and, in the scheduler form, for every terminated run of the
  compression scheduler model followed by every terminated run of the
  decompression scheduler model (any worker counts, slot totals, input
  granularity, candidate set, interleaving on either side).
-/
import LbzVerif.Props.C01.Roundtrip
import LbzVerif.Props.C06.File
import LbzVerif.Props.C09.File

namespace LbzVerif.Props.C01.Lbzip2
open LbzVerif LbzVerif.Basic LbzVerif.Model.Compress LbzVerif.Model.Expand

/-- lbzip2 -d ∘ lbzip2 -z = id, sequential models. -/
theorem expand_compress (level : Nat) (h1 : 1 ≤ level) (h9 : level ≤ 9) (seq : Bool)
    (input : List UInt8) (choose : List UInt8 → Choice)
    (hch : ∀ b ∈ cutBlocks (level * 100000) (Gen.memCompress 1 level).2.2.1 seq input,
      ChoicesOK (Spec.rle1 b) (choose (Spec.rle1 b))) :
    expandFile (compressFile level seq input choose) = .ok input :=
  Props.C06.File.expand_complete _ _
    (Props.C01.Roundtrip.roundtrip level h1 h9 seq input choose hch)

/-- … unconditionally for the rotation-sort BWT with dummy tables (so the
    statement above is not vacuous for any input). -/
theorem expand_compress_naive (level : Nat) (h1 : 1 ≤ level) (h9 : level ≤ 9) (seq : Bool)
    (input : List UInt8) :
    expandFile (compressFile level seq input simpleChoice) = .ok input :=
  Props.C06.File.expand_complete _ _
    (Props.C01.Roundtrip.roundtrip_naive level h1 h9 seq input)

/-- An accepted file starts with a bzip2 header (the other branch of
    `expandFile` is the `notBzip2` error). -/
theorem accepted_hasHeader (x y : List UInt8) (h : expandFile x = .ok y) :
    Lemmas.Copy.hasHeader x = true := by
  rw [Lemmas.ExpandTop.expandFile_eq] at h
  by_cases hh : Lemmas.Copy.hasHeader x = true
  · exact hh
  · rw [if_neg hh] at h
    cases h

open LbzVerif.Model.SchedC LbzVerif.Props.C04.Blocks in
/-- **Scheduler to scheduler.**  Take the file written by ANY terminated run of
    the compression scheduler model (real collector, any worker count, slot
    totals, schedule), feed it to ANY run of the decompression scheduler model
    (any worker count `n`, input granularity `W`, slot totals, `ultra`,
    candidate set `cand`, schedule): that run never fails, and when it has
    terminated the bytes handed to the sink are exactly the original input. -/
theorem sched_roundtrip {c : Cfg} {cap : Nat} {input : List UInt8}
    {s : State UInt8 Enc}
    (level : Nat) (h1 : 1 ≤ level) (h9 : level ≤ 9) (hcap : 1 ≤ cap)
    (hcl : cap ≤ level * 100000) (hg : 0 < c.inGranul)
    (choose : List UInt8 → Choice)
    (hch : ∀ b ∈ cutBlocks cap c.inGranul c.ultra input,
      ChoicesOK (Spec.rle1 b) (choose (Spec.rle1 b)))
    (h : Reach c (realCodec cap hcap) input s)
    (hf : finished c s = true)
    (n W totalIn totalOut : Nat) (ultra : Bool) (cand : List Nat)
    {d : Model.SchedD.State} :
    let file := assemble level choose (s.written.map blockOut)
    let cfg := Lemmas.ExpandSched.cfgOf (Lemmas.Copy.headerLevel file) (file.drop 4)
                 n W totalIn totalOut ultra cand
    Model.SchedD.Reach cfg d →
      d.failed = false ∧
      (Model.SchedD.terminated cfg d = true →
        d.written.flatMap
          (Lemmas.ExpandSched.render (Lemmas.Copy.headerLevel file) (file.drop 4)) = input) := by
  intro file cfg hr
  have hdec : Spec.Bzip2.decodeFile file = .ok input :=
    Props.C01.Roundtrip.roundtrip_sched level h1 h9 hcap hcl hg choose hch h hf
  have hex : expandFile file = .ok input := Props.C06.File.expand_complete _ _ hdec
  exact Props.C09.File.accepted_never_fails file (accepted_hasHeader _ _ hex) input hex
    n W totalIn totalOut ultra cand hr

/-! non-vacuity: "hello" at level 9 through both models (the kernel evaluates the
    contract on the block; the composed theorem does the rest) -/
example : expandFile (compressFile 9 false [104, 101, 108, 108, 111] simpleChoice)
    = .ok [104, 101, 108, 108, 111] :=
  expand_compress_naive 9 (by omega) (by omega) false [104, 101, 108, 108, 111]

end LbzVerif.Props.C01.Lbzip2
