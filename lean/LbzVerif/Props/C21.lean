/-
  Props.C21 — I/O failures on filters terminate promptly.

  All theorems are about `Model.Fail`: every state reachable from
  `init ms ps rs ws` under ANY interleaving (`Reach`), for ALL scripts — i.e.
  every position of the failing read()/write() in every thread, every errno —
  and both inherited dispositions of SIGPIPE / SIGXFSZ (`Disp`).
-/
import LbzVerif.Model.Fail

namespace LbzVerif.Props.C21

open LbzVerif.Model.Fail

/-- has executed `xraise(SIGUSR1)` -/
def past : Sub → Bool
  | .raised => true
  | .exited => true
  | _ => false

/-- holds (and will never release) the stderr lock -/
def holds : Sub → Bool
  | .locked _ _ => true
  | .logged _ => true
  | .promoted => true
  | .raised => true
  | .exited => true
  | _ => false

/-- is past the message (`log_generic` done or suppressed) -/
def spoke : Sub → Bool
  | .logged _ => true
  | .promoted => true
  | .raised => true
  | .exited => true
  | _ => false

/-- the signal recorded as pending on a failing thread is one the kernel
really generated: SIGPIPE / SIGXFSZ with default disposition -/
def sigOk (d : Disp) : Option Signo → Prop
  | none => True
  | some sg => (sg = SIGPIPE ∧ d.pipeDfl = true) ∨ (sg = SIGXFSZ ∧ d.xfszDfl = true)

def subSigOk (d : Disp) : Sub → Prop
  | .failed _ sg => sigOk d sg
  | .locked _ sg => sigOk d sg
  | .logged sg => sigOk d sg
  | _ => True

def isRun : Sub → Bool
  | .run _ => true
  | _ => false

structure Inv (d : Disp) (s : St) : Prop where
  /-- the success path is taken only when every thread completed its script -/
  succ : (s.usr2 = true ∨ s.main = .post ∨ s.main = .done (.exit 0)) →
    s.p = .finished ∧ s.r = .finished ∧ s.w = .finished
  usr1 : s.usr1 = true ↔ (past s.p || past s.r || past s.w) = true
  lock : s.lock = true ↔ (holds s.p || holds s.r || holds s.w) = true
  pfin : s.p = .finished → s.usr2 = true ∨ s.main = .post ∨ ∃ e, s.main = .done e
  wf : s.wfail = true → (s.p.bad || s.r.bad || s.w.bad) = true ∨ ∃ e, s.main = .done e ∧ e ≠ .exit 0
  pre : ∀ l, s.main = .pre l → (isRun s.p && isRun s.r && isRun s.w) = true ∧ s.usr1 = false ∧
    s.usr2 = false ∧ s.lock = false ∧ s.pipe = false ∧ s.xfsz = false ∧ s.stderr = false
  fin : ∀ e, s.main = .done e → e = .exit 0 ∨ e = .exit 1 ∨ (e = .died SIGPIPE ∧ d.pipeDfl = true) ∨
    (e = .died SIGXFSZ ∧ d.xfszDfl = true)
  sigs : (s.pipe = true → d.pipeDfl = true) ∧ (s.xfsz = true → d.xfszDfl = true) ∧
    subSigOk d s.p ∧ subSigOk d s.r ∧ subSigOk d s.w

theorem bail_cases (d : Disp) (a b : Bool) (ha : a = true → d.pipeDfl = true)
    (hb : b = true → d.xfszDfl = true) :
    mainBailoutEnd a b = .exit 1 ∨ (mainBailoutEnd a b = .died SIGPIPE ∧ d.pipeDfl = true) ∨
    (mainBailoutEnd a b = .died SIGXFSZ ∧ d.xfszDfl = true) := by
  unfold mainBailoutEnd
  cases a <;> cases b <;> simp_all

theorem bail_ne_zero (a b : Bool) : mainBailoutEnd a b ≠ .exit 0 := by
  unfold mainBailoutEnd; split <;> (try split) <;> simp

theorem genSignal_ok (d : Disp) (rw : RW) (e : Errno) : sigOk d (genSignal d rw e) := by
  unfold genSignal
  cases rw with
  | read => simp [sigOk]
  | write =>
    simp only
    split
    · split <;> simp_all [sigOk]
    · split
      · split <;> simp_all [sigOk]
      · simp [sigOk]

theorem inv_init (d : Disp) (ms ps rs ws : List Io) : Inv d (init ms ps rs ws) := by
  constructor <;> simp [init, past, holds, Sub.bad, isRun, subSigOk]

theorem inv_main {d : Disp} {s s' : St} (h : Inv d s) (hs : stepMain d s = some s') :
    Inv d s' := by
  obtain ⟨h1, h2, h3, h4, h5, h6, h7, h8⟩ := h
  unfold stepMain at hs
  split at hs
  · -- pre (io :: l)
    rename_i io l hm
    obtain ⟨g1, g2, g3, g4, g5, g6, g7⟩ := h6 _ hm
    split at hs
    · simp at hs; subst hs
      constructor <;> simp_all
    · rename_i e he
      simp at hs; subst hs
      have hg := genSignal_ok d io.rw e
      have hb := bail_cases d (s.pipe || genSignal d io.rw e == some SIGPIPE)
        (s.xfsz || genSignal d io.rw e == some SIGXFSZ)
        (by
          intro hh; simp [g5] at hh; rw [hh] at hg
          simp [sigOk, SIGPIPE, SIGXFSZ] at hg; exact hg)
        (by
          intro hh; simp [g6] at hh; rw [hh] at hg
          simp [sigOk, SIGPIPE, SIGXFSZ] at hg; exact hg)
      constructor <;> simp_all [bail_ne_zero]
  · -- pre []
    rename_i hm
    obtain ⟨g1, g2, g3, g4, g5, g6, g7⟩ := h6 _ hm
    simp at hs; subst hs
    constructor <;> simp_all
  · -- susp
    rename_i hm
    split at hs
    · rename_i hu
      simp at hs; subst hs
      have hb := bail_cases d s.pipe s.xfsz h8.1 h8.2.1
      constructor <;> simp_all [bail_ne_zero]
    · split at hs
      · simp at hs; subst hs
        constructor <;> simp_all
      · simp at hs
  · -- post
    rename_i hm
    have hfin := h1 (Or.inr (Or.inl hm))
    have hu : s.usr1 = false := by
      cases hu : s.usr1 with
      | false => rfl
      | true => have := h2.mp hu; simp [hfin.1, hfin.2.1, hfin.2.2, past] at this
    simp [hu] at hs; subst hs
    constructor <;> simp_all
  · simp at hs

theorem alive_cases {s : St} (h : s.subsAlive = true) : s.main = .susp ∨ s.main = .post := by
  unfold St.subsAlive at h
  split at h <;> simp_all

set_option maxHeartbeats 1600000 in
theorem inv_sub {d : Disp} {s s' : St} (t : Tid) (h : Inv d s) (hs : stepSub d s t = some s') :
    Inv d s' := by
  obtain ⟨h1, h2, h3, h4, h5, h6, h7, h8⟩ := h
  unfold stepSub at hs
  split at hs
  · simp at hs
  · rename_i hal
    have hal' : s.subsAlive = true := by simpa using hal
    have hm := alive_cases hal'
    cases t <;> simp only [St.get, St.set] at hs <;> split at hs <;>
      (try split at hs) <;> (try split at hs) <;> simp at hs <;> (try subst hs) <;>
      (try (have hg := genSignal_ok d ‹Io›.rw ‹Errno›)) <;>
      constructor <;>
      simp_all [past, holds, Sub.bad, isRun, subSigOk, sigOk, SIGPIPE, SIGXFSZ] <;>
      (try omega) <;> (try grind)

theorem inv_step {d : Disp} {s s' : St} (t : Thr) (h : Inv d s) (hs : step d s t = some s') :
    Inv d s' := by
  cases t with
  | main => exact inv_main h hs
  | p => exact inv_sub .p h hs
  | r => exact inv_sub .r h hs
  | w => exact inv_sub .w h hs

theorem inv_reach {d : Disp} {ms ps rs ws : List Io} {s : St}
    (h : Reach d (init ms ps rs ws) s) : Inv d s := by
  induction h with
  | init => exact inv_init d ms ps rs ws
  | step t _ hs ih => exact inv_step t ih hs

/-! ### Uniform errno: the diagnostic -/

def scriptUni (e : Errno) (l : List Io) : Prop := ∀ io ∈ l, io.err = none ∨ io.err = some e

def subUni (e : Errno) : Sub → Prop
  | .run l => scriptUni e l
  | .failed e' _ => e' = e
  | .locked e' _ => e' = e
  | _ => True

def mainUni (e : Errno) : Main → Prop
  | .pre l => scriptUni e l
  | _ => True

structure Inv2 (e : Errno) (s : St) : Prop where
  um : mainUni e s.main
  up : subUni e s.p
  ur : subUni e s.r
  uw : subUni e s.w
  quiet : s.stderr = true → silent e = false
  loud : (spoke s.p || spoke s.r || spoke s.w) = true → silent e = false → s.stderr = true
  fin : ∀ x, s.main = .done x → x ≠ .exit 0 → silent e = false → s.stderr = true

theorem scriptUni_cons {e : Errno} {io : Io} {l : List Io} (h : scriptUni e (io :: l)) :
    (io.err = none ∨ io.err = some e) ∧ scriptUni e l :=
  ⟨h io (by simp), fun x hx => h x (by simp [hx])⟩

theorem past_spoke (x : Sub) : past x = true → spoke x = true := by
  cases x <;> simp [past, spoke]

theorem inv2_main {d : Disp} {e : Errno} {s s' : St} (h0 : Inv d s) (h : Inv2 e s)
    (hs : stepMain d s = some s') : Inv2 e s' := by
  obtain ⟨k1, k2, k3, k4, k5, k6, k7⟩ := h
  have hu : s.usr1 = true → (spoke s.p || spoke s.r || spoke s.w) = true := by
    intro hu
    have := h0.usr1.mp hu
    simp only [Bool.or_eq_true] at this ⊢
    rcases this with (h | h) | h
    · exact Or.inl (Or.inl (past_spoke _ h))
    · exact Or.inl (Or.inr (past_spoke _ h))
    · exact Or.inr (past_spoke _ h)
  unfold stepMain at hs
  split at hs
  · rename_i io l hm
    rw [hm] at k1
    obtain ⟨c1, c2⟩ := scriptUni_cons k1
    have hq := (h0.pre _ hm).2.2.2.2.2.2
    split at hs
    · simp at hs; subst hs
      constructor <;> simp_all [mainUni]
    · rename_i e' he
      simp at hs; subst hs
      have : e' = e := by rw [he] at c1; simpa using c1
      subst this
      constructor <;> simp_all [mainUni]
  · simp at hs; subst hs
    constructor <;> simp_all [mainUni]
  · split at hs
    · simp at hs; subst hs
      constructor <;> simp_all [mainUni]
    · split at hs
      · simp at hs; subst hs
        constructor <;> simp_all [mainUni]
      · simp at hs
  · split at hs
    · simp at hs; subst hs
      constructor <;> simp_all [mainUni]
    · simp at hs; subst hs
      constructor <;> simp_all [mainUni]
  · simp at hs

theorem subUni_step {e : Errno} {io : Io} {l : List Io} (h : subUni e (.run (io :: l))) :
    subUni e (.run l) ∧ ∀ e', io.err = some e' → e' = e := by
  obtain ⟨c1, c2⟩ := scriptUni_cons h
  refine ⟨c2, fun e' he => ?_⟩
  rw [he] at c1
  simpa using c1

set_option maxHeartbeats 1600000 in
theorem inv2_sub {d : Disp} {e : Errno} {s s' : St} (t : Tid) (h : Inv2 e s)
    (hs : stepSub d s t = some s') : Inv2 e s' := by
  obtain ⟨k1, k2, k3, k4, k5, k6, k7⟩ := h
  unfold stepSub at hs
  split at hs
  · simp at hs
  · rename_i hal
    have hal' : s.subsAlive = true := by simpa using hal
    have hm := alive_cases hal'
    cases t <;> simp only [St.get, St.set] at hs <;> split at hs <;>
      (try split at hs) <;> (try split at hs) <;> simp at hs <;> (try subst hs) <;>
      constructor <;>
      simp_all [spoke, subUni, mainUni] <;>
      (try (first
        | exact (scriptUni_cons (by assumption)).2
        | (have hc := (scriptUni_cons (e := e) (by assumption)).1; simp_all; done)
        | grind))

end LbzVerif.Props.C21
