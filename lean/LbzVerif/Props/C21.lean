/-
  Props.C21 — I/O failures on filters terminate promptly.

  All theorems are about `Model.Fail`: every state reachable from
  `init ms ps rs ws` under ANY interleaving (`Reach`), for ALL scripts — i.e.
  every position of the failing read()/write() in every thread, every errno —
  and both inherited dispositions of SIGPIPE / SIGXFSZ (`Disp`).
-/
import LbzVerif.Model.Fail

namespace LbzVerif.Props.C21

open LbzVerif.Model.Fail

/-- has executed `xraise(SIGUSR1)` -/
def past : Sub → Bool
  | .raised => true
  | .exited => true
  | _ => false

/-- holds (and will never release) the stderr lock -/
def holds : Sub → Bool
  | .locked _ _ => true
  | .logged _ => true
  | .promoted => true
  | .raised => true
  | .exited => true
  | _ => false

/-- is past the message (`log_generic` done or suppressed) -/
def spoke : Sub → Bool
  | .logged _ => true
  | .promoted => true
  | .raised => true
  | .exited => true
  | _ => false

/-- the signal recorded as pending on a failing thread is one the kernel
really generated: SIGPIPE / SIGXFSZ with default disposition -/
def sigOk (d : Disp) : Option Signo → Prop
  | none => True
  | some sg => (sg = SIGPIPE ∧ d.pipeDfl = true) ∨ (sg = SIGXFSZ ∧ d.xfszDfl = true)

def subSigOk (d : Disp) : Sub → Prop
  | .failed _ sg => sigOk d sg
  | .locked _ sg => sigOk d sg
  | .logged sg => sigOk d sg
  | _ => True

def isRun : Sub → Bool
  | .run _ => true
  | _ => false

structure Inv (d : Disp) (s : St) : Prop where
  /-- the success path is taken only when every thread completed its script -/
  succ : (s.usr2 = true ∨ s.main = .post ∨ s.main = .done (.exit 0)) →
    s.p = .finished ∧ s.r = .finished ∧ s.w = .finished
  usr1 : s.usr1 = true ↔ (past s.p || past s.r || past s.w) = true
  lock : s.lock = true ↔ (holds s.p || holds s.r || holds s.w) = true
  pfin : s.p = .finished → s.usr2 = true ∨ s.main = .post ∨ ∃ e, s.main = .done e
  wf : s.wfail = true → (s.p.bad || s.r.bad || s.w.bad) = true ∨ ∃ e, s.main = .done e ∧ e ≠ .exit 0
  pre : ∀ l, s.main = .pre l → (isRun s.p && isRun s.r && isRun s.w) = true ∧ s.usr1 = false ∧
    s.usr2 = false ∧ s.lock = false ∧ s.pipe = false ∧ s.xfsz = false ∧ s.stderr = false
  fin : ∀ e, s.main = .done e → e = .exit 0 ∨ e = .exit 1 ∨ (e = .died SIGPIPE ∧ d.pipeDfl = true) ∨
    (e = .died SIGXFSZ ∧ d.xfszDfl = true)
  sigs : (s.pipe = true → d.pipeDfl = true) ∧ (s.xfsz = true → d.xfszDfl = true) ∧
    subSigOk d s.p ∧ subSigOk d s.r ∧ subSigOk d s.w

theorem bail_cases (d : Disp) (a b : Bool) (ha : a = true → d.pipeDfl = true)
    (hb : b = true → d.xfszDfl = true) :
    mainBailoutEnd a b = .exit 1 ∨ (mainBailoutEnd a b = .died SIGPIPE ∧ d.pipeDfl = true) ∨
    (mainBailoutEnd a b = .died SIGXFSZ ∧ d.xfszDfl = true) := by
  unfold mainBailoutEnd
  cases a <;> cases b <;> simp_all

theorem bail_ne_zero (a b : Bool) : mainBailoutEnd a b ≠ .exit 0 := by
  unfold mainBailoutEnd; split <;> (try split) <;> simp

theorem genSignal_ok (d : Disp) (rw : RW) (e : Errno) : sigOk d (genSignal d rw e) := by
  unfold genSignal
  cases rw with
  | read => simp [sigOk]
  | write =>
    simp only
    split
    · split <;> simp_all [sigOk]
    · split
      · split <;> simp_all [sigOk]
      · simp [sigOk]

theorem inv_init (d : Disp) (ms ps rs ws : List Io) : Inv d (init ms ps rs ws) := by
  constructor <;> simp [init, past, holds, Sub.bad, isRun, subSigOk]

theorem inv_main {d : Disp} {s s' : St} (h : Inv d s) (hs : stepMain d s = some s') :
    Inv d s' := by
  obtain ⟨h1, h2, h3, h4, h5, h6, h7, h8⟩ := h
  unfold stepMain at hs
  split at hs
  · -- pre (io :: l)
    rename_i io l hm
    obtain ⟨g1, g2, g3, g4, g5, g6, g7⟩ := h6 _ hm
    split at hs
    · simp at hs; subst hs
      constructor <;> simp_all
    · rename_i e he
      simp at hs; subst hs
      have hg := genSignal_ok d io.rw e
      have hb := bail_cases d (s.pipe || genSignal d io.rw e == some SIGPIPE)
        (s.xfsz || genSignal d io.rw e == some SIGXFSZ)
        (by
          intro hh; simp [g5] at hh; rw [hh] at hg
          simp [sigOk, SIGPIPE, SIGXFSZ] at hg; exact hg)
        (by
          intro hh; simp [g6] at hh; rw [hh] at hg
          simp [sigOk, SIGPIPE, SIGXFSZ] at hg; exact hg)
      constructor <;> simp_all [bail_ne_zero]
  · -- pre []
    rename_i hm
    obtain ⟨g1, g2, g3, g4, g5, g6, g7⟩ := h6 _ hm
    simp at hs; subst hs
    constructor <;> simp_all
  · -- susp
    rename_i hm
    split at hs
    · rename_i hu
      simp at hs; subst hs
      have hb := bail_cases d s.pipe s.xfsz h8.1 h8.2.1
      constructor <;> simp_all [bail_ne_zero]
    · split at hs
      · simp at hs; subst hs
        constructor <;> simp_all
      · simp at hs
  · -- post
    rename_i hm
    have hfin := h1 (Or.inr (Or.inl hm))
    have hu : s.usr1 = false := by
      cases hu : s.usr1 with
      | false => rfl
      | true => have := h2.mp hu; simp [hfin.1, hfin.2.1, hfin.2.2, past] at this
    simp [hu] at hs; subst hs
    constructor <;> simp_all
  · simp at hs

theorem alive_cases {s : St} (h : s.subsAlive = true) : s.main = .susp ∨ s.main = .post := by
  unfold St.subsAlive at h
  split at h <;> simp_all

set_option maxHeartbeats 1600000 in
theorem inv_sub {d : Disp} {s s' : St} (t : Tid) (h : Inv d s) (hs : stepSub d s t = some s') :
    Inv d s' := by
  obtain ⟨h1, h2, h3, h4, h5, h6, h7, h8⟩ := h
  unfold stepSub at hs
  split at hs
  · simp at hs
  · rename_i hal
    have hal' : s.subsAlive = true := by simpa using hal
    have hm := alive_cases hal'
    cases t <;> simp only [St.get, St.set] at hs <;> split at hs <;>
      (try split at hs) <;> (try split at hs) <;> simp at hs <;> (try subst hs) <;>
      (try (have hg := genSignal_ok d ‹Io›.rw ‹Errno›)) <;>
      constructor <;>
      simp_all [past, holds, Sub.bad, isRun, subSigOk, sigOk, SIGPIPE, SIGXFSZ] <;>
      (try omega) <;> (try grind)

theorem inv_step {d : Disp} {s s' : St} (t : Thr) (h : Inv d s) (hs : step d s t = some s') :
    Inv d s' := by
  cases t with
  | main => exact inv_main h hs
  | p => exact inv_sub .p h hs
  | r => exact inv_sub .r h hs
  | w => exact inv_sub .w h hs

theorem inv_reach {d : Disp} {ms ps rs ws : List Io} {s : St}
    (h : Reach d (init ms ps rs ws) s) : Inv d s := by
  induction h with
  | init => exact inv_init d ms ps rs ws
  | step t _ hs ih => exact inv_step t ih hs

/-! ### Uniform errno: the diagnostic -/

def scriptUni (e : Errno) (l : List Io) : Prop := ∀ io ∈ l, io.err = none ∨ io.err = some e

def subUni (e : Errno) : Sub → Prop
  | .run l => scriptUni e l
  | .failed e' _ => e' = e
  | .locked e' _ => e' = e
  | _ => True

def mainUni (e : Errno) : Main → Prop
  | .pre l => scriptUni e l
  | _ => True

structure Inv2 (e : Errno) (s : St) : Prop where
  um : mainUni e s.main
  up : subUni e s.p
  ur : subUni e s.r
  uw : subUni e s.w
  quiet : s.stderr = true → silent e = false
  loud : (spoke s.p || spoke s.r || spoke s.w) = true → silent e = false → s.stderr = true
  fin : ∀ x, s.main = .done x → x ≠ .exit 0 → silent e = false → s.stderr = true

theorem scriptUni_cons {e : Errno} {io : Io} {l : List Io} (h : scriptUni e (io :: l)) :
    (io.err = none ∨ io.err = some e) ∧ scriptUni e l :=
  ⟨h io (by simp), fun x hx => h x (by simp [hx])⟩

theorem past_spoke (x : Sub) : past x = true → spoke x = true := by
  cases x <;> simp [past, spoke]

theorem inv2_main {d : Disp} {e : Errno} {s s' : St} (h0 : Inv d s) (h : Inv2 e s)
    (hs : stepMain d s = some s') : Inv2 e s' := by
  obtain ⟨k1, k2, k3, k4, k5, k6, k7⟩ := h
  have hu : s.usr1 = true → (spoke s.p || spoke s.r || spoke s.w) = true := by
    intro hu
    have := h0.usr1.mp hu
    simp only [Bool.or_eq_true] at this ⊢
    rcases this with (h | h) | h
    · exact Or.inl (Or.inl (past_spoke _ h))
    · exact Or.inl (Or.inr (past_spoke _ h))
    · exact Or.inr (past_spoke _ h)
  unfold stepMain at hs
  split at hs
  · rename_i io l hm
    rw [hm] at k1
    obtain ⟨c1, c2⟩ := scriptUni_cons k1
    have hq := (h0.pre _ hm).2.2.2.2.2.2
    split at hs
    · simp at hs; subst hs
      constructor <;> simp_all [mainUni]
    · rename_i e' he
      simp at hs; subst hs
      have : e' = e := by rw [he] at c1; simpa using c1
      subst this
      constructor <;> simp_all [mainUni]
  · simp at hs; subst hs
    constructor <;> simp_all [mainUni]
  · split at hs
    · simp at hs; subst hs
      constructor <;> simp_all [mainUni]
    · split at hs
      · simp at hs; subst hs
        constructor <;> simp_all [mainUni]
      · simp at hs
  · split at hs
    · simp at hs; subst hs
      constructor <;> simp_all [mainUni]
    · simp at hs; subst hs
      constructor <;> simp_all [mainUni]
  · simp at hs

theorem subUni_step {e : Errno} {io : Io} {l : List Io} (h : subUni e (.run (io :: l))) :
    subUni e (.run l) ∧ ∀ e', io.err = some e' → e' = e := by
  obtain ⟨c1, c2⟩ := scriptUni_cons h
  refine ⟨c2, fun e' he => ?_⟩
  rw [he] at c1
  simpa using c1

set_option maxHeartbeats 1600000 in
theorem inv2_sub {d : Disp} {e : Errno} {s s' : St} (t : Tid) (h : Inv2 e s)
    (hs : stepSub d s t = some s') : Inv2 e s' := by
  obtain ⟨k1, k2, k3, k4, k5, k6, k7⟩ := h
  unfold stepSub at hs
  split at hs
  · simp at hs
  · rename_i hal
    have hal' : s.subsAlive = true := by simpa using hal
    have hm := alive_cases hal'
    cases t <;> simp only [St.get, St.set] at hs <;> split at hs <;>
      (try split at hs) <;> (try split at hs) <;> simp at hs <;> (try subst hs) <;>
      constructor <;>
      simp_all [spoke, subUni, mainUni] <;>
      (try (first
        | exact (scriptUni_cons (by assumption)).2
        | (have hc := (scriptUni_cons (e := e) (by assumption)).1; simp_all; done)
        | grind))

theorem inv2_step {d : Disp} {e : Errno} {s s' : St} (t : Thr) (h0 : Inv d s) (h : Inv2 e s)
    (hs : step d s t = some s') : Inv2 e s' := by
  cases t with
  | main => exact inv2_main h0 h hs
  | p => exact inv2_sub .p h hs
  | r => exact inv2_sub .r h hs
  | w => exact inv2_sub .w h hs

theorem inv2_init (e : Errno) (ms ps rs ws : List Io) (hm : scriptUni e ms) (hp : scriptUni e ps)
    (hr : scriptUni e rs) (hw : scriptUni e ws) : Inv2 e (init ms ps rs ws) := by
  constructor <;> simp_all [init, mainUni, subUni, spoke]

theorem inv2_reach {d : Disp} {e : Errno} {ms ps rs ws : List Io} {s : St}
    (hm : scriptUni e ms) (hp : scriptUni e ps) (hr : scriptUni e rs) (hw : scriptUni e ws)
    (h : Reach d (init ms ps rs ws) s) : Inv2 e s := by
  induction h with
  | init => exact inv2_init e ms ps rs ws hm hp hr hw
  | step t hr' hs ih => exact inv2_step t (inv_reach hr') ih hs

/-! ### Termination -/

theorem stepMain_dec {d : Disp} {s s' : St} (hs : stepMain d s = some s') :
    s'.weight < s.weight := by
  unfold stepMain at hs
  split at hs <;> (try split at hs) <;> (try split at hs) <;> simp at hs <;> subst hs <;>
    simp_all [St.weight, Main.weight] <;> omega

theorem stepSub_dec {d : Disp} {s s' : St} (t : Tid) (hs : stepSub d s t = some s') :
    s'.weight < s.weight := by
  unfold stepSub at hs
  split at hs
  · simp at hs
  · cases t <;> simp only [St.get, St.set] at hs <;> split at hs <;>
      (try split at hs) <;> (try split at hs) <;> simp at hs <;> (try subst hs) <;>
      simp_all [St.weight, Sub.weight] <;> omega

theorem step_dec {d : Disp} {s s' : St} (t : Thr) (hs : step d s t = some s') :
    s'.weight < s.weight := by
  cases t with
  | main => exact stepMain_dec hs
  | p => exact stepSub_dec .p hs
  | r => exact stepSub_dec .r hs
  | w => exact stepSub_dec .w hs

theorem run_bounded {d : Disp} {s s' : St} {ts : List Thr} (h : Run d s ts s') :
    ts.length + s'.weight ≤ s.weight := by
  induction h with
  | nil => simp
  | cons t hs _ ih => have := step_dec t hs; simp only [List.length_cons]; omega

theorem main_none {d : Disp} {s : St} (h : stepMain d s = none) :
    (s.main = .susp ∧ s.usr1 = false ∧ s.usr2 = false) ∨ ∃ e, s.main = .done e := by
  unfold stepMain at h
  split at h <;> (try split at h) <;> (try split at h) <;> simp_all

theorem sub_none {d : Disp} {s : St} (t : Tid) (ha : s.subsAlive = true)
    (h : stepSub d s t = none) :
    s.get t = .exited ∨ s.get t = .finished ∨ (∃ e sg, s.get t = .failed e sg ∧ s.lock = true) ∨
    (t = .p ∧ s.get t = .run [] ∧ ¬ (s.r = .finished ∧ s.w = .finished)) := by
  unfold stepSub at h
  simp only [ha, Bool.not_true, Bool.false_eq_true, if_false] at h
  split at h <;> (try split at h) <;> (try split at h) <;> simp_all

/-- No reachable non-final state is stuck. -/
theorem progress {d : Disp} {ms ps rs ws : List Io} {s : St}
    (h : Reach d (init ms ps rs ws) s) (hno : ∀ t, step d s t = none) : s.final = true := by
  have hi := inv_reach h
  have hm := main_none (hno .main)
  rcases hm with ⟨hm, hu1, hu2⟩ | ⟨e, hm⟩
  · exfalso
    have ha : s.subsAlive = true := by simp [St.subsAlive, hm]
    have hp := sub_none .p ha (hno .p)
    have hr := sub_none .r ha (hno .r)
    have hw := sub_none .w ha (hno .w)
    simp only [St.get] at hp hr hw
    have h2 := hi.usr1
    have h3 := hi.lock
    have h4 := hi.pfin
    rw [hu1] at h2
    -- nobody exited, so nobody holds the lock unless locked..promoted: not stuck
    have nr : s.r ≠ .exited := by intro hh; simp [hh, past] at h2
    have nw : s.w ≠ .exited := by intro hh; simp [hh, past] at h2
    have np : s.p ≠ .exited := by intro hh; simp [hh, past] at h2
    have hl : s.lock = false := by
      cases hl : s.lock with
      | false => rfl
      | true =>
        have := h3.mp hl
        rcases hp with hp | hp | ⟨_, _, hp, _⟩ | ⟨_, hp, _⟩ <;>
        rcases hr with hr | hr | ⟨_, _, hr, _⟩ | ⟨hr, _⟩ <;>
        rcases hw with hw | hw | ⟨_, _, hw, _⟩ | ⟨hw, _⟩ <;>
        simp_all [holds]
    have hr' : s.r = .finished := by
      rcases hr with hr | hr | ⟨_, _, _, hr⟩ | ⟨hr, _⟩ <;> simp_all
    have hw' : s.w = .finished := by
      rcases hw with hw | hw | ⟨_, _, _, hw⟩ | ⟨hw, _⟩ <;> simp_all
    rcases hp with hp | hp | ⟨_, _, _, hp⟩ | ⟨_, _, hp⟩
    · exact np hp
    · rcases h4 hp with h | h | ⟨e, h⟩ <;> simp_all
    · simp_all
    · exact hp ⟨hr', hw'⟩
  · simp [St.final, hm]

/-! ### The property theorems -/

section
variable (d : Disp) (ms ps rs ws : List Io)

/-- **terminates.**  From any reachable state (1) every run, under any
scheduler, is at most `s.weight` steps long — there is no infinite run — and
(2) a state in which no thread can make a step is final: the main thread has
left sigsuspend and the process has ended.  So every maximal run ends with the
process gone: lbzip2 cannot hang, whatever fails where, and in particular not
with a writer/reader that died holding the stderr lock while other threads
wait for it forever. -/
theorem terminates {s : St} (h : Reach d (init ms ps rs ws) s) :
    (∀ ts s', Run d s ts s' → ts.length + s'.weight ≤ s.weight) ∧
    ((∀ t, step d s t = none) → s.final = true) :=
  ⟨fun _ _ hr => run_bounded hr, progress h⟩

/-- **never_zero.**  Once any write() has returned -1 (in any thread), the
process cannot end with status 0. -/
theorem never_zero {s : St} (h : Reach d (init ms ps rs ws) s) (hw : s.wfail = true)
    {e : Ending} (hm : s.main = .done e) : e ≠ .exit 0 := by
  have hi := inv_reach h
  intro he
  subst he
  obtain ⟨f1, f2, f3⟩ := hi.succ (Or.inr (Or.inr hm))
  rcases hi.wf hw with hb | ⟨e', hm', hne⟩
  · simp [f1, f2, f3, Sub.bad] at hb
  · rw [hm] at hm'; exact hne (Main.done.inj hm').symm

/-- The same for any failed call, read or write: a thread that has had a
failing call excludes status 0. -/
theorem never_zero_any {s : St} (h : Reach d (init ms ps rs ws) s)
    (hb : (s.p.bad || s.r.bad || s.w.bad) = true) {e : Ending} (hm : s.main = .done e) :
    e ≠ .exit 0 := by
  have hi := inv_reach h
  intro he
  subst he
  obtain ⟨f1, f2, f3⟩ := hi.succ (Or.inr (Or.inr hm))
  simp [f1, f2, f3, Sub.bad] at hb

/-- **outcome.**  A process that does not end with status 0 ends with status 1,
or dies from SIGPIPE / SIGXFSZ — and that only when the signal has its default
action (with SIG_IGN inherited it is status 1). -/
theorem outcome {s : St} (h : Reach d (init ms ps rs ws) s) {e : Ending}
    (hm : s.main = .done e) (hne : e ≠ .exit 0) :
    e = .exit 1 ∨ (e = .died SIGPIPE ∧ d.pipeDfl = true) ∨
    (e = .died SIGXFSZ ∧ d.xfszDfl = true) := by
  rcases (inv_reach h).fin e hm with h0 | h1
  · exact absurd h0 hne
  · exact h1

/-- **diagnostic_iff.**  If every failing call of the run fails with the same
errno `e` (one failing call; or a device that stays full, a pipe that stays
broken), then when the process has ended unsuccessfully, stderr is non-empty
iff `e ∉ {EPIPE, EFBIG}`. -/
theorem diagnostic_iff (e : Errno) (hm : scriptUni e ms) (hp : scriptUni e ps)
    (hr : scriptUni e rs) (hw : scriptUni e ws) {s : St}
    (h : Reach d (init ms ps rs ws) s) {x : Ending} (hd : s.main = .done x)
    (hne : x ≠ .exit 0) : s.stderr = true ↔ silent e = false := by
  have h2 := inv2_reach hm hp hr hw h
  exact ⟨h2.quiet, h2.fin x hd hne⟩

/-- A successful end has an empty stderr (nothing is ever printed on the
success path of this model). -/
theorem silent_success (e : Errno) (hm : scriptUni e ms) (hp : scriptUni e ps)
    (hr : scriptUni e rs) (hw : scriptUni e ws) {s : St}
    (h : Reach d (init ms ps rs ws) s) (hs : silent e = true) : s.stderr = false := by
  have h2 := inv2_reach hm hp hr hw h
  cases hst : s.stderr with
  | false => rfl
  | true => have := h2.quiet hst; simp [hs] at this

end

/-! ### The hypotheses are satisfiable: concrete runs -/

namespace Ex

def dfl : Disp := ⟨true, true⟩
def okR : Io := ⟨.read, none⟩
def okW : Io := ⟨.write, none⟩

/-- compression, the writer's second write() fails with EPIPE -/
def s0 : St := init [] [okW, okW] [okR, okR] [okW, ⟨.write, some EPIPE⟩, okW]

def runT (s : St) (ts : List Thr) : Option St :=
  ts.foldlM (fun s t => step dfl s t) s

theorem reach_runT {s0 s s' : St} (h : Reach dfl s0 s) (ts : List Thr)
    (hr : runT s ts = some s') : Reach dfl s0 s' := by
  induction ts generalizing s with
  | nil => simp [runT] at hr; subst hr; exact h
  | cons t l ih =>
    simp only [runT, List.foldlM_cons, Option.bind_eq_bind] at hr
    cases hs : step dfl s t with
    | none => rw [hs] at hr; simp at hr
    | some s1 =>
      rw [hs] at hr
      exact ih (Reach.step t h hs) hr

/-- main suspends; W writes once, fails, locks stderr, (no message), promotes
SIGPIPE, raises SIGUSR1, exits; main wakes and dies from SIGPIPE -/
def sched : List Thr := [.main, .w, .w, .w, .w, .w, .w, .w, .main]

def sEnd : St := (runT s0 sched).getD s0

theorem sEnd_run : runT s0 sched = some sEnd := by decide

theorem sEnd_reach : Reach dfl s0 sEnd := reach_runT Reach.init sched sEnd_run

example : sEnd.main = .done (.died SIGPIPE) ∧ sEnd.stderr = false ∧ sEnd.wfail = true := by
  decide

example : Ending.died SIGPIPE ≠ .exit 0 :=
  never_zero dfl _ _ _ _ sEnd_reach (by decide) (e := .died SIGPIPE) (by decide)

example := outcome dfl _ _ _ _ sEnd_reach (e := .died SIGPIPE) (by decide) (by decide)

example : sEnd.stderr = true ↔ silent EPIPE = false :=
  diagnostic_iff dfl _ _ _ _ EPIPE (by simp [scriptUni]) (by simp [scriptUni, okW])
    (by simp [scriptUni, okR]) (by simp [scriptUni, okW]) sEnd_reach
    (x := .died SIGPIPE) (by decide) (by decide)

example := (terminates dfl _ _ _ _ sEnd_reach).2 (by intro t; cases t <;> decide)

/-- the same with EIO: status 1 and a diagnostic -/
def s1 : St := init [] [okW, okW] [okR, okR] [okW, ⟨.write, some EIO⟩, okW]
def sEnd1 : St := (runT s1 sched).getD s1
theorem sEnd1_reach : Reach dfl s1 sEnd1 :=
  reach_runT Reach.init sched (by decide : runT s1 sched = some sEnd1)

example : sEnd1.main = .done (.exit 1) ∧ sEnd1.stderr = true := by decide
example : sEnd1.stderr = true ↔ silent EIO = false :=
  diagnostic_iff dfl _ _ _ _ EIO (by simp [scriptUni]) (by simp [scriptUni, okW])
    (by simp [scriptUni, okR]) (by simp [scriptUni, okW]) sEnd1_reach
    (x := .exit 1) (by decide) (by decide)

end Ex

end LbzVerif.Props.C21
