/-
  C07 — damaged input is rejected, at file level.

  `Props.C07` shows what happens once corrupt data has been met inside work()
  (exit status 1, diagnostic, output removed).  This file supplies the missing
  first half for whole files: WHICH byte strings lead there.  A byte string
  the strict reference decoder (`Spec.Bzip2.decodeFile`) does not accept —
  truncated anywhere, any bit flipped so that a CRC / code / selector / size
  rule fails, a wrong magic — is rejected by the model of `lbzip2 -d`
  (`Model.Expand.expandFile`, built from the translated `Gen.parseStep`), and
  no run of the decompression scheduler model on it, whatever the worker
  count, granularity, slot totals, candidate set and interleaving, terminates
  cleanly; a run on it that stops, stops in `failf`.

  There is no "silently accepted" third outcome: `expandFile` returns either
  `.ok bytes` or `.error`, and never runs out of fuel
  (`Props.C06.File.expandFile_ne_fuel`).
-/
import LbzVerif.Props.C05.File
import LbzVerif.Props.C06.File
import LbzVerif.Props.C09.File

namespace LbzVerif.Props.C07.File
open LbzVerif LbzVerif.Basic LbzVerif.Model.Expand LbzVerif.Model.SchedD
open LbzVerif.Lemmas.ExpandSched (cfgOf render)

/-- A file the reference does not decode to anything is rejected by the
    sequential model of `lbzip2 -d`. -/
theorem damaged_rejected (x : List UInt8) (h : ∀ y, Spec.Bzip2.decodeFile x ≠ .ok y) :
    ∃ e, expandFile x = .error e := by
  cases hx : expandFile x with
  | error e => exact ⟨e, rfl⟩
  | ok y => exact absurd (Props.C05.File.expand_sound x y hx) (h y)

/-- … and conversely `lbzip2 -d` rejects nothing else: acceptance and rejection
    are both decided by the reference. -/
theorem rejected_iff (x : List UInt8) :
    (∃ e, expandFile x = .error e) ↔ ∀ y, Spec.Bzip2.decodeFile x ≠ .ok y := by
  constructor
  · rintro ⟨e, he⟩ y hy
    rw [Props.C06.File.expand_complete x y hy] at he
    cases he
  · exact damaged_rejected x

/-- **No schedule lets a damaged file through.**  On a file (with a bzip2
    header, i.e. one that is not passed to the copy path) that the reference
    does not decode, no reachable state of the decompression scheduler model is
    a clean termination — for every `n`, `W`, slot totals, `ultra`, candidate
    set and interleaving. -/
theorem damaged_never_terminates (x : List UInt8) (hh : Lemmas.Copy.hasHeader x = true)
    (h : ∀ y, Spec.Bzip2.decodeFile x ≠ .ok y)
    (n W totalIn totalOut : Nat) (ultra : Bool) (cand : List Nat) {s : State}
    (hr : Reach (cfgOf (Lemmas.Copy.headerLevel x) (x.drop 4) n W totalIn totalOut ultra cand) s) :
    terminated (cfgOf (Lemmas.Copy.headerLevel x) (x.drop 4) n W totalIn totalOut ultra cand) s
      = false := by
  obtain ⟨e, he⟩ := damaged_rejected x h
  exact Props.C09.File.rejected_never_terminates x hh e he n W totalIn totalOut ultra cand hr

/-- A file without a bzip2 header is not decompressed at all (`notBzip2`; the
    real program then fails, or copies under -cdf: property C19). -/
theorem no_header_rejected (x : List UInt8) (hh : Lemmas.Copy.hasHeader x = false) :
    expandFile x = .error .notBzip2 := by
  rw [Lemmas.ExpandTop.expandFile_eq]
  simp [hh]

/-- Truncation: a proper prefix of a file is either itself a complete file the
    reference accepts, or it is rejected — it is never decoded to something the
    reference would not produce from those same bytes. -/
theorem prefix_sound (x : List UInt8) (k : Nat) (y : List UInt8)
    (h : expandFile (x.take k) = .ok y) : Spec.Bzip2.decodeFile (x.take k) = .ok y :=
  Props.C05.File.expand_sound _ _ h

/-! non-vacuity: the header-only file is not decoded by the reference, hence
    rejected, hence no run on it terminates -/
example : ∀ y, Spec.Bzip2.decodeFile [0x42, 0x5A, 0x68, 0x39] ≠ .ok y := by
  intro y h
  have : Spec.Bzip2.decodeFile [0x42, 0x5A, 0x68, 0x39] = .error .truncated := by decide +kernel
  rw [this] at h
  cases h

example : Lemmas.Copy.hasHeader [0x42, 0x5A, 0x68, 0x39] = true := by decide

end LbzVerif.Props.C07.File
