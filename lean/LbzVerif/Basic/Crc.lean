/-
  LbzVerif.Basic.Crc — CRC-32/BZIP2 (polynomial 0x04C11DB7, MSB first, initial
  value 0xFFFFFFFF, final complement) over the table generated from
  /repo/src/crctab.c (`Gen.crcTable`), and the bzip2 stream-CRC combination.

  Conventions: `crc32` is the value *stored in the file* (already complemented),
  as in bzip2 1.0.x.  lbzip2 keeps its running CRCs in a different internal
  convention (see `Gen.combineCrc`); that is a matter for the Model layer.
-/
import LbzVerif.Gen.CrcTab

namespace LbzVerif.Basic

/-- One table-driven step: `crc' = (crc << 8) ^ table[(crc >> 24) ^ byte]`. -/
@[inline] def crcStep (c : UInt32) (b : UInt8) : UInt32 :=
  (c <<< 8) ^^^ (Gen.crcTable.getD (((c >>> 24) ^^^ b.toUInt32).toNat) 0)

/-- Running (uncomplemented) CRC register after absorbing `bs`, starting from `c`. -/
def crcRun (c : UInt32) (bs : List UInt8) : UInt32 := bs.foldl crcStep c

/-- Same over an array (used by the decoder's heavy stages). -/
def crcRunArr (c : UInt32) (bs : Array UInt8) : UInt32 := bs.foldl crcStep c

/-- Initial register value. -/
def crcInit : UInt32 := 0xFFFFFFFF

/-- CRC-32/BZIP2 of a byte string, as stored in block headers. -/
def crc32 (bs : List UInt8) : UInt32 := ~~~ (crcRun crcInit bs)

def crc32Arr (bs : Array UInt8) : UInt32 := ~~~ (crcRunArr crcInit bs)

/-- bzip2 combined stream CRC step: `rotl1(combined) xor blockCrc`. -/
@[inline] def combine (cc c : UInt32) : UInt32 :=
  ((cc <<< 1) ||| (cc >>> 31)) ^^^ c

/-- Combined CRC of a list of block CRCs (in file order), starting at 0. -/
def combineAll (cs : List UInt32) : UInt32 := cs.foldl combine 0

theorem crcRun_append (c : UInt32) (a b : List UInt8) :
    crcRun c (a ++ b) = crcRun (crcRun c a) b := by
  simp [crcRun, List.foldl_append]

theorem crcRunArr_eq (c : UInt32) (bs : Array UInt8) :
    crcRunArr c bs = crcRun c bs.toList := by
  simp [crcRunArr, crcRun]

theorem crc32Arr_eq (bs : Array UInt8) : crc32Arr bs = crc32 bs.toList := by
  simp [crc32Arr, crc32, crcRunArr_eq]

end LbzVerif.Basic
