/-
  LbzVerif.Basic.Bits — bytes ↔ bits (most significant bit first), fixed-width
  big-endian fields.  Core only (no Mathlib); everything is total and either
  structurally recursive or a fold.

  A bit stream is a plain `List Bool`; the bzip2 format packs bits into bytes
  MSB first, so byte `0x80` is `[true,false,false,false,false,false,false,false]`.
-/
namespace LbzVerif.Basic

/-- A bit stream, in reading order. -/
abbrev Bits := List Bool

/-- `Bool` as 0/1. -/
@[inline] def bit (b : Bool) : Nat := if b then 1 else 0

/-- The eight bits of a byte, most significant first. -/
def byteToBits (b : UInt8) : Bits :=
  let n := b.toNat
  [n.testBit 7, n.testBit 6, n.testBit 5, n.testBit 4,
   n.testBit 3, n.testBit 2, n.testBit 1, n.testBit 0]

/-- Value of a bit list read as a big-endian binary numeral, continuing from
    accumulator `acc` (`bitsToNatAux acc bs = acc * 2^|bs| + value bs`). -/
def bitsToNatAux (acc : Nat) : Bits → Nat
  | [] => acc
  | b :: bs => bitsToNatAux (2 * acc + bit b) bs

/-- Value of a bit list read as a big-endian binary numeral. -/
def bitsToNat (bs : Bits) : Nat := bitsToNatAux 0 bs

/-- The `n` low bits of `v`, most significant first (`natToBits 3 5 = [1,0,1]`). -/
def natToBits : (n : Nat) → (v : Nat) → Bits
  | 0, _ => []
  | n + 1, v => v.testBit n :: natToBits n v

/-- All bits of a byte string, MSB first within each byte.
    (Tail recursive through an array accumulator: inputs have millions of bits.) -/
def bytesToBitsAux (acc : Array Bool) : List UInt8 → Array Bool
  | [] => acc
  | b :: bs => bytesToBitsAux (acc ++ byteToBits b) bs

def bytesToBits (bs : List UInt8) : Bits :=
  (bytesToBitsAux (Array.mkEmpty (8 * bs.length)) bs).toList

/-- Take an `n`-bit big-endian field; `none` if fewer than `n` bits remain. -/
def takeNatAux : (n : Nat) → (acc : Nat) → Bits → Option (Nat × Bits)
  | 0, acc, bs => some (acc, bs)
  | _ + 1, _, [] => none
  | n + 1, acc, b :: bs => takeNatAux n (2 * acc + bit b) bs

def takeNat (n : Nat) (bs : Bits) : Option (Nat × Bits) := takeNatAux n 0 bs

/-- Take one bit. -/
def takeBit : Bits → Option (Bool × Bits)
  | [] => none
  | b :: bs => some (b, bs)

/-- Pack bits into bytes, MSB first; a final partial byte is padded with zero
    bits on the right. -/
def bitsToBytes : Bits → List UInt8
  | [] => []
  | b7 :: b6 :: b5 :: b4 :: b3 :: b2 :: b1 :: b0 :: rest =>
      UInt8.ofNat (bitsToNat [b7, b6, b5, b4, b3, b2, b1, b0]) :: bitsToBytes rest
  | short => [UInt8.ofNat (bitsToNat (short ++ List.replicate (8 - short.length) false))]

/-- Big-endian bytes of a 32-bit value. -/
def be32 (v : Nat) : List UInt8 :=
  [UInt8.ofNat (v >>> 24), UInt8.ofNat (v >>> 16), UInt8.ofNat (v >>> 8), UInt8.ofNat v]

/-! ### hex (driver protocol: lower-case hex, `-` for the empty string) -/

def hexDigit (n : Nat) : Char :=
  if n < 10 then Char.ofNat (48 + n) else Char.ofNat (87 + n)

def hexVal (c : Char) : Option Nat :=
  let n := c.toNat
  if 48 ≤ n ∧ n ≤ 57 then some (n - 48)
  else if 97 ≤ n ∧ n ≤ 102 then some (n - 87)
  else if 65 ≤ n ∧ n ≤ 70 then some (n - 55)
  else none

def hexDecodeAux (acc : Array UInt8) : List Char → Option (Array UInt8)
  | [] => some acc
  | [_] => none
  | a :: b :: rest =>
    match hexVal a, hexVal b with
    | some x, some y => hexDecodeAux (acc.push (UInt8.ofNat (16 * x + y))) rest
    | _, _ => none

/-- Parse a hex string (`-` is the empty byte string). -/
def hexDecode (s : String) : Option (List UInt8) :=
  if s == "-" then some []
  else (hexDecodeAux (Array.mkEmpty (s.length / 2)) s.toList).map Array.toList

def hexEncodeAux (acc : Array Char) : List UInt8 → Array Char
  | [] => acc
  | b :: bs =>
    hexEncodeAux ((acc.push (hexDigit (b.toNat / 16))).push (hexDigit (b.toNat % 16))) bs

/-- Lower-case hex of a byte string (`-` for the empty string). -/
def hexEncode (bs : List UInt8) : String :=
  if bs.isEmpty then "-" else String.ofList (hexEncodeAux (Array.mkEmpty (2 * bs.length)) bs).toList

end LbzVerif.Basic
