import LbzVerif.Model.Compress
open LbzVerif LbzVerif.Model.Compress LbzVerif.Basic LbzVerif.Model.Transmit
theorem hb : (compressFile 9 false [104, 101, 108, 108, 111] simpleChoice).length = 39 := by decide +kernel
