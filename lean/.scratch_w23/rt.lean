import LbzVerif.Props.C01.Roundtrip
import LbzVerif.Props.C02.Inspect
import LbzVerif.Lemmas.BwtInverseNaive
namespace LbzVerif.Props.C01.Roundtrip
open LbzVerif LbzVerif.Basic LbzVerif.Model.Compress LbzVerif.Lemmas.CompressCut

theorem simpleChoice_ok (b : List UInt8) (hne : b ≠ []) :
    ChoicesOK (Spec.rle1 b) (simpleChoice (Spec.rle1 b)) := by
  have hrne : Spec.rle1 b ≠ [] := by
    intro he
    have := Spec.unRle1_rle1 b
    rw [he] at this
    have h0 : Spec.unRle1 [] = some [] := by decide
    rw [h0] at this
    exact hne (Option.some.inj this).symm
  exact (Lemmas.CompressSimple.simpleChoice_ok_iff _ hrne).mpr
    (Lemmas.BwtInverse.naiveBwt_ok _ hrne)

theorem roundtrip_naive (level : Nat) (h1 : 1 ≤ level) (h9 : level ≤ 9) (seq : Bool)
    (input : List UInt8) :
    Spec.Bzip2.decodeFile (compressFile level seq input simpleChoice) = .ok input :=
  roundtrip level h1 h9 seq input simpleChoice
    (fun b hb => simpleChoice_ok b (cutBlocks_mem _ _ seq input b hb).1)
#print axioms roundtrip_naive
end LbzVerif.Props.C01.Roundtrip
