/-
  Driver commands of work package W8 (C16 / C21): print the SET of outcomes
  the models `Model.Files` / `Model.Fail` allow for one injection scenario.

  c16 <c|d> <keep 0|1> <force 0|1> <preout 0|1> <nreads> <nwrites>
      <class> <index> <errno NAME|sig NAME|none> [before|after]
        class ∈ lstat open fstat close unlink read write fchown fchmod futimens
        → outcomes separated by " | ", each
          in=<same|gone|other> out=<none|pre|complete|partial> meta=<1|0|->
          end=<exit:N|sig:N> err=<0|1>
          (sorted, duplicates removed); "nohit" when the fault-free run has no
          such call.
  c16seq <c|d> <keep> <force> <preout> <nreads> <nwrites>
        → the call classes of the fault-free run in order, work() collapsed
          to one "W" (reads/writes happen on other threads, in any order)
  c21 <c|d|copy> <M|P|R|W> <r|w> <errno NAME> <len> <pos> <pipeDfl> <xfszDfl>
        the thread's script has <len> calls of kind r/w, the one at <pos>
        fails with the errno; the other threads do two successful calls each
        → "hang=<n>" followed by the outcomes " | end=<..> err=<0|1>"
-/
import LbzVerif.Model.Files

namespace Driver.CmdFiles

open LbzVerif.Model.Fail
open LbzVerif.Model.Files

def errnoOf (s : String) : Option Errno :=
  match s with
  | "EPERM" => some EPERM
  | "ENOENT" => some ENOENT
  | "EIO" => some EIO
  | "EACCES" => some EACCES
  | "EEXIST" => some EEXIST
  | "EFBIG" => some EFBIG
  | "ENOSPC" => some ENOSPC
  | "EPIPE" => some EPIPE
  | "EINTR" => some 4
  | "EDQUOT" => some 122
  | "EROFS" => some 30
  | "ENOMEM" => some 12
  | "EMFILE" => some 24
  | _ => s.toNat?

def sigOf (s : String) : Option Sig :=
  match s with
  | "INT" => some .int
  | "TERM" => some .term
  | "KILL" => some .kill
  | _ => none

def clsOf (s : String) : Option Cls :=
  match s with
  | "lstat" => some .lstat
  | "open" => some .open_
  | "fstat" => some .fstat
  | "close" => some .close
  | "unlink" => some .unlink
  | "read" => some .read
  | "write" => some .write
  | "fchown" => some .fchown
  | "fchmod" => some .fchmod
  | "futimens" => some .futimens
  | _ => none

def clsName : Cls → String
  | .lstat => "lstat"
  | .open_ => "open"
  | .fstat => "fstat"
  | .close => "close"
  | .unlink => "unlink"
  | .read => "read"
  | .write => "write"
  | .fchown => "fchown"
  | .fchmod => "fchmod"
  | .futimens => "futimens"

def boolOf (s : String) : Bool := s == "1"

def inFile : File :=
  { kind := .reg, bytes := [0x49], mode := 0o644, nlink := 1, uid := 7, gid := 8,
    atime := 1000, mtime := 2000 }

def preFile : File :=
  { kind := .reg, bytes := [0xEE], mode := 0o600, nlink := 1, uid := 0, gid := 0,
    atime := 1, mtime := 2 }

def mkScn (dec keep force : Bool) (nr nw : Nat) : Scn :=
  { decompress := dec, force := force, keep := keep, inP := "in", outP := "out",
    sufSkip := false,
    ops := (List.replicate nr WOp.read) ++
           (List.range nw).map (fun i => WOp.write [UInt8.ofNat (i + 1)]),
    euid := 0, egid := 0, now := 5000,
    disp := { pipeDfl := true, xfszDfl := true } }

def mkFS (pre : Bool) : FS := fun q =>
  if q = "in" then some inFile
  else if q = "out" then (if pre then some preFile else none)
  else none

def endStr : Ending → String
  | .exit n => s!"exit:{n}"
  | .died n => s!"sig:{n}"

def summary (sc : Scn) (fs0 : FS) (c : Cfg) : String :=
  let i := match c.fs sc.inP with
    | none => "gone"
    | some f => if some f = fs0 sc.inP then "same" else "other"
  let (o, m) := match c.fs sc.outP with
    | none => ("none", "-")
    | some f =>
      if some f = fs0 sc.outP then ("pre", "-")
      else if f.kind = Kind.reg ∧ f.bytes = expected sc then
        ("complete",
         if f.mode = inFile.mode &&& 0o777 ∧ f.mtime = inFile.mtime ∧ f.atime = inFile.atime
         then "1" else "0")
      else ("partial", "-")
  let e := match c.pc with
    | .ended e => endStr e
    | _ => "running"
  s!"in={i} out={o} meta={m} end={e} err={if c.stderr then 1 else 0}"

/-- Bump the per-class call counter. -/
def bump (cnt : List (Cls × Nat)) (k : Cls) : List (Cls × Nat) :=
  match cnt with
  | [] => [(k, 1)]
  | (k', n) :: l => if k' = k then (k', n + 1) :: l else (k', n) :: bump l k

def count (cnt : List (Cls × Nat)) (k : Cls) : Nat :=
  match cnt.find? (fun p => p.1 = k) with
  | some p => p.2
  | none => 0

/-- Run the model to the end, injecting `inj` at call number `idx` of class
`cls`; forks on the `defer` bit exactly where it matters.  Returns the final
configurations and whether the injection point was reached. -/
def runAll (sc : Scn) (cls : Cls) (idx : Nat) (inj : Inj) :
    Nat → Cfg → List (Cls × Nat) → Bool → List (Cfg × Bool)
  | 0, c, _, hit => [(c, hit)]
  | fuel + 1, c, cnt, hit =>
    if c.isEnded then [(c, hit)] else
    let k := pcClass sc c.pc
    let here := match k with
      | some k => k = cls ∧ count cnt k = idx
      | none => false
    let cnt' := match k with
      | some k => bump cnt k
      | none => cnt
    let j : Inj := if here then inj else {}
    let forks : List Inj :=
      match c.pc with
      | .work _ => if c.pendInt || c.pendTerm || j.sigBefore.isSome then [{ j with defer := false }, { j with defer := true }] else [j]
      | _ => [j]
    forks.flatMap fun j => runAll sc cls idx inj fuel (step sc c j) cnt' (hit || here)

def dedupSort (l : List String) : List String :=
  let l := l.foldl (fun a x => if a.contains x then a else x :: a) []
  l.mergeSort (fun a b => a ≤ b)

def fuelOf (sc : Scn) : Nat := sc.ops.length + 40

def c16 (args : List String) : Option String :=
  match args with
  | md :: k :: f :: pre :: nr :: nw :: cls :: idx :: kind :: rest =>
    match clsOf cls, idx.toNat?, nr.toNat?, nw.toNat? with
    | some cls, some idx, some nr, some nw =>
      let sc := mkScn (md == "d") (boolOf k) (boolOf f) nr nw
      let fs0 := mkFS (boolOf pre)
      let after := rest.contains "after"
      let inj? : Option Inj :=
        match kind, rest with
        | "none", _ => some {}
        | "errno", e :: _ => (errnoOf e).map fun e => { err := some e }
        | "sig", s :: _ => (sigOf s).map fun s =>
            if after then { sigAfter := some s } else { sigBefore := some s }
        | _, _ => none
      match inj? with
      | none => some "bad-args"
      | some inj =>
        let rs := runAll sc cls idx inj (fuelOf sc) (init fs0) [] false
        if kind != "none" ∧ rs.all (fun r => !r.2) then some "nohit"
        else some (" | ".intercalate (dedupSort (rs.map fun r => summary sc fs0 r.1)))
    | _, _, _, _ => some "bad-args"
  | _ => some "bad-args"

/-- Call classes of the fault-free run. -/
def seqOf (sc : Scn) : Nat → Cfg → List String → List String
  | 0, _, acc => acc.reverse
  | fuel + 1, c, acc =>
    if c.isEnded then acc.reverse else
    let acc := match c.pc, pcClass sc c.pc with
      | .work _, _ => if acc.head? = some "W" then acc else "W" :: acc
      | _, some k => clsName k :: acc
      | _, none => acc
    seqOf sc fuel (step sc c {}) acc

def c16seq (args : List String) : Option String :=
  match args with
  | [md, k, f, pre, nr, nw] =>
    match nr.toNat?, nw.toNat? with
    | some nr, some nw =>
      let sc := mkScn (md == "d") (boolOf k) (boolOf f) nr nw
      some (",".intercalate (seqOf sc (fuelOf sc) (init (mkFS (boolOf pre))) []))
    | _, _ => some "bad-args"
  | _ => some "bad-args"

def okIo (rw : RW) : Io := { rw := rw, err := none }

def failScript (rw : RW) (len pos : Nat) (e : Errno) : List Io :=
  (List.range len).map fun i => { rw := rw, err := if i = pos then some e else none }

def c21 (args : List String) : Option String :=
  match args with
  | [md, thr, rw, e, len, pos, pd, xd] =>
    match errnoOf e, len.toNat?, pos.toNat? with
    | some e, some len, some pos =>
      let rw := if rw == "r" then RW.read else RW.write
      let d : Disp := { pipeDfl := boolOf pd, xfszDfl := boolOf xd }
      let fs := failScript rw len pos e
      -- main's own I/O before halt(): d: header read; copy: header read + write
      let ms0 := if md == "d" then [okIo .read] else if md == "copy" then [okIo .read, okIo .write] else []
      -- compress: the primary thread writes stream header and trailer itself
      let ps0 := if md == "c" then [okIo .write, okIo .write] else []
      let rs0 := [okIo .read, okIo .read]
      let ws0 := [okIo .write, okIo .write]
      let s0 := match thr with
        | "M" => init fs ps0 rs0 ws0
        | "P" => init ms0 fs rs0 ws0
        | "R" => init ms0 ps0 fs ws0
        | _ => init ms0 ps0 rs0 fs
      let fuel := s0.weight + 2
      let outs := explore d fuel [s0] []
      let hang := (stuck d fuel [s0] []).length
      let strs := dedupSort (outs.map fun o => s!"end={endStr o.1} err={if o.2 then 1 else 0}")
      some (s!"hang={hang} | " ++ " | ".intercalate strs)
    | _, _, _ => some "bad-args"
  | _ => some "bad-args"

def handle (cmd : String) (args : List String) : Option String :=
  match cmd with
  | "c16" => c16 args
  | "c16seq" => c16seq args
  | "c21" => c21 args
  | _ => none

end Driver.CmdFiles
