/-
  Driver commands of work package W1 (property C14).

    scan <live> <buffhex16> <skip> <words: comma-separated decimal | ->
        -> <OK|MORE> <live> <buffhex16> <data>
       runs Model.Scan.scan on (live, buff, data = 0, words).

    scan.occ <live> <buffhex16> <skip> <words>
        -> <effStart> <i | none>
       Spec oracle: effective start e as the code computes it, and the end
       index i (relative to e) of the first header candidate (pattern + 32
       bits) lying wholly inside the remaining bits after e.

    scan.delta <s> <b>       -> Spec.Scan.δ s b      (generic KMP transition)
    scan.mini <s> <b>        -> Model mini_dfa[s][b]
    scan.big <s> <c>         -> Model big_dfa[s][c]
-/
import LbzVerif.Model.Scan

namespace Driver.CmdScan

open LbzVerif LbzVerif.Model.Scan

def hexDigit (c : Char) : Option Nat :=
  if '0' ≤ c ∧ c ≤ '9' then some (c.toNat - '0'.toNat)
  else if 'a' ≤ c ∧ c ≤ 'f' then some (c.toNat - 'a'.toNat + 10)
  else none

def parseHex (s : String) : Option Nat :=
  if s.isEmpty then none
  else s.toList.foldlM (fun acc c => (hexDigit c).map (acc * 16 + ·)) 0

def hex16 (n : Nat) : String :=
  let ds := (Nat.toDigits 16 n)
  String.ofList (List.replicate (16 - ds.length) '0' ++ ds)

def parseWords (s : String) : Option (List Nat) :=
  if s = "-" then some []
  else (s.splitOn ",").mapM (fun t => t.toNat?.map (· % 2 ^ 32))

def parseBS (a b d : String) : Option BS := do
  let live ← a.toNat?
  let buff ← parseHex b
  let words ← parseWords d
  some { live := live, buff := buff % 2 ^ 64, data := 0, words := words }

def showRes (r : Res × BS) : String :=
  let tag := match r.1 with | .ok => "OK" | .more => "MORE"
  s!"{tag} {r.2.live} {hex16 r.2.buff} {r.2.data}"

def handle (cmd : String) (args : List String) : Option String :=
  match cmd, args with
  | "scan", [a, b, c, d] =>
    some <| match parseBS a b d, c.toNat? with
      | some bs, some skip => showRes (scan bs skip)
      | _, _ => "bad-args"
  | "scan.occ", [a, b, c, d] =>
    some <| match parseBS a b d, c.toNat? with
      | some bs, some skip =>
        let e := effStart bs skip
        let r := match Spec.Scan.firstOccB ((rem bs).drop e) with
          | some i => toString i
          | none => "none"
        s!"{e} {r}"
      | _, _ => "bad-args"
  | "scan.delta", [a, b] =>
    some <| match a.toNat?, b.toNat? with
      | some s, some b => toString (Spec.Scan.δ s (b != 0))
      | _, _ => "bad-args"
  | "scan.mini", [a, b] =>
    some <| match a.toNat?, b.toNat? with
      | some s, some b => toString (mini s (b != 0))
      | _, _ => "bad-args"
  | "scan.big", [a, b] =>
    some <| match a.toNat?, b.toNat? with
      | some s, some c => toString (big s c)
      | _, _ => "bad-args"
  | _, _ => none

end Driver.CmdScan
