/-
  Driver commands for the command-line / file-naming models (C22, C17).

  Strings (program name, environment values, arguments, file names) are
  percent-encoded: every byte that is not an ASCII letter or digit is `%XX`.
  `-` alone = absent (unset variable / empty list); `%` alone = the empty
  string.

    cli <argv0> <value of each Gen.evNames variable, or -> <argv[1]> ...
        -> help | version | fatal
         | config d=<0|1> om=<stdout|discard|regf> bs=<n> f= k= s= u= v= S=
                  n=<n|-> m=<n|-> ops=<enc>,<enc>…|-
    clitty <stdinTty 0|1> <stdoutTty 0|1> <argv0> ...      same, with the isatty checks
    tokens <value>                 -> <enc>,<enc>…|-
    outname c|d <name>             -> <enc> | none
    suffix <name>                  -> 0|1      (hasCompressedSuffix)
    admit <d><f><k> <om> <name> <lstat> <openOk> <fstat> <outExists> <outUnlinkOk>
          <outCreatable> <workOk> <chownOk>
        with stat = - | <r|d|l|o>:<nlink>:<mode>:<atime>:<mtime>  (decimal)
        -> skip=<reason|-> fatal= warned= status= out=<enc|-> oldrm= cmode= fmode=
           atime= mtime= inrm=
-/
import LbzVerif.Model.Cli
import LbzVerif.Model.Naming

namespace Driver.CmdCli
open LbzVerif.Model
open LbzVerif.Gen

def hexVal (c : Char) : Option Nat :=
  if '0' ≤ c ∧ c ≤ '9' then some (c.toNat - 48)
  else if 'a' ≤ c ∧ c ≤ 'f' then some (c.toNat - 87)
  else if 'A' ≤ c ∧ c ≤ 'F' then some (c.toNat - 55)
  else none

def decBytes : List Char → Option (List UInt8)
  | [] => some []
  | ['%'] => some []
  | '%' :: a :: b :: rest => do
    let x ← hexVal a
    let y ← hexVal b
    let r ← decBytes rest
    pure (UInt8.ofNat (16 * x + y) :: r)
  | c :: rest => do
    if c = '%' ∨ c.toNat ≥ 128 then none
    let r ← decBytes rest
    pure (UInt8.ofNat c.toNat :: r)

/-- percent-decode; `none` when malformed or not UTF-8 -/
def dec (s : String) : Option String := do
  let bs ← decBytes s.toList
  String.fromUTF8? (ByteArray.mk bs.toArray)

def hexDigit (n : Nat) : Char := if n < 10 then Char.ofNat (48 + n) else Char.ofNat (55 + n)

def encByte (b : UInt8) : List Char :=
  let n := b.toNat
  if (48 ≤ n ∧ n ≤ 57) ∨ (65 ≤ n ∧ n ≤ 90) ∨ (97 ≤ n ∧ n ≤ 122) then [Char.ofNat n]
  else ['%', hexDigit (n / 16), hexDigit (n % 16)]

def enc (s : String) : String :=
  if s.isEmpty then "%" else String.ofList (s.toUTF8.toList.flatMap encByte)

def encList (l : List String) : String :=
  if l.isEmpty then "-" else ",".intercalate (l.map enc)

def b01 (b : Bool) : String := if b then "1" else "0"
def optNat : Option Nat → String
  | none => "-"
  | some n => toString n

def showOm : Cli.OutMode → String
  | .stdout => "stdout" | .discard => "discard" | .regf => "regf"

def showOutcome : Cli.Outcome → String
  | .help => "help"
  | .version => "version"
  | .fatal => "fatal"
  | .config c ops =>
    s!"config d={b01 c.decompress} om={showOm c.outmode} bs={c.bs100k} f={b01 c.force} " ++
    s!"k={b01 c.keep} s={b01 c.small} u={b01 c.ultra} v={b01 c.verbose} S={b01 c.cctrs} " ++
    s!"n={optNat c.numWorker} m={optNat c.maxMem} ops={encList ops}"

def decOpt (s : String) : Option (Option String) :=
  if s = "-" then some none else (dec s).map some

def parseBool (s : String) : Option Bool :=
  if s = "1" then some true else if s = "0" then some false else none

/-- splits the arguments after argv0 into the environment and argv -/
def cliArgs (args : List String) : Option (String × (String → Option String) × List String) := do
  match args with
  | [] => none
  | a0 :: rest =>
    let argv0 ← dec a0
    let k := evNames.length
    if rest.length < k then none
    let vals ← (rest.take k).mapM decOpt
    let argv ← (rest.drop k).mapM dec
    let tbl := evNames.zip vals
    let env : String → Option String := fun n => (tbl.lookup n).join
    pure (Cli.basename argv0, env, argv)

def parseKind (s : String) : Option Naming.FKind :=
  if s = "r" then some .regular else if s = "d" then some .directory
  else if s = "l" then some .symlink else if s = "o" then some .other else none

def parseStat (s : String) : Option (Option Naming.Stat) :=
  if s = "-" then some none else
  match s.splitOn ":" with
  | [k, nl, mo, ta, tm] => do
    let kind ← parseKind k
    pure (some { kind := kind, nlink := ← nl.toNat?, mode := ← mo.toNat?,
                 atime := ← ta.toNat?, mtime := ← tm.toNat? })
  | _ => none

def parseOm (s : String) : Option Cli.OutMode :=
  if s = "stdout" then some .stdout else if s = "discard" then some .discard
  else if s = "regf" then some .regf else none

def showSkip : Naming.Skip → String
  | .lstat => "lstat" | .notRegular => "notregular" | .multiLink => "multilink"
  | .suffix => "suffix" | .openIn => "openin" | .openOut => "openout"

def showEffect (e : Naming.Effect) : String :=
  let sk := match e.skip with | none => "-" | some r => showSkip r
  let out := match e.outPath with | none => "-" | some p => enc (String.ofList p)
  s!"skip={sk} fatal={b01 e.fatal} warned={b01 e.warned} status={e.status} out={out} " ++
  s!"oldrm={b01 e.oldOutputRemoved} cmode={e.createMode} fmode={e.finalMode} " ++
  s!"atime={e.atime} mtime={e.mtime} inrm={b01 e.inputRemoved}"

def doAdmit (args : List String) : Option String := do
  match args with
  | [dfk, om, name, ls, oo, fs, oe, ou, oc, wk, ch] =>
    match dfk.toList with
    | [d, f, k] =>
      let fl : Naming.Flags :=
        { decompress := ← parseBool (String.singleton d), force := ← parseBool (String.singleton f),
          keep := ← parseBool (String.singleton k), outmode := ← parseOm om }
      let nm ← dec name
      let some fst ← parseStat fs | none
      let w : Naming.World :=
        { lstat := ← parseStat ls, openOk := ← parseBool oo, fstat := fst,
          outExists := ← parseBool oe, outUnlinkOk := ← parseBool ou,
          outCreatable := ← parseBool oc, workOk := ← parseBool wk, chownOk := ← parseBool ch }
      pure (showEffect (Naming.admitOp fl nm.toList w))
    | _ => none
  | _ => none

def handle (cmd : String) (args : List String) : Option String :=
  if cmd = "cli" then
    some <| match cliArgs args with
      | none => "bad-arg"
      | some (p, env, argv) => showOutcome (Cli.parse p env argv)
  else if cmd = "clitty" then
    some <| match args with
      | i :: o :: rest =>
        match parseBool i, parseBool o, cliArgs rest with
        | some i, some o, some (p, env, argv) => showOutcome (Cli.parseTty i o p env argv)
        | _, _, _ => "bad-arg"
      | _ => "bad-arg"
  else if cmd = "tokens" then
    some <| match args with
      | [v] => match dec v with
        | some s => encList (Cli.tokens s)
        | none => "bad-arg"
      | _ => "bad-arg"
  else if cmd = "outname" then
    some <| match args with
      | [m, n] =>
        match dec n with
        | none => "bad-arg"
        | some s =>
          if m = "c" then enc (String.ofList (Naming.outNameCompress s.toList))
          else if m = "d" then
            match Naming.outNameDecompress s.toList with
            | none => "none"
            | some o => enc (String.ofList o)
          else "bad-arg"
      | _ => "bad-arg"
  else if cmd = "suffix" then
    some <| match args with
      | [n] => match dec n with
        | none => "bad-arg"
        | some s => b01 (Naming.hasCompressedSuffix s.toList)
      | _ => "bad-arg"
  else if cmd = "admit" then
    some ((doAdmit args).getD "bad-arg")
  else none

end Driver.CmdCli
