/-
  Driver commands of work package W9 (properties C19, C18).

    sniff <hex of the first ≤ 8 input bytes | -> <force 0/1> <stdout 0/1> [<frag: comma list | ->]
        -> decompress <bs100k> | copy <hex of partial header | -> | fail
       Model.Copy.sniff (the decision of `work()`); `frag` = sizes the
       successive read(2) calls return.

    xread <hex input> <vacant> <frag>
        -> <hex got | -> <vacant left> <bytes left in input>

    copyrun <hex input> <frag> <schedule: comma list of pick:hint | -> <fuel>
        -> <hex out | -> <usr2 count> <terminal 0/1>     (or `nocopy`)
       the whole `-cdf` run of the model under one schedule.

    copyacct <events: comma list of d|e|i>
        -> <os after each event, comma separated> <usr2 count>
       replays the scheduler-lock sections of the copy pipeline
       (d = source `out_slots--`, e = source `eof = 1`, i = sink
       `out_slots++`) on the model's counters, for comparison with a
       LBZIP2_VERIF_TRACE of the real program.

    status <per-operand exit statuses, comma list | ->
        -> <combined exit status> <operands completed>
       Model.Operands.statusOf.
-/
import LbzVerif.Model.Copy
import LbzVerif.Model.Operands

namespace Driver.CmdCopy

open LbzVerif LbzVerif.Model

def hexDigit (c : Char) : Option Nat :=
  if '0' ≤ c ∧ c ≤ '9' then some (c.toNat - '0'.toNat)
  else if 'a' ≤ c ∧ c ≤ 'f' then some (c.toNat - 'a'.toNat + 10)
  else none

def parseBytes (s : String) : Option (List UInt8) :=
  if s = "-" then some []
  else
    let rec go : List Char → Option (List UInt8)
      | [] => some []
      | [_] => none
      | a :: b :: r => do
        let x ← hexDigit a
        let y ← hexDigit b
        let t ← go r
        some (UInt8.ofNat (x * 16 + y) :: t)
    go s.toList

def hexNib (n : Nat) : Char := "0123456789abcdef".toList.getD n '0'

def showBytes (b : List UInt8) : String :=
  if b.isEmpty then "-"
  else String.ofList (b.flatMap fun x => [hexNib (x.toNat / 16), hexNib (x.toNat % 16)])

def parseNats (s : String) : Option (List Nat) :=
  if s = "-" then some [] else (s.splitOn ",").mapM (·.toNat?)

def parseSched (s : String) : Option (List (Nat × Nat)) :=
  if s = "-" then some []
  else (s.splitOn ",").mapM fun t =>
    match t.splitOn ":" with
    | [a, b] => do some ((← a.toNat?), (← b.toNat?))
    | _ => none

def parseBool (s : String) : Option Bool :=
  if s = "1" then some true else if s = "0" then some false else none

def showDecision : Copy.Decision → String
  | .decompress k => s!"decompress {k}"
  | .copy h => s!"copy {showBytes h}"
  | .fail => "fail"

/-- Replay of the three kinds of scheduler-lock sections of copy mode on the
model state (only the counters matter). -/
def acct (evs : List Char) : Option (List Nat × Nat) :=
  let s0 := Copy.init [] []
  let rec go : List Char → Copy.St → List Nat → Option (List Nat × Nat)
    | [], s, acc => some (acc.reverse, s.usr2)
    | c :: r, s, acc =>
      let s' :=
        if c = 'd' then some (Copy.unlock { s with outSlots := Copy.dec32 s.outSlots })
        else if c = 'e' then some (Copy.unlock { s with eof := true })
        else if c = 'i' then some (Copy.unlock { s with outSlots := Copy.inc32 s.outSlots })
        else none
      match s' with
      | some s' => go r s' (s'.outSlots :: acc)
      | none => none
  go evs s0 []

def handle (cmd : String) (args : List String) : Option String :=
  match cmd, args with
  | "sniff", [a, f, o] =>
    some <| match parseBytes a, parseBool f, parseBool o with
      | some inp, some force, some so => showDecision (Copy.sniff inp [] force so).1
      | _, _, _ => "bad-args"
  | "sniff", [a, f, o, fr] =>
    some <| match parseBytes a, parseBool f, parseBool o, parseNats fr with
      | some inp, some force, some so, some frag => showDecision (Copy.sniff inp frag force so).1
      | _, _, _, _ => "bad-args"
  | "xread", [a, v, fr] =>
    some <| match parseBytes a, v.toNat?, parseNats fr with
      | some inp, some vac, some frag =>
        let r := Copy.xread inp vac frag
        s!"{showBytes r.got} {r.vacant} {r.rest.length}"
      | _, _, _ => "bad-args"
  | "copyrun", [a, fr, sc, fu] =>
    some <| match parseBytes a, parseNats fr, parseSched sc, fu.toNat? with
      | some inp, some frag, some sched, some fuel =>
        match Copy.runCopy inp frag sched fuel with
        | some (out, usr2, term) => s!"{showBytes out} {usr2} {if term then 1 else 0}"
        | none => "nocopy"
      | _, _, _, _ => "bad-args"
  | "copyacct", [e] =>
    some <| match parseNats "-" , acct ((e.splitOn ",").flatMap (·.toList)) with
      | _, some (os, n) => s!"{",".intercalate (os.map toString)} {n}"
      | _, none => "bad-args"
  | "status", [l] =>
    some <| match parseNats l with
      | some sts =>
        let r := Operands.statusOf (sts.map Operands.outcomeOfStatus) false 0
        s!"{r.1} {r.2}"
      | none => "bad-args"
  | _, _ => none

end Driver.CmdCopy
