/-
  Driver commands of work package W16 (transmit / encode cost).

  An EncBlock travels as eleven arguments
    <crc> <bwt_idx> <cmap: 64 hex digits, bit v of the 256-bit map MSB first>
    <num_trees> <lens: tables separated by '/', comma lists> <codes: same>
    <selectors (renumbered, real groups)> <selectorMTF[0..num_selectors)>
    <num_selectors> <tree_pad> <mtfv>

    tx <EncBlock>        -> <cost> <out_expect_len> <bit length> <WF 0/1> <hex of Model.transmitBytes>
    txcoded <EncBlock>   -> <Coded 0/1>
    selmtf <selectors>   -> Model.selectorMtfOf (the branch-free MTF of encode())
    txparse <level> <hex of a transmitted block incl. magic>
                         -> ok <crc> <rand> <origPtr> <used hex> <nGroups> <selectors>
                               <tables '/'> <nSelectorsUsed> <syms> <endBit> <bits left>
                          | err <reason>          (Spec.Bzip2.parseBlock after the magic)
-/
import LbzVerif.Model.Transmit
import LbzVerif.Spec.Bzip2

namespace Driver.CmdTransmit
open LbzVerif LbzVerif.Basic LbzVerif.Model.Transmit

def parseList (s : String) : Option (List Nat) :=
  if s == "-" then some [] else (s.splitOn ",").mapM String.toNat?

def parseTables (s : String) : Option (List (List Nat)) :=
  if s == "-" then some [] else (s.splitOn "/").mapM parseList

def showList (l : List Nat) : String :=
  if l.isEmpty then "-" else ",".intercalate (l.map toString)

def showTables (l : List (List Nat)) : String :=
  if l.isEmpty then "-" else "/".intercalate (l.map showList)

def parseBlock (args : List String) : Option EncBlock :=
  match args with
  | [crc, bwt, cm, nt, ls, cs, sel, smtf, nsel, pad, mtfv] => do
    let crc ← crc.toNat?
    let bwt ← bwt.toNat?
    let cm ← hexDecode cm
    let nt ← nt.toNat?
    let ls ← parseTables ls
    let cs ← parseTables cs
    let sel ← parseList sel
    let smtf ← parseList smtf
    let nsel ← nsel.toNat?
    let pad ← pad.toNat?
    let mtfv ← parseList mtfv
    some { crc := crc, bwtIdx := bwt, cmap := bytesToBits cm, numTrees := nt, lens := ls,
           codes := cs, selectors := sel, selectorMtf := smtf, numSelectors := nsel,
           treePad := pad, mtfv := mtfv }
  | _ => none

def b01 (b : Bool) : String := if b then "1" else "0"

def doParse (level : Nat) (data : List UInt8) : String :=
  let bits := (bytesToBits data).drop 48
  match Spec.Bzip2.parseBlock level 0 bits with
  | .error e => "err " ++ e.name
  | .ok (b, rest) =>
    s!"ok {b.storedCrc} {b01 b.rand} {b.origPtr} {hexEncode b.used} {b.nGroups} " ++
    s!"{showList b.selectors} {showTables b.tables} {b.nSelectorsUsed} " ++
    s!"{showList b.syms.toList} {b.endBit} {rest.length}"

def handle (cmd : String) (args : List String) : Option String :=
  match cmd with
  | "tx" => some <| match parseBlock args with
    | some b =>
      s!"{cost b} {outExpectLen b} {(transmitBits b).length} {b01 (decide (WF b))} " ++
        hexEncode (transmitBytes b)
    | none => "bad-arg"
  | "txcoded" => some <| match parseBlock args with
    | some b => b01 (decide (Coded b))
    | none => "bad-arg"
  | "selmtf" => some <| match args with
    | [s] => (match parseList s with
      | some l => showList (selectorMtfOf l)
      | none => "bad-arg")
    | _ => "bad-arg"
  | "txparse" => some <| match args with
    | [lv, h] => (match lv.toNat?, hexDecode h with
      | some lv, some d => doParse lv d
      | _, _ => "bad-arg")
    | _ => "bad-arg"
  | _ => none

end Driver.CmdTransmit
