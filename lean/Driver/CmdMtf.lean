/-
  Driver commands of work package W10 (MTF / zero-run stage; C01, C05, C08).

    domtf <used hex> <block hex>        -> ok <syms> <freq> | ub
        Model.MtfEnc: make_map_e on the set + do_mtf.  <syms>, <freq>: comma lists.
    specmtf <used hex> <block hex>      -> ok <syms> <freq>
        Spec.Mtf.mtfRle2 / symFreq.
    unmtf <used hex> <syms> <limit>     -> ok <hex> <ftab> | err overflow | err unterm | ub
        Model.MtfDec.retrieveSyms (sliding lists + run accumulation).
        <ftab>: `byte:count` for non-zero entries, comma separated ('-' if none).
    specunmtf <used hex> <syms> <limit> -> ok <hex> <ftab> | err
        Spec.Mtf.unMtfRle2.
    mtfone <init hex | -> <indices>     -> <bytes hex> <row0> <list hex> | abort | ub
        Model.MtfDec.mtfOne iterated from a slide holding the 256 given bytes
        ('-' = identity); replies the returned bytes, the final offset of
        row 0 and the final logical list.
    specmtfone <init hex | -> <indices> -> <bytes hex> <list hex> | err
        list move-to-front (Spec.Mtf.moveToFront).
    mtfconsts                           -> ROW_WIDTH SLIDE_LENGTH NUM_ROWS CMAP_BASE MAX_BLOCK_SIZE
-/
import LbzVerif.Spec.Mtf
import LbzVerif.Model.MtfEnc
import LbzVerif.Model.MtfDec

namespace Driver.CmdMtf

open LbzVerif

def hexVal (c : Char) : Option Nat :=
  if '0' ≤ c ∧ c ≤ '9' then some (c.toNat - '0'.toNat)
  else if 'a' ≤ c ∧ c ≤ 'f' then some (c.toNat - 'a'.toNat + 10)
  else none

def parseHexGo : List Char → List UInt8 → Option (List UInt8)
  | [], acc => some acc.reverse
  | [_], _ => none
  | a :: b :: rest, acc =>
    match hexVal a, hexVal b with
    | some x, some y => parseHexGo rest (UInt8.ofNat (x * 16 + y) :: acc)
    | _, _ => none

def parseHex (s : String) : Option (List UInt8) :=
  if s = "-" then some [] else parseHexGo s.toList []

def hexChar (n : Nat) : Char :=
  if n < 10 then Char.ofNat (48 + n) else Char.ofNat (87 + n)

def toHexGo : List UInt8 → List Char → List Char
  | [], acc => acc.reverse
  | b :: bs, acc => toHexGo bs (hexChar (b.toNat % 16) :: hexChar (b.toNat / 16) :: acc)

def toHex (bs : List UInt8) : String :=
  if bs.isEmpty then "-" else String.ofList (toHexGo bs [])

def parseNats (s : String) : Option (List Nat) :=
  if s = "-" then some [] else (s.splitOn ",").mapM (fun t => t.toNat?)

def showNats (l : List Nat) : String :=
  if l.isEmpty then "-" else ",".intercalate (l.map toString)

def showFtabGo : List Nat → Nat → List String → List String
  | [], _, acc => acc.reverse
  | c :: cs, i, acc => showFtabGo cs (i + 1) (if c = 0 then acc else s!"{i}:{c}" :: acc)

def showFtab (f : List Nat) : String :=
  let l := showFtabGo f 0 []
  if l.isEmpty then "-" else ",".intercalate l

def identity256 : List UInt8 := (List.range 256).map UInt8.ofNat

def runMtfOne : Model.MtfDec.Slide → List Nat → List UInt8 → Option (List UInt8 × Model.MtfDec.Slide) ⊕ Unit
  | s, [], acc => .inl (some (acc.reverse, s))
  | s, c :: cs, acc =>
    if c = 0 then .inr ()
    else match Model.MtfDec.mtfOne s (UInt8.ofNat c) with
      | none => .inl none
      | some (b, s') => runMtfOne s' cs (b :: acc)

def specMtfOne : List UInt8 → List Nat → List UInt8 → Option (List UInt8 × List UInt8)
  | l, [], acc => some (acc.reverse, l)
  | l, c :: cs, acc =>
    match l[c]? with
    | none => none
    | some b => specMtfOne (Spec.Mtf.moveToFront l c) cs (b :: acc)

def handle (cmd : String) (args : List String) : Option String :=
  match cmd, args with
  | "mtfconsts", [] =>
    some s!"{Gen.ROW_WIDTH} {Gen.SLIDE_LENGTH} {Model.MtfDec.NUM_ROWS} {Model.MtfDec.CMAP_BASE} {Gen.MAX_BLOCK_SIZE}"
  | "domtf", [u, b] =>
    some <| match parseHex u, parseHex b with
      | some used, some block =>
        match Model.MtfEnc.doMtfFreq used block with
        | some (syms, freq) => s!"ok {showNats syms} {showNats freq}"
        | none => "ub"
      | _, _ => "bad-args"
  | "specmtf", [u, b] =>
    some <| match parseHex u, parseHex b with
      | some used, some block =>
        let syms := Spec.Mtf.mtfRle2 used block
        s!"ok {showNats syms} {showNats (Spec.Mtf.symFreq (used.length + 1) syms)}"
      | _, _ => "bad-args"
  | "unmtf", [u, s, l] =>
    some <| match parseHex u, parseNats s, l.toNat? with
      | some used, some syms, some limit =>
        match Model.MtfDec.retrieveSyms (Model.MtfEnc.inuseOf used) syms limit with
        | .ok out ftab => s!"ok {toHex out} {showFtab ftab}"
        | .overflow => "err overflow"
        | .unterm => "err unterm"
        | .ub => "ub"
      | _, _, _ => "bad-args"
  | "specunmtf", [u, s, l] =>
    some <| match parseHex u, parseNats s, l.toNat? with
      | some used, some syms, some limit =>
        match Spec.Mtf.unMtfRle2 used syms limit with
        | some out => s!"ok {toHex out} {showFtab (Spec.Mtf.byteFreq out)}"
        | none => "err"
      | _, _, _ => "bad-args"
  | "mtfone", [i, c] =>
    some <| match parseHex i, parseNats c with
      | some init, some idx =>
        let init := if init.isEmpty then identity256 else init
        if init.length ≠ 256 ∨ idx.any (· ≥ 256) then "bad-args"
        else match runMtfOne (Model.MtfDec.slideOf init) idx [] with
          | .inr () => "abort"
          | .inl none => "ub"
          | .inl (some (bs, s)) =>
            s!"{toHex bs} {s.row.getD 0 0} {toHex (Model.MtfDec.abs s)}"
      | _, _ => "bad-args"
  | "specmtfone", [i, c] =>
    some <| match parseHex i, parseNats c with
      | some init, some idx =>
        let init := if init.isEmpty then identity256 else init
        match specMtfOne init idx [] with
        | some (bs, l) => s!"{toHex bs} {toHex l}"
        | none => "err"
      | _, _ => "bad-args"
  | _, _ => none

end Driver.CmdMtf
