import LbzVerif
def main : IO Unit := IO.println "lbzdrv"
