/-
  Driver.CmdSpec — line-protocol access to the strict bzip2 oracle
  (LbzVerif.Spec.Bzip2).

  Pure commands (`handle`):
    decode <hex>            -> ok <hex> | err <reason>
    decodesum <hex>         -> ok <size> <crc32> | err <reason>     (large outputs)
    inspect <hex>           -> ok <json> | err <reason>
    crc32 <hex>             -> <decimal>
    combine <cc> <c>        -> <decimal>
    kraft <l,l,…>           -> complete | incomplete | oversubscribed
    unrle1 <hex>            -> ok <hex> | err <reason>
    derand <hex>            -> <hex>
    ibwt <origPtr> <hex>    -> ok <hex> | err bad-origptr
    unmtfrle2 <usedhex> <cap> <s,s,…>   -> ok <hex> | err <reason>
    randtab                 -> the 512 entries of the randomisation table, comma separated
    crctab                  -> the 256 entries of the CRC table, comma separated
  File commands (`handleIO`, need IO; NOT reachable through `handle`):
    decodef <path>          -> as decode
    decodesumf <path>       -> as decodesum
    inspectf <path>         -> as inspect
    decodeto <path> <out>   -> ok <size> <crc32> (plaintext written to <out>) | err <reason>

  The JSON of `inspect` has no spaces and is valid JSON:
    {"size":N,"crc":N,"streams":[{"level":N,"start":N,"end":N,"crc":N,"blocks":[
      {"start":N,"end":N,"crc":N,"rand":0,"origPtr":N,"nblock":N,"size":N,
       "alphaSize":N,"nGroups":N,"nSelectors":N,"nSelectorsUsed":N,"nSyms":N,
       "tables":[[…],…],"selectors":[…],"freqs":[[…],…]}]}]}
  `start`/`end` are bit offsets from the start of the file; `nblock` is the
  block size before the final run-length decoding, `size` the plaintext size;
  `freqs[t][s]` = how many times symbol `s` (EOB included) is coded with
  table `t`.
-/
import LbzVerif.Spec.Bzip2

namespace Driver.CmdSpec

open LbzVerif LbzVerif.Basic LbzVerif.Spec.Bzip2

def natList (l : List Nat) : String :=
  "[" ++ ",".intercalate (l.map toString) ++ "]"

def natListList (l : List (List Nat)) : String :=
  "[" ++ ",".intercalate (l.map natList) ++ "]"

def blockJson (r : BlockReport) : String :=
  let b := r.block
  "{\"start\":" ++ toString b.startBit ++
  ",\"end\":" ++ toString b.endBit ++
  ",\"crc\":" ++ toString b.storedCrc ++
  ",\"rand\":" ++ (if b.rand then "1" else "0") ++
  ",\"origPtr\":" ++ toString b.origPtr ++
  ",\"nblock\":" ++ toString r.nblock ++
  ",\"size\":" ++ toString r.size ++
  ",\"alphaSize\":" ++ toString b.alphaSize ++
  ",\"nGroups\":" ++ toString b.nGroups ++
  ",\"nSelectors\":" ++ toString b.selectors.length ++
  ",\"nSelectorsUsed\":" ++ toString b.nSelectorsUsed ++
  ",\"nSyms\":" ++ toString b.nSyms ++
  ",\"tables\":" ++ natListList b.tables ++
  ",\"selectors\":" ++ natList b.selectors ++
  ",\"freqs\":" ++ natListList r.freqs ++ "}"

def streamJson (s : StreamReport) : String :=
  "{\"level\":" ++ toString s.level ++
  ",\"start\":" ++ toString s.startBit ++
  ",\"end\":" ++ toString s.endBit ++
  ",\"crc\":" ++ toString s.storedCrc ++
  ",\"blocks\":[" ++ ",".intercalate (s.blocks.map blockJson) ++ "]}"

def reportJson (r : Report) : String :=
  "{\"size\":" ++ toString r.size ++
  ",\"crc\":" ++ toString r.crc ++
  ",\"streams\":[" ++ ",".intercalate (r.streams.map streamJson) ++ "]}"

def parseNatList (s : String) : Option (List Nat) :=
  if s == "-" then some [] else (s.splitOn ",").mapM String.toNat?

def errStr (e : Reject) : String := "err " ++ e.name

def doDecode (data : List UInt8) : String :=
  match decodeFile data with
  | .ok out => "ok " ++ hexEncode out
  | .error e => errStr e

def doDecodeSum (data : List UInt8) : String :=
  match decodeFileArr data with
  | .ok out => "ok " ++ toString out.size ++ " " ++ toString (crc32Arr out).toNat
  | .error e => errStr e

def doInspect (data : List UInt8) : String :=
  match inspect data with
  | .ok r => "ok " ++ reportJson r
  | .error e => errStr e

def handle (cmd : String) (args : List String) : Option String :=
  match cmd, args with
  | "decode", [h] => some (match hexDecode h with | some d => doDecode d | none => "bad-arg")
  | "decodesum", [h] => some (match hexDecode h with | some d => doDecodeSum d | none => "bad-arg")
  | "inspect", [h] => some (match hexDecode h with | some d => doInspect d | none => "bad-arg")
  | "crc32", [h] =>
    some (match hexDecode h with | some d => toString (crc32 d).toNat | none => "bad-arg")
  | "combine", [a, b] =>
    some (match a.toNat?, b.toNat? with
      | some a, some b => toString (combine (UInt32.ofNat a) (UInt32.ofNat b)).toNat
      | _, _ => "bad-arg")
  | "kraft", [l] =>
    some (match parseNatList l with
      | some lens =>
        let s := kraftSum lens
        if s == 2 ^ maxLen then "complete" else if s < 2 ^ maxLen then "incomplete"
        else "oversubscribed"
      | none => "bad-arg")
  | "unrle1", [h] =>
    some (match hexDecode h with
      | some d =>
        (match unRle1 d.toArray with
         | .ok o => "ok " ++ hexEncode o.toList
         | .error e => errStr e)
      | none => "bad-arg")
  | "derand", [h] =>
    some (match hexDecode h with
      | some d => hexEncode (derand d.toArray).toList
      | none => "bad-arg")
  | "ibwt", [p, h] =>
    some (match p.toNat?, hexDecode h with
      | some p, some d =>
        (match ibwt d.toArray p with
         | some o => "ok " ++ hexEncode o.toList
         | none => "err bad-origptr")
      | _, _ => "bad-arg")
  | "unmtfrle2", [u, cap, s] =>
    some (match hexDecode u, cap.toNat?, parseNatList s with
      | some u, some cap, some s =>
        (match unMtfRle2 u cap s with
         | .ok o => "ok " ++ hexEncode o.toList
         | .error e => errStr e)
      | _, _, _ => "bad-arg")
  | "randtab", [] => some (",".intercalate (randTab.toList.map toString))
  | "crctab", [] => some (",".intercalate (Gen.crcTable.toList.map fun x => toString x.toNat))
  | _, _ => none

/-- File variants; `none` for commands it does not know. -/
def handleIO (cmd : String) (args : List String) : IO (Option String) := do
  match cmd, args with
  | "decodef", [p] =>
    try
      let d ← IO.FS.readBinFile p
      return some (doDecode d.toList)
    catch _ => return some "io-error"
  | "decodesumf", [p] =>
    try
      let d ← IO.FS.readBinFile p
      return some (doDecodeSum d.toList)
    catch _ => return some "io-error"
  | "inspectf", [p] =>
    try
      let d ← IO.FS.readBinFile p
      return some (doInspect d.toList)
    catch _ => return some "io-error"
  | "decodeto", [p, o] =>
    try
      let d ← IO.FS.readBinFile p
      match decodeFile d.toList with
      | .ok out =>
        IO.FS.writeBinFile o (ByteArray.mk out.toArray)
        return some ("ok " ++ toString out.length ++ " " ++ toString (crc32 out).toNat)
      | .error e => return some (errStr e)
    catch _ => return some "io-error"
  | _, _ => return none

end Driver.CmdSpec
