/-
  Driver commands of work package W12 (delta reader, decode(), emit()).

    delta  <alpha_size> <bits 0/1>   -> ok <lens,> <bits consumed> | err | eof
    deltaw <alpha_size> <bits 0/1>   -> same (the C side feeds word by word)
    deltaref <alpha_size> <bits>     -> same, from Spec.Delta (err = rejected)
    decodeblk <rand> <bwt_idx> <hex> -> hex of the node bytes in traversal order
    ibwtref <rand> <bwt_idx> <hex>   -> Spec.Ibwt.ibwt (+ Spec derand) as hex
    emit <rand> <bwt_idx> <hex> <sizes,>
         -> <STATUS>:<hex>:<left>[:s<rle_state> after MORE];...  <crc hex8 | ->
    emitseq <hex nodes> <sizes,>     -> same, nodes given directly
    unrle <hex>                      -> ok:<hex> | err      (Spec.UnRle1)
-/
import LbzVerif.Spec.Delta
import LbzVerif.Model.Delta
import LbzVerif.Model.Ibwt
import LbzVerif.Model.Emit

namespace Driver.CmdEmit

open LbzVerif

def hexDigit (n : Nat) : Char := "0123456789abcdef".toList.getD n '0'

def hexOfBytes (bs : List UInt8) : String :=
  if bs.isEmpty then "-"
  else String.ofList (bs.flatMap (fun b => [hexDigit (b.toNat / 16), hexDigit (b.toNat % 16)]))

def hexVal (c : Char) : Option Nat :=
  if '0' ≤ c ∧ c ≤ '9' then some (c.toNat - '0'.toNat)
  else if 'a' ≤ c ∧ c ≤ 'f' then some (c.toNat - 'a'.toNat + 10)
  else none

def bytesOfHexAux : List Char → Option (List UInt8)
  | [] => some []
  | [_] => none
  | a :: b :: r =>
    match hexVal a, hexVal b, bytesOfHexAux r with
    | some x, some y, some t => some (UInt8.ofNat (16 * x + y) :: t)
    | _, _, _ => none

def bytesOfHex (s : String) : Option (List UInt8) :=
  if s = "-" then some [] else bytesOfHexAux s.toList

def bitsOf (s : String) : Option (List Bool) :=
  if s = "-" then some []
  else s.toList.mapM (fun c => if c = '0' then some false else if c = '1' then some true else none)

def natList (s : String) : Option (List Nat) :=
  if s = "-" then some [] else (s.splitOn ",").mapM String.toNat?

def joinNats (l : List Nat) : String :=
  if l.isEmpty then "-" else ",".intercalate (l.map toString)

def hex8 (v : UInt32) : String :=
  String.ofList ((List.range 8).map (fun i => hexDigit ((v.toNat >>> (4 * (7 - i))) % 16)))

def statusName : Model.Emit.Status → String
  | .ok => "OK"
  | .more => "MORE"
  | .errRunlen => "ERR_RUNLEN"
  | .abort => "ABORT"

/-- Replies of a run; `left` of every call is recomputed by replaying. -/
def runReply (st : Model.Emit.St) (sizes : List Nat) : String :=
  let rec go (st : Model.Emit.St) : List Nat → List String × Option UInt32
    | [] => ([], none)
    | sz :: rest =>
      let r := Model.Emit.emit st sz
      let item := s!"{statusName r.status}:{hexOfBytes r.out}:{r.left}" ++
        (if r.status = .more then s!":s{r.st.state}" else "")
      if r.status = .more then
        let (l, c) := go r.st rest
        (item :: l, c)
      else ([item], if r.status = .ok then some r.crc else none)
  let (items, crc) := go st sizes
  let body := if items.isEmpty then "-" else ";".intercalate items
  body ++ " " ++ (match crc with | some c => hex8 c | none => "-")

def handle (cmd : String) (args : List String) : Option String :=
  match cmd, args with
  | "delta", [n, b] | "deltaw", [n, b] =>
    some <| match n.toNat?, bitsOf b with
    | some n, some bits =>
      match Model.Delta.table n bits with
      | .ok lens rest => s!"ok {joinNats lens} {bits.length - rest.length}"
      | .errDelta => "err"
      | .errEof => "eof"
    | _, _ => "bad-args"
  | "deltaref", [n, b] =>
    some <| match n.toNat?, bitsOf b with
    | some n, some bits =>
      match Spec.Delta.table n bits with
      | some (lens, rest) => s!"ok {joinNats lens} {bits.length - rest.length}"
      | none => "err"
    | _, _ => "bad-args"
  | "decodeblk", [r, i, h] =>
    some <| match r.toNat?, i.toNat?, bytesOfHex h with
    | some r, some i, some bs => hexOfBytes (Model.Ibwt.nodes (r != 0) i bs)
    | _, _, _ => "bad-args"
  | "ibwtref", [r, i, h] =>
    some <| match r.toNat?, i.toNat?, bytesOfHex h with
    | some r, some i, some bs =>
      let t := Spec.Ibwt.ibwt bs i
      hexOfBytes (if r != 0 then Spec.Ibwt.derand Gen.randTable t else t)
    | _, _, _ => "bad-args"
  | "emit", [r, i, h, sz] =>
    some <| match r.toNat?, i.toNat?, bytesOfHex h, natList sz with
    | some r, some i, some bs, some sizes =>
      runReply (Model.Emit.St.init (Model.Ibwt.nodes (r != 0) i bs)) sizes
    | _, _, _, _ => "bad-args"
  | "emitseq", [h, sz] =>
    some <| match bytesOfHex h, natList sz with
    | some bs, some sizes => runReply (Model.Emit.St.init bs) sizes
    | _, _ => "bad-args"
  | "unrle", [h] =>
    some <| match bytesOfHex h with
    | some bs =>
      match Spec.UnRle1.unRle1 bs with
      | some o => "ok:" ++ hexOfBytes o
      | none => "err"
    | none => "bad-args"
  | _, _ => none

end Driver.CmdEmit
