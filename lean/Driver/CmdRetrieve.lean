/-
  Driver commands of work package W15 (whole block retriever; C09, C05, C06, C08).

    retrieve <live> <buff hex16> <eof 0|1> <segment sizes> <hex of the words>
    retrieveslow …same…
        Model.Retrieve.retrieve / retrieveSlow called once per segment
        (sizes in 32-bit words, comma list, '-' = no call at all is not
        allowed: at least one segment); all calls but the last have
        `eof = 0`, the last has the given flag; calling stops at the first
        status other than MORE.  The bit buffer starts with `live` bits
        (`buff` = the 64-bit buffer, left-justified).  Reply (same text as
        harness/h_retrieve.c):
          calls=<n> more=<state/live/block_size,…|-> status=<code>
          [ words=<consumed> live=<n> buff=<hex16> bs=<block_size> tt=<hex> ]   OK, MORE, ERR_EOF
          [ idx=<bwt_idx> rand=<0|1> fh=<Σ (i+1)·ftab[i] mod 2^32> ]            OK only
        status: value of `enum error`; 1000 ub, 1001 overread, 1002 assert.
    specretr <live> <buff hex16> <hex of the words>
        The strict reference on the same bits: Spec.Bzip2.parseBlock (on 32
        zero bits standing for the block CRC followed by the bits), then
        unMtfRle2 with capacity 900000, the empty-block and origPtr tests.
          ok end=<bits consumed> bs=<n> idx=<origPtr> rand=<0|1> tt=<hex> | err <reason>
-/
import LbzVerif.Model.Retrieve
import LbzVerif.Spec.Bzip2

namespace Driver.CmdRetrieve

open LbzVerif
open LbzVerif.Model.Retrieve

def parseNats (s : String) : Option (List Nat) :=
  if s = "-" then some [] else (s.splitOn ",").mapM (fun t => t.toNat?)

def wordsOf : List UInt8 → List Nat → Option (List Nat)
  | [], acc => some acc.reverse
  | a :: b :: c :: d :: rest, acc =>
    wordsOf rest ((a.toNat <<< 24 ||| b.toNat <<< 16 ||| c.toNat <<< 8 ||| d.toNat) :: acc)
  | _, _ => none

def hexNat (s : String) : Option Nat :=
  s.toList.foldl (fun acc c => match acc, Basic.hexVal c with
    | some a, some d => some (16 * a + d)
    | _, _ => none) (some 0)

def hex16 (v : Nat) : String :=
  String.ofList ((List.range 16).map fun i => Basic.hexDigit ((v >>> (4 * (15 - i))) % 16))

def splitSegs : List Nat → List Nat → Option (List (List Nat))
  | [], [] => some []
  | [], _ :: _ => none
  | n :: ns, ws =>
    if ws.length < n then none
    else (splitSegs ns (ws.drop n)).map (ws.take n :: ·)

def ftabHash (ftab : List Nat) : Nat :=
  (ftab.zipIdx.foldl (fun acc (p : Nat × Nat) => acc + (p.2 + 1) * p.1) 0) % 2 ^ 32

def showMore (l : List String) : String := if l.isEmpty then "-" else ",".intercalate l

/-- The calling loop of the harness. -/
def feed (fast : Bool) (eofLast : Bool) : St → List (List Nat) → (calls offered : Nat) →
    List String → String
  | _, [], _, _, _ => "bad-args"
  | st, s :: segs, calls, offered, mores =>
    let last := segs.isEmpty
    let r := retrieveWith fast st s (last && eofLast)
    let calls := calls + 1
    let offered := offered + s.length
    let goOn := r.status == .more && !last
    if goOn then
      feed fast eofLast r.st segs calls offered
        (s!"{r.st.pc.toNat}/{r.st.w}/{r.st.run.n}" :: mores)
    else
      let mores := if r.status == .more
        then s!"{r.st.pc.toNat}/{r.st.w}/{r.st.run.n}" :: mores else mores
      let head := s!"calls={calls} more={showMore mores.reverse} status={r.status.code}"
      let pos := s!" words={offered - r.rest.length} live={r.st.w} buff={hex16 r.st.v} bs={r.st.run.n} tt={Basic.hexEncode r.st.run.out.reverse}"
      match r.status with
      | .ok => head ++ pos ++ s!" idx={r.st.bwtIdx} rand={r.st.rand} fh={ftabHash r.st.run.ftab}"
      | .more => head ++ pos
      | .err c => if c = Gen.ERR_EOF then head ++ pos else head
      | _ => head

def cmdRetrieve (fast : Bool) (args : List String) : String :=
  match args with
  | [live, buff, eof, sizes, hex] =>
    match live.toNat?, hexNat buff, parseNats sizes, Basic.hexDecode hex with
    | some w, some v, some ns, some bytes =>
      match wordsOf bytes [] with
      | none => "bad-args"
      | some ws =>
        match splitSegs ns ws with
        | none => "bad-args"
        | some segs => feed fast (eof == "1") (St.start v w) segs 0 0 []
    | _, _, _, _ => "bad-args"
  | _ => "bad-args"

open Spec.Bzip2 in
def cmdSpec (args : List String) : String :=
  match args with
  | [live, buff, hex] =>
    match live.toNat?, hexNat buff, Basic.hexDecode hex with
    | some w, some v, some bytes =>
      let bits : Basic.Bits := Basic.natToBits w (v >>> (64 - w)) ++ Basic.bytesToBits bytes
      match parseBlock 9 0 (List.replicate 32 false ++ bits) with
      | .error e => "err " ++ e.name
      | .ok (b, rest) =>
        match unMtfRle2 b.used (blockCap 9) b.syms.toList with
        | .error e => "err " ++ e.name
        | .ok tt =>
          if tt.size = 0 then "err " ++ Reject.emptyBlock.name
          else if b.origPtr ≥ tt.size then "err " ++ Reject.badOrigPtr.name
          else s!"ok end={bits.length - rest.length} bs={tt.size} idx={b.origPtr} rand={if b.rand then 1 else 0} tt={Basic.hexEncode tt.toList}"
    | _, _, _ => "bad-args"
  | _ => "bad-args"

def handle (cmd : String) (args : List String) : Option String :=
  match cmd with
  | "retrieve" => some (cmdRetrieve true args)
  | "retrieveslow" => some (cmdRetrieve false args)
  | "specretr" => some (cmdSpec args)
  | _ => none

end Driver.CmdRetrieve
