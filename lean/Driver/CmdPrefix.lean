/-
  Driver commands of work package W11 (prefix codes).

    canon <lens>                 -> Spec canonical codes, comma list
    assigncodes <lens>           -> Model.Canon.assignCodes (tail of assign_codes)
    kraft <lens>                 -> Σ 2^(20-ℓ)
    optll <freqs> <L>            -> minimum cost | none
    tableopt <freqs> <lens>      -> ok | cheaper <cost> <optcost> | toolong <max> | nocode
    maketree <lens>              -> ok | incomplete | oversubscribed
    lookup <lens> <v: 16 hex,…>  -> per window "<internal symbol> <length>" | oob, comma separated; or <verdict>
    tables <lens>                -> base[1..21] (hex) ; count[0..20] ; perm ; start   | <verdict>
    decode <lens> <v: 16 hex,…>  -> Spec.decodeSym on the 64 bits of each v: "<symbol index> <length>" | none
    dummy <as>                   -> <cl0> <lens of the dummy table as encode.c builds it>
-/
import LbzVerif.Spec.Prefix
import LbzVerif.Model.Canon

namespace Driver.CmdPrefix
open LbzVerif

def parseList (s : String) : Option (List Nat) :=
  if s == "-" then some [] else (s.splitOn ",").mapM String.toNat?

def showList (l : List Nat) : String :=
  if l.isEmpty then "-" else ",".intercalate (l.map toString)

def hexVal (c : Char) : Option Nat :=
  if '0' ≤ c && c ≤ '9' then some (c.toNat - '0'.toNat)
  else if 'a' ≤ c && c ≤ 'f' then some (c.toNat - 'a'.toNat + 10)
  else none

def parseHex (s : String) : Option Nat :=
  s.toList.foldlM (fun acc c => (hexVal c).map (fun d => acc * 16 + d)) 0

def hexDigit (d : Nat) : Char :=
  if d < 10 then Char.ofNat ('0'.toNat + d) else Char.ofNat ('a'.toNat + d - 10)

def toHex16 (v : Nat) : String :=
  String.ofList ((List.range 16).map (fun i => hexDigit ((v >>> (4 * (15 - i))) % 16)))

def verdictName : Model.Canon.Verdict → String
  | .ok => "ok" | .incomplete => "incomplete" | .oversubscribed => "oversubscribed"

def dummyLens (as : Nat) : Nat × List Nat := (Gen.cl0 as, Model.Canon.dummyLens as)

def handle (cmd : String) (args : List String) : Option String :=
  match cmd, args with
  | "canon", [l] => some <| match parseList l with
    | some lens => showList ((List.range lens.length).map (Spec.Prefix.canonCode lens))
    | none => "bad-arg"
  | "assigncodes", [l] => some <| match parseList l with
    | some lens => showList (Model.Canon.assignCodes lens)
    | none => "bad-arg"
  | "kraft", [l] => some <| match parseList l with
    | some lens => toString (Spec.Prefix.kraft20 lens)
    | none => "bad-arg"
  | "optll", [f, L] => some <| match parseList f, L.toNat? with
    | some fs, some L => match Spec.Prefix.optLL fs L with
      | some c => toString c
      | none => "none"
    | _, _ => "bad-arg"
  | "tableopt", [f, l] => some <| match parseList f, parseList l with
    | some fs, some lens =>
      if fs.length != lens.length then "bad-arg" else
      let M := Spec.Prefix.maxLen lens
      if M > 20 then s!"toolong {M}" else
      match Spec.Prefix.optLL fs M with
      | none => "nocode"
      | some c =>
        let mine := Spec.Prefix.cost fs lens
        if Spec.Prefix.tableOptimal fs lens then "ok" else s!"cheaper {mine} {c}"
    | _, _ => "bad-arg"
  | "maketree", [l] => some <| match parseList l with
    | some lens => verdictName (Model.Canon.verdict lens)
    | none => "bad-arg"
  | "lookup", [l, v] => some <| match parseList l, (v.splitOn ",").mapM parseHex with
    | some lens, some vs =>
      match Model.Canon.makeTree lens with
      | (_, some t) => ",".intercalate (vs.map (fun v => match Model.Canon.lookup t v with
        | some (s, k) => s!"{s} {k}"
        | none => "oob"))
      | (vd, none) => verdictName vd
    | _, _ => "bad-arg"
  | "tables", [l] => some <| match parseList l with
    | some lens =>
      match Model.Canon.makeTree lens with
      | (_, some t) =>
        ",".intercalate ((t.base.drop 1).map toHex16) ++ " ; " ++ showList t.count ++ " ; "
          ++ showList t.perm ++ " ; " ++ showList t.start
      | (vd, none) => verdictName vd
    | none => "bad-arg"
  | "decode", [l, v] => some <| match parseList l, (v.splitOn ",").mapM parseHex with
    | some lens, some vs =>
      ",".intercalate (vs.map (fun v =>
        match Spec.Prefix.decodeSym lens (Spec.Prefix.bitsMSB 64 v) with
        | some (i, rest) => s!"{i} {64 - rest.length}"
        | none => "none"))
    | _, _ => "bad-arg"
  | "dummy", [a] => some <| match a.toNat? with
    | some as => let (c, ls) := dummyLens as; s!"{c} {showList ls}"
    | none => "bad-arg"
  | _, _ => none

end Driver.CmdPrefix
