/-
  Driver commands of work package W4 (compression scheduler; C03 C11 C13 C18).

    schedc-bfs <n> <ultra 0/1> <granul> <bytes> [<total_in> <total_out> [<limit> [<spurious 0/1>]]]
        -> <states> <transitions> <stuck> <cap-viol> <cons-viol> <order-viol>
           <wake-viol> <finals> <final-viol> <max coll> <max trans> <max reord>
           <max outq> <truncated 0/1> <witness>
       Breadth-first exploration of `Model.SchedC.step` (generated guards) from
       `init`, worker symmetry reduced.  `bytes` is a digit string, one input
       byte per digit, interpreted by the marker codec: `1` ends the current
       block after it, `2` ends a non-empty pending block before it (block
       "has no room": consumed 0), anything else is payload.  `granul` = chunk
       size.  Slot totals default to the generated `memCompress n`.  `witness`
       = `-` or the label path to the first stuck / violating state.

    schedc-cfg <n> <bs100k> <ultra 0/1>
        -> <total_in_slots> <total_out_slots> <in_granul> <TRANSM_THRESH>   (generated values)

    schedc-canon <ultra 0/1> <granul> <bytes>
        -> the canonical block list `major.minor>major.minor:<bytes>;…`

    schedc-accept <n> <ultra 0/1> <total_in> <total_out> <granul> <bytes> <reader tid> <writer tid> <event;event;…>
        -> ok <lines> blocks=<k> spurious=<j> | reject <line no> <reason>
       Replays a LBZIP2_VERIF_TRACE through `Model.SchedC.step` (see "trace
       acceptance" below).  `granul`/`bytes` = synthetic input with the chunk /
       block shape of the traced run (marker codec).  Each event is
       `<K>,<t>,<task>,<wu>,<os>,<eof>,<ct>,<uw>,<coll>,<trans>,<reord>,<omaj>,<omin>,<next>`.
-/
import LbzVerif.Model.SchedC
import Std.Data.HashMap

namespace Driver.CmdSchedC

open LbzVerif LbzVerif.Gen LbzVerif.Model.SchedC

/-! ### marker codec -/

def mcollect : List Nat → List Nat → Nat → List Nat × Nat × Bool
  | st, [], k => (st, k, false)
  | st, b :: r, k =>
    if b = 2 ∧ st ≠ [] then (st, k, true)
    else if b = 1 then (st ++ [b], k + 1, true)
    else mcollect (st ++ [b]) r (k + 1)

def markerCodec : Codec Nat (List Nat) :=
  { init := [], collect := fun st bytes => mcollect st bytes 0 }

abbrev St := State Nat (List Nat)

def parseDigits (s : String) : Option (List Nat) :=
  if s = "-" then some []
  else s.toList.mapM (fun c => if '0' ≤ c ∧ c ≤ '9' then some (c.toNat - '0'.toNat) else none)

def showDigits (l : List Nat) : String :=
  if l.isEmpty then "-" else String.ofList (l.map (fun d => Char.ofNat (d % 10 + '0'.toNat)))

def showPos (p : Pos) : String := s!"{p.major}.{p.minor}"

def showBlocks (l : List (WBlk (List Nat))) : String :=
  if l.isEmpty then "-"
  else ";".intercalate (l.map fun w => s!"{showPos w.pos}>{showPos w.next}:{showDigits w.enc}")

/-! ### exploration -/

def showLabel : Label → String
  | .rTake => "rTake"
  | .rDeliver k => s!"rDeliver.{k}"
  | .rEmpty => "rEmpty"
  | .rEof k => s!"rEof.{k}"
  | .wTake => "wTake"
  | .wDone k => s!"wDone.{k}"
  | .acquire i => s!"acquire.{i}"
  | .run i k => s!"run.{i}.{k}"
  | .cont i k => s!"cont.{i}.{k}"
  | .spurious i => s!"spurious.{i}"

def labels (n : Nat) (spur : Bool) : List Label :=
  let is := List.range n
  [.rTake, .rEmpty, .wTake]
    ++ is.flatMap (fun k => [Label.rDeliver k, .rEof k, .wDone k])
    ++ is.map Label.acquire
    ++ is.flatMap (fun i => is.flatMap fun k => [Label.run i k, .cont i k])
    ++ (if spur then is.map Label.spurious else [])

/-- worker symmetry: sort the worker list (by hash) -/
def canonSt (s : St) : St :=
  { s with ws := s.ws.mergeSort (fun a b => hash a ≤ hash b) }

def capOK (c : Cfg) (s : St) : Bool :=
  s.collQ.length ≤ c.caps.1 && s.transQ.length ≤ c.caps.2.1 && s.reordQ.length ≤ c.caps.2.2
    && s.outputQ.length ≤ c.totalOut

def consOK (c : Cfg) (s : St) : Bool :=
  s.workUnits + unitHolders s == c.n && s.outSlots + slotHolders s == c.totalOut
    && s.inSlots + chunkHolders s == c.totalIn

def orderOK (s : St) : Bool :=
  chainB ⟨0, 0⟩ s.handed s.order && s.handed == s.written ++ s.wr.toList ++ s.outputQ

def wakeOK (c : Cfg) (s : St) : Bool :=
  -- when the mutex is free, next_task = select_task(state)
  !lockFree s || s.nextTask == selectTask (view c s)

def finalOK (c : Cfg) (input : List Nat) (s : St) : Bool :=
  let cn := canon c markerCodec input
  s.handed == cn && s.written == cn && s.collectToken && s.unfinished.isNone
    && s.collQ.isEmpty && s.transQ.isEmpty && s.reordQ.isEmpty
    && s.workUnits == c.n && s.outSlots == c.totalOut && s.inSlots == c.totalIn
    && s.eof && finished c s && s.input.isEmpty

instance : Inhabited St := ⟨init { n := 0, ultra := false, totalIn := 0, totalOut := 0, inGranul := 0 } []⟩
instance : Inhabited Label := ⟨.rTake⟩

structure Res where
  states : Nat := 0
  trans : Nat := 0
  stuck : Nat := 0
  cap : Nat := 0
  cons : Nat := 0
  order : Nat := 0
  wake : Nat := 0
  finals : Nat := 0
  finalViol : Nat := 0
  mc : Nat := 0
  mt : Nat := 0
  mr : Nat := 0
  mo : Nat := 0
  trunc : Bool := false
  bad : Option Nat := none

def bfs (c : Cfg) (input : List Nat) (limit : Nat) (spur : Bool) (sym : Bool := true)
    (target : St → Bool := fun _ => false) : Res × Array (St × Nat × Label) :=
  Id.run do
    let canonSt : St → St := if sym then canonSt else id
    let s0 : St := canonSt (init c input)
    let mut arr : Array (St × Nat × Label) := #[(s0, 0, .rTake)]
    let mut seen : Std.HashMap St Nat := (∅ : Std.HashMap St Nat).insert s0 0
    let mut r : Res := {}
    let ls := labels c.n spur
    let mut ptr := 0
    for _ in [0:limit] do
      if ptr ≥ arr.size then break
      let (s, _, _) := arr[ptr]!
      let mut bad := false
      if !capOK c s then r := { r with cap := r.cap + 1 }; bad := true
      if !consOK c s then r := { r with cons := r.cons + 1 }; bad := true
      if !orderOK s then r := { r with order := r.order + 1 }; bad := true
      if !wakeOK c s then r := { r with wake := r.wake + 1 }; bad := true
      r := { r with mc := max r.mc s.collQ.length, mt := max r.mt s.transQ.length,
                    mr := max r.mr s.reordQ.length, mo := max r.mo s.outputQ.length }
      let mut enabled := 0
      for l in ls do
        match step c markerCodec s l with
        | none => pure ()
        | some s' =>
          r := { r with trans := r.trans + 1 }
          if !l.isSpurious then enabled := enabled + 1
          let s'' := canonSt s'
          if !seen.contains s'' then
            seen := seen.insert s'' arr.size
            arr := arr.push (s'', ptr, l)
      if isFinal s then
        r := { r with finals := r.finals + 1 }
        if !finalOK c input s || enabled != 0 then
          r := { r with finalViol := r.finalViol + 1 }; bad := true
      else if enabled == 0 then
        r := { r with stuck := r.stuck + 1 }; bad := true
      if (bad || target s) && r.bad.isNone then r := { r with bad := some ptr }
      ptr := ptr + 1
    r := { r with states := arr.size, trunc := ptr < arr.size }
    return (r, arr)

def pathTo (arr : Array (St × Nat × Label)) (i : Nat) : List Label :=
  let rec go (fuel i : Nat) (acc : List Label) : List Label :=
    match fuel with
    | 0 => acc
    | fuel + 1 =>
      if i = 0 then acc
      else
        let (_, p, l) := arr[i]!
        go fuel p (l :: acc)
  go arr.size i []

def b01 (s : String) : Option Bool :=
  if s = "0" then some false else if s = "1" then some true else none

def cmdBfs (args : List String) : Option String := do
  let n ← (← args[0]?).toNat?
  let ultra ← b01 (← args[1]?)
  let g ← (← args[2]?).toNat?
  let input ← parseDigits (← args[3]?)
  let dflt := Cfg.ofGen n 1 ultra
  let tin := ((args[4]?).bind String.toNat?).getD dflt.totalIn
  let tout := ((args[5]?).bind String.toNat?).getD dflt.totalOut
  let limit := ((args[6]?).bind String.toNat?).getD 3000000
  let spur := ((args[7]?).bind b01).getD false
  let c : Cfg := { n := n, ultra := ultra, totalIn := tin, totalOut := tout, inGranul := g }
  let (r, arr) := bfs c input limit spur
  let wit := match r.bad with
    | none => "-"
    | some i => ",".intercalate ((pathTo arr i).map showLabel)
  some s!"{r.states} {r.trans} {r.stuck} {r.cap} {r.cons} {r.order} {r.wake} {r.finals} {r.finalViol} {r.mc} {r.mt} {r.mr} {r.mo} {if r.trunc then 1 else 0} {wit}"

/-- `schedc-path n ultra g bytes final|mid`: shortest label path (no symmetry
    reduction, so it replays on `step`) to a final state / to a state with a
    block handed over, one in `reord_q` and one being encoded. -/
def cmdPath (args : List String) : Option String := do
  let n ← (← args[0]?).toNat?
  let ultra ← b01 (← args[1]?)
  let g ← (← args[2]?).toNat?
  let input ← parseDigits (← args[3]?)
  let kind ← args[4]?
  let d := Cfg.ofGen n 1 ultra
  let c : Cfg := { d with inGranul := g }
  let tgt : St → Bool := fun s =>
    if kind = "final" then isFinal s
    else s.handed.length ≥ 1 && s.reordQ.length ≥ 1 &&
      s.ws.any (fun p => match p with | .c2 _ => true | _ => false)
  let (r, arr) := bfs c input 3000000 false false tgt
  match r.bad with
  | none => some "none"
  | some i => some (",".intercalate ((pathTo arr i).map showLabel))

def cmdCanon (args : List String) : Option String := do
  let ultra ← b01 (← args[0]?)
  let g ← (← args[1]?).toNat?
  let input ← parseDigits (← args[2]?)
  let c : Cfg := { n := 1, ultra := ultra, totalIn := 2, totalOut := 4, inGranul := g }
  some (showBlocks (canon c markerCodec input))


/-! ### trace acceptance

  The trace of the real program (one line per atomic section, written while
  `sched_mutex` is held) is replayed through the REAL transition function
  `Model.SchedC.step` with the marker codec on a synthetic input whose chunk /
  block shape is the one read off the trace (built by `checks/sched_c_lib.py`).
  Lines and labels:
    * `R t X`  : worker `t` is at the loop head with `next_task = X` — before
      it, the silent steps of `t` (`acquire`, or the final section of its
      previous task, or a silent `source_release_buffer`) are applied;
      the line's counters must equal the state, `X` the stored `next_task`;
      `reorder` is executed at once, other tasks when their `U` line arrives;
    * `W t wait|exit` : `next_task = NULL`, `finished()` false|true; `run` applied;
    * `U t …` : worker: `run` (first section) or `cont` (middle section);
      reader: (`rTake`) `rDeliver` / (`rEmpty`) `rEof`; writer: (`wTake`) `wDone`;
      after the step the counters, queue sizes, `order`, `next_id` AND the
      `next_task` chosen by `select_task()` must equal the line.
  Which waiter a `cond_signal` wakes is not in the trace: the waiter that
  acts soonest is chosen (earliest deadline first); a thread that acts while
  the model still has it waiting is replayed with `spurious` and counted.
-/

structure Ev where
  kind : Char
  tid : Nat
  name : String
  wu : Nat
  os : Nat
  eof : Nat
  ct : Nat
  uw : Nat
  coll : Nat
  trans : Nat
  reord : Nat
  omaj : Nat
  omin : Nat
  next : Nat

def parseEv (s : String) : Option Ev := do
  let f := s.splitOn ","
  let k ← (← f[0]?).toList.head?
  let nat (i : Nat) : Option Nat := (f[i]?).bind String.toNat?
  some { kind := k, tid := ← nat 1, name := ← f[2]?, wu := ← nat 3, os := ← nat 4, eof := ← nat 5,
         ct := ← nat 6, uw := ← nat 7, coll := ← nat 8, trans := ← nat 9, reord := ← nat 10,
         omaj := ← nat 11, omin := ← nat 12, next := ← nat 13 }

/-- `next_id` is incremented by the reader OUTSIDE `sched_mutex`
    (`on_input_avail`), so only the reader's own lines show it reliably. -/
def projOK (s : St) (e : Ev) (checkNext : Bool := false) : Bool :=
  s.workUnits == e.wu && s.outSlots == e.os && (if s.eof then 1 else 0) == e.eof
    && (if s.collectToken then 1 else 0) == e.ct && (if s.unfinished.isSome then 1 else 0) == e.uw
    && s.collQ.length == e.coll && s.transQ.length == e.trans && s.reordQ.length == e.reord
    && s.order.major == e.omaj && s.order.minor == e.omin && (!checkNext || s.nextId == e.next)

def taskName (t : Option Task) : String :=
  match t with
  | some t => t.name
  | none => "-"

structure Acc where
  s : St
  tids : List (Nat × Nat) := []      -- (tid, worker index)
  pending : List Nat := []           -- workers whose `R` line was seen, `run` not yet applied
  spur : Nat := 0

def widx (a : Acc) (tid : Nat) : Option Nat := (a.tids.find? (·.1 == tid)).map (·.2)

/-- waiter to wake: the waiting worker whose thread acts soonest -/
def chooseK (a : Acc) (future : List Ev) : Nat :=
  let waiting := (List.range a.s.ws.length).filter fun j =>
    match a.s.ws[j]? with
    | some .waiting => true
    | _ => false
  let deadline (j : Nat) : Nat :=
    match a.tids.find? (·.2 == j) with
    | none => future.length + 1
    | some (tid, _) =>
      (future.findIdx? (fun e => e.tid == tid && (e.kind == 'R' || e.kind == 'W'))).getD future.length
  match waiting with
  | [] => 0
  | j :: js => js.foldl (fun (b x : Nat) => if Nat.blt (deadline x) (deadline b) then x else b) j

def stp (c : Cfg) (a : Acc) (l : Label) : Except String Acc :=
  match step c markerCodec a.s l with
  | some s' => .ok { a with s := s' }
  | none => .error s!"model refuses {showLabel l}"

/-- bring worker `i` to the loop head (silent steps) -/
def toHead (c : Cfg) (a : Acc) (i : Nat) (future : List Ev) : Nat → Except String Acc
  | 0 => .error "worker does not reach the loop head"
  | fuel + 1 =>
    match a.s.ws[i]? with
    | some .atHead => .ok a
    | some .ready => do toHead c (← stp c a (.acquire i)) i future fuel
    | some .waiting => do
      let a ← stp c a (.spurious i)
      toHead c { a with spur := a.spur + 1 } i future fuel
    | some (.s2 _ true) => .error "R/W line while the model is before `collect_token = true; sched_unlock`"
    | some .exited => .error "line from a worker that has exited"
    | some p => do
      let before := a.s.collQ.length
      let a ← stp c a (.cont i (chooseK a future))
      match p with
      | .c1 _ | .s1 _ (some _) =>
        if a.s.collQ.length != before then .error "model re-queues the in_blk but the trace has no U line"
        else toHead c a i future fuel
      | .s1 _ none => .error "R/W line while the model flushes the pending block (U expected)"
      | _ => toHead c a i future fuel
    | none => .error "no such worker"

/-- `source_release_buffer` by workers is silent (source mutex only) and may
    happen long before the worker's next trace line: apply the pending ones. -/
def releaseAll (c : Cfg) (a : Acc) : Acc :=
  (List.range c.n).foldl (fun (a : Acc) (i : Nat) =>
    match a.s.ws[i]? with
    | some (.c1 _) | some (.s1 _ (some _)) =>
      match step c markerCodec a.s (.cont i 0) with
      | some s' => if s'.collQ.length == a.s.collQ.length then { a with s := s' } else a
      | none => a
    | _ => a) a

def acceptEv (c : Cfg) (rdT wrT : Nat) (a : Acc) (e : Ev) (future : List Ev) : Except String Acc := do
  if e.kind == 'U' && e.tid == rdT then
    let a := if a.s.rd == .idle && a.s.inSlots == 0 then releaseAll c a else a
    let a ← if a.s.rd == .idle then stp c a .rTake else pure a
    let a ← if a.s.rd == .hold && a.s.input.isEmpty then stp c a .rEmpty else pure a
    let a ← if a.s.rd == .hold then stp c a (.rDeliver (chooseK a future))
            else stp c a (.rEof (chooseK a future))
    if !projOK a.s e true then throw "reader section: counters differ"
    if taskName a.s.nextTask != e.name then throw s!"next_task: model {taskName a.s.nextTask}"
    return a
  if e.kind == 'U' && e.tid == wrT then
    let a ← if a.s.wr.isNone then stp c a .wTake else pure a
    let a ← stp c a (.wDone (chooseK a future))
    if !projOK a.s e then throw "writer section: counters differ"
    if taskName a.s.nextTask != e.name then throw s!"next_task: model {taskName a.s.nextTask}"
    return a
  -- worker thread
  let (a, i) ← match widx a e.tid with
    | some i => pure (a, i)
    | none =>
      let used := a.tids.map (·.2)
      match (List.range c.n).find? (fun j => !used.contains j) with
      | some j => pure ({ a with tids := (e.tid, j) :: a.tids }, j)
      | none => throw "more worker threads than workers"
  if e.kind == 'R' || e.kind == 'W' then
    if a.pending.contains i then throw "R/W line while a first section is outstanding"
    let a ← toHead c a i future 6
    if !projOK a.s e then throw "loop head: counters differ"
    if e.kind == 'R' then
      if taskName a.s.nextTask != e.name then throw s!"next_task: model {taskName a.s.nextTask}"
      if e.name == "reorder" then stp c a (.run i 0)
      else return { a with pending := i :: a.pending }
    else
      if a.s.nextTask.isSome then throw "W line but model has a next_task"
      if (e.name == "exit") != finished c a.s then throw "wait/exit disagrees with finished()"
      stp c a (.run i 0)
  else if e.kind == 'U' then
    let a ← if a.pending.contains i then do
        let a ← stp c a (.run i (chooseK a future))
        pure { a with pending := a.pending.filter (· != i) }
      else do
        -- middle section: possibly after a silent release
        let go (a : Acc) : Except String (Acc × Bool) := do
          let p := a.s.ws[i]?
          let before := a.s.collQ.length
          let a ← stp c a (.cont i (chooseK a future))
          let vis := match p with
            | some (.c1 _) | some (.s1 _ (some _)) => a.s.collQ.length != before
            | some (.s1 _ none) | some (.s2 _ true) => true
            | _ => false
          pure (a, vis)
        let (a, vis) ← go a
        if vis then pure a else do
          let (a, vis) ← go a
          if vis then pure a else throw "no section of the model ends in sched_unlock here"
    if !projOK a.s e then throw "worker section: counters differ"
    if taskName a.s.nextTask != e.name then throw s!"next_task: model {taskName a.s.nextTask}"
    return a
  else throw "unknown event kind"

def acceptAll (c : Cfg) (rdT wrT : Nat) : Acc → List Ev → Nat → Except (Nat × String) Acc
  | a, [], _ => .ok a
  | a, e :: es, ln =>
    match acceptEv c rdT wrT a e es with
    | .ok a' => acceptAll c rdT wrT a' es (ln + 1)
    | .error m => .error (ln, m)

/-- `schedc-accept n ultra total_in total_out granul bytes reader_tid writer_tid events` -/
def cmdAccept (args : List String) : Option String := do
  let n ← (← args[0]?).toNat?
  let ultra ← b01 (← args[1]?)
  let tin ← (← args[2]?).toNat?
  let tout ← (← args[3]?).toNat?
  let g ← (← args[4]?).toNat?
  let input ← parseDigits (← args[5]?)
  let rdT ← (← args[6]?).toNat?
  let wrT ← (← args[7]?).toNat?
  let evs ← ((← args[8]?).splitOn ";").mapM parseEv
  let c : Cfg := { n := n, ultra := ultra, totalIn := tin, totalOut := tout, inGranul := g }
  let s0 : St := init c input
  match evs with
  | [] => some "reject 0 empty-trace"
  | i0 :: rest =>
    if i0.kind != 'I' || !projOK s0 i0 then some "reject 1 init-line-differs"
    else
      let body := rest.filter (fun e => e.kind != 'F')
      match acceptAll c rdT wrT { s := s0 } body 2 with
      | .error (ln, m) => some s!"reject {ln} {m.replace " " "_"}"
      | .ok a =>
        -- remaining silent steps of reader / writer, then the final state
        let fin := a.s.ws.all (·.isExited) && finished c a.s && a.s.outputQ.isEmpty && a.s.wr.isNone
          && a.s.rd == .done
        let cn := canon c markerCodec input
        if !fin then some "reject end not-final"
        else if a.s.written != cn then some "reject end written-differs-from-canon"
        else some s!"ok {evs.length} blocks={cn.length} spurious={a.spur}"

def handle (cmd : String) (args : List String) : Option String :=
  if cmd = "schedc-bfs" then some ((cmdBfs args).getD "bad-args")
  else if cmd = "schedc-path" then some ((cmdPath args).getD "bad-args")
  else if cmd = "schedc-accept" then some ((cmdAccept args).getD "bad-args")
  else if cmd = "schedc-cfg" then
    some ((do
      let n ← (← args[0]?).toNat?
      let bs ← (← args[1]?).toNat?
      let u ← b01 (← args[2]?)
      let c := Cfg.ofGen n bs u
      some s!"{c.totalIn} {c.totalOut} {c.inGranul} {TRANSM_THRESH}").getD "bad-args")
  else if cmd = "schedc-canon" then some ((cmdCanon args).getD "bad-args")
  else none

end Driver.CmdSchedC
