/-
  Driver commands of work package W2 (C04 / RLE1 stage of C01).

    collect <cap> <hex input> <split sizes>
        -> <full 0/1> <consumed> <hex block after finish> <nblock before finish>
           <rle_state> <block_crc ^ 0xffffffff, 8 hex digits> <rle_character hex | ->
        The input is cut into buffers of the given sizes (they must add up to
        the input length; zeros allowed; `-` = no buffer at all); the buffers
        are handed to Model.collect one after the other until one call
        returns "full"; then Model.finish.
    pack <cap> <hex>     -> <k>            (Spec.pack)
    rle1 <hex>           -> <hex>          (Spec.rle1)
    unrle1 <hex>         -> ok <hex> | none (Spec.unRle1)
    rlelen <hex>         -> <n>            (Spec.rleLen)
    specblock <cap> <hex> -> <k> <hex>     (k = Spec.pack cap xs, Spec.rle1 (xs.take k))
-/
import LbzVerif.Spec.Rle1
import LbzVerif.Model.Collect

namespace Driver.CmdCollect
open LbzVerif

def hexDigit (c : Char) : Option Nat :=
  if '0' ≤ c ∧ c ≤ '9' then some (c.toNat - '0'.toNat)
  else if 'a' ≤ c ∧ c ≤ 'f' then some (c.toNat - 'a'.toNat + 10)
  else none

def parseHexAux : List Char → List UInt8 → Option (List UInt8)
  | [], acc => some acc.reverse
  | [_], _ => none
  | a :: b :: rest, acc =>
    match hexDigit a, hexDigit b with
    | some x, some y => parseHexAux rest (UInt8.ofNat (16 * x + y) :: acc)
    | _, _ => none

def parseHex (s : String) : Option (List UInt8) :=
  if s == "-" then some [] else parseHexAux s.toList []

def hexChar (n : Nat) : Char :=
  if n < 10 then Char.ofNat ('0'.toNat + n) else Char.ofNat ('a'.toNat + n - 10)

def toHex (l : List UInt8) : String :=
  if l.isEmpty then "-"
  else String.ofList (l.flatMap fun b => [hexChar (b.toNat / 16), hexChar (b.toNat % 16)])

def hex32 (w : UInt32) : String :=
  let n := w.toNat
  String.ofList ((List.range 8).map fun i => hexChar ((n >>> (4 * (7 - i))) % 16))

def parseNats (s : String) : Option (List Nat) :=
  if s == "-" then some [] else (s.splitOn ",").mapM String.toNat?

def cut : List Nat → List UInt8 → List (List UInt8)
  | [], _ => []
  | n :: ns, l => l.take n :: cut ns (l.drop n)

def handle (cmd : String) (args : List String) : Option String :=
  match cmd, args with
  | "collect", [cap, hx, sp] =>
    some <| match cap.toNat?, parseHex hx, parseNats sp with
    | some cap, some inp, some sizes =>
      if cap = 0 ∨ sizes.foldl (· + ·) 0 ≠ inp.length then "bad-args"
      else
        let r := Model.collectMany (Model.init cap) (cut sizes inp)
        let s := r.1
        let ch := match s.rle with
          | .run _ c => toHex [c]
          | _ => "-"
        s!"{if r.2.2 then 1 else 0} {r.2.1} {toHex (Model.finish s)} {s.nblock} {s.rle.toInt} {hex32 (s.crc ^^^ 0xFFFFFFFF)} {ch}"
    | _, _, _ => "bad-args"
  | "pack", [cap, hx] =>
    some <| match cap.toNat?, parseHex hx with
    | some cap, some inp => toString (Spec.pack cap inp)
    | _, _ => "bad-args"
  | "specblock", [cap, hx] =>
    some <| match cap.toNat?, parseHex hx with
    | some cap, some inp =>
      let k := Spec.pack cap inp
      s!"{k} {toHex (Spec.rle1 (inp.take k))}"
    | _, _ => "bad-args"
  | "rle1", [hx] =>
    some <| match parseHex hx with
    | some inp => toHex (Spec.rle1 inp)
    | none => "bad-args"
  | "unrle1", [hx] =>
    some <| match parseHex hx with
    | some inp =>
      match Spec.unRle1 inp with
      | some out => "ok " ++ toHex out
      | none => "none"
    | none => "bad-args"
  | "rlelen", [hx] =>
    some <| match parseHex hx with
    | some inp => toString (Spec.rleLen inp)
    | none => "bad-args"
  | _, _ => none

end Driver.CmdCollect
