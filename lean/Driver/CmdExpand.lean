/-
  Driver.CmdExpand — line-protocol access to Model.Expand (work package W22).

    expandfile <hex>     -> ok <hex> | err <code>
        `Model.Expand.expandFile` on the whole file.  <code>: `not-bzip2`
        ("not a valid bzip2 file"), a decimal value of `enum error`, followed by ` block` when do_reorder reports it
        ("compressed data error: err2str(code)"), `model-<n>` (a model-only
        status of one of the parts; never expected), `fuel` (never).
    expandsum <hex>      -> ok <size> <crc32> | err <code>      (large outputs)
-/
import LbzVerif.Model.Expand
import LbzVerif.Basic.Bits
import LbzVerif.Basic.Crc

namespace Driver.CmdExpand

open LbzVerif LbzVerif.Basic

def reply (d : List UInt8) : String :=
  match Model.Expand.expandFile d with
  | .ok out => "ok " ++ hexEncode out
  | .error e => "err " ++ e.name

def replySum (d : List UInt8) : String :=
  match Model.Expand.expandFile d with
  | .ok out => "ok " ++ toString out.length ++ " " ++ toString (crc32 out).toNat
  | .error e => "err " ++ e.name

def handle (cmd : String) (args : List String) : Option String :=
  match cmd, args with
  | "expandfile", [h] => some (match hexDecode h with | some d => reply d | none => "bad-arg")
  | "expandsum", [h] => some (match hexDecode h with | some d => replySum d | none => "bad-arg")
  | _, _ => none

end Driver.CmdExpand
