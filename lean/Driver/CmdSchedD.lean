/-
  Driver commands of work package W7 (expansion scheduler model SchedD;
  properties C10, C09 scheduler half, C11 expansion half).

  Configuration arguments (shared by schedd-bfs / schedd-find / schedd-seq):
    <n> <in_slots> <out_slots> <W> <T> <ultra 0|1> <parse> <retr> <cands>
      parse : comma list of  p:h:base | p:f:upto:ok | p:e:upto   (default: p:e:p)
      retr  : comma list of  base:ok:end:nb:fin                   (default: error at base)
      cands : comma list of positions the scanner reports        (`-` = none)

    schedd-bfs <cfg…> <maxstates>
        -> states=… trans=… trunc=0|1 final=… failed=… stuck=… badout=… prefixviol=…
           consviol=… capviol=… overcap=… unordpartialviol=… stale=… taint=… leakfinal=…
           dup=… eofmore=… maxunord=… cap=… maxleak=… projviol=…
    schedd-find <cfg…> <maxstates> <pred>
        pred ∈ stuck | overcap | stale | leakfinal | taint | badout | consviol | final
        -> none | <Lean list of labels leading from `init` to the first such state>
    schedd-seq <cfg…>  -> <ok 0|1> <sink records b.i,b.i,…>
    schedd-accept <n> <total_in> <total_out> <ultra> <events>
        events: `;`-separated  K,t,name,wu,os,eof,pt,pd,in,scan,retr,emit,reord,order,unord,head,tail
        -> ok lines=… rchecks=… uchecks=… headdeltas=… reorderdeltas=… taildeltas=… | reject <line#> <why>
    schedd-acceptw <n> <total_in> <total_out> <ultra> <lat_min> <hung 0|1> <events>
        the same events (thread ids used) replayed against the projection of the
        refined model Model.SchedDW (workers, next_task, sched_mutex, sched_cond):
        -> ok lines=… steps=… workers=… wakeups=… signals=… maxlat=… exits=… | reject <line#> <why>
        lat_min > 0: also reject when a worker that xsignal made runnable has not
        come back lat_min lines later (0 = off); hung = 1: the run was killed
        after a time-out, explain the last line
-/
import Std.Data.HashSet
import Std.Data.HashMap
import LbzVerif.Model.SchedD
import LbzVerif.Lemmas.SchedD.Proj
import LbzVerif.Lemmas.SchedD.ProjW

namespace Driver.CmdSchedD
open LbzVerif.Model.SchedD LbzVerif.Gen

/-! ### argument parsing -/

def nats (s : String) (sep : String) : Option (List Nat) :=
  if s == "-" then some [] else (s.splitOn sep).mapM String.toNat?

def parseSpec (s : String) : Option (List (Nat × PRes)) :=
  if s == "-" then some [] else
  (s.splitOn ",").mapM fun it =>
    match it.splitOn ":" with
    | [p, "h", b] => do pure ((← p.toNat?), PRes.hdr (← b.toNat?))
    | [p, "f", u, ok] => do pure ((← p.toNat?), PRes.finish (← u.toNat?) ((← ok.toNat?) != 0))
    | [p, "e", u] => do pure ((← p.toNat?), PRes.err (← u.toNat?))
    | _ => none

def retrSpec (s : String) : Option (List (Nat × RRes)) :=
  if s == "-" then some [] else
  (s.splitOn ",").mapM fun it =>
    match it.splitOn ":" with
    | [b, ok, e, nb, fin] => do
      pure ((← b.toNat?), { ok := (← ok.toNat?) != 0, e := (← e.toNat?), nb := (← nb.toNat?),
                            fin := (← fin.toNat?) != 0 })
    | _ => none

def lookupD {β} (l : List (Nat × β)) (k : Nat) (d : β) : β :=
  match l.find? (·.1 == k) with | some x => x.2 | none => d

def mkCfg : List String → Option Cfg
  | [n, ti, to, w, t, u, ps, rs, cs] => do
    let pl ← parseSpec ps
    let rl ← retrSpec rs
    pure { n := (← n.toNat?), totalIn := (← ti.toNat?), totalOut := (← to.toNat?),
           W := (← w.toNat?), T := (← t.toNat?), ultra := (← u.toNat?) != 0,
           parseAt := fun p => lookupD pl p (PRes.err p),
           retrieveFrom := fun b => lookupD rl b { ok := false, e := b, nb := 1, fin := false },
           cand := (← nats cs ",") }
  | _ => none

/-! ### canonical form (queues are multisets) -/

def lexLt : List Nat → List Nat → Bool
  | [], [] => false
  | [], _ :: _ => true
  | _ :: _, [] => false
  | a :: as, b :: bs => a < b || (a == b && lexLt as bs)

def b2n (b : Bool) : Nat := if b then 1 else 0
def o2n : Option Nat → Nat | none => 0 | some x => x + 1

def encUF (f : UF) : List Nat := [f.endp, b2n f.complete, b2n f.legit, b2n f.inq]
def encJob (j : Job) : List Nat :=
  [j.curr, j.base, b2n j.corrupt] ++ (match j.ub with | none => [0] | some f => 1 :: encUF f)
def EencJob (e : EJob) : List Nat := [e.base, e.idx, e.left, b2n e.ok, b2n e.corrupt]
def encOSt : OSt → Nat | .more => 0 | .ok => 1 | .err => 2
def encOB (o : OB) : List Nat := [o.base, o.idx, encOSt o.st, b2n o.corrupt]
def encUB (u : UB) : List Nat := [u.base, b2n u.corrupt] ++ encUF u.f
def encPhase : Phase → List Nat
  | .retr j k => 0 :: o2n k :: encJob j
  | .retr2 e => 1 :: EencJob e
  | .emit e => 2 :: EencJob e
  | .scan s k => [3, s, k]

def sortBy {α} (enc : α → List Nat) (l : List α) : List α :=
  l.mergeSort (fun a b => !lexLt (enc b) (enc a))

def canon (s : State) : State :=
  { s with scanQ := s.scanQ.mergeSort (fun a b => a ≤ b),
           retrQ := sortBy encJob s.retrQ, emitQ := sortBy EencJob s.emitQ,
           reordQ := sortBy encOB s.reordQ, orphans := sortBy encUB s.orphans,
           busy := sortBy encPhase s.busy }

/-! ### monitors -/

def isPrefix (a b : List (Nat × Nat)) : Bool := a.isPrefixOf b

def consViol (c : Cfg) (s : State) : Bool :=
  s.wu + unitsHeld s != c.n || s.outSlots + slotsHeld s != c.totalOut
  || s.inSlots + inputAlive s != c.totalIn

def capViol (c : Cfg) (s : State) : Bool :=
  decide (s.retrQ.length > c.n) || decide (s.emitQ.length > c.n)
  || decide (s.reordQ.length > c.totalOut)
  || decide (s.orderQ.length > orderCap c.n c.totalOut)
  || decide (s.scanQ.length > c.totalIn) || decide (s.rd - s.head > c.totalIn)
  || decide (s.outq > c.totalOut)

def overCap (c : Cfg) (s : State) : Bool := decide (unordSize s > unordCapOf c)

def badOut (c : Cfg) (s : State) : Bool :=
  let r := seqRun c
  (terminated c s && (s.written != r.1 || !r.2 || !s.orderQ.isEmpty))
  || (s.failed && (r.2 || !isPrefix s.written r.1))

def dupBases (s : State) : Bool :=
  let jb : Job → List Nat := fun j => if j.ub.isSome then [j.base] else []
  let bs := s.orphans.map (·.base) ++ s.retrQ.flatMap jb
            ++ s.busy.flatMap (fun ph => match ph with | .retr j _ => jb j | _ => [])
  bs.any (fun b => decide (bs.count b > 1))

def eofMore (c : Cfg) (s : State) : Bool :=
  s.busy.any fun ph => match ph with
    | .retr j none => decide ((rres c j.base).e > j.curr)
    | _ => false

def leakFinal (c : Cfg) (s : State) : Bool := terminated c s && !s.orphans.isEmpty

def predOf (c : Cfg) (name : String) (s : State) : Bool :=
  match name with
  | "stuck" => stuck c s
  | "overcap" => overCap c s
  | "stale" => staleAttach c s
  | "leakfinal" => leakFinal c s
  | "taint" => s.taint
  | "badout" => badOut c s
  | "consviol" => consViol c s
  | "final" => terminated c s
  | "partialviol" => decide (unordSize s > unordCapOf c)
  | _ => false

structure Stats where
  states : Nat := 0
  trans : Nat := 0
  trunc : Bool := false
  final : Nat := 0
  failed : Nat := 0
  stuck : Nat := 0
  badout : Nat := 0
  prefixviol : Nat := 0
  consviol : Nat := 0
  capviol : Nat := 0
  overcap : Nat := 0
  unordpartialviol : Nat := 0
  stale : Nat := 0
  taint : Nat := 0
  leakfinal : Nat := 0
  dup : Nat := 0
  eofmore : Nat := 0
  maxunord : Nat := 0
  maxleak : Nat := 0
  projviol : Nat := 0

def inc (b : Bool) (n : Nat) : Nat := if b then n + 1 else n

def monitor (c : Cfg) (seqOut : List (Nat × Nat)) (s : State) (st : Stats) : Stats :=
  { st with
    states := st.states + 1,
    final := inc (terminated c s) st.final,
    failed := inc s.failed st.failed,
    stuck := inc (stuck c s) st.stuck,
    badout := inc (badOut c s) st.badout,
    prefixviol := inc (!isPrefix s.written seqOut) st.prefixviol,
    consviol := inc (!s.failed && consViol c s) st.consviol,
    capviol := inc (capViol c s) st.capviol,
    overcap := inc (overCap c s) st.overcap,
    unordpartialviol := inc (decide (unordSize s > unordCapOf c)) st.unordpartialviol,
    stale := inc (staleAttach c s) st.stale,
    taint := inc s.taint st.taint,
    leakfinal := inc (leakFinal c s) st.leakfinal,
    dup := inc (dupBases s) st.dup,
    eofmore := inc (eofMore c s) st.eofmore,
    maxunord := max st.maxunord (unordSize s),
    maxleak := max st.maxleak (leakedCount s) }

def showStats (c : Cfg) (st : Stats) : String :=
  s!"states={st.states} trans={st.trans} trunc={b2n st.trunc} final={st.final} failed={st.failed} " ++
  s!"stuck={st.stuck} badout={st.badout} prefixviol={st.prefixviol} consviol={st.consviol} " ++
  s!"capviol={st.capviol} overcap={st.overcap} unordpartialviol={st.unordpartialviol} " ++
  s!"stale={st.stale} taint={st.taint} leakfinal={st.leakfinal} dup={st.dup} eofmore={st.eofmore} " ++
  s!"maxunord={st.maxunord} cap={unordCapOf c} maxleak={st.maxleak} projviol={st.projviol}"

/-- breadth-first exploration; `pred` (if given) stops at the first hit and
    returns the index of that state. -/
def bfs (c : Cfg) (maxStates : Nat) (pred : Option (State → Bool)) :
    Stats × Array (State × Nat × Option Label) × Option Nat := Id.run do
  let s0 := canon (init c)
  let seqOut := (seqRun c).1
  let mut seen : Std.HashSet State := Std.HashSet.emptyWithCapacity 1024
  seen := seen.insert s0
  let mut q : Array (State × Nat × Option Label) := #[(s0, 0, none)]
  let mut i := 0
  let mut st : Stats := {}
  let mut hit : Option Nat := none
  for _ in [0:maxStates + 1] do
    if let some (s, _, _) := q[i]? then
      st := monitor c seqOut s st
      match pred with
      | some p => if p s then hit := some i
      | none => pure ()
      if hit.isSome then break
      for l in enabled c s do
        match step c s l with
        | some s' =>
          let s' := canon s'
          st := { st with trans := st.trans + 1,
                          projviol := inc (!LbzVerif.Lemmas.SchedD.projStepOk c s l s') st.projviol }
          if !seen.contains s' then
            seen := seen.insert s'
            q := q.push (s', i, some l)
        | none => pure ()
      i := i + 1
    else break
  if i < q.size && hit.isNone then st := { st with trunc := true }
  return (st, q, hit)

/-! ### Lean-syntax printing of labels (for witnesses) -/

def showOpt (o : Option Nat) : String := match o with | none => "none" | some x => s!"(some {x})"
def showB (b : Bool) : String := if b then "true" else "false"
def showUF (o : Option UF) : String :=
  match o with
  | none => "none"
  | some f => s!"(some ⟨{f.endp}, {showB f.complete}, {showB f.legit}, {showB f.inq}⟩)"
def showJob (j : Job) : String :=
  s!"⟨{j.curr}, {j.base}, {showUF j.ub}, {showB j.corrupt}⟩"
def showEJob (e : EJob) : String :=
  s!"⟨{e.base}, {e.idx}, {e.left}, {showB e.ok}, {showB e.corrupt}⟩"
def showOSt : OSt → String | .more => ".more" | .ok => ".ok" | .err => ".err"
def showOB (o : OB) : String := s!"⟨{o.base}, {o.idx}, {showOSt o.st}, {showB o.corrupt}⟩"

def showLabel : Label → String
  | .rTake => ".rTake" | .rQuit => ".rQuit" | .rBlock => ".rBlock" | .rEmpty => ".rEmpty"
  | .rEof => ".rEof" | .wDone => ".wDone"
  | .reorder ob => s!".reorder {showOB ob}"
  | .parseStart => ".parseStart" | .parseEnd => ".parseEnd"
  | .retrStart j => s!".retrStart {showJob j}"
  | .retrEnd j k => s!".retrEnd {showJob j} {showOpt k}"
  | .retrPost e => s!".retrPost {showEJob e}"
  | .emitStart e => s!".emitStart {showEJob e}"
  | .emitEnd e => s!".emitEnd {showEJob e}"
  | .scanStart sp => s!".scanStart {sp}"
  | .scanEnd st k => s!".scanEnd {st} {k}"

def pathTo (q : Array (State × Nat × Option Label)) (i : Nat) : List Label := Id.run do
  let mut acc : List Label := []
  let mut j := i
  for _ in [0:q.size] do
    match q[j]? with
    | some (_, p, some l) => acc := l :: acc; j := p
    | _ => break
  return acc

/-! ### command dispatch -/

def showRecs (l : List (Nat × Nat)) : String :=
  if l.isEmpty then "-" else ",".intercalate (l.map fun (b, i) => s!"{b}.{i}")

def handle (cmd : String) (args : List String) : Option String :=
  match cmd with
  | "schedd-bfs" =>
    some <| match mkCfg (args.take 9), (args.drop 9) with
    | some c, [m] =>
      match m.toNat? with
      | some m => let (st, _, _) := bfs c m none; showStats c st
      | none => "bad-args"
    | _, _ => "bad-args"
  | "schedd-find" =>
    some <| match mkCfg (args.take 9), (args.drop 9) with
    | some c, [m, p] =>
      match m.toNat? with
      | some m =>
        let (_, q, hit) := bfs c m (some (predOf c p))
        match hit with
        | some i => "[" ++ ", ".intercalate ((pathTo q i).map showLabel) ++ "]"
        | none => "none"
      | none => "bad-args"
    | _, _ => "bad-args"
  | "schedd-seq" =>
    some <| match mkCfg args with
    | some c => let r := seqRun c; s!"{b2n r.2} {showRecs r.1}"
    | none => "bad-args"
  | "schedd-accept" =>
    some <| match args with
    | [n, ti, to, u, evs] =>
      match n.toNat?, ti.toNat?, to.toNat?, u.toNat? with
      | some n, some ti, some to, some u =>
        LbzVerif.Lemmas.SchedD.acceptTrace n ti to (u != 0) evs
      | _, _, _, _ => "bad-args"
    | _ => "bad-args"
  | "schedd-acceptw" =>
    some <| match args with
    | [n, ti, to, u, sm, hg, evs] =>
      match n.toNat?, ti.toNat?, to.toNat?, u.toNat?, sm.toNat?, hg.toNat? with
      | some n, some ti, some to, some u, some sm, some hg =>
        LbzVerif.Lemmas.SchedD.acceptTraceW n ti to (u != 0) sm (hg != 0) evs
      | _, _, _, _, _, _ => "bad-args"
    | _ => "bad-args"
  | _ => none

end Driver.CmdSchedD
