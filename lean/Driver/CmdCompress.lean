/-
  Driver.CmdCompress — the whole-file compressor model (LbzVerif.Model.Compress)
  with an executable choice function, for the non-vacuity / correspondence
  campaign checks/w23_roundtrip.py.

    compressfile <level> <seq 0/1> <hex input>
        -> ok <hex of the .bz2 stream> | choices-fail <block#> | bad-arg
       `Model.Compress.compressFile level seq input simpleChoice`: capacity
       level·100000, chunk size of `set_memory_constraints`.
    compressfilex <level> <seq 0/1> <cap> <granul> <mode 0/1> <hex input>
        -> the same with a TEST-ONLY block capacity and chunk size
       (`compressFileGen`; the round-trip theorem needs 1 ≤ cap ≤ level·100000,
       granul ≥ 1) and choice function `mode` (0 = `simpleChoice`: naive BWT,
       two dummy tables, all selectors 0; 1 = `variedChoice`: naive BWT, 2…6
       rotated dummy tables, selectors cycling through them).
    compressblocks <level> <seq 0/1> <cap> <granul> <mode 0/1> <hex input>
        -> ok <storedCrc:nblock:origPtr:nmtf:alphaSize,…> | ok - | choices-fail <block#>
       one entry per block of the model, in file order.

    compresswith <level> <seq 0/1> <cap> <granul> <hex input> <choices>
        -> ok <hex of the stream> | choices-fail <block#> | bad-count <blocks> | bad-arg
       the model with GIVEN choices, one per block in file order, blocks
       separated by `|`, fields by `;`:  <hex L>;<idx>;<numTrees>;<lens>;<selectors>
       with <lens> = rows separated by `/`, each row comma separated (transmitted
       order), <selectors> comma separated (real groups only).  Used to feed the
       choices the REAL encoder made (read back from its stream) into the model:
       the contract is evaluated on them and the model must then write the real
       file byte for byte.

    naivebwt <hex T>
        -> <idx> <hex L>      `Model.Compress.naiveBwt T` (rotation sort; proved:
                               `Lemmas.BwtInverse.naiveBwt_ok`, `ibwt_naiveBwt`)
    bwtok <hex T> <idx> <hex L>
        -> 1 | 0               `decide (Model.Compress.BwtOK T L idx)`: the oracle's
                               inverse BWT maps (L, idx) to T and L has no foreign byte
                               — the BWT hypothesis of `Props.C01.Roundtrip.roundtrip`
    bwtcheck <hex T> <idx> <hex L>
        -> <model idx> <hex model L> <bwtok of the GIVEN (L, idx): 1 | 0>
       (checks/w24_bwt.py: the real divbwt() against the model and the contract)

  Before anything is written the contract `Model.Compress.ChoicesOK` is
  evaluated on every block (it is decidable); `choices-fail i` names the first
  block (0-based) whose choice violates it — the theorems then say nothing.
-/
import LbzVerif.Model.Compress

namespace Driver.CmdCompress

open LbzVerif LbzVerif.Basic LbzVerif.Model.Compress LbzVerif.Model.Transmit

/-- rotate a list left by `k` -/
def rotl (l : List Nat) (k : Nat) : List Nat :=
  if l.isEmpty then l else l.drop (k % l.length) ++ l.take (k % l.length)

/-- A second choice function (not lbzip2's): the naive BWT, `2 + nm % 5` tables
    that are rotations of the dummy table (so complete, but different from one
    another), selectors running through all of them. -/
def variedChoice (rb : List UInt8) : Choice :=
  let bw := naiveBwt rb
  let as := (usedOf rb).length + 2
  let nm := (mtfvOf rb bw.1).length
  let nt := 2 + nm % 5
  let base := Model.Canon.dummyLens as
  { L := bw.1, idx := bw.2, numTrees := nt,
    lens := (List.range nt).map (fun t => rotl base (3 * t)),
    selectors := (List.range (Model.Canon.numSelectors nm)).map (fun g => (g * 7 + g / 3) % nt) }

def chooser (mode : Nat) : List UInt8 → Choice :=
  if mode = 1 then variedChoice else simpleChoice

/-- index of the first block whose choice violates the contract -/
def firstBad (choose : List UInt8 → Choice) (blocks : List (List UInt8)) : Option Nat :=
  (blocks.zipIdx.find? (fun p =>
    !decide (ChoicesOK (Spec.rle1 p.1) (choose (Spec.rle1 p.1))))).map (·.2)

def doCompress (level cap granul : Nat) (seq : Bool) (mode : Nat) (input : List UInt8) : String :=
  let choose := chooser mode
  match firstBad choose (cutBlocks cap granul seq input) with
  | some i => "choices-fail " ++ toString i
  | none => "ok " ++ hexEncode (compressFileGen level cap granul seq input choose)

def blockLine (b : EncBlock) (nblock : Nat) : String :=
  toString (b.crc ^^^ 0xFFFFFFFF) ++ ":" ++ toString nblock ++ ":" ++ toString b.bwtIdx ++ ":" ++
    toString b.nmtf ++ ":" ++ toString b.alphaSize

def doBlocks (cap granul : Nat) (seq : Bool) (mode : Nat) (input : List UInt8) : String :=
  let choose := chooser mode
  let blocks := cutBlocks cap granul seq input
  match firstBad choose blocks with
  | some i => "choices-fail " ++ toString i
  | none =>
    let ls := blocks.map (fun b => blockLine (compressBlock choose b) (Spec.rle1 b).length)
    "ok " ++ (if ls.isEmpty then "-" else ",".intercalate ls)

def parseNats (s : String) : Option (List Nat) :=
  if s == "-" then some [] else (s.splitOn ",").mapM String.toNat?

def parseChoice (s : String) : Option Choice :=
  match s.splitOn ";" with
  | [l, i, nt, ls, sels] =>
    match hexDecode l, i.toNat?, nt.toNat?, (ls.splitOn "/").mapM parseNats, parseNats sels with
    | some L, some idx, some numTrees, some lens, some selectors =>
      some { L := L, idx := idx, numTrees := numTrees, lens := lens, selectors := selectors }
    | _, _, _, _, _ => none
  | _ => none

/-- the choice function that gives the `i`-th listed choice to the `i`-th block
    (looked up by block content, as `compressFileGen` wants it) -/
def tableChooser (blocks : List (List UInt8)) (chs : List Choice) (rb : List UInt8) : Choice :=
  (((blocks.map Spec.rle1).zip chs).find? (fun p => p.1 == rb)).map (·.2) |>.getD default

def doCompressWith (level cap granul : Nat) (seq : Bool) (input : List UInt8)
    (chs : List Choice) : String :=
  let blocks := cutBlocks cap granul seq input
  if blocks.length != chs.length then "bad-count " ++ toString blocks.length
  else
    let choose := tableChooser blocks chs
    match firstBad choose blocks with
    | some i => "choices-fail " ++ toString i
    | none => "ok " ++ hexEncode (compressFileGen level cap granul seq input choose)

def parseBool (s : String) : Option Bool :=
  if s == "0" then some false else if s == "1" then some true else none

def handle (cmd : String) (args : List String) : Option String :=
  match cmd, args with
  | "compressfile", [l, s, h] =>
    some (match l.toNat?, parseBool s, hexDecode h with
      | some level, some seq, some d =>
        doCompress level (level * 100000) (Gen.memCompress 1 level).2.2.1 seq 0 d
      | _, _, _ => "bad-arg")
  | "compressfilex", [l, s, c, g, m, h] =>
    some (match l.toNat?, parseBool s, c.toNat?, g.toNat?, m.toNat?, hexDecode h with
      | some level, some seq, some cap, some granul, some mode, some d =>
        doCompress level cap granul seq mode d
      | _, _, _, _, _, _ => "bad-arg")
  | "compressblocks", [_l, s, c, g, m, h] =>
    some (match parseBool s, c.toNat?, g.toNat?, m.toNat?, hexDecode h with
      | some seq, some cap, some granul, some mode, some d => doBlocks cap granul seq mode d
      | _, _, _, _, _ => "bad-arg")
  | "compresswith", [l, s, c, g, h, chs] =>
    some (match l.toNat?, parseBool s, c.toNat?, g.toNat?, hexDecode h,
        (if chs == "-" then some [] else (chs.splitOn "|").mapM parseChoice) with
      | some level, some seq, some cap, some granul, some d, some cs =>
        doCompressWith level cap granul seq d cs
      | _, _, _, _, _, _ => "bad-arg")
  | "naivebwt", [h] =>
    some (match hexDecode h with
      | some t => let bw := naiveBwt t; toString bw.2 ++ " " ++ hexEncode bw.1
      | none => "bad-arg")
  | "bwtok", [h, i, l] =>
    some (match hexDecode h, i.toNat?, hexDecode l with
      | some t, some idx, some L => if decide (BwtOK t L idx) then "1" else "0"
      | _, _, _ => "bad-arg")
  | "bwtcheck", [h, i, l] =>
    some (match hexDecode h, i.toNat?, hexDecode l with
      | some t, some idx, some L =>
        let bw := naiveBwt t
        toString bw.2 ++ " " ++ hexEncode bw.1 ++ " " ++
          (if decide (BwtOK t L idx) then "1" else "0")
      | _, _, _ => "bad-arg")
  | _, _ => none

end Driver.CmdCompress
