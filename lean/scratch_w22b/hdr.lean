import LbzVerif.Props.C15.File
import LbzVerif.Props.C09.File
namespace LbzVerif.Props.C15.File
open LbzVerif LbzVerif.Basic LbzVerif.Model.Expand LbzVerif.Model.SchedD
open LbzVerif.Lemmas.CrcFlipMain LbzVerif.Lemmas.CrcFlipBits
open LbzVerif.Lemmas.ExpandSched (cfgOf)

theorem flipBit_header (x : List UInt8) (p : Nat) (hp : 32 ≤ p) :
    Lemmas.Copy.hasHeader (flipBit x p) = Lemmas.Copy.hasHeader x ∧
    Lemmas.Copy.headerLevel (flipBit x p) = Lemmas.Copy.headerLevel x := by
  have h0 : ¬ p < 8 := by omega
  have h1 : ¬ p - 8 < 8 := by omega
  have h2 : ¬ p - 8 - 8 < 8 := by omega
  have h3 : ¬ p - 8 - 8 - 8 < 8 := by omega
  match x with
  | [] => exact ⟨rfl, rfl⟩
  | [a] => simp [flipBit, h0, Lemmas.Copy.hasHeader, Lemmas.Copy.headerLevel]
  | [a, b] => simp [flipBit, h0, h1, Lemmas.Copy.hasHeader, Lemmas.Copy.headerLevel]
  | [a, b, c] => simp [flipBit, h0, h1, h2, Lemmas.Copy.hasHeader, Lemmas.Copy.headerLevel]
  | a :: b :: c :: d :: rest =>
    simp [flipBit, h0, h1, h2, h3, Lemmas.Copy.hasHeader, Lemmas.Copy.headerLevel]

/-- **No schedule lets the damaged file through**: on the file with a flipped CRC bit no reachable
state of the decompression scheduler model (any worker count, granularity, slot totals, candidate
set, interleaving) is a clean termination. -/
theorem crc_flip_never_terminates (x y : List UInt8) (h : expandFile x = .ok y) (f : Field)
    (hf : f ∈ crcFields x) (k : Nat) (hk : k < 32)
    (n W totalIn totalOut : Nat) (ultra : Bool) (cand : List Nat) {s : State}
    (hr : Reach (cfgOf (Lemmas.Copy.headerLevel (flipBit x (f.pos + k)))
      ((flipBit x (f.pos + k)).drop 4) n W totalIn totalOut ultra cand) s) :
    terminated (cfgOf (Lemmas.Copy.headerLevel (flipBit x (f.pos + k)))
      ((flipBit x (f.pos + k)).drop 4) n W totalIn totalOut ultra cand) s = false := by
  have hd := Props.C05.File.expand_sound x y h
  obtain ⟨h80, hrj⟩ := decodeFile_flip x y hd f hf k hk
  obtain ⟨e, he⟩ := Props.C05.File.expand_rejects_malformed _ _ hrj
  have hh : Lemmas.Copy.hasHeader x = true := by
    cases hx : Lemmas.Copy.hasHeader x with
    | true => rfl
    | false =>
      rw [Lemmas.ExpandTop.expandFile_eq, hx] at h
      simp at h
  have hh' : Lemmas.Copy.hasHeader (flipBit x (f.pos + k)) = true := by
    rw [(flipBit_header x (f.pos + k) (by omega)).1]; exact hh
  exact Props.C09.File.rejected_never_terminates _ hh' e he n W totalIn totalOut ultra cand hr
end LbzVerif.Props.C15.File
