import LbzVerif.Props.C15.File
#print axioms LbzVerif.Props.C15.File.block_crc_flip_rejected
#print axioms LbzVerif.Props.C15.File.stream_crc_flip_rejected
#print axioms LbzVerif.Props.C15.File.crc_flip_never_accepted
#print axioms LbzVerif.Props.C15.File.crc_field_position
#print axioms LbzVerif.Props.C15.File.crcFields_fuel_enough
#print axioms LbzVerif.Props.C15.File.flipBit_changes
