import LbzVerif.Lemmas.CrcFlipMain
import LbzVerif.Lemmas.ExpandHello
open LbzVerif LbzVerif.Lemmas.CrcFlipMain LbzVerif.Lemmas.CrcFlipBits LbzVerif.Lemmas.ExpandHello
#eval crcFields aBz2
#eval Model.Expand.expandFile (flipBit aBz2 (80 + 5))
#eval Spec.Bzip2.decodeFile (flipBit aBz2 (80 + 5))
