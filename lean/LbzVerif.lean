-- Root of the library: imports every Gen / Model / Spec / Props module.
import LbzVerif.Gen.ScanTab
import LbzVerif.Gen.CrcTab
import LbzVerif.Gen.Consts
import LbzVerif.Gen.DecodeTab
import LbzVerif.Gen.Parse
import LbzVerif.Gen.Process
import LbzVerif.Gen.SchedC
import LbzVerif.Gen.SchedD
import LbzVerif.Gen.Cli
