/* Harness for property C14: calls the real scan() of /repo/src/parse.c.

   Protocol (one request per line on stdin, one reply line on stdout):

     scan <live> <buffhex16> <skip> <words: comma-separated decimal | ->
         -> <OK|MORE|rc=N> <live> <buffhex16> <data index>

     scan.mini <s> <b>   -> mini_dfa[s][b]
     scan.big <s> <c>    -> big_dfa[s][c]

   The words are stored in network byte order in a malloc'ed array of exactly
   that many words (so that AddressSanitizer sees any read past `limit`).
*/
#include "parse.c"

#include <stdio.h>
#include <string.h>

static char line[1 << 20];

int
main(void)
{
  while (fgets(line, sizeof line, stdin)) {
    char *cmd = strtok(line, " \n");
    if (!cmd) {
      puts("bad-op");
      continue;
    }
    if (!strcmp(cmd, "scan")) {
      char *a = strtok(NULL, " \n");
      char *b = strtok(NULL, " \n");
      char *c = strtok(NULL, " \n");
      char *d = strtok(NULL, " \n");
      struct bitstream bs;
      uint32_t *arr;
      size_t n = 0, cap = 16;
      unsigned skip;
      int rc;

      if (!a || !b || !c || !d) {
        puts("bad-args");
        continue;
      }
      arr = malloc(cap * sizeof *arr);
      if (strcmp(d, "-")) {
        char *p = d;
        for (;;) {
          char *e;
          unsigned long long v = strtoull(p, &e, 10);
          if (n == cap) {
            cap *= 2;
            arr = realloc(arr, cap * sizeof *arr);
          }
          arr[n++] = htonl((uint32_t) v);
          if (*e != ',')
            break;
          p = e + 1;
        }
      }
      /* exact-size copy so that the redzone starts right at `limit` */
      {
        uint32_t *ex = malloc(n ? n * sizeof *ex : 1);
        memcpy(ex, arr, n * sizeof *ex);
        free(arr);
        arr = ex;
      }
      bs.live = (unsigned) strtoul(a, NULL, 10);
      bs.buff = strtoull(b, NULL, 16);
      bs.block = NULL;
      bs.data = arr;
      bs.limit = arr + n;
      bs.eof = false;
      skip = (unsigned) strtoul(c, NULL, 10);

      rc = scan(&bs, skip);

      if (rc == OK)
        printf("OK");
      else if (rc == MORE)
        printf("MORE");
      else
        printf("rc=%d", rc);
      printf(" %u %016llx %ld\n", bs.live, (unsigned long long) bs.buff,
             (long) (bs.data - arr));
      free(arr);
    }
    else if (!strcmp(cmd, "scan.mini")) {
      char *a = strtok(NULL, " \n");
      char *b = strtok(NULL, " \n");
      unsigned s = a ? atoi(a) : 99, x = b ? atoi(b) : 9;
      if (s >= 48 || x >= 2)
        puts("bad-args");
      else
        printf("%u\n", mini_dfa[s][x]);
    }
    else if (!strcmp(cmd, "scan.big")) {
      char *a = strtok(NULL, " \n");
      char *b = strtok(NULL, " \n");
      unsigned s = a ? atoi(a) : 99, x = b ? atoi(b) : 999;
      if (s >= 49 || x >= 256)
        puts("bad-args");
      else
        printf("%u\n", big_dfa[s][x]);
    }
    else
      puts("bad-op");
  }
  fflush(stdout);
  return 0;
}
