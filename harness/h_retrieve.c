/* h_retrieve -- implementation side of the W15 correspondence check (whole
   block retriever; properties C09, C05, C06, C08).  Same line protocol and
   the same reply text as lean/Driver/CmdRetrieve.lean:

     retrieve <live> <buff hex16> <eof 0|1> <segment sizes> <hex of the words>

   runs the REAL retrieve() (decode.c is #included) once per segment.  Every
   segment is copied into its own malloc() of exactly 4*size bytes, so that a
   read at or beyond `limit` is an ASan error.  `bs->live` / `bs->buff` start
   with the given values; all calls but the last have bs->eof = 0, the last
   has the given flag; calling stops at the first status other than MORE.

     calls=<n> more=<state/live/block_size,...|-> status=<code>
     [ words=<consumed> live=<n> buff=<hex16> bs=<block_size> tt=<hex> ]  OK MORE ERR_EOF
     [ idx=<bwt_idx> rand=<0|1> fh=<sum (i+1)*ftab[i] mod 2^32> ]         OK only

   status: value of `enum error`; 1002 = retrieve() called abort() (assert).
   `words` counts what retrieve() reports through bs->data (it stores the
   position only in SAVE(), i.e. on OK, MORE and ERR_EOF).

   crc_table comes from /repo/src/crctab.c (second translation unit). */
#define _GNU_SOURCE
#include <stdio.h>
#include <string.h>
#include <signal.h>
#include <setjmp.h>

#include "decode.c"

void *
xmalloc(size_t n)
{
  void *p = malloc(n ? n : 1);
  if (!p) { fputs("h_retrieve: out of memory\n", stderr); _exit(3); }
  return p;
}

static sigjmp_buf abort_env;

static void
on_abort(int sig)
{
  (void)sig;
  siglongjmp(abort_env, 1);
}

static int
hexval(int c)
{
  if (c >= '0' && c <= '9') return c - '0';
  if (c >= 'a' && c <= 'f') return c - 'a' + 10;
  return -1;
}

static void
do_retrieve(char *a_live, char *a_buff, char *a_eof, char *a_sizes, char *a_hex)
{
  unsigned live = (unsigned)strtoul(a_live, NULL, 10);
  uint64_t buff = strtoull(a_buff, NULL, 16);
  int eof_last = strcmp(a_eof, "1") == 0;
  size_t nhex = strcmp(a_hex, "-") == 0 ? 0 : strlen(a_hex);
  size_t nbytes = nhex / 2, nwords = nbytes / 4, i;
  uint8_t *bytes = malloc(nbytes ? nbytes : 1);
  size_t *sizes = NULL, nseg = 0, cap = 0, total = 0;
  struct decoder_state ds;
  struct bitstream bs;
  struct sigaction sa, old;
  size_t off = 0, consumed = 0;
  volatile size_t calls = 0;
  volatile int rv = MORE;
  char *more;
  size_t more_len = 0, more_cap = 256;

  if (nhex % 8) { puts("bad-args"); free(bytes); return; }
  for (i = 0; i < nbytes; i++) {
    int x = hexval(a_hex[2 * i]), y = hexval(a_hex[2 * i + 1]);
    if (x < 0 || y < 0) { puts("bad-args"); free(bytes); return; }
    bytes[i] = 16 * x + y;
  }
  if (strcmp(a_sizes, "-") != 0) {
    char *q = a_sizes;
    for (;;) {
      char *e;
      unsigned long v = strtoul(q, &e, 10);
      if (e == q) { puts("bad-args"); free(bytes); free(sizes); return; }
      if (nseg == cap) { cap = cap ? 2 * cap : 16; sizes = realloc(sizes, cap * sizeof *sizes); }
      sizes[nseg++] = v;
      total += v;
      if (*e != ',') break;
      q = e + 1;
    }
  }
  if (nseg == 0 || total != nwords) { puts("bad-args"); free(bytes); free(sizes); return; }

  more = malloc(more_cap);
  more[0] = 0;

  decoder_init(&ds);
  memset(&bs, 0, sizeof bs);
  bs.live = live;
  bs.buff = buff;

  memset(&sa, 0, sizeof sa);
  sa.sa_handler = on_abort;
  sigaction(SIGABRT, &sa, &old);

  for (i = 0; i < nseg; i++) {
    size_t n = sizes[i];
    uint32_t *volatile seg = n ? malloc(4 * n) : NULL;
    int last = i + 1 == nseg;

    if (n) memcpy(seg, bytes + 4 * off, 4 * n);
    off += n;
    bs.block = NULL;
    bs.data = seg;
    bs.limit = seg ? seg + n : NULL;
    bs.eof = last && eof_last;
    calls++;
    if (sigsetjmp(abort_env, 1) == 0)
      rv = retrieve(&ds, &bs);
    else
      rv = 1002;
    if (rv != 1002 && (rv == OK || rv == MORE || rv == ERR_EOF))
      consumed += bs.data - seg;
    free(seg);
    if (rv != MORE)
      break;
    {
      char item[64];
      int l = snprintf(item, sizeof item, "%s%u/%u/%u", more_len ? "," : "",
                       ds.internal_state->state, bs.live, ds.block_size);
      if (more_len + l + 1 > more_cap) { more_cap *= 2; more = realloc(more, more_cap); }
      memcpy(more + more_len, item, l + 1);
      more_len += l;
    }
  }
  sigaction(SIGABRT, &old, NULL);

  printf("calls=%zu more=%s status=%d", (size_t)calls, more_len ? more : "-", (int)rv);
  if (rv == OK || rv == MORE || rv == ERR_EOF) {
    printf(" words=%zu live=%u buff=%016llx bs=%u tt=", consumed, bs.live,
           (unsigned long long)bs.buff, ds.block_size);
    if (ds.block_size == 0)
      putchar('-');
    for (i = 0; i < ds.block_size; i++)
      printf("%02x", (unsigned)(ds.tt[i] & 0xff));
  }
  if (rv == OK) {
    uint32_t fh = 0;
    for (i = 0; i < 256; i++)
      fh += (uint32_t)(i + 1) * ds.ftab[i];
    printf(" idx=%u rand=%d fh=%u", ds.bwt_idx, ds.rand ? 1 : 0, fh);
  }
  putchar('\n');

  decoder_free(&ds);
  free(more);
  free(bytes);
  free(sizes);
}

int
main(void)
{
  char *line = NULL;
  size_t cap = 0;
  ssize_t n;

  while ((n = getline(&line, &cap, stdin)) > 0) {
    char *tok[8];
    int k = 0;
    char *p;

    while (n > 0 && (line[n - 1] == '\n' || line[n - 1] == '\r'))
      line[--n] = 0;
    for (p = strtok(line, " "); p && k < 8; p = strtok(NULL, " "))
      tok[k++] = p;
    if (k == 6 && strcmp(tok[0], "retrieve") == 0)
      do_retrieve(tok[1], tok[2], tok[3], tok[4], tok[5]);
    else if (k == 1 && strcmp(tok[0], "consts") == 0)
      printf("%u %u %u %u %u %u %u\n", (unsigned)S_INIT, (unsigned)S_PREFIX,
             (unsigned)OK, (unsigned)MORE, (unsigned)ERR_EOF,
             (unsigned)MAX_BLOCK_SIZE, (unsigned)GROUP_SIZE);
    else
      puts("bad-op");
    fflush(stdout);
  }
  free(line);
  return 0;
}
