/* h_transmit -- implementation side of the W16 correspondence check: the
   real encode() and transmit() of /repo/src/encode.c on real input, with the
   real divbwt() (second translation unit /repo/src/divbwt.c; third:
   /repo/src/crctab.c).

   Protocol (one request per line):
     encode <cap> <cluster_factor> <hex plaintext>
        encoder_init(s, cap, cf); collect() once (stops when the block is
        full); encode(); transmit() into an exact-size heap buffer of
        (out_expect_len + 3) / 4 * 4 bytes (an overrun is an ASan error).
        Reply, space separated:
          <bytes consumed by collect> <value returned by encode()>
          <out_expect_len> <hex of the whole buffer (rounded up to words)>
          <block_crc> <bwt_idx> <cmap: 64 hex digits> <num_trees>
          <tmap_new2old[0..num_trees)>
          <length[new2old[t]][0..as] for t < num_trees, '/' separated (as+1 entries: sentinel last)>
          <code[new2old[t]][0..as]   likewise>
          <selector[0..ns] (raw, old numbering; entry ns is the sentinel)>
          <selectorMTF[0..num_selectors)> <num_selectors> <tree_pad>
          <nmtf> <mtfv[0..ns*50)> <nblock> <crc stored through *crc>
   Nothing is renumbered here: checks/w16_transmit.py maps old to new table
   numbers through tmap_new2old and checks that this is a bijection on the
   tables in use.
*/
#define _GNU_SOURCE
#include <stdio.h>
#include <string.h>

#include "encode.c"

void *
xmalloc(size_t n)
{
  void *p = malloc(n ? n : 1);
  if (!p) abort();
  return p;
}

static int
hexval(int c)
{
  if (c >= '0' && c <= '9') return c - '0';
  if (c >= 'a' && c <= 'f') return c - 'a' + 10;
  if (c >= 'A' && c <= 'F') return c - 'A' + 10;
  return -1;
}

static void
print_hex(const uint8_t *p, size_t n)
{
  size_t i;
  if (n == 0) { putchar('-'); return; }
  for (i = 0; i < n; i++) printf("%02x", (unsigned)p[i]);
}

static void
do_encode(char *a_cap, char *a_cf, char *a_hex)
{
  unsigned long cap = strtoul(a_cap, 0, 10);
  unsigned cf = strtoul(a_cf, 0, 10);
  size_t hl = strcmp(a_hex, "-") == 0 ? 0 : strlen(a_hex);
  size_t n = hl / 2, i, avail, asz, wlen;
  uint8_t *in;
  struct encoder_state *s;
  uint32_t crc = 0xdeadbeef;
  size_t ret;
  uint8_t *out;
  void *res;
  uint16_t *mtfv;
  unsigned as, ns, t, v;
  uint8_t cm[32];

  if (cap < 1 || cap > MAX_BLOCK_SIZE || cf < 1 || cf > 65535 || (hl & 1) || n == 0) {
    puts("bad-arg");
    return;
  }
  in = malloc(n);
  for (i = 0; i < n; i++) {
    int a = hexval(a_hex[2 * i]), b = hexval(a_hex[2 * i + 1]);
    if (a < 0 || b < 0) { puts("bad-arg"); free(in); return; }
    in[i] = 16 * a + b;
  }

  asz = encoder_alloc_size(cap);
  s = malloc(asz);
  memset(s, 0xA5, asz);
  encoder_init(s, cap, cf);
  avail = n;
  collect(s, in, &avail);

  ret = encode(s, &crc);

  wlen = (s->out_expect_len + 3) / 4 * 4;
  out = malloc(wlen ? wlen : 1);
  memset(out, 0x5A, wlen);
  res = transmit(s, out);
  if (res != (void *)out) { puts("bad-return"); goto done; }

  mtfv = (void *)s->SA;
  as = mtfv[s->nmtf - 1] + 1;
  ns = (s->nmtf + GROUP_SIZE - 1) / GROUP_SIZE;

  printf("%zu %zu %u ", n - avail, ret, (unsigned)s->out_expect_len);
  print_hex(out, wlen);
  printf(" %u %u ", (unsigned)s->block_crc, (unsigned)s->bwt_idx);
  memset(cm, 0, sizeof cm);
  for (v = 0; v < 256; v++)
    if (s->cmap[v]) cm[v >> 3] |= 0x80 >> (v & 7);
  print_hex(cm, 32);
  printf(" %u ", (unsigned)s->u.s.num_trees);
  for (t = 0; t < s->u.s.num_trees; t++)
    printf("%s%u", t ? "," : "", s->u.s.tmap_new2old[t]);
  putchar(' ');
  for (t = 0; t < s->u.s.num_trees; t++) {
    unsigned o = s->u.s.tmap_new2old[t];
    if (t) putchar('/');
    for (v = 0; v <= as; v++)
      printf("%s%u", v ? "," : "", o < MAX_TREES ? (unsigned)s->u.s.length[o][v] : 999u);
  }
  putchar(' ');
  for (t = 0; t < s->u.s.num_trees; t++) {
    unsigned o = s->u.s.tmap_new2old[t];
    if (t) putchar('/');
    for (v = 0; v <= as; v++)
      printf("%s%u", v ? "," : "", o < MAX_TREES ? (unsigned)s->u.s.code[o][v] : 0u);
  }
  putchar(' ');
  for (i = 0; i <= ns; i++)
    printf("%s%u", i ? "," : "", (unsigned)s->u.s.selector[i]);
  putchar(' ');
  for (i = 0; i < s->u.s.num_selectors; i++)
    printf("%s%u", i ? "," : "", (unsigned)s->u.s.selectorMTF[i]);
  printf(" %u %u %u ", (unsigned)s->u.s.num_selectors, s->u.s.tree_pad,
         (unsigned)s->nmtf);
  for (i = 0; i < (size_t)ns * GROUP_SIZE; i++)
    printf("%s%u", i ? "," : "", (unsigned)mtfv[i]);
  printf(" %u %u\n", (unsigned)s->nblock, (unsigned)crc);

done:
  free(out);
  free(s);
  free(in);
}

int
main(void)
{
  char *line = 0;
  size_t cap = 0;
  ssize_t len;

  while ((len = getline(&line, &cap, stdin)) > 0) {
    char *cmd, *a1, *a2, *a3, *save;
    line[strcspn(line, "\n")] = 0;
    cmd = strtok_r(line, " ", &save);
    a1 = strtok_r(0, " ", &save);
    a2 = strtok_r(0, " ", &save);
    a3 = strtok_r(0, " ", &save);
    if (cmd && !strcmp(cmd, "encode") && a1 && a2 && a3)
      do_encode(a1, a2, a3);
    else
      puts("bad-op");
    fflush(stdout);
  }
  free(line);
  return 0;
}
