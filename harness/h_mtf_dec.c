/* h_mtf_dec -- decoder half of the W10 (MTF / zero-run) correspondence
   harness: the real mtf_one() on a real struct retriever_internal_state set up
   with retrieve()'s own initialisation lines, and the real retrieve() driven
   with a bit stream built here from a bitmap and a list of bzip2-numbered
   symbols (two identical complete canonical codes, all selectors 0), so that
   the symbol-consumption loop (run / shift / runChar / tt / ftab / overflow /
   EOB) runs unmodified.

   crc_table comes from /repo/src/crctab.c (third translation unit). */
#define _GNU_SOURCE
#include <stdio.h>
#include <string.h>
#include <signal.h>
#include <setjmp.h>

#include "decode.c"

void *
xmalloc(size_t n)
{
  void *p = malloc(n ? n : 1);
  if (!p) { fputs("h_mtf: out of memory\n", stderr); _exit(3); }
  return p;
}

/* ------------------------------------------------------------ mtf_one */

static sigjmp_buf abort_env;

static void
on_abort(int sig)
{
  (void)sig;
  siglongjmp(abort_env, 1);
}

/* init[256]: initial list; idx[0..n): indices.  out[0..n): returned bytes.
   Returns 0 ok, 1 if mtf_one() called abort().  *row0 = imtf_row[0] -
   imtf_slide at the end; list[256] = the 16 rows concatenated;
   *minrow0 = smallest offset of row 0 seen; *rebuilds = number of times row 0
   jumped back up. */
int
h_mtfone(const uint8_t *init, const unsigned *idx, size_t n, uint8_t *out,
         long *row0, uint8_t *list, long *minrow0, unsigned *rebuilds)
{
  struct retriever_internal_state *rs =
    XMALLOC(struct retriever_internal_state);
  struct sigaction sa, old;
  size_t k;
  unsigned i;
  volatile int aborted = 0;
  long prev;

  /* retrieve(): bitmap loop leaves the i-th used byte at CMAP_BASE + i. */
  for (i = 0; i < 256; i++)
    rs->imtf_slide[CMAP_BASE + i] = init[i];

  /* retrieve(): "Initialize IMTF decoding structure." */
  for (i = 0; i < NUM_ROWS; i++)
    rs->imtf_row[i] = rs->imtf_slide + CMAP_BASE + i * ROW_WIDTH;

  memset(&sa, 0, sizeof sa);
  sa.sa_handler = on_abort;
  sigaction(SIGABRT, &sa, &old);

  *minrow0 = prev = rs->imtf_row[0] - rs->imtf_slide;
  *rebuilds = 0;
  if (sigsetjmp(abort_env, 1) == 0) {
    for (k = 0; k < n; k++) {
      long r;
      out[k] = mtf_one(rs->imtf_row, rs->imtf_slide, (uint8_t)idx[k]);
      r = rs->imtf_row[0] - rs->imtf_slide;
      if (r < *minrow0) *minrow0 = r;
      if (r > prev) ++*rebuilds;
      prev = r;
    }
  }
  else
    aborted = 1;
  sigaction(SIGABRT, &old, NULL);

  *row0 = rs->imtf_row[0] - rs->imtf_slide;
  for (i = 0; i < 256; i++)
    list[i] = rs->imtf_row[i / ROW_WIDTH][i % ROW_WIDTH];
  free(rs);
  return aborted;
}

/* --------------------------------------------------------- bit writer */

struct bw {
  uint32_t *w;
  size_t cap, n;                /* words */
  uint64_t acc;
  unsigned live;
};

static void
put(struct bw *b, unsigned nbits, uint32_t val)
{
  b->acc = (b->acc << nbits) | (val & ((1ull << nbits) - 1));
  b->live += nbits;
  while (b->live >= 32) {
    if (b->n == b->cap) {
      b->cap = b->cap ? 2 * b->cap : 1024;
      b->w = realloc(b->w, b->cap * sizeof(uint32_t));
    }
    b->w[b->n++] = htonl((uint32_t)(b->acc >> (b->live - 32)));
    b->live -= 32;
  }
}

/* used[0..nused) distinct bytes; syms bzip2 numbering (0 RUNA, 1 RUNB,
   2..nused = MTF position + 1, nused + 1 = EOB).  nsyms must be a multiple of
   GROUP_SIZE unless the list contains EOB (checked by the caller).
   chunk: number of 32-bit words made available per retrieve() call (0: all).
   Returns retrieve()'s final status; on OK/ERR_EMPTY *out (malloc'ed),
   *outlen and ftab[256] are filled. */
int
h_unmtf(const uint8_t *used, size_t nused, const unsigned *syms, size_t nsyms,
        size_t chunk, uint8_t **out, size_t *outlen, uint32_t *ftab,
        int *bad_tt)
{
  struct bw b;
  bool inuse[256];
  unsigned alpha = nused + 2, klen, nshort, i, j, t;
  unsigned big = 0, small[16];
  size_t nsel = (nsyms + GROUP_SIZE - 1) / GROUP_SIZE, s;
  struct decoder_state ds;
  struct bitstream bs;
  uint32_t *exact;
  int rv;

  memset(&b, 0, sizeof b);
  memset(inuse, 0, sizeof inuse);
  for (i = 0; i < nused; i++)
    inuse[used[i]] = true;

  put(&b, 1, 0);                /* rand */
  put(&b, 24, 0);               /* bwt_idx */
  for (i = 0; i < 16; i++) {
    small[i] = 0;
    for (j = 0; j < 16; j++)
      if (inuse[16 * i + j])
        small[i] |= 0x8000u >> j;
    if (small[i])
      big |= 0x8000u >> i;
  }
  put(&b, 16, big);
  for (i = 0; i < 16; i++)
    if (small[i])
      put(&b, 16, small[i]);

  put(&b, 3, 2);                /* two trees */
  put(&b, 15, (uint32_t)nsel);
  for (s = 0; s < nsel; s++)
    put(&b, 1, 0);              /* selector MTF value 0 */

  /* complete code: nshort symbols of klen-1 bits, the others klen bits */
  for (klen = 1; (1u << klen) < alpha; klen++)
    ;
  nshort = (1u << klen) - alpha;
  for (t = 0; t < 2; t++) {
    unsigned cur = nshort ? klen - 1 : klen;
    put(&b, 5, cur);
    for (i = 0; i < alpha; i++) {
      unsigned want = i < nshort ? klen - 1 : klen;
      while (cur < want) { put(&b, 2, 2); cur++; }
      while (cur > want) { put(&b, 2, 3); cur--; }
      put(&b, 1, 0);
    }
  }

  for (s = 0; s < nsyms; s++) {
    unsigned x = syms[s];
    if (x < nshort)
      put(&b, klen - 1, x);
    else
      put(&b, klen, 2 * nshort + (x - nshort));
  }
  /* NEED() wants 32 more bits before each symbol, and the fast path of
     retrieve() is taken only while at least 32 words of input remain: pad
     with 40 zero words (never decoded: EOB, an error or the end of the last
     group comes first), so that with chunk == 0 even a short symbol list runs
     through the fast path; with a small chunk the slow path is used. */
  put(&b, 31, 0);
  for (i = 0; i < 40; i++)
    put(&b, 32, 0);

  /* exact-size copy so that reading past the end is an ASan error */
  exact = malloc(b.n * sizeof(uint32_t));
  memcpy(exact, b.w, b.n * sizeof(uint32_t));
  free(b.w);

  decoder_init(&ds);
  memset(&bs, 0, sizeof bs);
  bs.live = 0;
  bs.buff = 0;
  bs.data = exact;
  if (chunk == 0 || chunk >= b.n) {
    bs.limit = exact + b.n;
    bs.eof = true;
  }
  else {
    bs.limit = exact + chunk;
    bs.eof = false;
  }
  for (;;) {
    rv = retrieve(&ds, &bs);
    if (rv != MORE)
      break;
    if (bs.eof) { rv = ERR_EOF; break; }
    if ((size_t)(exact + b.n - bs.limit) <= chunk) {
      bs.limit = exact + b.n;
      bs.eof = true;
    }
    else
      bs.limit += chunk;
  }

  *out = NULL;
  *outlen = 0;
  *bad_tt = 0;
  if (rv == OK || rv == ERR_EMPTY || rv == ERR_BWTIDX) {
    *outlen = ds.block_size;
    *out = malloc(*outlen ? *outlen : 1);
    for (s = 0; s < *outlen; s++) {
      if (ds.tt[s] > 255) *bad_tt = 1;
      (*out)[s] = (uint8_t)ds.tt[s];
    }
    memcpy(ftab, ds.ftab, 256 * sizeof(uint32_t));
  }
  decoder_free(&ds);
  free(exact);
  return rv;
}

unsigned h_row_width(void) { return ROW_WIDTH; }
unsigned h_slide_length(void) { return SLIDE_LENGTH; }
unsigned h_num_rows(void) { return NUM_ROWS; }
unsigned h_cmap_base(void) { return CMAP_BASE; }
unsigned h_max_block_size(void) { return MAX_BLOCK_SIZE; }
unsigned h_group_size(void) { return GROUP_SIZE; }

int h_err_ok = OK, h_err_empty = ERR_EMPTY, h_err_overflow = ERR_OVERFLOW,
  h_err_unterm = ERR_UNTERM;
