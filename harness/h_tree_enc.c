/* h_tree_enc -- implementation side of the W11 correspondence check, encoder
   part.  Calls the real static assign_codes() and the real
   generate_prefix_code() of /repo/src/encode.c.

   Protocol (one request per line):
     assign <freqs>
        -> <returned cost> ; <lengths> ; <codes>
        assign_codes(code, length, frequency, as) with as = number of freqs
        (3..258), exactly the call generate_prefix_code makes.
     gpc <cluster_factor> <mtfv list>
        -> <returned cost> <num_trees> <num_selectors> <dummy 0/1>
           then for every transmitted table, in transmission order,
           " ; <lengths> ; <codes> ; <frequency[t][0..as)>"
        Builds an encoder_state whose SA holds the given MTF values (the last
        one is EOB = as-1) and whose u.s.code[0][] holds their frequencies, as
        do_mtf() leaves them, and calls generate_prefix_code().  With at most
        150 values there is one real table and the dummy second table is
        built (dummy = 1; its codes/frequencies are not meaningful).
   Second translation unit: /repo/src/crctab.c.
*/
#define _GNU_SOURCE
#include <stdio.h>
#include <string.h>

#include "encode.c"

/* encode.c refers to divbwt() only inside encode(), which is never called. */
int32_t
divbwt(uint8_t *T, int32_t *SA, int32_t *bucket, int32_t n)
{
  (void)T; (void)SA; (void)bucket; (void)n;
  abort();
}

#define MAXV (MAX_BLOCK_SIZE + 1)

static long
parse_list(char *s, uint32_t *out, long cap)
{
  long n = 0;
  char *tok, *save;
  if (strcmp(s, "-") == 0) return 0;
  for (tok = strtok_r(s, ",", &save); tok; tok = strtok_r(0, ",", &save)) {
    if (n == cap) return -1;
    out[n++] = strtoul(tok, 0, 10);
  }
  return n;
}

static void
print_u8(const uint8_t *p, unsigned n)
{
  unsigned i;
  for (i = 0; i < n; i++) printf("%s%u", i ? "," : "", (unsigned)p[i]);
}

static void
print_u32(const uint32_t *p, unsigned n)
{
  unsigned i;
  for (i = 0; i < n; i++) printf("%s%u", i ? "," : "", (unsigned)p[i]);
}

static void
do_assign(char *a_freqs)
{
  /* same extents as the arrays inside struct encoder_state */
  uint32_t *frequency = malloc((MAX_ALPHA_SIZE + 1) * sizeof(uint32_t));
  uint32_t *code = malloc((MAX_ALPHA_SIZE + 1) * sizeof(uint32_t));
  uint8_t *length = malloc(MAX_ALPHA_SIZE + 1);
  long as = parse_list(a_freqs, frequency, MAX_ALPHA_SIZE);
  uint32_t cost;

  if (as < MIN_ALPHA_SIZE) { puts("bad-arg"); goto out; }
  memset(code, 0xA5, (MAX_ALPHA_SIZE + 1) * sizeof(uint32_t));
  memset(length, 0xA5, MAX_ALPHA_SIZE + 1);
  cost = assign_codes(code, length, frequency, as);
  printf("%u ; ", cost);
  print_u8(length, as);
  printf(" ; ");
  print_u32(code, as);
  printf("\n");
out:
  free(frequency); free(code); free(length);
}

static void
do_gpc(char *a_cf, char *a_mtfv)
{
  static uint32_t vals[MAXV];
  unsigned cf = strtoul(a_cf, 0, 10);
  long nm = parse_list(a_mtfv, vals, MAXV);
  long i;
  unsigned as, t, distinct = 0, seen = 0;
  unsigned long mbs;
  struct encoder_state *s;
  uint16_t *mtfv;
  unsigned cost;

  if (nm < 2 || cf < 1 || cf > 65535) { puts("bad-arg"); return; }
  as = vals[nm - 1] + 1;
  if (as < MIN_ALPHA_SIZE || as > MAX_ALPHA_SIZE) { puts("bad-arg"); return; }
  for (i = 0; i < nm; i++)
    if (vals[i] >= as || (i < nm - 1 && vals[i] == as - 1)) { puts("bad-arg"); return; }

  /* mtfv[] lives in SA (uint32 per block byte); nm <= nblock + 1 */
  mbs = nm < 16 ? 16 : nm;
  if (mbs > MAX_BLOCK_SIZE) mbs = MAX_BLOCK_SIZE;
  s = malloc(encoder_alloc_size(mbs));
  memset(s, 0, encoder_alloc_size(mbs));
  encoder_init(s, mbs, cf);
  mtfv = (void *)s->SA;
  for (i = 0; i < nm; i++) mtfv[i] = vals[i];
  s->nmtf = nm;
  for (i = 0; i < as; i++) s->u.s.code[0][i] = 0;
  for (i = 0; i < nm; i++) s->u.s.code[0][vals[i]]++;

  cost = generate_prefix_code(s);

  for (i = 0; i < (long)s->u.s.num_selectors; i++)
    if (!(seen & (1u << s->u.s.selector[i]))) {
      seen |= 1u << s->u.s.selector[i];
      distinct++;
    }
  printf("%u %u %u %d", cost, (unsigned)s->u.s.num_trees,
         (unsigned)s->u.s.num_selectors,
         distinct == 1 && s->u.s.num_trees == 2);
  for (t = 0; t < s->u.s.num_trees; t++) {
    unsigned o = s->u.s.tmap_new2old[t];
    printf(" ; ");
    print_u8(s->u.s.length[o], as);
    printf(" ; ");
    print_u32(s->u.s.code[o], as);
    printf(" ; ");
    print_u32(s->u.s.frequency[o], as);
  }
  printf("\n");
  free(s);
}

int
main(void)
{
  static char line[8 * MAXV];

  while (fgets(line, sizeof line, stdin)) {
    char *cmd, *a1, *a2, *save;
    line[strcspn(line, "\n")] = 0;
    cmd = strtok_r(line, " ", &save);
    a1 = strtok_r(0, " ", &save);
    a2 = strtok_r(0, " ", &save);
    if (!cmd || !a1) puts("bad-op");
    else if (strcmp(cmd, "assign") == 0) do_assign(a1);
    else if (strcmp(cmd, "gpc") == 0 && a2) do_gpc(a1, a2);
    else puts("bad-op");
    fflush(stdout);
  }
  return 0;
}
