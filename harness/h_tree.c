/* h_tree -- implementation side of the W11 correspondence check, decoder part.

   Calls the real static make_tree() of /repo/src/decode.c on a crafted
   retriever_internal_state (code_len[], alpha_size, t) and reads the verdict
   from rs->mtf[t], exactly as retrieve() does.

   The table lookup itself is not a function in decode.c (it is written out
   twice inside retrieve()); the five lines are REPLICATED here verbatim
   (marked below), with two guards added so that an out-of-bounds read is
   reported as "oob" instead of being performed.  The lookup inside retrieve()
   is exercised on whole streams by the C05/C06 campaigns.

   Protocol (one request per line):
     maketree <lens>             -> ok | incomplete | oversubscribed
     lookup <lens> <v 16 hex,...> -> for each window "<internal symbol> <length>" | oob,
                                    comma separated; or <verdict>
     tables <lens>               -> base[1..21] hex ; count[0..20] ; perm ; start
                                    | <verdict>
   The second translation unit is /repo/src/crctab.c (decode.c refers to
   crc_table).
*/
#define _GNU_SOURCE
#include <stdio.h>
#include <string.h>

#include "decode.c"

void *
xmalloc(size_t n)
{
  void *p = malloc(n ? n : 1);
  if (!p) abort();
  return p;
}

static int
parse_list(char *s, unsigned *out, unsigned cap)
{
  unsigned n = 0;
  char *tok, *save;
  if (strcmp(s, "-") == 0) return 0;
  for (tok = strtok_r(s, ",", &save); tok; tok = strtok_r(0, ",", &save)) {
    if (n == cap) return -1;
    out[n++] = strtoul(tok, 0, 10);
  }
  return n;
}

static const char *
verdict_name(unsigned m)
{
  if (m == ERR_INCOMPLT) return "incomplete";
  if (m == ERR_PREFIX) return "oversubscribed";
  return "ok";
}

/* Returns a freshly allocated state on which make_tree() has run, or NULL for
   arguments outside make_tree's domain. */
static struct retriever_internal_state *
run_make_tree(char *a_lens)
{
  unsigned lens[MAX_ALPHA_SIZE];
  int n = parse_list(a_lens, lens, MAX_ALPHA_SIZE);
  int i;
  struct retriever_internal_state *rs;

  if (n < MIN_ALPHA_SIZE) return 0;
  for (i = 0; i < n; i++)
    if (lens[i] < MIN_CODE_LENGTH || lens[i] > MAX_CODE_LENGTH) return 0;
  rs = malloc(sizeof *rs);
  memset(rs, 0xA5, sizeof *rs);
  rs->alpha_size = n;
  for (i = 0; i < n; i++) rs->code_len[i] = lens[i];
  rs->t = 0;
  make_tree(rs);
  return rs;
}

int
main(void)
{
  static char line[1 << 20];

  while (fgets(line, sizeof line, stdin)) {
    char *cmd, *a1, *a2, *save;
    line[strcspn(line, "\n")] = 0;
    cmd = strtok_r(line, " ", &save);
    a1 = strtok_r(0, " ", &save);
    a2 = strtok_r(0, " ", &save);
    if (!cmd || !a1) { puts("bad-op"); fflush(stdout); continue; }

    if (strcmp(cmd, "maketree") == 0) {
      struct retriever_internal_state *rs = run_make_tree(a1);
      if (!rs) puts("bad-arg");
      else { puts(verdict_name(rs->mtf[0])); free(rs); }
    }
    else if (strcmp(cmd, "lookup") == 0 && a2) {
      struct retriever_internal_state *rs = run_make_tree(a1);
      if (!rs) puts("bad-arg");
      else if (rs->mtf[0] != 0) { puts(verdict_name(rs->mtf[0])); free(rs); }
      else {
        char *tok, *sv;
        int first = 1;
        for (tok = strtok_r(a2, ",", &sv); tok; tok = strtok_r(0, ",", &sv)) {
          uint64_t v = strtoull(tok, 0, 16);
          struct tree *T = &rs->tree[rs->t];
          unsigned s = 0, x, k;
          int oob = 0;
          /* ---- replicated from retrieve(), decode.c ---- */
          x = T->start[PEEK(HUFF_START_WIDTH)];
          k = x & 0x1F;

          if (likely(k <= HUFF_START_WIDTH)) {
            s = x >> 5;
          }
          else {
            while (k + 1 <= MAX_CODE_LENGTH + 1 /* guard */ && v >= T->base[k + 1])
              k++;
            if (k > MAX_CODE_LENGTH) oob = 1;   /* guard */
            else {
              uint64_t idx = T->count[k] + ((v - T->base[k]) >> (64 - k));
              if (idx >= rs->alpha_size) oob = 1;   /* guard */
              else
                s = T->perm[T->count[k] + ((v - T->base[k]) >> (64 - k))];
            }
          }
          /* ---- end of replicated lines ---- */
          if (!first) putchar(',');
          first = 0;
          if (oob) printf("oob"); else printf("%u %u", s, k);
        }
        putchar('\n');
        free(rs);
      }
    }
    else if (strcmp(cmd, "tables") == 0) {
      struct retriever_internal_state *rs = run_make_tree(a1);
      if (!rs) puts("bad-arg");
      else if (rs->mtf[0] != 0) { puts(verdict_name(rs->mtf[0])); free(rs); }
      else {
        struct tree *T = &rs->tree[0];
        unsigned i;
        for (i = 1; i <= MAX_CODE_LENGTH + 1; i++)
          printf("%s%016llx", i > 1 ? "," : "", (unsigned long long)T->base[i]);
        printf(" ; ");
        for (i = 0; i <= MAX_CODE_LENGTH; i++)
          printf("%s%u", i ? "," : "", T->count[i]);
        printf(" ; ");
        for (i = 0; i < rs->alpha_size; i++)
          printf("%s%u", i ? "," : "", (unsigned)T->perm[i]);
        printf(" ; ");
        for (i = 0; i < (1u << HUFF_START_WIDTH); i++)
          printf("%s%u", i ? "," : "", (unsigned)T->start[i]);
        printf("\n");
        free(rs);
      }
    }
    else puts("bad-op");
    fflush(stdout);
  }
  return 0;
}
