/* LD_PRELOAD allocation accounting for the C13 check.
 *
 * Interposes malloc/calloc/realloc/free and _exit.  Every block carries a
 * 32-byte header (size, caller return address).  Tracks live bytes, peak live
 * bytes, live block count; at _exit()/exit writes to $MALLOCSHIM_OUT:
 *   peak_live <bytes>
 *   live_at_exit <bytes> <blocks>
 *   site <caller-address-relative-to-exe-base> <size> <count>   (blocks still
 *        live at exit, grouped)
 * lbzip2 leaves through _exit(), so a destructor alone would never run.
 */
#define _GNU_SOURCE
#include <dlfcn.h>
#include <pthread.h>
#include <stdint.h>
#include <stdio.h>
#include <stdlib.h>
#include <string.h>
#include <unistd.h>

struct hdr {
  size_t size;
  void *caller;
  struct hdr *prev, *next;
};

static void *(*real_malloc)(size_t);
static void (*real_free)(void *);
static void *(*real_realloc)(void *, size_t);
static pthread_mutex_t mu = PTHREAD_MUTEX_INITIALIZER;
static struct hdr head = { 0, 0, &head, &head };
static size_t live, peak, nlive;
static char boot[65536];
static size_t boot_used;
static int in_init;

static void
init(void)
{
  if (real_malloc || in_init)
    return;
  in_init = 1;
  real_malloc = dlsym(RTLD_NEXT, "malloc");
  real_free = dlsym(RTLD_NEXT, "free");
  real_realloc = dlsym(RTLD_NEXT, "realloc");
  in_init = 0;
}

static void *
account(struct hdr *h, size_t n, void *caller)
{
  h->size = n;
  h->caller = caller;
  pthread_mutex_lock(&mu);
  h->next = head.next;
  h->prev = &head;
  head.next->prev = h;
  head.next = h;
  live += n;
  nlive++;
  if (live > peak)
    peak = live;
  pthread_mutex_unlock(&mu);
  return h + 1;
}

void *
malloc(size_t n)
{
  struct hdr *h;

  init();
  if (!real_malloc) {           /* dlsym itself allocating */
    void *p = boot + boot_used;
    boot_used += (n + 15) & ~(size_t)15;
    return boot_used <= sizeof boot ? p : NULL;
  }
  h = real_malloc(n + sizeof *h);
  if (!h)
    return NULL;
  return account(h, n, __builtin_return_address(0));
}

void *
calloc(size_t a, size_t b)
{
  void *p = malloc(a * b);

  if (p)
    memset(p, 0, a * b);
  return p;
}

static int
is_boot(void *p)
{
  return (char *)p >= boot && (char *)p < boot + sizeof boot;
}

void
free(void *p)
{
  struct hdr *h;

  if (!p || is_boot(p))
    return;
  init();
  h = (struct hdr *)p - 1;
  pthread_mutex_lock(&mu);
  h->prev->next = h->next;
  h->next->prev = h->prev;
  live -= h->size;
  nlive--;
  pthread_mutex_unlock(&mu);
  real_free(h);
}

void *
realloc(void *p, size_t n)
{
  void *q;
  struct hdr *h;

  if (!p)
    return malloc(n);
  if (is_boot(p)) {
    q = malloc(n);
    if (q)
      memcpy(q, p, n);
    return q;
  }
  h = (struct hdr *)p - 1;
  q = malloc(n);
  if (q) {
    memcpy(q, p, h->size < n ? h->size : n);
    free(p);
  }
  return q;
}

static uintptr_t exe_lo, exe_hi;

static void
exe_range(void)
{
  FILE *f = fopen("/proc/self/maps", "r");
  char line[1024], self[512];
  ssize_t n = readlink("/proc/self/exe", self, sizeof self - 1);

  if (!f || n <= 0)
    return;
  self[n] = 0;
  while (fgets(line, sizeof line, f)) {
    unsigned long lo, hi;

    if (strstr(line, self) && sscanf(line, "%lx-%lx", &lo, &hi) == 2) {
      if (!exe_lo || lo < exe_lo)
        exe_lo = lo;
      if (hi > exe_hi)
        exe_hi = hi;
    }
  }
  fclose(f);
}

static void
report(void)
{
  const char *path = getenv("MALLOCSHIM_OUT");
  FILE *f;
  struct hdr *h;
  static int done;

  if (!path || done)
    return;
  done = 1;
  exe_range();
  f = fopen(path, "w");
  if (!f)
    return;
  fprintf(f, "peak_live %zu\n", peak);
  fprintf(f, "live_at_exit %zu %zu\n", live, nlive);
  for (h = head.next; h != &head; h = h->next) {
    uintptr_t c = (uintptr_t)h->caller;

    if (c >= exe_lo && c < exe_hi)
      fprintf(f, "site exe+%#lx %zu\n", (unsigned long)(c - exe_lo), h->size);
    else
      fprintf(f, "site lib %zu\n", h->size);
  }
  fclose(f);
}

void
_exit(int st)
{
  void (*real)(int) = dlsym(RTLD_NEXT, "_exit");

  report();
  real(st);
  for (;;)
    ;
}

__attribute__((destructor)) static void
fini(void)
{
  report();
}
