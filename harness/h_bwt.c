/* h_bwt -- implementation side of the W24 correspondence check: the real
   divbwt() of /repo/src/divbwt.c (second translation unit; third:
   /repo/src/crctab.c for encode.c's crc_table), called exactly the way
   encode() of /repo/src/encode.c calls it:

       uint8_t *block = (void *)(s->SA + s->max_block_size + GROUP_SIZE);
       ...
       s->bwt_idx = divbwt(block, s->SA, s->u.bucket, s->nblock);

   i.e. one heap object of encoder_alloc_size(max_block_size) bytes holding
   struct encoder_state, SA[max_block_size + GROUP_SIZE] and
   block[max_block_size + 1] (divbwt() writes the sentinel T[n] = T[0]); the
   bucket array is the union member u.bucket[65536 + 256].  encode.c is
   #included so that struct encoder_state, encoder_alloc_size() and
   encoder_init() are the real ones.

   After the call SA[0..n) holds the last column, one int32 per byte (that is
   what do_mtf() reads), and the return value is the primary index (the row of
   the unrotated block).

   Protocol (one request per line):
     bwt <cap> <hex T>
        cap = max_block_size given to encoder_init (0: cap = n, the tightest
        layout -- block[] then ends right after the sentinel, the end of the
        heap object, so any further write is an ASan error).
        Reply:  ok <primary index> <hex L>
              | bad-sa <i> <SA[i]>      (an entry outside 0..255)
              | bad-arg
*/
#define _GNU_SOURCE
#include <stdio.h>
#include <string.h>

#include "encode.c"

void *
xmalloc(size_t n)
{
  void *p = malloc(n ? n : 1);
  if (!p) abort();
  return p;
}

static int
hexval(int c)
{
  if (c >= '0' && c <= '9') return c - '0';
  if (c >= 'a' && c <= 'f') return c - 'a' + 10;
  if (c >= 'A' && c <= 'F') return c - 'A' + 10;
  return -1;
}

static void
do_bwt(char *a_cap, char *a_hex)
{
  unsigned long cap = strtoul(a_cap, 0, 10);
  size_t hl = strcmp(a_hex, "-") == 0 ? 0 : strlen(a_hex);
  size_t n = hl / 2, i;
  struct encoder_state *s;
  uint8_t *block;
  int32_t idx;

  if ((hl & 1) || n == 0 || n > MAX_BLOCK_SIZE) { puts("bad-arg"); return; }
  if (cap == 0) cap = n;
  if (cap < n || cap > MAX_BLOCK_SIZE) { puts("bad-arg"); return; }
  for (i = 0; i < hl; i++)
    if (hexval(a_hex[i]) < 0) { puts("bad-arg"); return; }

  /* compress.c: wblk->enc = xmalloc(encoder_alloc_size(bs100k * 100000u));
                 encoder_init(wblk->enc, bs100k * 100000u, CLUSTER_FACTOR); */
  s = xmalloc(encoder_alloc_size(cap));
  encoder_init(s, cap, 8);

  /* encode(): */
  block = (void *)(s->SA + s->max_block_size + GROUP_SIZE);
  for (i = 0; i < n; i++)
    block[i] = (uint8_t)(hexval(a_hex[2 * i]) * 16 + hexval(a_hex[2 * i + 1]));
  s->nblock = n;
  /* poison what divbwt() must define itself */
  for (i = 0; i < n; i++) s->SA[i] = 0x5a5a5a5a;
  memset(s->u.bucket, 0x5a, sizeof s->u.bucket);

  idx = divbwt(block, s->SA, s->u.bucket, s->nblock);

  for (i = 0; i < n; i++)
    if (s->SA[i] < 0 || s->SA[i] > 255) {
      printf("bad-sa %zu %ld\n", i, (long)s->SA[i]);
      free(s);
      return;
    }
  printf("ok %ld ", (long)idx);
  for (i = 0; i < n; i++) printf("%02x", (unsigned)s->SA[i]);
  putchar('\n');
  free(s);
}

int
main(void)
{
  char *line = 0;
  size_t cap = 0;
  ssize_t len;

  while ((len = getline(&line, &cap, stdin)) > 0) {
    char *tok[4];
    int nt = 0;
    char *p;
    if (line[len - 1] == '\n') line[len - 1] = 0;
    for (p = strtok(line, " "); p && nt < 4; p = strtok(0, " ")) tok[nt++] = p;
    if (nt == 3 && strcmp(tok[0], "bwt") == 0) do_bwt(tok[1], tok[2]);
    else puts("bad-op");
    fflush(stdout);
  }
  free(line);
  return 0;
}
