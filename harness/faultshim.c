/*
 * faultshim.c -- LD_PRELOAD fault / signal injector for the C16 and C21
 * process-level campaigns (work package W8).
 *
 *   gcc -O1 -g -shared -fPIC -o faultshim.so faultshim.c -ldl -lpthread
 *   FAULT_CLASS=write FAULT_INDEX=3 FAULT_ERRNO=EIO \
 *       LD_PRELOAD=./faultshim.so lbzip2 -1 -n2 file
 *
 * The shim interposes the system-call wrappers lbzip2 uses for everything the
 * two properties talk about:
 *
 *   class      functions
 *   read       read
 *   write      write
 *   close      close
 *   open       open, open64, openat, openat64
 *   unlink     unlink
 *   fchown     fchown
 *   fchmod     fchmod
 *   futimens   futimens
 *   lstat      lstat, lstat64
 *   fstat      fstat, fstat64
 *
 * Every call of a class is numbered 0,1,2,... in the order the calls are
 * ENTERED (one atomic counter per class, shared by all threads).  Only calls
 * "that matter" are numbered: read/write/close on file descriptor 2 are
 * passed through unnumbered unless FAULT_STDERR=1 (lbzip2 itself writes to
 * stderr through stdio, whose internal write() is not interposable anyway),
 * and the shim's own log descriptor is invisible.
 *
 * Environment:
 *   FAULT_CLASS   one of the class names above (unset/"none": only log)
 *   FAULT_INDEX   0-based index of the call of that class to hit
 *   FAULT_ERRNO   EIO|ENOSPC|EPIPE|EFBIG|EACCES|EPERM|EINTR|EDQUOT|ENOENT|
 *                 EEXIST|EBADF|ENOMEM|EROFS|EMFILE|EISDIR or a number:
 *                 the call is NOT performed, returns -1 with that errno
 *   FAULT_SIGNAL  INT|TERM|KILL|PIPE|XFSZ|USR1|USR2 or a number: the signal
 *                 is sent to the whole process with kill(getpid(), sig)
 *   FAULT_WHEN    before (default) | after : signal before the call is
 *                 performed or after it has been performed
 *   FAULT_SHORT   n>0: the hit read/write is performed with at most n bytes
 *                 (a legal short transfer, not an error)
 *   FAULT_STICKY  1: every call of the class with index >= FAULT_INDEX is hit
 *                 (a device that stays full / a pipe that stays broken)
 *   FAULT_STDERR  1: number and hit calls on fd 2 as well
 *   FAULT_LOG     path: append one line per numbered call
 *                   <class> <index> <M|S> <fd-or-path> <size|-> = <ret> <errno>
 *                   [ inject=<what>]
 *                 M = called on the main thread, S = on a sub-thread.
 *
 * KERNEL SEMANTICS MADE VISIBLE.  A real write() that fails with EPIPE also
 * generates SIGPIPE for the *calling thread*; one that fails with EFBIG
 * (RLIMIT_FSIZE) generates SIGXFSZ for the calling thread.  lbzip2's error
 * path depends on this (signals.c: promote() looks for exactly these signals
 * pending on the failing thread).  An errno injected from user space would
 * not have that side effect, so for class "write" the shim emulates it:
 * before returning -1/EPIPE it does pthread_kill(pthread_self(), SIGPIPE),
 * before returning -1/EFBIG pthread_kill(pthread_self(), SIGXFSZ).  (With
 * the signal ignored by the process the kernel discards it on generation,
 * exactly as it does for a real EPIPE.)  Set FAULT_NOSIG=1 to suppress the
 * emulation (to see what a bare errno would do).
 *
 * The shim was cross-checked against `strace -f -e inject=write:error=E:when=N`
 * (and `:signal=SIGPIPE`); see checks/C16.py / checks/C21.py (thorough tier
 * re-runs the comparison when strace is available).
 */
#define _GNU_SOURCE
#include <dlfcn.h>
#include <errno.h>
#include <fcntl.h>
#include <pthread.h>
#include <signal.h>
#include <stdarg.h>
#include <stdio.h>
#include <stdlib.h>
#include <string.h>
#include <sys/stat.h>
#include <sys/syscall.h>
#include <sys/types.h>
#include <time.h>
#include <unistd.h>

enum { C_READ, C_WRITE, C_CLOSE, C_OPEN, C_UNLINK, C_FCHOWN, C_FCHMOD,
  C_FUTIMENS, C_LSTAT, C_FSTAT, C_N };

static const char *const cname[C_N] = { "read", "write", "close", "open",
  "unlink", "fchown", "fchmod", "futimens", "lstat", "fstat" };

static int f_class = -1;
static long f_index = -1;
static int f_errno;             /* 0: none */
static int f_signal;            /* 0: none */
static int f_after;
static long f_short;
static int f_sticky;
static int f_stderr;
static int f_nosig;
static int log_fd = -1;
static int ready;
static long counter[C_N];

static const struct { const char *n; int v; } enames[] = {
  {"EIO", EIO}, {"ENOSPC", ENOSPC}, {"EPIPE", EPIPE}, {"EFBIG", EFBIG},
  {"EACCES", EACCES}, {"EPERM", EPERM}, {"EINTR", EINTR}, {"EDQUOT", EDQUOT},
  {"ENOENT", ENOENT}, {"EEXIST", EEXIST}, {"EBADF", EBADF},
  {"ENOMEM", ENOMEM}, {"EROFS", EROFS}, {"EMFILE", EMFILE},
  {"EISDIR", EISDIR}, {0, 0}
};

static const struct { const char *n; int v; } snames[] = {
  {"INT", SIGINT}, {"TERM", SIGTERM}, {"KILL", SIGKILL}, {"PIPE", SIGPIPE},
  {"XFSZ", SIGXFSZ}, {"USR1", SIGUSR1}, {"USR2", SIGUSR2},
  {"SIGINT", SIGINT}, {"SIGTERM", SIGTERM}, {"SIGKILL", SIGKILL}, {0, 0}
};

static const char *
ename(int e)
{
  int i;
  static __thread char buf[16];

  if (e == 0)
    return "0";
  for (i = 0; enames[i].n; i++)
    if (enames[i].v == e)
      return enames[i].n;
  snprintf(buf, sizeof buf, "E%d", e);
  return buf;
}

__attribute__((constructor))
static void
shim_init(void)
{
  const char *e;
  int i;

  if ((e = getenv("FAULT_CLASS")) != NULL)
    for (i = 0; i < C_N; i++)
      if (strcmp(e, cname[i]) == 0)
        f_class = i;
  if ((e = getenv("FAULT_INDEX")) != NULL && *e)
    f_index = strtol(e, NULL, 10);
  if ((e = getenv("FAULT_ERRNO")) != NULL && *e) {
    f_errno = (int)strtol(e, NULL, 10);
    for (i = 0; enames[i].n; i++)
      if (strcmp(e, enames[i].n) == 0)
        f_errno = enames[i].v;
  }
  if ((e = getenv("FAULT_SIGNAL")) != NULL && *e) {
    f_signal = (int)strtol(e, NULL, 10);
    for (i = 0; snames[i].n; i++)
      if (strcmp(e, snames[i].n) == 0)
        f_signal = snames[i].v;
  }
  if ((e = getenv("FAULT_WHEN")) != NULL && strcmp(e, "after") == 0)
    f_after = 1;
  if ((e = getenv("FAULT_SHORT")) != NULL && *e)
    f_short = strtol(e, NULL, 10);
  if ((e = getenv("FAULT_STICKY")) != NULL && *e && *e != '0')
    f_sticky = 1;
  if ((e = getenv("FAULT_STDERR")) != NULL && *e && *e != '0')
    f_stderr = 1;
  if ((e = getenv("FAULT_NOSIG")) != NULL && *e && *e != '0')
    f_nosig = 1;
  if ((e = getenv("FAULT_LOG")) != NULL && *e) {
    int fd = (int)syscall(SYS_openat, AT_FDCWD, e,
                          O_WRONLY | O_CREAT | O_APPEND | O_CLOEXEC, 0600);
    if (fd >= 0) {
      /* move it out of the way of the low descriptors lbzip2 will get, so
         that the program sees the same fd numbers as without the shim */
      int hi = (int)syscall(SYS_fcntl, fd, F_DUPFD_CLOEXEC, 200);
      if (hi >= 0) {
        syscall(SYS_close, fd);
        fd = hi;
      }
      log_fd = fd;
    }
  }
  ready = 1;
}

static void
logline(int cls, long idx, const char *arg, long size, long ret, int err,
  const char *inj)
{
  char buf[512];
  int n;

  if (log_fd < 0)
    return;
  n = snprintf(buf, sizeof buf, "%s %ld %c %s %ld = %ld %s%s%s\n", cname[cls],
               idx, (long)syscall(SYS_gettid) == (long)getpid() ? 'M' : 'S',
               arg, size, ret, ename(err), inj ? " inject=" : "",
               inj ? inj : "");
  if (n > 0)
    (void)!syscall(SYS_write, log_fd, buf, (size_t)n);
}

/* Number the call; say whether it is the one to hit. */
static int
number(int cls, long *idx)
{
  *idx = __atomic_fetch_add(&counter[cls], 1, __ATOMIC_SEQ_CST);
  if (cls != f_class || f_index < 0)
    return 0;
  return f_sticky ? *idx >= f_index : *idx == f_index;
}

static void
send_signal(void)
{
  syscall(SYS_kill, (long)getpid(), (long)f_signal);
}

static int
skip_fd(int fd)
{
  return !ready || fd == log_fd || (fd == 2 && !f_stderr);
}

/* The kernel generates SIGPIPE / SIGXFSZ for the thread whose write() fails
   with EPIPE / EFBIG; reproduce that for an injected errno. */
static void
emulate_write_signal(int e)
{
  if (f_nosig)
    return;
  if (e == EPIPE)
    pthread_kill(pthread_self(), SIGPIPE);
  else if (e == EFBIG)
    pthread_kill(pthread_self(), SIGXFSZ);
}

#define REAL(type, name, ...)                                   \
  static type (*real)(__VA_ARGS__);                             \
  if (!real)                                                    \
    real = (type (*)(__VA_ARGS__))dlsym(RTLD_NEXT, name)

/* Common wrapper body for calls whose result is an int/ssize_t.
   CALL performs the real call into `ret`. */
#define BODY(cls, argstr, size, CALL, is_write)                 \
  do {                                                          \
    long idx_;                                                  \
    int hit_ = number(cls, &idx_);                              \
    int err_;                                                   \
    if (hit_ && f_signal && !f_after) {                         \
      logline(cls, idx_, argstr, (long)(size), 0, 0,            \
              "signal-before");                                 \
      send_signal();                                            \
    }                                                           \
    if (hit_ && f_errno) {                                      \
      if (is_write)                                             \
        emulate_write_signal(f_errno);                          \
      logline(cls, idx_, argstr, (long)(size), -1, f_errno,     \
              "errno");                                         \
      errno = f_errno;                                          \
      return -1;                                                \
    }                                                           \
    CALL;                                                       \
    err_ = errno;                                               \
    logline(cls, idx_, argstr, (long)(size), (long)ret,         \
            ret < 0 ? err_ : 0,                                 \
            hit_ && f_short ? "short" : NULL);                  \
    if (hit_ && f_signal && f_after) {                          \
      logline(cls, idx_, argstr, (long)(size), (long)ret, 0,    \
              "signal-after");                                  \
      send_signal();                                            \
    }                                                           \
    errno = err_;                                               \
    return ret;                                                 \
  } while (0)

static const char *
fdstr(int fd, char *buf)
{
  snprintf(buf, 24, "fd%d", fd);
  return buf;
}

ssize_t
read(int fd, void *b, size_t n)
{
  ssize_t ret;
  char a[24];
  REAL(ssize_t, "read", int, void *, size_t);

  if (skip_fd(fd))
    return real(fd, b, n);
  BODY(C_READ, fdstr(fd, a), n,
       ret = real(fd, b, (hit_ && f_short > 0 && (size_t)f_short < n)
                  ? (size_t)f_short : n), 0);
}

ssize_t
write(int fd, const void *b, size_t n)
{
  ssize_t ret;
  char a[24];
  REAL(ssize_t, "write", int, const void *, size_t);

  if (skip_fd(fd))
    return real(fd, b, n);
  BODY(C_WRITE, fdstr(fd, a), n,
       ret = real(fd, b, (hit_ && f_short > 0 && (size_t)f_short < n)
                  ? (size_t)f_short : n), 1);
}

int
close(int fd)
{
  int ret;
  char a[24];
  REAL(int, "close", int);

  if (skip_fd(fd))
    return real(fd);
  BODY(C_CLOSE, fdstr(fd, a), 0, ret = real(fd), 0);
}

int
unlink(const char *p)
{
  int ret;
  REAL(int, "unlink", const char *);

  if (!ready)
    return real(p);
  BODY(C_UNLINK, p, 0, ret = real(p), 0);
}

int
fchown(int fd, uid_t u, gid_t g)
{
  int ret;
  char a[24];
  REAL(int, "fchown", int, uid_t, gid_t);

  if (!ready)
    return real(fd, u, g);
  BODY(C_FCHOWN, fdstr(fd, a), 0, ret = real(fd, u, g), 0);
}

int
fchmod(int fd, mode_t m)
{
  int ret;
  char a[24];
  REAL(int, "fchmod", int, mode_t);

  if (!ready)
    return real(fd, m);
  BODY(C_FCHMOD, fdstr(fd, a), (long)m, ret = real(fd, m), 0);
}

int
futimens(int fd, const struct timespec ts[2])
{
  int ret;
  char a[24];
  REAL(int, "futimens", int, const struct timespec *);

  if (!ready)
    return real(fd, ts);
  BODY(C_FUTIMENS, fdstr(fd, a), 0, ret = real(fd, ts), 0);
}

static int
open_common(const char *sym, int dirfd, const char *p, int flags, mode_t mode)
{
  int ret;
  static int (*real_openat)(int, const char *, int, ...);

  (void)sym;
  if (!real_openat)
    real_openat = (int (*)(int, const char *, int, ...))
        dlsym(RTLD_NEXT, "openat64");
  if (!real_openat)
    real_openat = (int (*)(int, const char *, int, ...))
        dlsym(RTLD_NEXT, "openat");
  if (!ready)
    return real_openat(dirfd, p, flags, mode);
  BODY(C_OPEN, p, (long)flags, ret = real_openat(dirfd, p, flags, mode), 0);
}

#define OPEN_MODE()                             \
  mode_t mode = 0;                              \
  if (flags & (O_CREAT | O_TMPFILE)) {          \
    va_list ap;                                 \
    va_start(ap, flags);                        \
    mode = (mode_t)va_arg(ap, int);             \
    va_end(ap);                                 \
  }

int
open(const char *p, int flags, ...)
{
  OPEN_MODE();
  return open_common("open", AT_FDCWD, p, flags, mode);
}

int
open64(const char *p, int flags, ...)
{
  OPEN_MODE();
  return open_common("open64", AT_FDCWD, p, flags | O_LARGEFILE, mode);
}

int
openat(int dirfd, const char *p, int flags, ...)
{
  OPEN_MODE();
  return open_common("openat", dirfd, p, flags, mode);
}

int
openat64(int dirfd, const char *p, int flags, ...)
{
  OPEN_MODE();
  return open_common("openat64", dirfd, p, flags | O_LARGEFILE, mode);
}

/* glibc >= 2.33 exports lstat/fstat (and the 64 variants) as real functions;
   on x86-64 `struct stat` and `struct stat64` have the same layout. */
int
lstat(const char *p, struct stat *sb)
{
  int ret;
  REAL(int, "lstat", const char *, struct stat *);

  if (!ready)
    return real(p, sb);
  BODY(C_LSTAT, p, 0, ret = real(p, sb), 0);
}

int
lstat64(const char *p, struct stat64 *sb)
{
  int ret;
  REAL(int, "lstat64", const char *, struct stat64 *);

  if (!ready)
    return real(p, sb);
  BODY(C_LSTAT, p, 0, ret = real(p, sb), 0);
}

int
fstat(int fd, struct stat *sb)
{
  int ret;
  char a[24];
  REAL(int, "fstat", int, struct stat *);

  if (!ready)
    return real(fd, sb);
  BODY(C_FSTAT, fdstr(fd, a), 0, ret = real(fd, sb), 0);
}

int
fstat64(int fd, struct stat64 *sb)
{
  int ret;
  char a[24];
  REAL(int, "fstat64", int, struct stat64 *);

  if (!ready)
    return real(fd, sb);
  BODY(C_FSTAT, fdstr(fd, a), 0, ret = real(fd, sb), 0);
}
