/* h_collect -- implementation side of the C04 / RLE1 correspondence check.

   Drives the real collect() of /repo/src/encode.c exactly as compress.c does:
   encoder_alloc_size / encoder_init, then one collect() call per buffer with
   (pointer, remaining size), stopping at the first call that returns "full";
   then the "Finalize initial RLE" step of encode() (the statements at the top
   of encode(), textually included from the source -- encode() itself is not
   called, it would go on to sort the block).

   Every buffer is its own exact-size malloc, so that a look-ahead past the end
   of a buffer (the fourth-byte peek of STATE 3 / finish_run) is an ASan error.

   Protocol (one request per line):
     collect <cap> <hex input | -> <sizes, comma separated | ->
       -> <full 0/1> <consumed> <hex block after flush | -> <nblock before flush>
          <rle_state> <block_crc ^ 0xffffffff, %08x> <rle_character %02x | ->
          <cmap as 64 hex digits, bit b of byte b/8 ... see below>
     sizeof -> sizeof(struct encoder_state)
*/
#define _GNU_SOURCE
#include <stdio.h>
#include <string.h>

#include "encode.c"
/* crc_table comes from /repo/src/crctab.c, compiled as a second translation
   unit (common.h has no include guard, so it cannot be #included twice). */

/* encode.c refers to divbwt() only inside encode(), which is never called. */
int32_t
divbwt(uint8_t *T, int32_t *SA, int32_t *bucket, int32_t n)
{
  (void)T; (void)SA; (void)bucket; (void)n;
  abort();
}

static int
hexval(int c)
{
  if (c >= '0' && c <= '9') return c - '0';
  if (c >= 'a' && c <= 'f') return c - 'a' + 10;
  return -1;
}

/* "Finalize initial RLE" of encode().  checks/C04.py cuts these statements out
   of the encode.c being checked (from the comment `Finalize initial RLE.` to
   the `assert(s->nblock > 0);` that follows) into finalize_rle.inc, so that the
   harness runs the source text itself; without that file (manual builds) the
   copy below, taken from the pinned tree, is used. */
static void
finalize_rle(struct encoder_state *s)
{
  uint8_t *block = (void *)(s->SA + s->max_block_size + GROUP_SIZE);
#ifdef HAVE_FINALIZE_INC
#include "finalize_rle.inc"
#else
  if (s->rle_state >= 4) {
    assert(s->nblock < s->max_block_size);
    block[s->nblock++] = s->rle_state - 4;
    s->cmap[s->rle_state - 4] = true;
  }
#endif
}

/* One exact-size encoder allocation per capacity, kept across requests: the
   sanitizer's allocator needs more than a millisecond for a fresh 260 kB
   allocation, which would limit the campaign to a few hundred cases per second.
   The allocation stays exact (encoder_alloc_size(cap) bytes, block at its end),
   so a write past the block is still an ASan error.  Everything encoder_init()
   does not set is overwritten with a pattern before each use, so that no case
   can see data of an earlier one. */
#define ENC_CACHE 1024
static struct encoder_state *enc_cache[ENC_CACHE + 1];

static struct encoder_state *
get_encoder(unsigned long cap)
{
  struct encoder_state *e;
  size_t head = offsetof(struct encoder_state, u);
  if (cap <= ENC_CACHE && enc_cache[cap] != 0)
    e = enc_cache[cap];
  else {
    e = malloc(encoder_alloc_size(cap));
    if (cap <= ENC_CACHE)
      enc_cache[cap] = e;
  }
  memset(e, 0xEE, head);
  /* the block: max_block_size + 1 bytes at the very end of the allocation */
  memset((uint8_t *)(e->SA + cap + GROUP_SIZE), 0xEE, cap + 1);
  return e;
}

static void
put_encoder(struct encoder_state *e, unsigned long cap)
{
  if (cap > ENC_CACHE)
    free(e);
}

static void
do_collect_cmd(char *a_cap, char *a_hex, char *a_sizes)
{
  unsigned long cap = strtoul(a_cap, 0, 10);
  size_t n = 0, i;
  uint8_t *input;
  size_t hl = strlen(a_hex);
  struct encoder_state *e;
  size_t off = 0, consumed = 0, total = 0;
  int full = 0;
  uint32_t nblock_before;
  uint8_t *block;
  char *tok, *save;
  size_t sizes[4096];
  size_t ns = 0;

  if (cap == 0 || cap > MAX_BLOCK_SIZE) { puts("bad-args"); return; }

  if (strcmp(a_hex, "-") != 0) {
    if (hl % 2) { puts("bad-args"); return; }
    n = hl / 2;
  }
  input = malloc(n ? n : 1);
  for (i = 0; i < n; i++) {
    int x = hexval(a_hex[2 * i]), y = hexval(a_hex[2 * i + 1]);
    if (x < 0 || y < 0) { puts("bad-args"); free(input); return; }
    input[i] = 16 * x + y;
  }

  if (strcmp(a_sizes, "-") != 0) {
    for (tok = strtok_r(a_sizes, ",", &save); tok; tok = strtok_r(0, ",", &save)) {
      if (ns == 4096) { puts("bad-args"); free(input); return; }
      sizes[ns] = strtoul(tok, 0, 10);
      total += sizes[ns++];
    }
  }
  if (total != n) { puts("bad-args"); free(input); return; }

  e = get_encoder(cap);
  encoder_init(e, cap, CLUSTER_FACTOR);

  for (i = 0; i < ns && !full; i++) {
    /* exact-size copy of this buffer */
    uint8_t *buf = malloc(sizes[i]);
    uint8_t dummy;
    size_t left = sizes[i];
    const uint8_t *arg = buf ? buf : &dummy;   /* malloc(0) may return NULL */
    if (sizes[i])
      memcpy(buf, input + off, sizes[i]);
    full = collect(e, arg, &left);
    if (!full && left != 0) {
      /* collect() must consume everything unless the block is full */
      printf("anomaly not-full-but-left=%zu\n", left);
      free(buf); put_encoder(e, cap); free(input);
      return;
    }
    consumed += sizes[i] - left;
    off += sizes[i];
    free(buf);
  }

  nblock_before = e->nblock;
  block = (void *)(e->SA + e->max_block_size + GROUP_SIZE);

  finalize_rle(e);

  /* reply, formatted by hand (printf per byte dominated the run time) */
  {
    static const char hexd[] = "0123456789abcdef";
    static char *out = 0;
    static size_t out_cap = 0;
    size_t need = 2 * (size_t)e->nblock + 200, o = 0;
    if (need > out_cap) {
      free(out);
      out = malloc(need);
      out_cap = need;
    }
    o += sprintf(out + o, "%d %zu ", full, consumed);
    if (e->nblock == 0)
      out[o++] = '-';
    for (i = 0; i < e->nblock; i++) {
      out[o++] = hexd[block[i] >> 4];
      out[o++] = hexd[block[i] & 15];
    }
    o += sprintf(out + o, " %u %d %08x ", (unsigned)nblock_before, e->rle_state,
                 (unsigned)(e->block_crc ^ 0xffffffffu));
    if (e->rle_state > 0)
      o += sprintf(out + o, "%02x ", e->rle_character & 0xffu);
    else
      o += sprintf(out + o, "- ");
    /* cmap: 256 bits, byte value b is bit (b & 7) of octet b >> 3 */
    for (i = 0; i < 32; i++) {
      unsigned v = 0, j;
      for (j = 0; j < 8; j++)
        v |= (unsigned)(e->cmap[8 * i + j] ? 1 : 0) << j;
      out[o++] = hexd[v >> 4];
      out[o++] = hexd[v & 15];
    }
    out[o++] = '\n';
    fwrite(out, 1, o, stdout);
  }

  put_encoder(e, cap);
  free(input);
}

int
main(void)
{
  char *line = 0;
  size_t cap = 0;
  ssize_t len;
  /* H_COLLECT_FLUSH=1: flush after every reply, so that after an abort the
     number of replies identifies the request that caused it (the check
     re-runs a failed batch in this mode). */
  int flush_each = getenv("H_COLLECT_FLUSH") != 0;

  while ((len = getline(&line, &cap, stdin)) > 0) {
    char *argv[8];
    int argc = 0;
    char *tok, *save;
    if (line[len - 1] == '\n')
      line[len - 1] = 0;
    for (tok = strtok_r(line, " ", &save); tok && argc < 8;
         tok = strtok_r(0, " ", &save))
      argv[argc++] = tok;
    if (argc == 4 && !strcmp(argv[0], "collect"))
      do_collect_cmd(argv[1], argv[2], argv[3]);
    else if (argc == 1 && !strcmp(argv[0], "sizeof"))
      printf("%zu\n", sizeof(struct encoder_state));
    else
      puts("bad-op");
    if (flush_each)
      fflush(stdout);
  }
  fflush(stdout);
  free(line);
  {
    size_t i;
    for (i = 0; i <= ENC_CACHE; i++)
      free(enc_cache[i]);
  }
  return 0;
}
