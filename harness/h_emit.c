/* h_emit -- implementation side of the W12 correspondence check: the delta-code
   reader inside retrieve(), decode() and emit() of /repo/src/decode.c.

   Everything here runs the REAL functions (decode.c is #included, so the
   static tables and struct retriever_internal_state are visible); nothing of
   the code under test is replicated.

   Protocol (one request per line, see lean/Driver/CmdEmit.lean):

     delta  <alpha_size> <bits> [<shift>]  -> ok <lens,> <consumed> | err | odd:...
     deltaw <alpha_size> <bits> [<shift>]  -> same, input fed ONE 32-bit word per
                                              call (every NEED site suspends)
     decodeblk <rand> <bwt_idx> <hex>      -> node bytes in traversal order
     emit <rand> <bwt_idx> <hex> <sizes,>  -> STATUS:hex:left[:s<rle_state> after MORE];...  crc|-
     emitseq <hex> <sizes,>                -> same; tt[] is the plain chain
                                              tt[i] = ((i+1)<<8)+byte, rle_index 0

   delta: a block header is built bit by bit -- rand=0, origPtr=0xFFFFFF (so
   the block can never be returned OK and internal_state is never freed), a
   bitmap with alpha_size-2 used bytes, nGroups=2, nSelectors=1+shift (all
   selector MTF values 0; `shift` moves the table to another bit alignment),
   table 0 = a complete code in which EOB has length 1 (code "0"), then table
   1 = the bits under test, then zero words.  retrieve() is run on it:
   ERR_DELTA -> "err".  Otherwise code_len[] holds the lengths of table 1.
   The number of bits the table consumed is not directly observable (v/w are
   locals), so it is located with the real code as well: for P = 5+n, 6+n, ...
   the stream <prefix><bits[0..P)>0<zeros> is decoded; P is the table's length
   iff retrieve() returns ERR_EMPTY (the very first symbol was EOB, i.e. the
   bit at offset P), its SAVE()d position is <prefix>+P+1 and code_len[] is
   unchanged.  The caller must supply enough bits (pad with zeros).

   emit: decoder_state is filled exactly as retrieve() leaves it (tt[i] =
   byte, ftab = byte counts, block_size, bwt_idx, rand) with tt malloc'ed to
   exactly block_size cells, decode() is called, then emit() once per size
   with a malloc'ed buffer of exactly that size (ASan sees any overrun).  On
   ERR_RUNLEN *buf_sz is not updated by emit(); the number of bytes stored
   before the return is measured by running the call twice from the same
   state on buffers pre-filled with 0x00 and 0xFF.
*/
#define _GNU_SOURCE
#include <stdio.h>
#include <string.h>

#include "decode.c"

void *
xmalloc(size_t n)
{
  void *p = malloc(n ? n : 1);
  if (!p) abort();
  return p;
}

/* ---------------------------------------------------------------- helpers */
static int
hexval(int c)
{
  if (c >= '0' && c <= '9') return c - '0';
  if (c >= 'a' && c <= 'f') return c - 'a' + 10;
  return -1;
}

/* returns length, -1 on error; *out malloc'ed (at least 1 byte) */
static long
parse_hex(const char *s, uint8_t **out)
{
  size_t l = strlen(s), i;
  uint8_t *p;
  if (strcmp(s, "-") == 0) { *out = malloc(1); return 0; }
  if (l % 2) return -1;
  p = malloc(l / 2 + 1);
  for (i = 0; i < l / 2; i++) {
    int a = hexval(s[2 * i]), b = hexval(s[2 * i + 1]);
    if (a < 0 || b < 0) { free(p); return -1; }
    p[i] = a * 16 + b;
  }
  *out = p;
  return l / 2;
}

static void
put_hex(const uint8_t *p, size_t n)
{
  size_t i;
  if (n == 0) { putchar('-'); return; }
  for (i = 0; i < n; i++) printf("%02x", p[i]);
}

static long
parse_sizes(char *s, size_t **out)
{
  size_t cap = 16, n = 0;
  size_t *v = malloc(cap * sizeof *v);
  char *tok, *save;
  if (strcmp(s, "-") == 0) { *out = v; return 0; }
  for (tok = strtok_r(s, ",", &save); tok; tok = strtok_r(0, ",", &save)) {
    if (n == cap) v = realloc(v, (cap *= 2) * sizeof *v);
    v[n++] = strtoull(tok, 0, 10);
  }
  *out = v;
  return n;
}

static const char *
status_name(int r)
{
  static char b[32];
  if (r == OK) return "OK";
  if (r == MORE) return "MORE";
  if (r == ERR_RUNLEN) return "ERR_RUNLEN";
  snprintf(b, sizeof b, "STATUS%d", r);
  return b;
}

/* ------------------------------------------------------------- bit writer */
struct bw { uint8_t *bit; size_t n, cap; };

static void
bw_put(struct bw *w, unsigned long v, unsigned k)
{
  while (k--) {
    if (w->n == w->cap) w->bit = realloc(w->bit, w->cap = w->cap * 2 + 64);
    w->bit[w->n++] = (v >> k) & 1;
  }
}

/* complete code for n symbols in which the last symbol (EOB) has length 1 */
static void
table0_lens(unsigned n, unsigned *len)
{
  unsigned m = n - 1, p = 0, deep, i;
  while ((2u << p) <= m) p++;          /* 2^p <= m < 2^(p+1) */
  deep = 2 * (m - (1u << p));          /* symbols at depth p+1 */
  for (i = 0; i < m; i++)
    len[i] = 1 + (i < m - deep ? p : p + 1);
  len[m] = 1;
  if (m == 1) len[0] = 1;              /* not reachable: n >= 3 */
}

static void
bw_table(struct bw *w, const unsigned *len, unsigned n)
{
  unsigned i, c = len[0];
  bw_put(w, c, 5);
  for (i = 0; i < n; i++) {
    while (c < len[i]) { bw_put(w, 2, 2); c++; }
    while (c > len[i]) { bw_put(w, 3, 2); c--; }
    bw_put(w, 0, 1);
  }
}

/* header + table 0; returns the prefix length in bits */
static size_t
bw_prefix(struct bw *w, unsigned n, unsigned shift)
{
  unsigned used = n - 2, g, i;
  unsigned len0[MAX_ALPHA_SIZE];
  unsigned long big = 0;
  bw_put(w, 0, 1);                     /* rand */
  bw_put(w, 0xFFFFFF, 24);             /* origPtr: never < block_size */
  for (g = 0; g < 16; g++)
    if (g * 16 < used) big |= 1ul << (15 - g);
  bw_put(w, big, 16);
  for (g = 0; g < 16; g++)
    if (g * 16 < used) {
      unsigned long small = 0;
      for (i = 0; i < 16; i++)
        if (g * 16 + i < used) small |= 1ul << (15 - i);
      bw_put(w, small, 16);
    }
  bw_put(w, 2, 3);                     /* nGroups */
  bw_put(w, 1 + shift, 15);            /* nSelectors */
  for (i = 0; i < 1 + shift; i++) bw_put(w, 0, 1);
  table0_lens(n, len0);
  bw_table(w, len0, n);
  return w->n;
}

struct dres {
  int status;
  size_t pos;                          /* SAVE()d bit position, if any */
  unsigned n;
  uint8_t len[MAX_ALPHA_SIZE];
};

static uint32_t *g_tt;

/* run the real retrieve() over the bit string (plus 64 zero words) */
static void
run_retrieve(const struct bw *w, int wordwise, struct dres *res)
{
  size_t nw = (w->n + 31) / 32 + 64, i;
  uint32_t *words = calloc(nw, 4);
  struct decoder_state ds;
  struct bitstream bs;
  int r;

  for (i = 0; i < w->n; i++)
    if (w->bit[i]) {
      uint32_t h = ntohl(words[i / 32]);
      h |= 1u << (31 - i % 32);
      words[i / 32] = htonl(h);
    }
  /* as decoder_init(), but tt[] (MAX_BLOCK_SIZE cells) is allocated once */
  if (!g_tt) g_tt = XNMALLOC(MAX_BLOCK_SIZE, uint32_t);
  memset(&ds, 0, sizeof ds);
  ds.internal_state = XMALLOC(struct retriever_internal_state);
  ds.internal_state->state = S_INIT;
  ds.tt = g_tt;
  ds.block_size = 0;
  memset(&bs, 0, sizeof bs);
  bs.live = 0;
  bs.buff = 0;
  bs.data = words;
  bs.eof = 0;
  if (wordwise) {
    bs.limit = words;
    do {
      if (bs.limit == words + nw) { bs.eof = 1; }
      else bs.limit++;
      r = retrieve(&ds, &bs);
    } while (r == MORE);
  }
  else {
    bs.limit = words + nw;
    bs.eof = 1;
    r = retrieve(&ds, &bs);
  }
  res->status = r;
  res->pos = 32 * (size_t)(bs.data - words) - bs.live;
  res->n = 0;
  if (ds.internal_state) {
    res->n = ds.internal_state->alpha_size;
    memcpy(res->len, ds.internal_state->code_len, sizeof res->len);
  }
  free(ds.internal_state);
  free(words);
}

static void
cmd_delta(int wordwise, unsigned n, const char *bits, unsigned shift)
{
  struct bw w = { 0, 0, 0 };
  struct dres a, b;
  size_t prefix, nb = strlen(bits), i, P;

  if (strcmp(bits, "-") == 0) nb = 0;
  if (n < MIN_ALPHA_SIZE || n > MAX_ALPHA_SIZE || shift > 1000) {
    printf("bad-args\n");
    return;
  }
  prefix = bw_prefix(&w, n, shift);
  for (i = 0; i < nb; i++) bw_put(&w, bits[i] == '1', 1);
  run_retrieve(&w, wordwise, &a);
  if (a.status == ERR_DELTA) { printf("err\n"); free(w.bit); return; }
  if (a.n != n) { printf("odd:alpha=%u,status=%d\n", a.n, a.status); free(w.bit); return; }
  for (P = 5 + n; P <= nb; P++) {
    size_t total = w.n;
    uint8_t keep = 0;
    w.n = prefix + P;
    if (w.n < total) keep = w.bit[w.n];
    bw_put(&w, 0, 1);
    run_retrieve(&w, wordwise, &b);
    if (prefix + P < total) { w.bit[prefix + P] = keep; w.n = total; }
    if (b.status == ERR_EMPTY && b.pos == prefix + P + 1 && b.n == n &&
        memcmp(a.len, b.len, n) == 0) {
      printf("ok ");
      for (i = 0; i < n; i++) printf("%s%u", i ? "," : "", a.len[i]);
      printf(" %zu\n", P);
      free(w.bit);
      return;
    }
  }
  printf("odd:no-end,status=%d\n", a.status);
  free(w.bit);
}

/* --------------------------------------------------------- decode / emit */
static void
fill_ds(struct decoder_state *ds, int rnd, unsigned idx, const uint8_t *b, long n)
{
  long i;
  memset(ds, 0, sizeof *ds);
  ds->tt = malloc((n ? n : 1) * sizeof(uint32_t));
  for (i = 0; i < n; i++) {
    ds->tt[i] = b[i];
    ds->ftab[b[i]]++;
  }
  ds->block_size = n;
  ds->bwt_idx = idx;
  ds->rand = rnd;
}

static void
fill_chain(struct decoder_state *ds, const uint8_t *b, long n)
{
  long i;
  memset(ds, 0, sizeof *ds);
  ds->tt = malloc((n ? n : 1) * sizeof(uint32_t));
  for (i = 0; i < n; i++) ds->tt[i] = ((uint32_t)(i + 1) << 8) + b[i];
  ds->block_size = n;
  ds->rle_state = 0;
  ds->rle_crc = -1;
  ds->rle_index = 0;
  ds->rle_avail = n;
  ds->rle_prev = 0;
  ds->rle_char = 0;
}

static void
run_emit(struct decoder_state *ds, size_t *sizes, long ns)
{
  long i;
  int r = MORE, first = 1;
  for (i = 0; i < ns && r == MORE; i++) {
    size_t sz = sizes[i], left, wrote;
    uint8_t *buf;
    if (sz == 0 || sz > (1u << 28)) { printf("bad-size"); break; }
    buf = malloc(sz);
    left = sz;
    {
      struct decoder_state copy = *ds;
      memset(buf, 0x00, sz);
      r = emit(ds, buf, &left);
      if (r == ERR_RUNLEN) {
        uint8_t *buf2 = malloc(sz);
        size_t l2 = sz, k = 0;
        int r2;
        memset(buf2, 0xFF, sz);
        r2 = emit(&copy, buf2, &l2);
        if (r2 != r) printf("NONDETERMINISTIC ");
        while (k < sz && buf[k] == buf2[k]) k++;
        wrote = k;
        free(buf2);
      }
      else
        wrote = sz - left;
    }
    if (!first) putchar(';');
    first = 0;
    printf("%s:", status_name(r));
    put_hex(buf, wrote);
    printf(":%zu", left);
    if (r == MORE) printf(":s%d", ds->rle_state);
    free(buf);
  }
  if (first) putchar('-');
  if (r == OK) printf(" %08x\n", (unsigned)ds->crc);
  else printf(" -\n");
}

int
main(void)
{
  char *line = 0;
  size_t cap = 0;

  while (getline(&line, &cap, stdin) > 0) {
    char *tok[8];
    int nt = 0;
    char *save, *p;
    line[strcspn(line, "\r\n")] = 0;
    for (p = strtok_r(line, " ", &save); p && nt < 8; p = strtok_r(0, " ", &save))
      tok[nt++] = p;
    if (nt == 0) { printf("bad-op\n"); fflush(stdout); continue; }

    if ((!strcmp(tok[0], "delta") || !strcmp(tok[0], "deltaw")) && nt >= 3) {
      cmd_delta(tok[0][5] == 'w', strtoul(tok[1], 0, 10), tok[2],
                nt >= 4 ? strtoul(tok[3], 0, 10) : 0);
    }
    else if (!strcmp(tok[0], "decodeblk") && nt == 4) {
      uint8_t *b;
      long n = parse_hex(tok[3], &b), i;
      unsigned idx = strtoul(tok[2], 0, 10);
      if (n < 1 || idx >= n) printf("bad-args\n");
      else {
        struct decoder_state ds;
        uint8_t *o = malloc(n);
        uint32_t q;
        fill_ds(&ds, atoi(tok[1]) != 0, idx, b, n);
        decode(&ds);
        q = ds.rle_index;
        for (i = 0; i < n; i++) {        /* what emit() does: c = p = t[p >> 8] */
          q = ds.tt[q >> 8];
          o[i] = q;
        }
        put_hex(o, n);
        putchar('\n');
        free(o);
        free(ds.tt);
      }
      if (n >= 0) free(b);
    }
    else if (!strcmp(tok[0], "emit") && nt == 5) {
      uint8_t *b;
      size_t *sizes;
      long n = parse_hex(tok[3], &b);
      long ns = parse_sizes(tok[4], &sizes);
      unsigned idx = strtoul(tok[2], 0, 10);
      if (n < 1 || idx >= n) printf("bad-args\n");
      else {
        struct decoder_state ds;
        fill_ds(&ds, atoi(tok[1]) != 0, idx, b, n);
        decode(&ds);
        run_emit(&ds, sizes, ns);
        free(ds.tt);
      }
      if (n >= 0) free(b);
      free(sizes);
    }
    else if (!strcmp(tok[0], "emitseq") && nt == 3) {
      uint8_t *b;
      size_t *sizes;
      long n = parse_hex(tok[1], &b);
      long ns = parse_sizes(tok[2], &sizes);
      if (n < 0) printf("bad-args\n");
      else {
        struct decoder_state ds;
        fill_chain(&ds, b, n);
        run_emit(&ds, sizes, ns);
        free(ds.tt);
        free(b);
      }
      free(sizes);
    }
    else
      printf("bad-op\n");
    fflush(stdout);
  }
  free(line);
  return 0;
}
