/* h_mtf_enc -- encoder half of the W10 (MTF / zero-run) correspondence
   harness: the real make_map_e() and do_mtf() of /repo/src/encode.c, called
   the way encode() calls them.  Separate translation unit because encode.c
   and decode.c cannot be #included together (EOB, RUN, ... clash).

   crc_table comes from /repo/src/crctab.c (third translation unit). */
#define _GNU_SOURCE
#include <stdio.h>
#include <string.h>

#include "encode.c"

/* encode.c refers to divbwt() only inside encode(), which is never called. */
int32_t
divbwt(uint8_t *T, int32_t *SA, int32_t *bucket, int32_t n)
{
  (void)T; (void)SA; (void)bucket; (void)n;
  abort();
}

/* used[0..nused): bytes in use (any order, duplicates harmless);
   block[0..nblock): bytes of the block (the BWT output as encode() has it in
   SA[], one int32 per byte).
   Returns nmtf; *syms (malloc'ed, nmtf entries), freq[0..EOB], *eob.
   The SA buffer is an exact-size allocation (nblock int32, at least one) so
   that the in-place uint16 output running past it is an ASan error. */
uint32_t
h_domtf(const uint8_t *used, size_t nused, const uint8_t *block,
        size_t nblock, uint16_t **syms, uint32_t *freq, unsigned *eob)
{
  bool inuse[256];
  uint8_t cmap[256];
  uint32_t mtffreq[MAX_ALPHA_SIZE + 1];
  int32_t *SA;
  uint32_t EOB, nmtf, i;

  memset(inuse, 0, sizeof inuse);
  for (i = 0; i < nused; i++)
    inuse[used[i]] = true;

  /* encode():  EOB = make_map_e(cmap, s->cmap) + 1; */
  EOB = make_map_e(cmap, inuse) + 1;

  SA = malloc((nblock ? nblock : 1) * sizeof(int32_t));
  for (i = 0; i < nblock; i++)
    SA[i] = block[i];

  for (i = 0; i <= MAX_ALPHA_SIZE; i++)
    mtffreq[i] = 0xdeadbeef;

  /* encode():  s->nmtf = do_mtf(s->SA, s->u.s.code[0], cmap, s->nblock, EOB); */
  nmtf = do_mtf(SA, mtffreq, cmap, (int32_t)nblock, (int32_t)EOB);

  *syms = malloc((nmtf ? nmtf : 1) * sizeof(uint16_t));
  memcpy(*syms, SA, nmtf * sizeof(uint16_t));
  for (i = 0; i <= EOB; i++)
    freq[i] = mtffreq[i];
  *eob = EOB;
  free(SA);
  return nmtf;
}
