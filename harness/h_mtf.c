/* h_mtf -- implementation side of the W10 correspondence check (MTF /
   zero-run stage; properties C01, C05, C06, C08).  Line protocol, same
   commands and replies as lean/Driver/CmdMtf.lean:

     mtfconsts                       -> ROW_WIDTH SLIDE_LENGTH NUM_ROWS CMAP_BASE MAX_BLOCK_SIZE
     domtf <used hex> <block hex>    -> ok <syms> <freq>
         real make_map_e() + do_mtf()                       (h_mtf_enc.c)
     unmtf <used hex> <syms> 900000  -> ok <hex> <ftab> | err overflow | err unterm | err <n>
         real retrieve() on a bit stream built from the symbols (h_mtf_dec.c)
     mtfone <init hex | -> <indices> -> <bytes hex> <row0> <list hex> | abort
         real mtf_one()                                     (h_mtf_dec.c)
   harness-only:
     chunk <n>      -> ok     32-bit words offered to retrieve() per call (0 = all)
     mtfstat        -> <min row0 offset of last mtfone> <rebuilds of last mtfone>

   encode.c and decode.c are #included by h_mtf_enc.c and h_mtf_dec.c (they
   cannot share a translation unit); /repo/src/crctab.c is linked as well. */
#define _GNU_SOURCE
#include <stdio.h>
#include <stdlib.h>
#include <string.h>
#include <stdint.h>
#include <stdbool.h>

uint32_t h_domtf(const uint8_t *used, size_t nused, const uint8_t *block,
                 size_t nblock, uint16_t **syms, uint32_t *freq,
                 unsigned *eob);
int h_mtfone(const uint8_t *init, const unsigned *idx, size_t n, uint8_t *out,
             long *row0, uint8_t *list, long *minrow0, unsigned *rebuilds);
int h_unmtf(const uint8_t *used, size_t nused, const unsigned *syms,
            size_t nsyms, size_t chunk, uint8_t **out, size_t *outlen,
            uint32_t *ftab, int *bad_tt);
unsigned h_row_width(void), h_slide_length(void), h_num_rows(void),
  h_cmap_base(void), h_max_block_size(void), h_group_size(void);

/* values of enum error in common.h, checked against decode.c by h_err_*() */
extern int h_err_ok, h_err_empty, h_err_overflow, h_err_unterm;

static size_t chunk;
static long last_minrow0;
static unsigned last_rebuilds;

static int
hexval(int c)
{
  if (c >= '0' && c <= '9') return c - '0';
  if (c >= 'a' && c <= 'f') return c - 'a' + 10;
  return -1;
}

/* returns malloc'ed bytes (exact size, at least 1), or NULL on syntax error */
static uint8_t *
parse_hex(const char *s, size_t *n)
{
  size_t l = strlen(s), i;
  uint8_t *p;

  if (strcmp(s, "-") == 0) { *n = 0; return malloc(1); }
  if (l % 2) return NULL;
  p = malloc(l / 2 ? l / 2 : 1);
  for (i = 0; i < l / 2; i++) {
    int x = hexval(s[2 * i]), y = hexval(s[2 * i + 1]);
    if (x < 0 || y < 0) { free(p); return NULL; }
    p[i] = 16 * x + y;
  }
  *n = l / 2;
  return p;
}

static unsigned *
parse_nats(char *s, size_t *n)
{
  size_t cap = 16, k = 0;
  unsigned *p = malloc(cap * sizeof *p);
  char *q = s;

  *n = 0;
  if (strcmp(s, "-") == 0) return p;
  for (;;) {
    char *e;
    unsigned long v;
    if (*q < '0' || *q > '9') { free(p); return NULL; }
    v = strtoul(q, &e, 10);
    if (k == cap) { cap *= 2; p = realloc(p, cap * sizeof *p); }
    p[k++] = (unsigned)v;
    if (*e == 0) break;
    if (*e != ',') { free(p); return NULL; }
    q = e + 1;
  }
  *n = k;
  return p;
}

static void
put_hex(const uint8_t *p, size_t n)
{
  static const char d[] = "0123456789abcdef";
  size_t i;
  if (n == 0) { putchar('-'); return; }
  for (i = 0; i < n; i++) { putchar(d[p[i] >> 4]); putchar(d[p[i] & 15]); }
}

static void
cmd_domtf(char *a_used, char *a_block)
{
  size_t nu, nb;
  uint8_t *used = parse_hex(a_used, &nu), *block = parse_hex(a_block, &nb);
  uint16_t *syms;
  uint32_t freq[260], nmtf, i;
  unsigned eob;

  if (!used || !block || nb > h_max_block_size()) {
    puts("bad-args"); free(used); free(block); return;
  }
  nmtf = h_domtf(used, nu, block, nb, &syms, freq, &eob);
  fputs("ok ", stdout);
  for (i = 0; i < nmtf; i++)
    printf(i ? ",%u" : "%u", (unsigned)syms[i]);
  if (nmtf == 0) putchar('-');
  putchar(' ');
  for (i = 0; i <= eob; i++)
    printf(i ? ",%u" : "%u", (unsigned)freq[i]);
  putchar('\n');
  free(syms); free(used); free(block);
}

static void
cmd_unmtf(char *a_used, char *a_syms, char *a_limit)
{
  size_t nu, ns, i, outlen;
  uint8_t *used = parse_hex(a_used, &nu), *out;
  unsigned *syms = parse_nats(a_syms, &ns);
  uint32_t ftab[256];
  int rv, bad_tt, has_eob = 0, first = 1;

  if (!used || !syms || nu == 0 || nu > 256
      || strtoul(a_limit, 0, 10) != h_max_block_size()) {
    puts("bad-args"); free(used); free(syms); return;
  }
  for (i = 0; i < ns; i++) {
    if (syms[i] > nu + 1) { puts("bad-args"); free(used); free(syms); return; }
    if (syms[i] == nu + 1) has_eob = 1;
  }
  /* the stream carries whole groups: without EOB the count must be exact */
  if (ns == 0 || ns > 18001u * h_group_size()
      || (!has_eob && ns % h_group_size() != 0)) {
    puts("bad-args"); free(used); free(syms); return;
  }
  rv = h_unmtf(used, nu, syms, ns, chunk, &out, &outlen, ftab, &bad_tt);
  if (bad_tt)
    puts("bad-tt");
  else if (rv == h_err_ok || rv == h_err_empty) {
    fputs("ok ", stdout);
    put_hex(out, outlen);
    putchar(' ');
    for (i = 0; i < 256; i++)
      if (ftab[i]) {
        printf(first ? "%u:%u" : ",%u:%u", (unsigned)i, (unsigned)ftab[i]);
        first = 0;
      }
    if (first) putchar('-');
    putchar('\n');
  }
  else if (rv == h_err_overflow)
    puts("err overflow");
  else if (rv == h_err_unterm)
    puts("err unterm");
  else
    printf("err %d\n", rv);
  free(out); free(used); free(syms);
}

static void
cmd_mtfone(char *a_init, char *a_idx)
{
  size_t ni, nx, i;
  uint8_t *init = parse_hex(a_init, &ni), *out, list[256], ident[256];
  unsigned *idx = parse_nats(a_idx, &nx);
  long row0;

  for (i = 0; i < 256; i++) ident[i] = i;
  if (!init || !idx || (ni != 0 && ni != 256)) {
    puts("bad-args"); free(init); free(idx); return;
  }
  for (i = 0; i < nx; i++)
    if (idx[i] >= 256) { puts("bad-args"); free(init); free(idx); return; }
  out = malloc(nx ? nx : 1);
  if (h_mtfone(ni ? init : ident, idx, nx, out, &row0, list, &last_minrow0,
               &last_rebuilds))
    puts("abort");
  else {
    put_hex(out, nx);
    printf(" %ld ", row0);
    put_hex(list, 256);
    putchar('\n');
  }
  free(out); free(init); free(idx);
}

int
main(void)
{
  char *line = NULL;
  size_t cap = 0;
  ssize_t len;

  while ((len = getline(&line, &cap, stdin)) > 0) {
    char *argv[8];
    int argc = 0;
    char *save, *tok;

    while (len > 0 && (line[len - 1] == '\n' || line[len - 1] == '\r'))
      line[--len] = 0;
    for (tok = strtok_r(line, " ", &save); tok && argc < 8;
         tok = strtok_r(0, " ", &save))
      argv[argc++] = tok;
    if (argc == 0) { puts("bad-op"); fflush(stdout); continue; }

    if (!strcmp(argv[0], "mtfconsts") && argc == 1)
      printf("%u %u %u %u %u\n", h_row_width(), h_slide_length(),
             h_num_rows(), h_cmap_base(), h_max_block_size());
    else if (!strcmp(argv[0], "domtf") && argc == 3)
      cmd_domtf(argv[1], argv[2]);
    else if (!strcmp(argv[0], "unmtf") && argc == 4)
      cmd_unmtf(argv[1], argv[2], argv[3]);
    else if (!strcmp(argv[0], "mtfone") && argc == 3)
      cmd_mtfone(argv[1], argv[2]);
    else if (!strcmp(argv[0], "chunk") && argc == 2) {
      chunk = strtoul(argv[1], 0, 10);
      puts("ok");
    }
    else if (!strcmp(argv[0], "mtfstat") && argc == 1)
      printf("%ld %u\n", last_minrow0, last_rebuilds);
    else
      puts("bad-op");
    fflush(stdout);
  }
  free(line);
  return 0;
}
