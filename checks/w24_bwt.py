#!/usr/bin/env python3
"""W24 — the forward BWT (`divbwt()` of /repo/src/divbwt.c), the one stage of
the compressor that enters the proofs by contract: in-process correspondence
and contract campaign.

Library: `run(ck)` is called by the property checks; stand-alone
`python3 checks/w24_bwt.py [--tier quick|thorough]` runs the campaign for
testing and writes NO evidence.

For every generated block T the real divbwt() is called exactly as encode()
calls it (harness/h_bwt.c: one heap object laid out by encoder_alloc_size /
encoder_init, block behind SA, sentinel T[n], u.bucket) in two builds — asserts
on, and -DNDEBUG as shipped, under UBSan; ASan+UBSan for all structured /
random blocks and a sample of the exhaustive ones — and returns the last
column L (as do_mtf() reads it from SA[]) and the primary index.  Then

  judge (the driver, i.e. compiled Lean definitions; never Python):
    * `bwtok T idx L` = `decide (Model.Compress.BwtOK T L idx)` on the REAL
      (L, idx): the oracle's inverse BWT `Spec.Bzip2.ibwt` maps them back to T
      and L has no byte foreign to T.  This is the BWT hypothesis of
      `Props.C01.Roundtrip.roundtrip` / `Props.C02.Inspect.inspect_compress`;
      its failure on a real block is a C01 violation (replay = the block);
  correspondence (model vs code):
    * `naivebwt T` = `Model.Compress.naiveBwt` (proved: `ibwt_naiveBwt`,
      `naiveBwt_ok`): L equal; idx equal unless T is a proper power of a
      shorter word (several equal rotations; then any of their rows is a valid
      primary index and `bwtok` above is what counts).  Blocks with very long
      repeats are compared up to 1200 bytes only (the rotation sort is cubic
      there), others up to 5000;
    * second opinion, not a judge: Python `bzformat.bwt(T)` gives the same L;
    * both builds give the same answer; a sanitizer / assert abort is a result.

Families: exhaustive small scope (2 symbols to length 12, 3 to 8, 4 to 6; deeper
in thorough; symbol values at the ends and in the middle of the byte range),
Fibonacci / Thue–Morse / de Bruijn words, tandem repeats with periods 1..40
(exact powers and with a broken last period), a^n b, b a^n, runs of 0x00/0xff,
sorted / reverse sorted, one distinct byte, lengths 1..3, all-256-symbol
blocks, SS_BLOCKSIZE / insertion-sort-threshold neighbourhoods, random over
alphabets 2/4/16/256, with the real capacity layouts (cap = n and
cap = level·100000).
"""
import hashlib
import itertools
import os
import subprocess
import sys
import time
from concurrent.futures import ThreadPoolExecutor

HERE = os.path.dirname(os.path.abspath(__file__))
sys.path.insert(0, os.path.join(HERE, '..', 'tools'))

import bzformat  # noqa: E402

REPO = os.environ.get('LBZ_REPO', '/repo')
NAIVE_MAX_REPETITIVE = 1200
NAIVE_MAX = 5000


def hx(b):
    return bytes(b).hex() if len(b) else '-'


def periodic(t):
    n = len(t)
    return n > 1 and (t + t).find(t, 1) < n


# ------------------------------------------------------------ generators
def words(k, n, syms):
    for w in itertools.product(syms, repeat=n):
        yield bytes(w)


def gen_exhaustive(quick):
    out = []
    plans = [(2, 12 if quick else 16, [(97, 98), (0, 255)]),
             (3, 8 if quick else 10, [(97, 98, 99), (0, 128, 255)]),
             (4, 6 if quick else 8, [(97, 98, 99, 100), (0, 1, 254, 255)])]
    for k, maxlen, sets in plans:
        for si, syms in enumerate(sets):
            # the second symbol set only up to a smaller length in quick
            lim = maxlen if (si == 0 or not quick) else maxlen - 3
            for n in range(1, lim + 1):
                for w in words(k, n, syms):
                    out.append(('exh%d' % k, w, False))
    return out


def fib_word(n):
    a, b = b'a', b'ab'
    while len(b) < n:
        a, b = b, b + a
    return b[:n]


def thue_morse(n):
    return bytes(97 + bin(i).count('1') % 2 for i in range(n))


def de_bruijn(k, n):
    a = [0] * k * n
    seq = []

    def db(t, p):
        if t > n:
            if n % p == 0:
                seq.extend(a[1:p + 1])
        else:
            a[t] = a[t - p]
            db(t + 1, p)
            for j in range(a[t - p] + 1, k):
                a[t] = j
                db(t + 1, t)
    db(1, 1)
    return seq


def gen_structured(rng, quick):
    """(tag, bytes, repetitive)"""
    out = []
    big = [300, 1000, 1024, 1025, 2047, 3000] if quick else [300, 1000, 1023, 1024, 1025, 2048, 4097,
                                                             9000, 20000]

    def add(tag, d, rep):
        if len(d):
            out.append((tag, bytes(d), rep))

    for n in (1, 2, 3):
        for _ in range(6):
            add('len%d' % n, [rng.choice([0, 1, 97, 254, 255, rng.randrange(256)]) for _ in range(n)], False)
    for n in [5, 8, 9, 13, 21, 34, 55, 89, 144, 233, 377, 610, 987] + big:
        add('fib', fib_word(n), True)
        add('fib-rev', fib_word(n)[::-1], True)
    for n in [2, 4, 7, 8, 16, 31, 32, 33, 64, 100, 256, 512] + big:
        add('thue-morse', thue_morse(n), True)
    for k, m in [(2, 3), (2, 5), (2, 8), (3, 4), (4, 3), (4, 5), (16, 2), (16, 3), (256, 1)] + \
            ([(2, 11), (3, 7)] if quick else [(2, 13), (3, 8), (4, 6), (256, 2)]):
        s = de_bruijn(k, m)
        vals = sorted(rng.sample(range(256), k))
        add('debruijn%d^%d' % (k, m), [vals[x] for x in s], False)
        add('debruijn%d^%d-lin' % (k, m), [vals[x] for x in s + s[:m - 1]], False)
    # tandem repeats: exact powers (several equal rotations) and broken ones
    for p in list(range(1, 41)):
        unit = bytes(rng.randrange(256) for _ in range(p))
        if rng.random() < 0.5:
            unit = bytes(rng.choice(b'ab') for _ in range(p))
        for reps in sorted(set([2, 3, rng.randint(4, 30)] + ([rng.randint(30, 1200 // p)] if p < 40 else []))):
            w = unit * reps
            add('tandem-p%d' % p, w, True)
            add('tandem-broken', w[:-1] + bytes([w[-1] ^ 1]), True)
            add('tandem-partial', w + unit[:rng.randint(0, p - 1)] if p > 1 else w, True)
    for p in (1, 2, 3, 7, 8, 9, 40, 255, 256, 257, 1024):
        unit = bytes(rng.randrange(256) for _ in range(p))
        for n in big[-2:]:
            add('tandem-long-p%d' % p, (unit * (n // p + 1))[:n], True)
    for n in [1, 2, 3, 7, 8, 9, 15, 16, 17, 100, 255, 256, 257] + big:
        add('a^n b', b'a' * n + b'b', True)
        add('b a^n', b'b' + b'a' * n, True)
        add('a^n b a^n', b'a' * n + b'b' + b'a' * n, True)
        add('run-ff', b'\xff' * n, True)
        add('run-00', b'\x00' * n, True)
        add('run-00-ff', b'\x00' * n + b'\xff' * n, True)
        add('one-byte', bytes([rng.randrange(256)]) * n, True)
    for n in [2, 10, 256, 257, 600] + big:
        s = sorted(rng.randrange(256) for _ in range(n))
        add('sorted', s, n > 1500)
        add('rev-sorted', s[::-1], n > 1500)
    add('all256', range(256), False)
    add('all256-rev', range(255, -1, -1), False)
    for _ in range(4):
        add('all256-shuffled', rng.sample(range(256), 256) + rng.sample(range(256), rng.randint(0, 256)), False)
    add('all256-x4', list(range(256)) * 4, True)
    # neighbourhoods of SS_BLOCKSIZE (1024) and the insertion-sort threshold (8)
    for n in [6, 7, 8, 9, 10, 1022, 1023, 1024, 1025, 1026, 2048, 2049]:
        add('ss-edge-rand2', [rng.choice([3, 200]) for _ in range(n)], False)
        add('ss-edge-markov', markov(rng, n, 4), False)
    return out


def markov(rng, n, k):
    vals = rng.sample(range(256), k)
    d, cur = [], vals[0]
    for _ in range(n):
        if rng.random() < 0.4:
            cur = rng.choice(vals)
        d.append(cur)
    return d


def gen_random(rng, quick):
    out = []
    sizes = [1, 2, 5, 17, 50, 129, 300, 700, 1500, 3000] if quick else \
        [1, 2, 5, 17, 50, 129, 300, 700, 1500, 3000, 4500, 12000, 40000]
    nper = 6 if quick else 40
    for k in (2, 4, 16, 256):
        for n in sizes:
            for _ in range(nper if n <= 3000 else 2):
                vals = rng.sample(range(256), k)
                kind = rng.choice(['uniform', 'uniform', 'markov', 'skewed'])
                if kind == 'uniform':
                    d = [rng.choice(vals) for _ in range(n)]
                elif kind == 'markov':
                    d = markov(rng, n, k)
                else:
                    d = [vals[min(k - 1, int(rng.paretovariate(1.1)) - 1)] for _ in range(n)]
                out.append(('rand%d' % k, bytes(d), False))
    return out


# ------------------------------------------------------------- plumbing
def par_batch(argv, lines, nproc=14, timeout=3000):
    if not lines:
        return [], None
    nproc = max(1, min(nproc, len(lines)))
    chunks = [lines[i::nproc] for i in range(nproc)]

    def one(ch):
        r = subprocess.run(argv, input='\n'.join(ch) + '\n', text=True,
                           stdout=subprocess.PIPE, stderr=subprocess.PIPE, timeout=timeout)
        o = r.stdout.split('\n')
        if o and o[-1] == '':
            o.pop()
        return r.returncode, o, r.stderr

    with ThreadPoolExecutor(nproc) as ex:
        res = list(ex.map(one, chunks))
    out = [None] * len(lines)
    errs = []
    for i, (rc, o, e) in enumerate(res):
        if rc != 0 or len(o) != len(chunks[i]):
            # the request after the last reply killed the process
            errs.append((i + len(o) * nproc if len(o) < len(chunks[i]) else None,
                         'exit %s: %s' % (rc, e[-600:])))
        for j, line in enumerate(o[:len(chunks[i])]):
            out[i + j * nproc] = line
    return out, errs


class Judge:
    """one-case-at-a-time oracle for shrinking: does T still fail?"""

    def __init__(self, harness, drv):
        self.harness, self.drv = harness, drv

    def fails(self, t, cap):
        if not t:
            return False
        try:
            r = subprocess.run([self.harness], input='bwt %d %s\n' % (cap if cap >= len(t) else 0, hx(t)),
                               text=True, stdout=subprocess.PIPE, stderr=subprocess.PIPE, timeout=60)
        except subprocess.TimeoutExpired:
            return True
        rep = r.stdout.strip()
        if r.returncode != 0 or not rep.startswith('ok '):
            return True
        _, idx, L = rep.split()
        d = subprocess.run([self.drv], input='bwtok %s %s %s\n' % (hx(t), idx, L), text=True,
                           stdout=subprocess.PIPE, timeout=120)
        return d.stdout.strip() != '1'


def shrink(judge, t, cap, budget=400):
    """greedy: drop chunks, then single bytes, then lower byte values, while T
    still fails"""
    t = bytes(t)
    tries = 0
    size = max(1, len(t) // 2)
    while size >= 1 and tries < budget:
        i, changed = 0, False
        while i < len(t) and tries < budget:
            cand = t[:i] + t[i + size:]
            tries += 1
            if cand and judge.fails(cand, cap):
                t, changed = cand, True
            else:
                i += size
        if not changed:
            size //= 2
    # canonical alphabet (order-preserving), if it still fails
    vals = sorted(set(t))
    m = {v: 97 + i for i, v in enumerate(vals)} if len(vals) <= 26 else None
    if m and tries < budget:
        cand = bytes(m[v] for v in t)
        if judge.fails(cand, cap):
            t = cand
    return t


# ------------------------------------------------------------------ run
def run(ck):
    t0 = time.time()
    rng = ck.rng
    quick = ck.quick
    drv = ck.driver()
    cov = {'library': 'w24_bwt', 'evaluations': 0, 'distinct_nontrivial': 0}
    if not os.path.exists(drv):
        ck.broken.append('w24: driver %s missing' % drv)
        return cov
    probe = subprocess.run([drv], input='bwtcheck 61626162 1 62626161\n', text=True,
                           stdout=subprocess.PIPE).stdout.strip()
    if probe != '0 62626161 1':
        ck.broken.append('w24: driver lacks bwtcheck (reply %r)' % probe)
        return cov
    srcs = ['harness/h_bwt.c', os.path.join(REPO, 'src', 'divbwt.c'),
            os.path.join(REPO, 'src', 'crctab.c')]
    # Under ASan one call costs 5-15 ms (a 270 kB heap object per call), 100x the
    # plain cost, so the bulk (exhaustive small scope) runs under UBSan only —
    # asserts on, and -DNDEBUG as shipped — and the ASan+UBSan build gets every
    # structured / random block plus a seeded sample of the exhaustive ones.
    ub = ['-fsanitize=undefined', '-fno-sanitize-recover=all', '-fno-omit-frame-pointer']
    specs = [('asserts', 'h_bwt', dict(asan=False, flags=ub)),
             ('ndebug', 'h_bwt_ndebug', dict(asan=False, flags=ub, ndebug=True)),
             ('asan', 'h_bwt_asan', dict())]
    with ThreadPoolExecutor(3) as ex:
        builds = list(ex.map(lambda sp: (sp[0], ck.cc(sp[1], srcs, **sp[2])), specs))
    ck.log('w24: harness built (%.1fs)' % (time.time() - t0))
    if not all(b for _, b in builds):
        return cov

    cases = gen_exhaustive(quick) + gen_structured(rng, quick) + gen_random(rng, quick)
    # de-duplicate, keep first tag
    seen, uniq = set(), []
    for tag, t, rep in cases:
        if t not in seen:
            seen.add(t)
            uniq.append((tag, t, rep))
    cases = uniq
    # the capacity layout: tightest (cap = n) for most, a real level's for some
    caps = [0 if (i % 5 or len(t) > 100000) else rng.randint(1, 9) * 100000
            for i, (_, t, _) in enumerate(cases)]
    hlines = ['bwt %d %s' % (c, hx(t)) for c, (_, t, _) in zip(caps, cases)]

    judge = Judge(builds[2][1], drv)
    shrunk = [0]

    def violation(what, i, extra=None):
        tag, t, _ = cases[i]
        rp = {'how': 'harness/h_bwt (ASan, %s): bwt %d <block_hex>; judge: lbzdrv bwtok <block_hex> <idx> <L>'
                     % (what.split(':')[0], caps[i]),
              'family': tag, 'cap': caps[i], 'length': len(t), 'block_hex': t.hex()[:200000]}
        if extra:
            rp.update(extra)
        if shrunk[0] < 2 and len(t) <= 5000:
            shrunk[0] += 1
            try:
                m = shrink(judge, t, caps[i])
                rp['minimal_block_hex'] = m.hex()
                rp['minimal_length'] = len(m)
            except Exception as e:      # noqa: BLE001
                rp['shrink_error'] = repr(e)
        ck.violation('divbwt(): ' + what, rp)

    nexh = sum(1 for tag, _, _ in cases if tag.startswith('exh'))
    asan_set = set(i for i, (tag, _, _) in enumerate(cases) if not tag.startswith('exh'))
    asan_set |= set(rng.sample([i for i, (tag, _, _) in enumerate(cases) if tag.startswith('exh')],
                               min(nexh, 800 if quick else 12000)))
    real = {}
    nviol = 0
    for bname, h in builds:
        idxs = sorted(asan_set) if bname == 'asan' else list(range(len(cases)))
        rep, errs = par_batch([h], [hlines[i] for i in idxs])
        for at, msg in errs:
            nviol += 1
            if at is not None and nviol <= 6:
                violation('%s build aborted (sanitizer / assert): %s' % (bname, msg[-300:]), idxs[at])
            elif at is None:
                ck.broken.append('w24: harness %s failed: %s' % (bname, msg[-200:]))
        full = [None] * len(cases)
        for i, r in zip(idxs, rep):
            full[i] = r
        real[bname] = full
        ck.log('w24: build %s: %d calls (%.1fs)' % (bname, len(idxs), time.time() - t0))
        cov['evaluations'] += len(idxs)

    # what has to be judged: every distinct (case, reply)
    corr = []
    todo = {}
    for i in range(len(cases)):
        rs = [real[b][i] for b, _ in builds if real[b][i] is not None]
        if len(set(rs)) > 1:
            corr.append('the builds (asserts / NDEBUG / ASan) differ on %s (%d bytes): %r'
                        % (cases[i][0], len(cases[i][1]), [r[:40] for r in rs]))
        for r in set(rs):
            if not r.startswith('ok '):
                nviol += 1
                if nviol <= 6:
                    violation('reply %r' % r[:80], i)
                continue
            todo[(i, r)] = None
    keys = list(todo)
    dlines = []
    for i, r in keys:
        tag, t, rep = cases[i]
        _, idx, L = r.split()
        use_naive = len(t) <= (NAIVE_MAX_REPETITIVE if rep else NAIVE_MAX)
        dlines.append('%s %s %s %s' % ('bwtcheck' if use_naive else 'bwtok', hx(t), idx, L))
    drep, derrs = par_batch([drv], dlines)
    ck.log('w24: driver judged %d replies (%.1fs)' % (len(dlines), time.time() - t0))
    if derrs:
        ck.broken.append('w24: driver failed: ' + derrs[0][1][-300:])

    dist = {'families': {}, 'sizes': [], 'periodic': 0, 'idx-differs-periodic': 0,
            'model-compared': 0, 'contract-only': 0, 'cap-real-level': sum(1 for c in caps if c),
            'second-opinion': 0}
    samples = []
    py_budget = time.time() + (4 if quick else 40)
    for ((i, r), d), dl in zip(zip(keys, drep), dlines):
        tag, t, rep = cases[i]
        if d is None:
            continue
        _, idx, L = r.split()
        idx = int(idx)
        per = periodic(t)
        if dl.startswith('bwtcheck '):
            midx, mL, ok = d.split()
            midx = int(midx)
            dist['model-compared'] += 1
            if mL != L:
                corr.append('L of divbwt() and of naiveBwt differ on %s (%d bytes, hex %s…)'
                            % (tag, len(t), t.hex()[:80]))
            elif midx != idx:
                if per:
                    dist['idx-differs-periodic'] += 1
                else:
                    corr.append('primary index of divbwt() (%d) and of naiveBwt (%d) differ on the '
                                'non-periodic block %s (%d bytes, hex %s…)'
                                % (idx, midx, tag, len(t), t.hex()[:80]))
        else:
            ok = d
            dist['contract-only'] += 1
        if ok != '1':
            nviol += 1
            if nviol <= 6:
                violation('BwtOK fails on the real (L, idx): the oracle\'s inverse BWT does not '
                          'recover the block from what divbwt() returned (idx %d)' % idx, i,
                          {'real_idx': idx, 'real_L_hex': L[:200000]})
        if time.time() < py_budget or len(t) <= 64:
            dist['second-opinion'] += 1
            if bzformat.bwt(t)[0].hex() != L.replace('-', ''):
                corr.append('second opinion: bzformat.bwt gives another L on %s (%d bytes)'
                            % (tag, len(t)))
        dist['families'][tag.split('-')[0] if tag.startswith('tandem') else tag] = \
            dist['families'].get(tag.split('-')[0] if tag.startswith('tandem') else tag, 0) + 1
        dist['sizes'].append(len(t))
        dist['periodic'] += per
        if len(samples) < 8 and (len(t) in (3, 12) or len(t) > 1000) and i % 7 == 0:
            samples.append({'family': tag, 'length': len(t), 'idx': idx, 'periodic': per,
                            'block_hex': t.hex()[:64]})
    for w in corr[:12]:
        ck.log('correspondence: ' + w[:500])
        ck.broken.append('correspondence: w24 ' + w[:300])
    sz = sorted(dist.pop('sizes'))
    dist['size_min_med_max'] = [sz[0], sz[len(sz) // 2], sz[-1]] if sz else []
    dist['sizes>1000'] = sum(1 for s in sz if s > 1000)
    cov['distinct_nontrivial'] = sum(1 for _, t, _ in cases if len(set(t)) > 1)
    cov['rule'] = 'distinct blocks with at least two different byte values'
    cov['exhaustive'] = 'all strings over 2/3/4 symbols up to length %s' % \
        ('12/8/6' if quick else '16/10/8')
    cov['distribution'] = dist
    cov['samples'] = samples
    cov['seconds'] = round(time.time() - t0, 1)
    dist['asan-cases'] = len(asan_set)
    ck.log('w24: %d blocks (all under UBSan with asserts and with NDEBUG, %d under ASan), %d with >= 2 '
           'byte values, %s, %.1fs'
           % (len(cases), len(asan_set), cov['distinct_nontrivial'],
              {k: v for k, v in dist.items() if k != 'families'}, cov['seconds']))
    ck.log('w24 families: %s' % dict(sorted(dist['families'].items())))
    return cov


if __name__ == '__main__':
    from vlib import Check
    ck = Check('C01')
    cov = run(ck)
    print({k: v for k, v in cov.items() if k not in ('distribution', 'samples')})
    print('violations:', len(ck.violations), 'broken:', ck.broken[:6])
    sys.exit(1 if ck.violations or ck.broken else 0)
