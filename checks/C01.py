#!/usr/bin/env python3
"""C01 — compression round-trips exactly.

Theorems: Props/C01/*.lean and Props/C04 (RLE1 round trip, MTF/zero-run
inverse, canonical prefix codes decode_encode, ...).  Tie: in-process
stage-by-stage correspondence (work-package libraries) + per run the
process-level round trip: compress with lbzip2, decompress with lbzip2
itself and with libbz2; both runs exit 0 with empty stderr and reproduce the
input, across levels, --sequential, worker counts and perturbed schedules."""
import os
import sys
sys.path.insert(0, os.path.join(os.path.dirname(os.path.abspath(__file__)),
                                '..', 'tools'))
sys.path.insert(0, os.path.dirname(os.path.abspath(__file__)))
from vlib import Check  # noqa: E402
import bzformat as B  # noqa: E402
import camp_encode as E  # noqa: E402
import inproc  # noqa: E402
import proc  # noqa: E402

ck = Check('C01')
ck.regen()
mods = ck.props_modules() + ck.props_modules('C04')
if mods:
    ck.lean(mods)
    ck.require_theorems([
        'LbzVerif.Props.C04.unrle_rle',
        'LbzVerif.Props.C01.Mtf.un_mtf',
        'LbzVerif.Props.C01.Mtf.doMtf_eq_spec',
        'LbzVerif.Props.C01.Prefix.decode_encode',
        'LbzVerif.Props.C04.collect_pack',
        'LbzVerif.Props.C01.Prefix.assign_eq_canon',
        'LbzVerif.Props.C01.Transmit.parse_transmit',
        'LbzVerif.Props.C01.Transmit.len_mod8',
        'LbzVerif.Props.C01.Roundtrip.block_roundtrip',
        'LbzVerif.Props.C01.Roundtrip.roundtrip',
        'LbzVerif.Props.C01.Roundtrip.roundtrip_gen',
        'LbzVerif.Props.C01.Roundtrip.roundtrip_empty',
        'LbzVerif.Props.C01.Roundtrip.assemble_sched',
        'LbzVerif.Props.C01.Roundtrip.roundtrip_sched',
        'LbzVerif.Props.C01.Roundtrip.roundtrip_naive',
        'LbzVerif.Props.C01.Roundtrip.choicesOK_satisfiable',
        'LbzVerif.Props.C01.Roundtrip.roundtrip_sched_naive',
        'LbzVerif.Props.C01.Lbzip2.expand_compress',
        'LbzVerif.Props.C01.Lbzip2.expand_compress_naive',
        'LbzVerif.Props.C01.Lbzip2.sched_roundtrip',
    ])
inproc.run_libs(ck, ['w10_mtf', 'w11_prefix', 'w16_transmit', 'w23_roundtrip',
                     'w24_bwt'])
exe = ck.build_lbzip2(asan=False)
evals = 0
seen = set()
samples = []
dist = {}
rng = ck.rng
if exe:
    I = E.inputs(rng, ck.quick)
    levels = [1, 9] if ck.quick else list(range(1, 10))
    nset = [1, 2, 3, 4, 8, 16]
    jobs = []
    meta = []
    for name, data, tag in I:
        for lvl in levels:
            if ck.quick and lvl == 9 and len(data) > 400000:
                continue
            for seq in (False, True):
                reps = 1 if ck.quick else 3
                for _ in range(reps):
                    n = rng.choice(nset)
                    env = {}
                    if rng.random() < 0.6:
                        env['LBZIP2_VERIF_PERTURB'] = str(rng.randrange(1, 10**6))
                    env['LBZIP2_VERIF_CHECK'] = '1'
                    jobs.append(dict(exe=exe, args=['-%d' % lvl, '-n%d' % n] +
                                     (['-u'] if seq else []), data=data,
                                     env=env, timeout=300))
                    meta.append((name, data, tag, lvl, seq, n, env))
    res = proc.run_many(jobs)
    djobs = []
    dmeta = []
    for m, r in zip(meta, res):
        name, data, tag, lvl, seq, n, env = m
        evals += 1
        dist[tag] = dist.get(tag, 0) + 1
        case = {'input': name, 'bytes': len(data), 'level': lvl, 'seq': seq,
                'n': n, 'env': env}
        if r.code() != 'exit0' or r.err:
            ck.violation('compression run failed: %s stderr=%r' %
                         (r.code(), r.err[:200]),
                         dict(case, input_hex=data.hex() if len(data) < 70000
                              else None))
            continue
        n2 = rng.choice(nset)
        env2 = {'LBZIP2_VERIF_CHECK': '1'}
        if rng.random() < 0.6:
            env2['LBZIP2_VERIF_PERTURB'] = str(rng.randrange(1, 10**6))
        # input-buffer edges inside the compressed stream (the header parser
        # and the block reader are resumable at every word)
        if len(r.out) <= 300000 and rng.random() < 0.5:
            env2['LBZIP2_VERIF_IN_GRANUL'] = str(rng.choice(
                [4, 8, 12, 16, 20, 36, 100, 1000, 4096]))
        if len(data) <= 300000 and rng.random() < 0.2:
            env2['LBZIP2_VERIF_OUT_GRANUL'] = str(rng.choice(
                [1, 2, 3, 4, 5, 255, 256, 4096]))
        djobs.append(dict(exe=exe, args=['-d', '-n%d' % n2], data=r.out,
                          env=env2, timeout=300))
        dmeta.append((m, r.out, n2, env2))
    dres = proc.run_many(djobs)
    for (m, comp, n2, env2), r in zip(dmeta, dres):
        name, data, tag, lvl, seq, n, env = m
        evals += 1
        case = {'input': name, 'bytes': len(data), 'level': lvl, 'seq': seq,
                'n_compress': n, 'n_decompress': n2, 'env_c': env,
                'env_d': env2}
        if r.code() != 'exit0' or r.err or r.out != data:
            ck.violation('round trip failed: decompress %s, %d bytes (input '
                         '%d), stderr=%r' % (r.code(), len(r.out), len(data),
                                             r.err[:200]),
                         dict(case, input_hex=data.hex() if len(data) < 70000
                              else None, compressed_hex=comp[:70000].hex()))
            continue
        try:
            if B.libbz2_decode(comp) != data:
                ck.violation('libbz2 decodes lbzip2 output to different '
                             'bytes', dict(case))
        except B.Reject as e:
            ck.violation('libbz2 rejects lbzip2 output: %s' % e, dict(case))
        k = (E.sha(data), lvl, seq)
        if k not in seen and len(data) > 0:
            seen.add(k)
        if len(samples) < 6 and evals % 41 == 0:
            samples.append(dict(case, compressed_bytes=len(comp)))
ck.log('distribution:', dist)
ck.finish({
    'evaluations': evals, 'distinct_nontrivial': len(seen),
    'rule': 'input families (empty, 1 byte, runs 3..519, capacity boundaries '
            '100000k±j with and without a run crossing, RLE-expanding and '
            '-shrinking data, random, few-symbol, Fibonacci/Thue-Morse/'
            'de Bruijn/tandem sort adversaries, text) × levels × '
            '--sequential × worker counts × perturbation seeds; distinct = '
            '(input, level, mode), non-trivial = non-empty input',
    'samples': samples, 'input_distribution': dist,
    'inproc_libraries': [n for n, _ in getattr(ck, 'inproc', [])],
    'exhaustive': False,
}, ['divbwt, EM clustering and package_merge are exercised, not proved',
    'thread timing is perturbed by the hook, not enumerated'])
