#!/usr/bin/env python3
"""C15 — stored CRC fields are enforced.

Theorems: Props/C15*.lean over the Gen-translated parse() step function (the
EOS_CRC_2 arm compares stored and computed stream CRC; BLOCK_CRC_2 captures
the stored block CRC) and the do_reorder comparison.  Per run, exhaustive per
file: flip each of the 32 bits of every stored block CRC and stream CRC of a
corpus of files (1/3/many blocks, 1-3 streams, levels 1 and 9) and require
`lbzip2 -d` status 1 for -n1 and -n4."""
import bz2
import os
import sys
sys.path.insert(0, os.path.join(os.path.dirname(os.path.abspath(__file__)),
                                '..', 'tools'))
from vlib import Check  # noqa: E402
import bzformat as B  # noqa: E402
import camp_decode as C  # noqa: E402
import proc  # noqa: E402

ck = Check('C15')
ck.regen()
mods = ck.props_modules()
if mods:
    ck.lean(mods)
    ck.require_theorems(['LbzVerif.Props.C15.stream_flip_rejected',
                         'LbzVerif.Props.C15.block_flip_rejected',
                         'LbzVerif.Props.C15.blockCrc_captured',
                         'LbzVerif.Props.C15.File.block_crc_flip_rejected',
                         'LbzVerif.Props.C15.File.stream_crc_flip_rejected',
                         'LbzVerif.Props.C15.File.crc_flip_never_accepted',
                         'LbzVerif.Props.C15.File.crc_field_position',
                         'LbzVerif.Props.C15.File.crc_flip_never_terminates'])
sys.path.insert(0, os.path.dirname(os.path.abspath(__file__)))
import inproc  # noqa: E402
inproc.run_libs(ck, ['w25_crcflip'])
exe = ck.build_lbzip2(asan=False)
evals = 0
fields_total = 0
samples = []
files = []
rng = ck.rng


def crc_fields(data):
    """bit offsets of every stored block CRC / stream CRC (from the strict
    parser, independent of lbzip2)."""
    _, infos, meta = B.strict_decode(data, want_info=True, full=False)
    out = [('block', i['bit_start'] + 48) for i in infos]
    # every stream's CRC (also of streams without blocks) follows its
    # end-of-stream magic
    for e in meta['eos_bits']:
        out.append(('stream', e + 48))
    return out


if exe:
    P = C.plains(rng)
    # structured multi-block / multi-stream files
    for k in range(4 if ck.quick else 16):
        w = B.BitWriter()
        for _ in range(rng.randint(1, 3)):
            blocks = [(rng.choice(P[1:]), {'ntables': rng.randint(2, 6)})
                      for _ in range(rng.randint(1, 4))]
            B.make_stream(w, blocks, rng.choice([1, 9]), rng)
        files.append(('struct-%d' % k, w.bytes()))
    # real multi-block output: level 1, ~3 blocks found by the scanner
    big = rng.randbytes(120000) + bytes(rng.choices(range(4), k=150000))
    files.append(('real-3blk', bz2.compress(big, 1)))
    files.append(('real-1blk-l9', bz2.compress(b'hello world ' * 99, 9)))
    files.append(('real-concat', bz2.compress(b'first', 1) +
                  bz2.compress(big[:110000], 1) + bz2.compress(b'', 9)))
    # streams whose CRC has zero halves (empty streams), between other streams
    # ... at each of the four byte alignments relative to the 32-bit words
    # the parser loads (file offset - 4 header bytes)
    seen_al = set()
    for k in range(200):
        w = B.BitWriter()
        B.make_stream(w, [(bytes(rng.randrange(256) for _ in
                                 range(rng.randrange(1, 30))), {})], 9, rng)
        pre = len(w.bytes())
        al = (pre + 4 + 6 - 4) % 4      # offset of the empty stream's CRC
        if al in seen_al:
            continue
        seen_al.add(al)
        B.make_stream(w, [], 5, rng)
        B.make_stream(w, [(b'tail', {}), (b'stream' * 7, {})], 1, rng)
        files.append(('struct-empty-mid-al%d' % al, w.bytes()))
        if len(seen_al) == 4:
            break
    w = B.BitWriter()
    B.make_stream(w, [], 9, rng)
    B.make_stream(w, [(b'x', {})], 9, rng)
    files.append(('struct-empty-first', w.bytes()))
    # special VALUES of the stored fields (forged payloads): zero, a single
    # set bit (one flip away from zero), all ones, a single clear bit, zero
    # halves -- a comparison that is lenient for particular stored or
    # computed values is met by some flip of these
    def rotl(x):
        return ((x << 1) & 0xFFFFFFFF) | (x >> 31)
    ks = [0, 15, 16, 31] if ck.quick else list(range(32))
    specials = [0, 0xFFFFFFFF, 0x0000FFFF, 0xFFFF0000]
    specials += [1 << k for k in ks] + [0xFFFFFFFF ^ (1 << k) for k in ks]
    for t in specials:
        pay = B.forge_crc(bytes(rng.randrange(256) for _ in
                                range(rng.randrange(1, 40))), t)
        w = B.BitWriter()
        B.make_stream(w, [(pay, {})], 9, rng)     # block CRC = stream CRC = t
        files.append(('special-1blk-%08x' % t, w.bytes()))
    for t in specials[:4] + [1 << k for k in ks[:2] + ks[-1:]]:
        c1 = rng.getrandbits(32)
        p1 = B.forge_crc(bytes(rng.randrange(256) for _ in range(9)), c1)
        p2 = B.forge_crc(bytes(rng.randrange(256) for _ in range(17)),
                         t ^ rotl(c1))
        w = B.BitWriter()
        B.make_stream(w, [(b'lead', {})], 1, rng)
        B.make_stream(w, [(p1, {}), (p2, {})], 9, rng)   # stream CRC = t
        B.make_stream(w, [(b'trail', {})], 5, rng)
        files.append(('special-2blk-mid-%08x' % t, w.bytes()))
    jobs = []
    meta = []
    # the header parser is resumable: put input-buffer boundaries at every
    # word of the small files, so that some fall between the two 16-bit
    # halves of a CRC field
    for name, data in files:
        if len(data) > 2500 or name.startswith('special-'):
            continue
        flds = crc_fields(data)
        for kind, off in flds:
            for b in range(32):
                mut = C.flipbit(data, off + b)
                for ig in (4, 12, 20):
                    jobs.append(dict(exe=exe, args=['-d', '-n2'], data=mut,
                                     timeout=60,
                                     env={'LBZIP2_VERIF_IN_GRANUL': str(ig)}))
                    meta.append((name + '@granul%d' % ig, kind, off, b, 2,
                                 mut))
    for name, data in files:
        flds = crc_fields(data)
        fields_total += len(flds)
        for kind, off in flds:
            for b in range(32):
                mut = C.flipbit(data, off + b)
                for n in (1, 4):
                    jobs.append(dict(exe=exe, args=['-d', '-n%d' % n],
                                     data=mut, timeout=60))
                    meta.append((name, kind, off, b, n, mut))
    res = proc.run_many(jobs)
    for (name, kind, off, b, n, mut), r in zip(meta, res):
        evals += 1
        if r.code() != 'exit1':
            ck.violation(
                'flipping bit %d of the stored %s CRC at bit offset %d of %s '
                'gives %s with -n%d (expected exit status 1)' %
                (b, kind, off, name, r.code(), n),
                {'stream_hex': mut[:300000].hex(), 'file': name,
                 'field': kind, 'field_bit_offset': off, 'flipped_bit': b,
                 'cmd': 'lbzip2 -d -n%d < stream' % n})
        if len(samples) < 6 and evals % 977 == 0:
            samples.append({'file': name, 'field': kind, 'bit_offset': off,
                            'flipped_bit': b, 'n': n, 'result': r.code(),
                            'stderr': r.err[:80].decode('latin1')})
ck.log('files', [(n, len(d)) for n, d in files], 'fields', fields_total)
ck.finish({
    'evaluations': evals, 'distinct_nontrivial': fields_total * 32,
    'rule': 'for each file of the corpus every bit of every stored block-CRC '
            'and stream-CRC field (located by the independent strict parser) '
            'is flipped, one at a time; run with -n1 and -n4; distinct = '
            '(file, field, bit)',
    'samples': samples, 'files': [(n, len(d)) for n, d in files],
    'crc_fields': fields_total, 'exhaustive': True,
}, ['exhaustive per file of the corpus, not over all files'])
