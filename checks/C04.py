#!/usr/bin/env python3
"""C04 - Block boundaries follow the greedy run-length packing rule
(and the RLE1 stage of C01).

Proof side : lake build + axiom audit of LbzVerif.Props.C04
             (unrle_rle, rle1_run, rle1_maxrun, rleLen_snoc, rleLen_take_mono,
              pack_maximal, pack_largest, pack_pos, blocksOf_unfold,
              blocksOf_flatten, collect_split, collect_preserves_inv,
              collectMany_flatten, collect_pack, collect_pack_single).
Tie        : (H) the real collect() of src/encode.c + the final flush of
             encode() (harness/h_collect.c, ASan+UBSan, asserts on, every
             buffer an exact-size malloc) against
               * Model.collect / Model.finish  (lbzdrv `collect`)   and
               * Spec.pack / Spec.rle1         (lbzdrv `specblock`) directly,
             on (full flag, consumed count, block bytes, nblock, rle_state,
             rle_character, block CRC); the CRC additionally against a CRC
             computed here over input[:consumed]; cmap against the set of
             bytes of the block.
Campaign   : exhaustive small scope (thorough) / seeded 3 % sample (quick):
             all strings over {a,b} and all strings over {a,b,c} up to renaming
             of the letters, lengths <= 12, caps 1..8, every split into <= 3
             buffers (empty buffers included);
             random run-structured inputs with runs around 255..263 and
             515..520, caps up to 64 (and caps tuned to the encoded size),
             random multi-splits with cuts near run ends and near the block
             boundary.
"""
import hashlib
import itertools
import os
import re
import shutil
import subprocess
import sys
from collections import Counter
import multiprocessing
from concurrent.futures import ProcessPoolExecutor

sys.path.insert(0, os.path.join(os.path.dirname(os.path.abspath(__file__)),
                                '..', 'tools'))
from vlib import Check, crc_table, REPO  # noqa: E402

CRCT = crc_table()
# letters of the exhaustive scope: values that also occur as count bytes, so
# that data bytes and count bytes collide in the block
LET = {'a': 0x00, 'b': 0x01, 'c': 0x61}


def crc32bz(data):
    c = 0xFFFFFFFF
    for b in data:
        c = ((c << 8) & 0xFFFFFFFF) ^ CRCT[(c >> 24) ^ b]
    return c ^ 0xFFFFFFFF


def hx(b):
    return b.hex() if b else '-'


def unhx(s):
    return b'' if s == '-' else bytes.fromhex(s)


def py_rle_len_prefixes(data):
    """lengths of the RLE1 encoding of every prefix (steering only, never used
    as an oracle)"""
    out = [0]
    n = 0      # closed part
    c = None
    r = 0
    for x in data:
        if r and x == c and r < 259:
            r += 1
        else:
            n += (5 if r >= 4 else r)
            c, r = x, 1
        out.append(n + (5 if r >= 4 else r))
    return out


# ------------------------------------------------------------------ worker
def run_lines(exe, lines, timeout=3600, env=None):
    """Feed lines; return (replies, crashes) where crashes is a list of
    (request line, stderr tail).  After a crash the rest is re-fed to a new
    process."""
    replies = []
    crashes = []
    pos = 0
    while pos < len(lines):
        r = subprocess.run([exe], input='\n'.join(lines[pos:]) + '\n',
                           text=True, stdout=subprocess.PIPE,
                           stderr=subprocess.PIPE, timeout=timeout, env=env)
        got = r.stdout.split('\n')
        if got and got[-1] == '':
            got.pop()
        replies.extend(got)
        pos += len(got)
        if pos < len(lines):
            crashes.append((lines[pos], r.stderr[-1500:]))
            replies.append('CRASH')
            pos += 1
            if len(crashes) >= 5:
                replies.extend(['SKIPPED'] * (len(lines) - pos))
                break
    return replies, crashes


def run_harness(exe, lines):
    """fast (block-buffered) first; on any failure again with a flush after
    every reply so that the failing request can be named"""
    r = subprocess.run([exe], input='\n'.join(lines) + '\n', text=True,
                       stdout=subprocess.PIPE, stderr=subprocess.PIPE,
                       timeout=3600)
    got = r.stdout.split('\n')
    if got and got[-1] == '':
        got.pop()
    if r.returncode == 0 and len(got) == len(lines):
        return got, []
    env = dict(os.environ)
    env['H_COLLECT_FLUSH'] = '1'
    return run_lines(exe, lines, env=env)


_PAIRS = {}


def pairs(L):
    v = _PAIRS.get(L)
    if v is None:
        v = _PAIRS[L] = [(i, j) for i in range(L + 1) for j in range(i, L + 1)]
    return v


def verify(cap, data, spec, req, c, m, cmap_cache):
    """full examination of one reply pair; returns None or (kind, detail)"""
    f = c.split(' ')
    if len(f) != 8:
        return ('malformed', {'c': c, 'model': m, 'spec': spec})
    consumed = int(f[1])
    blk = unhx(f[2])
    if '%s %s' % (f[1], f[2]) != spec:
        return ('spec', {'c': c, 'model': m, 'spec': spec})
    want = crc32bz(data[:consumed])
    if int(f[5], 16) != want:
        return ('crc', {'c': c, 'model': m, 'spec': spec,
                        'crc_expected': '%08x' % want})
    cm = cmap_cache.get(f[2])
    if cm is None:
        v = bytearray(32)
        for b in blk:
            v[b >> 3] |= 1 << (b & 7)
        cm = cmap_cache[f[2]] = v.hex()
    if cm != f[7]:
        return ('cmap', {'c': c, 'cmap_expected': cm})
    if len(blk) > cap:
        return ('overfull', {'c': c})
    if not (c.startswith(m) and len(c) == len(m) + 65 and c[len(m)] == ' '):
        return ('model', {'c': c, 'model': m, 'spec': spec})
    return None


def work(job):
    """job = (harness, driver, groups); group = (cap, input bytes, splits) with
    splits = None (all <=3-buffer splits) or a list of size strings."""
    harness, driver, groups = job
    creq = []
    mreq = []
    meta = []          # per group: (first index in creq, count, index in mreq)
    for cap, data, splits in groups:
        h = hx(data)
        L = len(data)
        sp = ['%d,%d,%d' % (i, j - i, L - j) for i, j in pairs(L)] \
            if splits is None else splits
        meta.append((len(creq), len(sp), len(mreq)))
        mreq.append('specblock %d %s' % (cap, h))
        pre = 'collect %d %s ' % (cap, h)
        for s in sp:
            creq.append(pre + s)
        mreq.extend(creq[-len(sp):])
    mrep, mcr = run_lines(driver, mreq)
    crep, ccr = run_harness(harness, creq)
    stats = Counter()
    bad = []           # (kind, request, detail dict)
    samples = []
    for req, err in ccr:
        bad.append(('crash', req, {'stderr': err}))
    for req, err in mcr:
        bad.append(('driver-crash', req, {'stderr': err}))
    cmap_cache = {}
    nontrivial = 0
    gi = 0
    for (cap, data, splits), (c0, cnt, m0) in zip(groups, meta):
        gi += 1
        spec = mrep[m0]
        L = len(data)
        cs = crep[c0:c0 + cnt]
        ms = mrep[m0 + 1:m0 + 1 + cnt]
        if splits is None:
            cutl = pairs(L)
        else:
            cutl = []
            for z in splits:
                pos = 0
                cc = []
                for y in z.split(',')[:-1]:
                    pos += int(y)
                    cc.append(pos)
                cutl.append(cc)
        okc = None        # a fully verified (c, m) pair
        for t in range(cnt):
            c = cs[t]
            m = ms[t]
            if c in ('CRASH', 'SKIPPED') or m in ('CRASH', 'SKIPPED'):
                continue
            stats['cases'] += 1
            if okc is None or c != okc[0] or m != okc[1]:
                r = verify(cap, data, spec, creq[c0 + t], c, m, cmap_cache)
                if r is not None:
                    bad.append((r[0], creq[c0 + t], r[1]))
                    continue
                f = c.split(' ')
                full = f[0] == '1'
                consumed = int(f[1])
                rs = int(f[4])
                nb = int(f[3])
                key = 'full=%s rle=%s nblock=%s' % (
                    f[0], rs if rs < 4 else ('4+' if rs < 200 else '200+'),
                    'cap' if nb == cap else 'cap-1' if nb == cap - 1 else '<')
                # cut positions inside the consumed part and inside a run
                rc = [0 < p <= consumed and p < L and data[p - 1] == data[p]
                      for p in range(L + 1)]
                # how the block was closed
                e = consumed
                while e > 0 and data[e - 1] == data[consumed - 1] \
                        and consumed - e < 259:
                    e -= 1
                special = None
                if full and nb == cap - 1:
                    special = 'closed by refusing a fourth equal byte'
                elif full and nb == cap and consumed - e >= 4:
                    special = 'closed by a count byte filling the block'
                okc = (c, m, key, special, consumed < L, rc)
            _, _, key, special, longer, rc = okc
            stats[key] += 1
            if longer:
                stats['input longer than block'] += 1
            if special:
                stats[special] += 1
            inrun = False
            for p in cutl[t]:
                if rc[p]:
                    inrun = True
            if inrun:
                stats['buffer boundary inside a run'] += 1
            if special or inrun:
                nontrivial += 1
                if not samples and gi % 7 == 3 and inrun and special:
                    samples.append({'request': creq[c0 + t], 'c': c,
                                    'spec': spec})
    return {'stats': stats, 'bad': bad[:20], 'nbad': len(bad),
            'nontrivial': nontrivial, 'samples': samples}


# ------------------------------------------------------------- generators
def canonical_abc(maxlen):
    """strings over a,b,c whose letters appear in the order a,b,c and that use
    all three letters"""
    out = []

    def rec(s, k):
        if k == 3:
            out.append(s)
        if len(s) == maxlen:
            return
        for ch in 'abc'[:min(k + 1, 3)]:
            rec(s + ch, max(k, 'abc'.index(ch) + 1))
    rec('', 0)
    return out


def exhaustive_strings(maxlen):
    out = []
    for L in range(maxlen + 1):
        for t in itertools.product('ab', repeat=L):
            out.append(bytes(LET[c] for c in t))
    for s in canonical_abc(maxlen):
        out.append(bytes(LET[c] for c in s))
    return out


POOL = [0x00, 0x01, 0x02, 0x03, 0x04, 0xfb, 0xfe, 0xff, 0x61, 0x62]
LONG = list(range(252, 264)) + list(range(515, 521)) + [777, 1036, 1037]


def random_group(rng, nsplits):
    alpha = rng.sample(POOL, rng.randint(2, 4))
    runs = []
    nr = rng.choice([1, 1, 2, 3, 4, 6, 9, 12])
    nlong = 0
    for _ in range(nr):
        if rng.random() < 0.25 and nlong < 2:
            ln = rng.choice(LONG)
            nlong += 1
        else:
            ln = rng.choice([1, 1, 1, 2, 2, 3, 3, 4, 4, 5, 6, 7, 9])
        runs.append((rng.choice(alpha), ln))
    data = b''.join(bytes([c]) * ln for c, ln in runs)
    pre = py_rle_len_prefixes(data)
    tot = pre[-1]
    mode = rng.random()
    if mode < 0.45:
        cap = rng.randint(1, 64)
    elif mode < 0.9:
        cap = max(1, min(1024, rng.choice(pre) + rng.randint(-2, 2)))
    else:
        cap = max(1, min(1024, tot + rng.randint(-1, 3)))
    # steering only: approximate end of the block
    kk = max([i for i, v in enumerate(pre) if v <= cap] or [0])
    ends = [0]
    for c, ln in runs:
        ends.append(ends[-1] + ln)
    L = len(data)
    splits = []
    for _ in range(nsplits):
        nb = rng.choice([1, 2, 2, 3, 3, 4, 5, 8])
        cuts = []
        for _ in range(nb - 1):
            r = rng.random()
            if r < 0.35:
                x = kk + rng.randint(-4, 2)
            elif r < 0.7:
                x = rng.choice(ends) + rng.randint(-4, 4)
            elif r < 0.8:
                x = rng.choice(ends) + rng.choice([255, 256, 257, 258, 259, 260])
            else:
                x = rng.randint(0, L)
            cuts.append(max(0, min(L, x)))
        cuts.sort()
        sizes = []
        prev = 0
        for x in cuts:
            sizes.append(x - prev)
            prev = x
        sizes.append(L - prev)
        splits.append(','.join(map(str, sizes)))
    return (cap, data, sorted(set(splits)))


# -------------------------------------------------------------------- main
def process_level(ck):
    """Real streams: every block's stored CRC and run-length-encoded size must
    be those of the greedy packing of the input (levels 1..9, both modes):
    --sequential packs the whole input, otherwise each N*100000-byte chunk on
    its own.  Blocks are recovered by the independent parser in
    tools/bzformat.py."""
    import camp_encode as E
    import bzformat as B
    import proc
    exe = ck.build_lbzip2(asan=False)
    if not exe:
        return 0
    rng = ck.rng
    I = E.inputs(rng, ck.quick)
    jobs = []
    meta = []
    for name, data, tag in I:
        if tag in ('tiny',):
            continue
        lvls = [1] if ck.quick else [1, 2, 5, 9]
        if tag in ('boundary', 'boundary-run', 'boundary-run-shifted',
                   'rle-expands', 'rle-shrinks', 'multi-block'):
            lvls = [1, 2] if ck.quick else list(range(1, 10))
        for lvl in lvls:
            if len(data) < 20000 and lvl > 1:
                continue
            for seq in (False, True):
                jobs.append(dict(exe=exe, args=['-%d' % lvl, '-n%d' %
                                                rng.choice([1, 2, 4])] +
                                 (['-u'] if seq else []), data=data,
                                 timeout=300))
                meta.append((name, data, lvl, seq))
    res = proc.run_many(jobs)
    n = 0
    for (name, data, lvl, seq), r in zip(meta, res):
        n += 1
        if r.code() != 'exit0':
            ck.violation('compression failed: %r' % r, {'input': name})
            continue
        try:
            _, infos, _ = B.strict_decode(r.out, want_info=True, full=False)
        except B.Reject as e:
            ck.violation('output does not parse: %s' % e, {'input': name})
            continue
        exp = E.expected_blocks(data, lvl, seq)
        got = [(i['crc'], i['nblock']) for i in infos]
        want = [(c, nb) for k, c, nb in exp]
        if got != want:
            first = next((j for j in range(min(len(got), len(want)))
                          if got[j] != want[j]), min(len(got), len(want)))
            ck.violation(
                'block boundaries do not follow the greedy packing rule: '
                'input %s, level %d, %s: %d blocks (expected %d), first '
                'difference at block %d: RLE sizes got %s, expected %s; '
                'expected input bytes per block %s' %
                (name, lvl, '--sequential' if seq else 'default', len(got),
                 len(want), first, [x[1] for x in got][first:first + 3],
                 [x[1] for x in want][first:first + 3],
                 [k for k, _, _ in exp][first:first + 3]),
                {'input_family': name, 'level': lvl, 'sequential': seq,
                 'input_hex': data.hex() if len(data) < 300000 else None,
                 'cmd': 'lbzip2 -%d%s' % (lvl, ' -u' if seq else '')})
    return n


def main():
    ck = Check('C04')
    ck.regen()
    # with a private driver (LBZDRV set, development) do not insist on building
    # the shared lbzdrv, which contains every work package's commands
    if os.environ.get('LBZDRV'):
        ck.lean(ck.props_modules(), extra_targets=())
    else:
        ck.lean(ck.props_modules())
    ck.require_theorems(['LbzVerif.Props.C04.' + n for n in (
        'unrle_rle', 'rle1_run', 'rle1_maxrun', 'rleLen_snoc',
        'rleLen_take_mono', 'pack_maximal', 'pack_largest', 'pack_pos',
        'blocksOf_unfold', 'blocksOf_flatten', 'collect_split',
        'collect_preserves_inv', 'init_wellformed', 'collectMany_flatten',
        'collect_pack', 'collect_pack_single', 'Blocks.realCodec_ok',
        'Blocks.blocks_nonseq', 'Blocks.blocks_seq')])
    # the final flush of encode(): cut the statements out of the source so the
    # harness executes the text of the tree being checked
    flags = []
    try:
        with open(os.path.join(REPO, 'src', 'encode.c')) as f:
            enc_src = f.read()
        m = re.search(r'/\* Finalize initial RLE\. \*/\n(.*?)\n[ \t]*'
                      r'assert\(s->nblock > 0\);', enc_src, re.S)
        if m is None or 'divbwt' in m.group(1) or len(m.group(1)) > 600:
            raise ValueError('marker "Finalize initial RLE." not found')
        with open(os.path.join(ck.tmp, 'finalize_rle.inc'), 'w') as f:
            f.write(m.group(1) + '\n')
        flags = ['-I' + ck.tmp, '-DHAVE_FINALIZE_INC']
    except (OSError, ValueError) as e:
        ck.broken.append('tie: cannot cut the final RLE flush out of '
                         'encode(): %s' % e)
    h = ck.cc('h_collect', ['harness/h_collect.c',
                            os.path.join(REPO, 'src', 'crctab.c')],
              flags=flags)
    drv = ck.driver()
    if os.path.exists(drv):
        # private copy: the shared binary is re-linked (and briefly absent)
        # whenever another check rebuilds it
        drv = shutil.copy2(drv, os.path.join(ck.tmp, 'lbzdrv-c04'))
    if h is None or not os.path.exists(drv):
        if h is not None:
            ck.broken.append('driver missing: ' + drv)
        ck.finish({'evaluations': 0, 'distinct_nontrivial': 0,
                   'rule': 'n/a', 'samples': [], 'exhaustive': False})

    rng = ck.rng
    caps = list(range(1, 9))
    strings = exhaustive_strings(12)
    n_ex_groups = len(strings) * len(caps)
    if ck.quick:
        pick = sorted(rng.sample(range(n_ex_groups), int(0.03 * n_ex_groups)))
    else:
        pick = range(n_ex_groups)
    ex = [(caps[i % len(caps)], strings[i // len(caps)], None) for i in pick]
    n_rand = 3000 if ck.quick else 120000
    rnd = [random_group(rng, 4 if ck.quick else 6) for _ in range(n_rand)]
    # fixed corner inputs (always run): run lengths at the 4/259 limits
    fixed = []
    for ln in (3, 4, 5, 258, 259, 260, 263, 518, 519):
        for cap in (1, 3, 4, 5, 6, 9, 10, 11, 64):
            d = b'\xff' * ln + b'\x00'
            L = len(d)
            fixed.append((cap, d, ['%d' % L, '%d,%d' % (ln, 1),
                                   '%d,%d,%d' % (3, ln - 3, 1),
                                   '%d,0,%d' % (min(4, L), L - min(4, L)),
                                   '1,' * (L - 1) + '1' if L <= 300 else '%d' % L]))

    def weight(g):
        return (len(g[1]) + 1) * (len(g[1]) + 2) // 2 if g[2] is None \
            else len(g[2]) * (1 + len(g[1]) // 40)

    jobs = []
    for pool in (ex, rnd + fixed):
        cur = []
        w = 0
        for g in pool:
            cur.append(g)
            w += weight(g)
            if w >= 40000:
                jobs.append((h, drv, cur))
                cur = []
                w = 0
        if cur:
            jobs.append((h, drv, cur))
    ck.log('%d exhaustive groups (of %d), %d random groups, %d fixed, %d jobs'
           % (len(ex), n_ex_groups, len(rnd), len(fixed), len(jobs)))

    stats = Counter()
    nontrivial = 0
    nbad = 0
    samples = []
    reported = 0
    # forkserver: the workers must not inherit (and copy-on-write) the big
    # case lists of this process
    with ProcessPoolExecutor(
            max_workers=min(16, os.cpu_count() or 4),
            mp_context=multiprocessing.get_context('forkserver')) as pool:
        for res in pool.map(work, jobs, chunksize=1):
            stats.update(res['stats'])
            nontrivial += res['nontrivial']
            nbad += res['nbad']
            if len(samples) < 8:
                samples.extend(res['samples'][:1])
            for kind, req, det in res['bad']:
                if reported >= 12:
                    break
                reported += 1
                rep = dict(det)
                rep['harness'] = 'h_collect'
                rep['request'] = req
                rep['reply_format'] = ('full consumed block nblock rle_state '
                                       'crc rle_char cmap')
                if kind == 'spec':
                    ck.violation(
                        'collect() does not pack greedily: (consumed, block) '
                        'of the real code differs from (Spec.pack, Spec.rle1 '
                        'of that prefix)', rep)
                elif kind == 'crc':
                    ck.violation('block_crc is not the CRC of the bytes '
                                 'consumed', rep)
                elif kind == 'crash':
                    ck.violation('collect() aborted (sanitizer / assert)', rep)
                elif kind == 'overfull':
                    ck.violation('block longer than its capacity', rep)
                elif kind == 'cmap':
                    ck.violation('cmap is not the set of bytes of the block '
                                 '(C01: symbol map)', rep)
                else:
                    ck.broken.append('correspondence: %s %s c=%s model=%s' % (
                        kind, req, det.get('c'), det.get('model')))
    proc_runs = process_level(ck)
    ck.log('cases %d, mismatching %d' % (stats['cases'], nbad))
    dist = {k: v for k, v in sorted(stats.items()) if k != 'cases'}
    for k, v in dist.items():
        ck.log('  %-45s %d' % (k, v))
    dig = hashlib.sha1(repr(sorted(dist.items())).encode()).hexdigest()[:12]
    ck.finish({
        'evaluations': stats['cases'],
        'distinct_nontrivial': nontrivial,
        'rule': 'a case is (cap, input, list of buffer sizes); the enumerated '
                'cases are pairwise distinct by construction, random ones are '
                'de-duplicated per input; non-trivial = a buffer boundary falls '
                'inside a run of equal bytes within the consumed part (the '
                'resume path finish_run continues a run), or the block was '
                'closed by one of the look-ahead rules (a fourth equal byte '
                'refused with one byte of room left; a count byte filling '
                'the block)',
        'samples': samples,
        'exhaustive': not ck.quick,
        'exhaustive_scope': 'all strings over {00,01} and all strings over '
                            '{00,01,61} using all three letters in order of '
                            'first appearance, lengths 0..12, caps 1..8, every '
                            'split into three buffers incl. empty ones'
                            + (' (3 % seeded sample of the (cap,string) pairs '
                               'in this tier)' if ck.quick else ''),
        'exhaustive_groups': len(ex),
        'random_groups': len(rnd),
        'distribution': dist,
        'distribution_digest': dig,
        'c_model_spec_mismatches': nbad,
        'process_level_streams': proc_runs,
    })


if __name__ == '__main__':
    main()
