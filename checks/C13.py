#!/usr/bin/env python3
"""C13 — peak memory is bounded by the worker count.

Theorems: Props/C13/*.lean — liveBytes ≤ memBound n (linear in n) as a
corollary of the slot/work-unit conservation invariants, allocation sizes and
slot formulas from the regenerated Gen.  Tie: an LD_PRELOAD allocation shim
(harness/mallocshim.c) measures peak live heap bytes and the blocks still
live at exit; runs on inputs of size ×1, ×4, ×16 (random, highly compressible,
million-fold decompression bombs) at -n 1, 2, 4: peak live ≤ bound(n), peak
RSS ≤ bound(n) + fixed slack, neither grows with input size, nothing
allocated by lbzip2 is live at exit."""
import bz2
import os
import re
import resource
import subprocess
import sys
sys.path.insert(0, os.path.join(os.path.dirname(os.path.abspath(__file__)),
                                '..', 'tools'))
from vlib import Check, VERIF, LEAN  # noqa: E402

ck = Check('C13')
ck.regen()
mods = ck.props_modules()
if mods:
    ck.lean(mods)
    ck.require_theorems([
        'LbzVerif.Props.C13.Compress.live_le',
        'LbzVerif.Props.C13.Compress.memBound_linear',
        'LbzVerif.Props.C13.Expand.live_le',
        'LbzVerif.Props.C13.Expand.memBound_linear',
        'LbzVerif.Props.C13.Expand.small_objects',
    ])
exe = ck.build_lbzip2(asan=False)
shim = ck.cc('mallocshim.so', ['harness/mallocshim.c'], asan=False,
             flags=['-shared', '-fPIC'], libs=['-ldl', '-lpthread'])
rng = ck.rng


def gen(name):
    with open(os.path.join(LEAN, 'LbzVerif', 'Gen', name)) as f:
        return f.read()


def mem_formulas():
    """slot formulas from the regenerated Gen/Process.lean (same text the
    theorems use)."""
    t = gen('Process.lean')
    m = re.search(r'def memCompress \(n bs100k : Nat\).*?:=\s*\((.*?)\)\n', t,
                  re.S)
    c = [x.strip() for x in m.group(1).split(',')]
    m = re.search(r'def memExpand \(n : Nat\).*?:=\s*\((.*?)\)\n', t, re.S)
    d = [x.strip() for x in m.group(1).split(',')]

    def ev(e, n, bs=9):
        return eval(e.replace('bs100k', str(bs)), {'n': n})
    return (lambda n, bs: [ev(x, n, bs) for x in c]), \
           (lambda n: [ev(x, n) for x in d])


memC, memD = mem_formulas()
SIZEOF_ENC = 280 * 1024          # upper bound for sizeof(struct encoder_state)
SMALL = 1 << 20                  # queues, descriptors, stdio: fixed slack


def bound_compress(n, bs):
    tin, tout, ing, _ = memC(n, bs)
    enc = SIZEOF_ENC + (bs * 100000 + 50) * 4 + bs * 100000 + 1
    maxblock = bs * 100000 * 2 + 20000     # generous: compressed block bytes
    return n * enc + tin * ing + tout * maxblock + SMALL


# `Sizes` of Props/C13/Expand.lean (upper bounds for the C objects, LP64)
Z_EXPAND = {
    'decBytes': 900000 * 4 + 200 * 1024 + 2 * 1280,  # tt + retriever_internal
                                        # _state + retr_blk + emit_blk
    'unordBytes': 72, 'scanBytes': 48, 'ptrBytes': 8, 'headBytes': 24,
}


def mem_bound_expand(z, n, tin, tout):
    """`memBound z c` of Props/C13/Expand.lean, term by term (c.n = n,
    c.totalIn = tin, c.totalOut = tout); `live_le` proves
    liveBytes <= memBound in every reachable non-failed state."""
    return (z['decBytes'] * n + z['inBytes'] * tin + z['outBytes'] * tout
            + z['unordBytes'] * (2 * n + tout) + z['scanBytes'] * tin
            + (z['ptrBytes'] * (2 * tin + 3 * n + 2 * tout)
               + z['headBytes'] * (n + tout)))


def per_worker_expand(z):
    """`perWorker z` of Props/C13/Expand.lean (`memBound_linear`: with
    Gen.memExpand the bound is n * perWorker z)."""
    return (z['decBytes'] + 4 * z['inBytes'] + 16 * z['outBytes']
            + (18 * z['unordBytes'] + 4 * z['scanBytes']
               + 43 * z['ptrBytes'] + 17 * z['headBytes']))


def bound_expand(n):
    """memBound of the theorem + SMALL for what the model does not cover
    (thread descriptors, stdio buffers, libc bookkeeping)."""
    tin, tout, ing, outg = memD(n)
    z = dict(Z_EXPAND, inBytes=ing + 32, outBytes=outg + 64)
    b = mem_bound_expand(z, n, tin, tout)
    if (tin, tout) == (4 * n, 16 * n):      # the shape memBound_linear is about
        assert b == n * per_worker_expand(z), (b, n, per_worker_expand(z))
    return b + SMALL


def run(args, data, n):
    out = os.path.join(ck.tmp, 'ms.out')
    if os.path.exists(out):
        os.unlink(out)
    tf = os.path.join(ck.tmp, 'time.out')
    env = dict(os.environ, MALLOCSHIM_OUT=out)
    # /usr/bin/time is a small process, so the child's ru_maxrss is not
    # polluted by this Python process' image (maxrss survives fork+exec);
    # the shim is preloaded into lbzip2 only
    p = subprocess.Popen(['/usr/bin/time', '-f', '%M', '-o', tf, 'env',
                          'LD_PRELOAD=' + shim, exe] + args + ['-n%d' % n],
                         stdin=subprocess.PIPE, stdout=subprocess.DEVNULL,
                         stderr=subprocess.PIPE, env=env)
    try:
        p.stdin.write(data)
        p.stdin.close()
    except BrokenPipeError:
        pass
    err = p.stderr.read()
    status = p.wait()
    try:
        rss_kb = int(open(tf).read().split()[-1])
    except (OSError, ValueError, IndexError):
        rss_kb = 0

    class RU:
        ru_maxrss = rss_kb
    ru = RU()
    peak = live = nlive = None
    sites = []
    if os.path.exists(out):
        for line in open(out):
            w = line.split()
            if w[0] == 'peak_live':
                peak = int(w[1])
            elif w[0] == 'live_at_exit':
                live, nlive = int(w[1]), int(w[2])
            elif w[0] == 'site':
                sites.append((w[1], int(w[2])))
    return {'status': status, 'peak': peak, 'live': live, 'sites': sites,
            'rss': ru.ru_maxrss * 1024, 'err': err}


def resolve(addr):
    if not addr.startswith('exe+'):
        return addr
    r = subprocess.run(['addr2line', '-f', '-e', exe, addr[4:]],
                       stdout=subprocess.PIPE, text=True)
    return r.stdout.split('\n')[0] or addr


evals = nontriv = 0
samples = []
table = []
if exe and shim:
    unit = 1200000 if ck.quick else 3000000
    rnd = rng.randbytes(unit)
    comp = bytes(rng.choices(range(3), k=unit))
    zeros = b'\0' * (unit * 8)
    with open('/repo/tests/ch255.bz2', 'rb') as f:
        bomb = f.read()
    fam_c = {'random': rnd, 'compressible': comp, 'zeros': zeros}
    # valid streams full of spurious block headers (speculative jobs that
    # fail or are overtaken must give back everything they allocated)
    import camp_sched as S
    planted = b''.join(d for _, d, _, tag in S.planted_streams(rng, True)
                       if tag.startswith('in-coded-data')) * 8
    fam_d = {'random': bz2.compress(rnd, 9), 'compressible':
             bz2.compress(comp, 9), 'bomb-46MB': bomb,
             'planted-headers': planted}
    ns = [1, 2, 4]
    mults = [1, 4, 16] if not ck.quick else [1, 4]
    for n in ns:
        for fam, base in fam_c.items():
            peaks = []
            for k in mults:
                r = run(['-9'], base * k, n)
                evals += 1
                b = bound_compress(n, 9)
                peaks.append(r['peak'])
                table.append(('compress', fam, n, k, r['peak'], r['rss'], b))
                ok = r['status'] == 0 and r['peak'] is not None and \
                    r['peak'] <= b and r['rss'] <= b + (24 << 20)
                if not ok:
                    ck.violation(
                        'compression memory above the bound: family %s ×%d '
                        '-n%d peak live %s rss %d bound %d status %d' %
                        (fam, k, n, r['peak'], r['rss'], b, r['status']),
                        {'family': fam, 'mult': k, 'n': n, 'peak': r['peak'],
                         'rss': r['rss'], 'bound': b, 'unit_bytes': unit})
                else:
                    nontriv += 1
                own = [(resolve(a), s) for a, s in r['sites'] if a != 'lib']
                if own:
                    ck.violation('heap blocks allocated by lbzip2 still live '
                                 'at exit (compress %s ×%d -n%d): %s' %
                                 (fam, k, n, own[:5]),
                                 {'family': fam, 'n': n, 'sites': own[:20]},
                                 signature='live-at-exit:' + own[0][0])
        for fam, base in fam_d.items():
            # -t (no sink file: ospec.fd == -1) takes its own route through
            # do_reorder / the writer and is measured like -d
            for k, dopt in [(k, o) for k in mults for o in ('-d', '-t')]:
                r = run([dopt], base * k, n)
                evals += 1
                b = bound_expand(n)
                table.append(('expand' if dopt == '-d' else 'test', fam, n, k, r['peak'], r['rss'], b))
                ok = r['status'] == 0 and r['peak'] is not None and \
                    r['peak'] <= b and r['rss'] <= b + (24 << 20)
                if not ok:
                    ck.violation(
                        'decompression memory above the bound: %s family %s ×%d '
                        '-n%d peak live %s rss %d bound %d status %d' %
                        (dopt, fam, k, n, r['peak'], r['rss'], b, r['status']),
                        {'family': fam, 'mult': k, 'n': n, 'peak': r['peak'],
                         'rss': r['rss'], 'bound': b, 'option': dopt})
                else:
                    nontriv += 1
                own = [(resolve(a), s) for a, s in r['sites'] if a != 'lib']
                if own:
                    ck.violation('heap blocks allocated by lbzip2 still live '
                                 'at exit (%s %s ×%d -n%d): %s' %
                                 (dopt, fam, k, n, own[:5]),
                                 {'family': fam, 'n': n, 'sites': own[:20]},
                                 signature='live-at-exit:' + own[0][0])
    for row in table:
        ck.log('%-8s %-13s n=%d ×%-2d peak=%10s rss=%10d bound=%10d' % row)
    samples = [dict(zip(('mode', 'family', 'n', 'mult', 'peak_live', 'rss',
                         'bound'), r)) for r in table[:8]]
ck.finish({
    'evaluations': evals, 'distinct_nontrivial': nontriv,
    'rule': 'mode (compress, -d, -t) × input family × size multiple × worker count; peak live '
            'heap bytes from the allocation shim and ru_maxrss compared with '
            'the linear bound computed from the regenerated slot formulas; '
            'non-trivial = run succeeded within the bound',
    'samples': samples, 'exhaustive': False,
}, ['RSS vs live bytes slack (24 MiB allowed) is measured, not proved'])
