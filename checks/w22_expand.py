#!/usr/bin/env python3
"""W22 whole-file correspondence library: Model.Expand.expandFile (the
sequential composition sniff -> parse -> retrieve -> decode -> emit ->
do_reorder that the theorems `expand_sound` / `expand_complete` are about)
against the REAL program and against the strict reference.

Compares, on the same byte strings,
  Real   lbzip2 -d -n2 < file         (built from /repo on every run)
  Model  lbzdrv  expandfile <hex>     (Model.Expand.expandFile)
  Spec   lbzdrv  decode <hex>         (Spec.Bzip2.decodeFile, THE oracle)
  Py     bzformat.strict_decode       (independent Python oracle)

Inputs: the small cases of the decoder campaign (tools/camp_decode.py:
gen_valid / gen_malformed; files <= 3 kB whose blocks — as far as a Python
pre-scan without inverse BWT gets through them — hold <= 20000 bytes: the Lean
model of decode() is list based and quadratic; the files skipped for that
reason are listed in the summary as `skipped_big_blocks`), plus, for two small
files, EVERY truncation point and a set of trailing-data variants (0..5 junk
bytes, "B", "BZ", "BZh", "BZh0", "BZh9", "BZh9"+rest, a second stream cut at
every point of its last 16 bytes, zero bytes that would complete a cut
stream, ...) at every residue of the length mod 4 (the word padding of
on_input_avail and the `eof_missing` test depend on it).

Verdicts:
  * Real vs Spec is the PROPERTY (C05: real accepts => Spec accepts with the
    same bytes; C06: the converse): a difference is a violation with the
    file as replay.
  * Model vs Real (ok/err, bytes when ok) is the CORRESPONDENCE of
    Model.Expand: a difference while the property holds is a broken tie.
  * Error codes are compared too.  One difference is explained, counted and
    not an alarm: the model reports a block's failure (`err <n> block`) where
    the real program reports the parser's next verdict (4 / 16 / 19), because
    the parser gets the token back when retrieve() fails and overtakes the
    block on its way to do_reorder.  Anything else is a broken tie.
  * Spec vs Py: broken oracle.

Use:  run(ck) from a property check, or standalone
      `python3 checks/w22_expand.py [--tier quick|thorough]` (prints the
      summary, writes NO property evidence)."""
import bz2
import concurrent.futures
import hashlib
import os
import subprocess
import sys

HERE = os.path.dirname(os.path.abspath(__file__))
sys.path.insert(0, os.path.join(HERE, '..', 'tools'))
import vlib  # noqa: E402
import proc  # noqa: E402
import bzformat as B  # noqa: E402
import camp_decode as C  # noqa: E402

NPROC = min(16, os.cpu_count() or 4)
MAXLEN = 3000
MAXOUT = 20000

MSG = ["bad stream header magic", "bad block header magic",
       "empty source alphabet", "bad number of trees", "no coding groups",
       "invalid selector", "invalid delta code", "invalid prefix code",
       "incomplete prefix code", "empty block", "unterminated block",
       "missing run length", "block CRC mismatch", "stream CRC mismatch",
       "block overflow", "primary index too large", "unexpected end of file"]
PARSER_CODES = ('4', '16', '19')


def hx(b):
    return b.hex() if b else '-'


def par_batch(drv, lines, timeout=1800):
    """Replies of the driver to `lines`, computed by NPROC processes."""
    if not lines:
        return []
    n = max(1, min(NPROC, len(lines) // 8 or 1))
    chunks = [lines[i::n] for i in range(n)]

    def f(ch):
        r = subprocess.run([drv], input='\n'.join(ch) + '\n', text=True,
                           stdout=subprocess.PIPE, stderr=subprocess.PIPE,
                           timeout=timeout)
        rep = r.stdout.split('\n')
        if rep and rep[-1] == '':
            rep.pop()
        rep += ['driver-died'] * (len(ch) - len(rep))
        return rep

    with concurrent.futures.ThreadPoolExecutor(max_workers=n) as ex:
        reps = list(ex.map(f, chunks))
    out = [None] * len(lines)
    for k, rep in enumerate(reps):
        for j, r in enumerate(rep):
            out[k + j * n] = r
    return out


def real_reply(res):
    """Canonical text of a run of the real program."""
    if res.timeout or res.sig is not None or res.status is None:
        return 'crash ' + res.code()
    if res.status == 0:
        return 'ok ' + hx(res.out)
    err = res.err.decode('latin-1').strip()
    if 'not a valid bzip2 file' in err:
        return 'err not-bzip2'
    for i, m in enumerate(MSG):
        if err.endswith('compressed data error: ' + m):
            return 'err %d' % (i + 3)
    return 'err ?' + err[-60:]


def py_reply(data):
    try:
        return 'ok ' + hx(B.strict_decode(data))
    except B.Reject:
        return 'err'
    except (IndexError, ValueError, KeyError) as e:
        return 'exc ' + repr(e)


def prescan(data):
    """Largest block (size before the final run-length decoding) among the
    blocks the Python parser gets through, without inverse BWT: the guard
    that keeps decompression bombs away from the list-based Lean models."""
    big = 0
    try:
        r = B.BitReader(data)
        first = True
        while True:
            rest = data[r.pos // 8:]
            if len(rest) < 4 or rest[:3] != b'BZh' or \
                    not (0x31 <= rest[3] <= 0x39):
                break
            r.get(24)
            level = r.get(8) - 0x30
            while True:
                m = r.get(48)
                if m == B.BLOCK_MAGIC:
                    _, _, info = B.read_block(r, level, False)
                    big = max(big, info['nblock'])
                elif m == B.EOS_MAGIC:
                    r.get(32)
                    break
                else:
                    return big
            r.pos = (r.pos + 7) // 8 * 8
            first = False
    except (B.Reject, IndexError, ValueError, KeyError):
        pass
    return big


def corner_files(rng):
    """Two small files whose lengths differ mod 4 (so that, with the variants
    below, every padding length 0..3 meets every kind of tail)."""
    a = bz2.compress(b'hello', 9)
    w = B.BitWriter()
    B.make_stream(w, [(b'abracadabra' * 3, {'ntables': 2}), (b'zz', {})], 3,
                  rng)
    b = w.bytes()
    return [('hello-l9', a), ('two-blocks-l3', b)]


def corner_cases(rng):
    out = []
    empty1 = b'BZh1\x17\x72\x45\x38\x50\x90\0\0\0\0'
    for nm, f in corner_files(rng):
        for k in range(len(f) + 1):
            out.append(('%s-cut-%d' % (nm, k), f[:k]))
        tails = [b'B', b'BZ', b'BZh', b'BZh0', b'BZhA', b'BZh9', b'BZh1',
                 b'BZh9\x17', b'BZh9\x31', b'BZh91AY&SY', b'BZ\0', b'BZ\0\0',
                 b'BZh\0', b'BZh\x31', b'\0BZh9', b'bZh9', b'BZH9', b'BZX',
                 b'BZXY', b'B' + f, b'BZ' + f, b'BZh9' + f[4:],
                 b'BZh1' + f[4:], b'BZh0' + f[4:]]
        for j in range(1, 9):
            tails.append(b'\0' * j)
            tails.append(bytes(rng.randrange(1, 256) for _ in range(j)))
        # a second (empty / full) stream cut at every point near its end and
        # completed by real zero bytes or not
        for k in range(len(empty1) + 1):
            tails.append(empty1[:k])
        for k in range(max(4, len(f) - 16), len(f) + 1):
            tails.append(f[:k])
            tails.append(f[:k] + b'\0')
        tails.append(f + f)
        tails.append(f + b'\0' + f)
        tails.append(empty1 + f)
        tails.append(empty1 + b'BZ')
        tails.append(empty1 + b'BZh9')
        # pad the junction so that the tail starts at every residue mod 4:
        # junk before a header makes it garbage, so use a leading empty
        # stream (14 bytes) 0..3 times instead
        for t in tails:
            for pre in range(4):
                head = empty1 * pre + f
                out.append(('%s-pre%d-tail-%s' % (nm, pre, t[:10].hex()),
                            head + t))
    # files that are only a header / not a header
    for d in [b'', b'B', b'BZ', b'BZh', b'BZh9', b'BZh0', b'BZh1\0', b'BZh9\x17',
              b'BZh9\x17\x72', b'BZh9\x17\x72\x45\x38\x50\x90',
              b'BZh9\x17\x72\x45\x38\x50\x90\0', empty1[:-1], empty1[:-2],
              empty1[:-3], empty1, empty1 + b'\0', b'\0' * 8, b'hello world',
              b'BZh:' + empty1[4:], b'BZi1' + empty1[4:]]:
        out.append(('tiny-%s' % d.hex(), d))
    return out


def run(ck):
    summ = {'evaluations': 0, 'distinct_nontrivial': 0, 'samples': [],
            'exhaustive': False,
            'rule': 'distinct = sha1 of the file; non-trivial = the file '
                    'starts with a full BZh1..BZh9 header (gets past the '
                    'sniff of work())'}
    exe = ck.build_lbzip2(name='lbzip2-w22', asan=False)
    drv = ck.driver()
    if not exe:
        return summ
    rc, out, _ = vlib.batch([drv], ['expandfile -', 'decode -'])
    if out[:2] != ['err not-bzip2', 'err empty']:
        ck.broken.append('driver lacks the W22 commands (expandfile - / '
                         'decode - -> %r)' % out[:2])
        return summ
    rng = ck.rng
    # the case list of decode_run.build_cases, without running the Python
    # oracle on the big files (it is run below, in parallel, on what is kept)
    cases = C.dedupe(C.gen_valid(rng, ck.quick) + C.gen_malformed(rng, ck.quick))
    items = []          # (name, data, tag)
    for c in cases:
        if len(c.data) > MAXLEN:
            continue
        items.append((c.name, c.data, c.tag.split(':')[0]))
    for nm, d in corner_cases(rng):
        items.append((nm, d, 'corner'))
    seen = set()
    uniq = []
    for it in items:
        k = hashlib.sha1(it[1]).hexdigest()
        if k not in seen:
            seen.add(k)
            uniq.append(it)
    items = uniq
    with concurrent.futures.ProcessPoolExecutor(max_workers=NPROC) as ex:
        bigs = list(ex.map(prescan, [d for _, d, _ in items], chunksize=16))
    skipped = [it[0] for it, b in zip(items, bigs) if b > MAXOUT]
    items = [it for it, b in zip(items, bigs) if b <= MAXOUT]
    summ['skipped_big_blocks'] = skipped
    res = proc.run_many([dict(exe=exe, args=['-d', '-n2'], data=d, timeout=60)
                         for _, d, _ in items])
    real = [real_reply(r) for r in res]
    ck.log('w22 expand: %d files, real program done' % len(items))
    model = par_batch(drv, ['expandfile ' + hx(d) for _, d, _ in items])
    ck.log('w22 expand: model done')
    spec = par_batch(drv, ['decode ' + hx(d) for _, d, _ in items])
    ck.log('w22 expand: spec done')
    with concurrent.futures.ProcessPoolExecutor(max_workers=NPROC) as ex:
        pyr = list(ex.map(py_reply, [d for _, d, _ in items], chunksize=16))
    ck.log('w22 expand: python oracle done')
    dist = {}
    explained = 0
    exact_codes = 0
    nontrivial = 0
    nbad = 0
    for (nm, d, tag), rr, mm, ss, pp in zip(items, real, model, spec, pyr):
        summ['evaluations'] += 1
        if d[:3] == b'BZh' and len(d) >= 4 and 0x31 <= d[3] <= 0x39:
            nontrivial += 1
        replay = {'file_hex': d.hex(), 'name': nm, 'real': rr[:200],
                  'model': mm[:200], 'spec': ss[:200],
                  'cmd': 'lbzip2 -d -n2 < file'}
        s_ok = ss.startswith('ok ')
        if (pp.startswith('ok ') and pp != ss) or \
                (pp == 'err' and not ss.startswith('err')) or \
                pp.startswith('exc'):
            ck.broken.append('oracle: Lean Spec.decodeFile (%s) != Python '
                             'oracle (%s) on %s' % (ss[:60], pp[:60], nm))
        r_ok = rr.startswith('ok ')
        key = (tag, 'spec-' + ('ok' if s_ok else ss[4:]),
               'model-' + ('ok' if mm.startswith('ok ') else mm[4:]))
        dist[key] = dist.get(key, 0) + 1
        prop_ok = True
        if rr.startswith('crash'):
            prop_ok = False
            ck.violation('lbzip2 -d crashed / hung on a file', replay)
        elif r_ok and rr != ss:
            prop_ok = False
            ck.violation('C05: lbzip2 -d accepted a file the strict reference '
                         'rejects, or wrote different bytes', replay)
        elif (not r_ok) and s_ok:
            prop_ok = False
            ck.violation('C06: lbzip2 -d rejected a file the strict reference '
                         'accepts', replay)
        # correspondence
        m_ok = mm.startswith('ok ')
        if m_ok != r_ok or (m_ok and mm != rr):
            if prop_ok:
                nbad += 1
                if nbad <= 8:
                    ck.broken.append('correspondence: Model.Expand (%s) != '
                                     'lbzip2 -d (%s) on %s = %s' %
                                     (mm[:60], rr[:60], nm, d.hex()[:400]))
        elif not m_ok:
            mc = mm[4:]
            rc_ = rr[4:]
            if mc == rc_ or mc == rc_ + ' block':
                exact_codes += 1
            elif mc.endswith(' block') and rc_ in PARSER_CODES:
                explained += 1
            else:
                nbad += 1
                if nbad <= 8:
                    ck.broken.append('correspondence: error code of '
                                     'Model.Expand (%s) != lbzip2 -d (%s) on '
                                     '%s = %s' % (mc, rc_, nm, d.hex()[:400]))
        if len(summ['samples']) < 8 and summ['evaluations'] % 97 == 1:
            summ['samples'].append({'name': nm, 'file_hex': d.hex()[:120],
                                    'real': rr[:60], 'model': mm[:60],
                                    'spec': ss[:60]})
    if nbad > 8:
        ck.broken.append('correspondence: %d more Model.Expand differences'
                         % (nbad - 8))
    summ['distinct_nontrivial'] = nontrivial
    summ['error_codes_exact'] = exact_codes
    summ['error_codes_block_overtaken_by_parser'] = explained
    d2 = {}
    for (tag, s, m), v in dist.items():
        d2.setdefault(tag, {})['%s/%s' % (s, m)] = v
    summ['distribution'] = d2
    sizes = sorted(len(d) for _, d, _ in items)
    summ['sizes'] = {'min': sizes[0], 'median': sizes[len(sizes) // 2],
                     'max': sizes[-1]} if sizes else {}
    ck.log('w22 expand: %d files (%d past the sniff), codes exact %d, '
           'block-overtaken %d, differences %d' %
           (summ['evaluations'], nontrivial, exact_codes, explained, nbad))
    return summ


if __name__ == '__main__':
    ck = vlib.Check('C05')

    def _no_file(what, replay, signature=None, no_input=False):
        ck.violations.append(what)           # standalone: no replay files
        if len(ck.violations) <= 6:
            print('VIOLATION (standalone, not recorded):', what, '|',
                  str(replay)[:600])
    ck.violation = _no_file
    r = run(ck)
    print({k: v for k, v in r.items() if k not in ('samples', 'distribution')})
    for t, v in sorted(r.get('distribution', {}).items()):
        print('  ', t, v)
    for b in ck.broken:
        print('BROKEN:', b[:700])
    print('violations:', len(ck.violations), 'broken:', len(ck.broken),
          'wall %.1fs' % (__import__('time').time() - ck.t0))
    sys.exit(1 if ck.violations or ck.broken else 0)
