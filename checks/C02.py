#!/usr/bin/env python3
"""C02 — compressed output is a strictly well-formed bzip2 stream.

Theorems (Props/C02*.lean, over the regenerated Gen constants): selector
count bound, dummy second table complete for every alphabet size, tree_pad
stays in 1..20.  Tie: translator for cl0 / array extents / header+trailer
bytes / combine_crc; per run every real output of the campaign is parsed by
the strict inspector (independent of lbzip2) and decoded by libbz2."""
import os
import sys
sys.path.insert(0, os.path.join(os.path.dirname(os.path.abspath(__file__)),
                                '..', 'tools'))
from vlib import Check  # noqa: E402
import camp_encode as E  # noqa: E402
import bzformat as B  # noqa: E402
import proc  # noqa: E402

ck = Check('C02')
ck.regen()
mods = ck.props_modules()
if mods:
    ck.lean(mods)
    ck.require_theorems([
        'LbzVerif.Props.C02.numSelectors_le',
        'LbzVerif.Props.C02.dummyTable_complete',
        'LbzVerif.Props.C02.treePad_in_range',
        'LbzVerif.Props.C02.Inspect.inspect_compress',
        'LbzVerif.Props.C02.Inspect.inspect_compress_gen',
        'LbzVerif.Props.C02.Inspect.inspect_compress_aligned',
        'LbzVerif.Props.C02.Inspect.inspect_compress_naive',
    ])
sys.path.insert(0, os.path.dirname(os.path.abspath(__file__)))
import inproc  # noqa: E402
inproc.run_libs(ck, ['w16_transmit', 'w11_prefix', 'w23_roundtrip'])
exe = ck.build_lbzip2(asan=False)
evals = 0
seen = set()
nontriv = 0
samples = []
dist = {}
tabstats = {'blocks': 0, 'single_table_blocks': 0, 'tables': 0,
            'max_selectors': 0, 'max_len': 0}
if exe:
    I = E.inputs(ck.rng, ck.quick)
    levels = [1, 9] if ck.quick else list(range(1, 10))
    jobs = []
    meta = []
    for name, data, tag in I:
        for lvl in levels:
            if ck.quick and lvl == 9 and len(data) > 400000:
                continue
            for seq in (False, True):
                n = ck.rng.choice([1, 2, 3, 4, 8])
                jobs.append(dict(exe=exe, args=['-%d' % lvl, '-n%d' % n] +
                                 (['-u'] if seq else []), data=data,
                                 timeout=300))
                meta.append((name, data, tag, lvl, seq, n))
    res = proc.run_many(jobs)
    for (name, data, tag, lvl, seq, n), r in zip(meta, res):
        evals += 1
        case = {'input': name, 'bytes': len(data), 'level': lvl, 'seq': seq,
                'n': n}
        dist[tag] = dist.get(tag, 0) + 1
        if r.code() != 'exit0' or r.err:
            ck.violation('compression failed: %r' % r,
                         dict(case, input_hex=data[:4096].hex(),
                              cmd='lbzip2 -%d -n%d%s' % (lvl, n, ' -u' if seq
                                                          else '')))
            continue
        infos, probs = E.inspect_c02(r.out, lvl)
        try:
            ok = B.libbz2_decode(r.out) == data
        except B.Reject as e:
            ok = False
            probs.append('libbz2 rejects: %s' % e)
        if not ok and not probs:
            probs.append('libbz2 decodes to different bytes')
        if probs:
            path = os.path.join(ck.tmp, 'in-%s' % name)
            ck.violation('output not strictly well-formed: ' + '; '.join(
                probs[:4]), dict(case, problems=probs,
                                 input_hex=data.hex() if len(data) < 70000
                                 else None, input_family=name,
                                 output_head_hex=r.out[:256].hex()))
            continue
        key = E.sha(r.out)
        if key not in seen:
            seen.add(key)
            if infos:
                nontriv += 1
        for inf in infos or []:
            tabstats['blocks'] += 1
            tabstats['tables'] += len(inf['lens'])
            used = set(inf['selectors'][:inf['groups_used']])
            if len(used) == 1:
                tabstats['single_table_blocks'] += 1
            tabstats['max_selectors'] = max(tabstats['max_selectors'],
                                            len(inf['selectors']))
            tabstats['max_len'] = max(tabstats['max_len'],
                                      max(max(l) for l in inf['lens']))
        if len(samples) < 6 and infos:
            samples.append(dict(case, blocks=len(infos),
                                nblock=[i['nblock'] for i in infos][:5],
                                tables=[len(i['lens']) for i in infos][:5]))
    # completely full level-9 blocks of incompressible data: the selector
    # count sits at its maximum (18001 real groups possible), so the padding
    # rule decides whether the declared count stays <= 18002
    full = [('full-900k-%d' % k, E.norun(ck.rng, 900000 + ck.rng.choice([0, 0, 1, 49])))
            for k in range(8 if ck.quick else 24)]
    res = proc.run_many([dict(exe=exe, args=['-9', '-n%d' % ck.rng.choice([1, 2, 4])],
                              data=d, timeout=300) for _, d in full])
    for k, ((name, data), r) in enumerate(zip(full, res)):
        evals += 1
        dist['full-block'] = dist.get('full-block', 0) + 1
        case = {'input': name, 'bytes': len(data), 'level': 9}
        probs = []
        if r.code() != 'exit0' or r.err:
            probs.append('compression failed: %r' % r)
        else:
            cnt = E.first_block_counts(r.out)
            if cnt is None:
                probs.append('no block magic after the header')
            else:
                tabstats['max_selectors'] = max(tabstats['max_selectors'], cnt[1])
                if not (2 <= cnt[0] <= 6):
                    probs.append('first block declares %d tables' % cnt[0])
                if not (1 <= cnt[1] <= 18002):
                    probs.append('first block declares %d selectors' % cnt[1])
            try:
                if B.libbz2_decode(r.out) != data:
                    probs.append('libbz2 decodes to different bytes')
            except B.Reject as e:
                probs.append('libbz2 rejects: %s' % e)
            if k == 0 and not probs:
                probs += E.inspect_c02(r.out, 9)[1]
        if probs:
            ck.violation('output not strictly well-formed: ' + '; '.join(probs[:4]),
                         dict(case, problems=probs, input_family=name,
                              how='VERIF_SEED=%d ./check C02 regenerates the '
                                  'input (norun random, %d bytes)' % (ck.seed, len(data)),
                              output_head_hex=(r.out or b'')[:256].hex()))
        else:
            nontriv += 1
ck.log('distribution:', dist, tabstats)
ck.finish({
    'evaluations': evals, 'distinct_nontrivial': nontriv,
    'rule': 'every (input family × level × mode × worker count) output is '
            'parsed by the strict inspector and decoded by libbz2; distinct '
            '= distinct output bytes, non-trivial = at least one block',
    'samples': samples, 'input_distribution': dist, 'table_stats': tabstats,
    'exhaustive': False,
}, ['strict inspector tools/bzformat.py (cross-checked against libbz2 and '
    'the Lean Spec)', 'libbz2 as reference decoder'])
