#!/usr/bin/env python3
"""W14 validation library for C12: thread ROLES in hook traces of the real
binary against the race annotation (lean/LbzVerif/Model/Race/SchedC.lean).

Every LBZIP2_VERIF_TRACE line is written while sched_mutex is held, and every
section that takes sched_mutex ends in a line (`U` from sched_unlock, or the
`R`/`W` line the worker prints next, still under the mutex).  So the difference
between two consecutive lines is the effect of ONE section on the
scheduler-protected variables, made by the thread of the later line.  The
annotation says which thread performs which kind of section:

  reader   only: `coll+1` (on_input_avail) and `eof 0->1`; its own `next=`
           equals the number of chunks it has delivered (next_id is its own);
  writer   only: `os+1` (on_write_complete);
  workers  everything else: wu +-1, os-1, coll-1 / coll+1 (re-queue),
           trans/reord +-1, order, ct, uw; only workers print R / W lines;
           the thread that printed the `I` line (primary_thread) is a worker.

A mismatch means the annotation's `Sec.thread` does not describe the code any
more (broken correspondence), not by itself a data race.

Use: run(ck) from checks/C12.py; standalone
     python3 checks/w14_race.py [--tier quick|thorough] [--src DIR]
(prints the summary, writes no evidence; --src lets you point it at a mutated
copy of the sources)."""
import os
import random
import shutil
import sys
import tempfile

HERE = os.path.dirname(os.path.abspath(__file__))
sys.path.insert(0, HERE)
sys.path.insert(0, os.path.join(HERE, '..', 'tools'))
import sched_c_lib as L  # noqa: E402

FIELDS = ('wu', 'os', 'eof', 'ct', 'uw', 'coll', 'trans', 'reord', 'omaj', 'omin')


def check_roles(evs, n):
    """-> (stats, mismatches) for ONE run (list of parsed trace events)"""
    bad = []
    st = {'lines': len(evs), 'sections': 0, 'reader_sections': 0,
          'writer_sections': 0, 'worker_sections': 0}
    workers = {e['tid'] for e in evs if e['kind'] in 'RW'}
    if len(workers) > n:
        bad.append('more worker threads (%d) than -n%d' % (len(workers), n))
    if evs and evs[0]['kind'] == 'I' and evs[0]['tid'] not in workers:
        bad.append('primary thread t=%d printed I but never ran as a worker'
                   % evs[0]['tid'])
    readers, writers = set(), set()
    delivered = {}
    prev = None
    for i, e in enumerate(evs):
        if 'coll' not in e:
            continue
        if prev is None or e['kind'] in 'IF':
            prev = e
            continue
        t = e['tid']
        d = {k: e[k] - prev[k] for k in FIELDS}
        prev = e
        changed = {k for k, v in d.items() if v}
        if not changed:
            continue
        st['sections'] += 1
        where = 'line %d (%s t=%d %s)' % (i, e['kind'], t, e['name'])
        if t in workers:
            st['worker_sections'] += 1
            if d['eof']:
                bad.append('%s: a worker changed eof' % where)
            if d['os'] > 0:
                bad.append('%s: a worker incremented out_slots' % where)
            continue
        # reader or writer thread
        if e['kind'] != 'U':
            bad.append('%s: non-worker printed a %s line' % (where, e['kind']))
        if changed <= {'os'} and d['os'] == 1:
            writers.add(t)
            st['writer_sections'] += 1
        elif changed <= {'coll'} and d['coll'] == 1:
            readers.add(t)
            st['reader_sections'] += 1
            delivered[t] = delivered.get(t, 0) + 1
            if e['next'] != delivered[t]:
                bad.append('%s: reader sees next_id=%d after delivering %d '
                           'chunks' % (where, e['next'], delivered[t]))
        elif changed <= {'eof'} and d['eof'] == 1:
            readers.add(t)
            st['reader_sections'] += 1
        else:
            bad.append('%s: reader/writer thread changed %s' %
                       (where, {k: d[k] for k in sorted(changed)}))
    if len(readers) > 1:
        bad.append('several threads act as reader: %s' % sorted(readers))
    if len(writers) > 1:
        bad.append('several threads act as writer: %s' % sorted(writers))
    if readers & writers:
        bad.append('thread(s) %s act both as reader and as writer'
                   % sorted(readers & writers))
    st['threads'] = len(workers) + len(readers | writers)
    return st, bad


def cases(rng, quick):
    out = []
    blob = bytes(rng.randrange(256) for _ in range(4096))
    for k in range(12 if quick else 80):
        size = rng.choice([0, 1, 99999, 100000, 100001, 250000, 420000])
        kind = rng.choice(['random', 'runs', 'text'])
        if kind == 'random':
            data = (blob * (size // len(blob) + 1))[:size]
            data = bytes(b ^ (k & 0xff) for b in data[:4096]) + data[4096:]
        elif kind == 'runs':
            data = (b'a' * 300 + b'bc' * 50 + bytes([k & 0xff]) * 700) * (size // 1100 + 1)
            data = data[:size]
        else:
            data = (b'the quick brown fox %d jumps over the lazy dog\n' % k) * (size // 40 + 1)
            data = data[:size]
        out.append((kind, data, rng.choice([1, 2, 3, 4]), rng.random() < 0.4,
                    rng.randrange(1, 10 ** 6)))
    return out


def campaign(binary, tmpdir, rng, quick, log=print):
    summ = {'evaluations': 0, 'distinct_nontrivial': 0, 'mismatches': [],
            'sections': 0, 'reader_sections': 0, 'writer_sections': 0,
            'worker_sections': 0, 'samples': []}
    tp = os.path.join(tmpdir, 'w14.trace')
    for kind, data, n, ultra, seed in cases(rng, quick):
        rc, out, evs, err = L.run_traced(binary, data, n, 1, ultra, seed, tp)
        summ['evaluations'] += 1
        desc = {'kind': kind, 'size': len(data), 'n': n, 'ultra': ultra, 'seed': seed}
        if rc != 0:
            summ['mismatches'].append(('run failed rc=%s %s' % (rc, err[-200:]), desc))
            continue
        for run in L.split_runs(evs):
            st, bad = check_roles(run, n)
            for k in ('sections', 'reader_sections', 'writer_sections', 'worker_sections'):
                summ[k] += st[k]
            if st['reader_sections'] and st['writer_sections'] and st['worker_sections']:
                summ['distinct_nontrivial'] += 1
            for b in bad:
                summ['mismatches'].append((b, desc))
            if len(summ['samples']) < 5:
                summ['samples'].append(dict(desc, **st))
    log('w14 roles: %d runs, %d sections (reader %d, writer %d, workers %d), %d mismatches' %
        (summ['evaluations'], summ['sections'], summ['reader_sections'], summ['writer_sections'],
         summ['worker_sections'], len(summ['mismatches'])))
    return summ


def run(ck, binary=None):
    """role check on hook traces; records a broken correspondence on mismatch"""
    if binary is None:
        binary = L.build_hook_binary(ck.tmp, name='lbzip2-w14')
    if binary is None:
        ck.broken.append('w14: hook binary did not build')
        return None
    summ = campaign(binary, ck.tmp, ck.rng, ck.quick, log=ck.log)
    for what, desc in summ['mismatches'][:5]:
        ck.broken.append('correspondence: thread role differs from the race annotation: '
                         '%s in %s' % (what, desc))
    summ['rule'] = ('compression runs of the hook binary (sizes around the 100 kB chunk '
                    'boundary, n=1..4, both modes, perturbation seeds); non-trivial = reader, '
                    'writer and worker sections all present')
    return summ


if __name__ == '__main__':
    quick = '--tier' not in sys.argv or sys.argv[sys.argv.index('--tier') + 1] == 'quick'
    src = sys.argv[sys.argv.index('--src') + 1] if '--src' in sys.argv else L.SRC
    seed = int(os.environ.get('VERIF_SEED', '1'))
    tmp = tempfile.mkdtemp(prefix='w14-')
    try:
        exe = L.build_hook_binary(tmp, srcdir=src)
        if exe is None:
            sys.exit('build failed')
        s = campaign(exe, tmp, random.Random(seed), quick)
        for what, desc in s['mismatches'][:10]:
            print('MISMATCH:', what, desc)
        print('samples:', s['samples'][:3])
        sys.exit(1 if s['mismatches'] else 0)
    finally:
        shutil.rmtree(tmp, ignore_errors=True)
