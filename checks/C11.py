#!/usr/bin/env python3
"""C11 — schedulers are deadlock-free, bounded and order-preserving.

Theorems: Props/C11/Compress.lean and Props/C11/Expand.lean — for every worker
count, input shape and interleaving of the SchedC / SchedD transition systems
(guards, priority order, thresholds, capacities and slot formulas taken from
the regenerated Gen): capacity of every queue within its pqueue_init /
deque_init extent, conservation of work units and I/O slots, stream order at
the sink, next_task = select_task(state), terminal state restored;
progress as far as proved (see level_note).  Tie: real runs of the hook binary
(capacity / conservation assertions compiled in, LBZIP2_VERIF_CHECK=1) under
timeouts, whose scheduler traces are replayed through the Lean models by the
driver (schedc-accept / schedd-accept), plus the recorded F3 deadlock
schedule which must now terminate.  BFS of the executable models with the
regenerated guards is reported as supporting evidence only."""
import bz2
import os
import sys
sys.path.insert(0, os.path.join(os.path.dirname(os.path.abspath(__file__)),
                                '..', 'tools'))
sys.path.insert(0, os.path.dirname(os.path.abspath(__file__)))
from vlib import Check, VERIF  # noqa: E402
import camp_sched as S  # noqa: E402
import proc  # noqa: E402
import sched_c_lib as SC  # noqa: E402
import sched_d_lib as SD  # noqa: E402

ck = Check('C11')
ck.regen()
mods = ck.props_modules()
if mods:
    ck.lean(mods)
    ck.require_theorems([
        'LbzVerif.Props.C11.Compress.capacity',
        'LbzVerif.Props.C11.Compress.conservation',
        'LbzVerif.Props.C11.Compress.order',
        'LbzVerif.Props.C11.Compress.progress',
        'LbzVerif.Props.C11.Compress.terminates',
        'LbzVerif.Props.C11.Compress.measure_decreases',
        'LbzVerif.Props.C11.Compress.no_lost_wakeup',
        'LbzVerif.Props.C11.Expand.order',
        'LbzVerif.Props.C11.Expand.progress',
        'LbzVerif.Props.C11.Expand.unord_q_capacity',
        'LbzVerif.Props.C11.Expand.order_q_capacity',
        'LbzVerif.Props.C11.Expand.conservation',
        'LbzVerif.Props.C11.Expand.capacity',
        'LbzVerif.Props.C11.Expand.attach_in_range',
        'LbzVerif.Props.C11.Expand.no_unord_leak',
        'LbzVerif.Props.C11.Expand.measure_decreases',
        'LbzVerif.Props.C11.Expand.terminates',
        'LbzVerif.Props.C11.Expand.maximal_run_final',
        'LbzVerif.Props.C11.Expand.no_lost_wakeup',
    ])
exe = ck.build_lbzip2(asan=False, ndebug=False)
rng = ck.rng
evals = 0
traces_ok = 0
trace_lines = 0
samples = []
bfs_states = bfs_trans = 0
hist = {}


def fail_run(what, replay, err=b''):
    sig = None
    if b'VERIF-ASSERT' in err:
        sig = 'verif-assert:' + err.split(b'VERIF-ASSERT failed: ')[1].split(
            b'\n')[0].decode('latin1')
    ck.violation(what, replay, signature=sig)


if exe and os.path.exists(ck.driver()):
    drvc = SC.Driver(ck.driver())
    # ---------------- compression
    runs = 14 if ck.quick else 80
    for it in range(runs):
        n = rng.choice([1, 2, 3, 4])
        ultra = rng.random() < 0.5
        kind = rng.choice(['random', 'runs4', 'mixed'])
        size = rng.choice([0, 1, 99999, 100000, 100001, 250000, 700000])
        data = SC.gen_input(rng, kind, size)
        seed = rng.randrange(1, 10**6)
        rc, out, evs, err = SC.run_traced(exe, data, n, 1, ultra, seed,
                                          os.path.join(ck.tmp, 'trc'),
                                          timeout=120)
        evals += 1
        hist['compress'] = hist.get('compress', 0) + 1
        case = {'mode': 'compress', 'n': n, 'sequential': ultra,
                'input_kind': kind, 'input_size': size, 'perturb_seed': seed,
                'verif_seed': ck.seed}
        if rc != 0:
            fail_run('compression run did not finish cleanly (%s): %r' %
                     (rc, err[-200:]), case, err if isinstance(err, bytes)
                     else b'')
            continue
        for run in SC.split_runs(evs):
            rep, info = SC.accept(drvc, run, n, ultra)
            trace_lines += info['lines']
            if rep.startswith('ok'):
                traces_ok += 1
            else:
                ck.broken.append('correspondence: SchedC model rejects a real '
                                 'trace (%s): %s' % (case, rep[:200]))
            if len(samples) < 3:
                samples.append(dict(case, trace_lines=info['lines'],
                                    blocks=info['blocks'], accept=rep[:60]))
    # supporting evidence: BFS of the executable model, regenerated guards
    for n, ultra, flags in ((2, False, [[1, 1], [1]]), (2, True, [[1], [1, 1]]),
                            (3, False, [[1], [1], [1]])):
        try:
            g, data = SC.synth_input(flags, ultra)
            d = SC.bfs(drvc, n, ultra, g, data)
            bfs_states += d['states']
            bfs_trans += d['transitions']
            if d['stuck'] or d['cap'] or d['cons'] or d['order'] or \
                    d['final_viol']:
                ck.violation(
                    'the executable compression-scheduler model with the '
                    'regenerated guards reaches a bad state (stuck=%d cap=%d '
                    'cons=%d order=%d final=%d), witness %s' %
                    (d['stuck'], d['cap'], d['cons'], d['order'],
                     d['final_viol'], d['witness']),
                    {'model': 'SchedC', 'n': n, 'sequential': ultra,
                     'shape': flags, 'bfs': d})
        except Exception as e:
            ck.broken.append('schedc-bfs failed: %r' % e)
    drvc.close()
    # ---------------- decompression
    drvd = SD.Drv(ck.driver())
    bzp = os.path.join(ck.tmp, 'in.bz2')
    data = SD.make_input(bzp, rng, 600000 if ck.quick else 1500000)
    variants = [dict(), dict(in_granul=4096, out_granul=65536, in_slots=64),
                dict(in_granul=16384, out_granul=200000, in_slots=16),
                dict(in_granul=32768, out_granul=30000, in_slots=6,
                     out_slots=5)]
    reps = 1 if ck.quick else 5
    for n in (1, 2, 3, 4):
        for v in variants:
            for _ in range(reps):
                v2 = dict(v, perturb=rng.randrange(1, 10**6))
                r = SD.run_trace(exe, bzp, n, ck.tmp, timeout=120, **v2)
                evals += 1
                hist['expand'] = hist.get('expand', 0) + 1
                case = dict(v2, mode='expand', n=n, verif_seed=ck.seed)
                with open(r['out_path'], 'rb') as f:
                    good = r['status'] == 0 and f.read() == data
                os.unlink(r['out_path'])
                tin = v.get('in_slots') or 4 * n
                tout = v.get('out_slots') or 16 * n
                if not good:
                    diag = ''
                    try:     # where does the refined model stop following it?
                        _, diag = SD.accept_w(
                            drvd, n, tin, tout, 0,
                            SD.trace_to_events(r['trace_path']),
                            hung=bool(r['timed_out']))
                    except Exception as e:       # diagnosis only
                        diag = 'no diagnosis (%r)' % e
                    fail_run('decompression run failed or hung (status %s, '
                             'timed out %s): %s; refined-model replay: %s' % (
                                 r['status'], r['timed_out'],
                                 r['stderr'][-200:], str(diag)[:200]),
                             case, r['stderr'].encode())
                    continue
                ev = SD.trace_to_events(r['trace_path'])
                ok, rep = SD.accept(drvd, n, tin, tout, 0, ev)
                nl = len(SD.trace_lines(r['trace_path']))
                trace_lines += nl
                os.unlink(r['trace_path'])
                if ok:
                    traces_ok += 1
                else:
                    ck.broken.append('correspondence: SchedD model rejects a '
                                     'real trace (%s): %s' % (case, rep[:200]))
                if len(samples) < 6:
                    samples.append(dict(case, trace_lines=nl,
                                        accept=rep[:60]))
    # supporting evidence / search: BFS of the executable expansion model
    # with the regenerated guards on small random shapes (spurious candidates
    # included); total_out >= 3 (= EMIT_THRESH + 1, the theorems' hypothesis)
    for k in range(10 if ck.quick else 120):
        try:
            ca = SD.random_shape(rng, tout=rng.randint(3, 6))
            st = SD.bfs(drvd, ca, 150000)
            bfs_states += st.get('states', 0)
            bfs_trans += st.get('transitions', st.get('trans', 0))
            badkeys = [x for x in ('stuck', 'overcap', 'badout', 'prefixviol',
                                   'consviol', 'capviol', 'stale', 'taint',
                                   'leakfinal') if st.get(x)]
            if badkeys:
                wit = None
                try:
                    wit = SD.find(drvd, ca, 150000, badkeys[0])
                except Exception:
                    pass
                ck.violation(
                    'the executable expansion-scheduler model with the '
                    'regenerated guards reaches a bad state (%s) on shape %s'
                    % (', '.join('%s=%d' % (x, st[x]) for x in badkeys),
                       ' '.join(ca)),
                    {'model': 'SchedD', 'shape_args': ca, 'bfs': st,
                     'witness_labels': wit,
                     'replay_cmd': 'echo "schedd-find %s 150000 %s" | '
                                   'lean/.lake/build/bin/lbzdrv' %
                                   (' '.join(ca), badkeys[0])})
        except Exception as e:
            ck.broken.append('schedd-bfs failed: %r' % e)
            break
    drvd.close()
    # planted spurious headers with tiny granularities: must terminate with
    # the assertions on
    jobs = []
    meta = []
    for name, sdata, plain, tag in S.planted_streams(rng, True):
        for _ in range(4 if ck.quick else 30):
            env = S.config_env(rng)
            n = rng.choice([2, 3, 4, 8])
            jobs.append(dict(exe=exe, args=['-d', '-n%d' % n], data=sdata,
                             env=env, timeout=120))
            meta.append((name, sdata, plain, n, env))
    # the recorded F3 schedule (stale emit job at the emit_q head)
    f3 = os.path.join(VERIF, 'corpus', 'f3-stale-emit.bz2')
    if os.path.exists(f3):
        with open(f3, 'rb') as f:
            f3d = f.read()
        jobs.append(dict(exe=exe, args=['-d', '-n4'], data=f3d, timeout=120,
                         env={'LBZIP2_VERIF_CHECK': '1', 'LBZIP2_VERIF_DELAY':
                              'retrbase:2:16=3000,retrbase:8:19=1500,'
                              'retrbase:11:21=1500'}))
        meta.append(('f3-stale-emit', f3d, bz2.decompress(f3d), 4,
                     jobs[-1]['env']))
    res = proc.run_many(jobs)
    for (name, sdata, plain, n, env), r in zip(meta, res):
        evals += 1
        hist['expand-planted'] = hist.get('expand-planted', 0) + 1
        if r.code() != 'exit0' or r.out != plain:
            fail_run('decompression of %s did not terminate correctly: %s '
                     '(-n%d, env %s) %r' % (name, r.code(), n, env,
                                            r.err[-200:]),
                     {'stream_hex': sdata[:100000].hex(), 'case': name,
                      'n': n, 'env': env}, r.err)
ck.log('runs:', hist, 'traces accepted:', traces_ok, 'lines', trace_lines,
       'bfs states', bfs_states)
ck.finish({
    'evaluations': evals, 'distinct_nontrivial': traces_ok,
    'traces_validated_against_impl': traces_ok,
    'states': bfs_states, 'transitions': bfs_trans,
    'rule': 'real runs of the hook binary (assertions on, timeout = hang) '
            'with random worker counts, modes, input shapes, granularities, '
            'slot counts, perturbation seeds; each trace is replayed through '
            'the Lean scheduler model; distinct_nontrivial = traces accepted',
    'samples': samples, 'run_histogram': hist, 'trace_lines': trace_lines,
    'exhaustive': False,
}, ['pthread mutex/condvar semantics assumed; binary tied to the models by '
    'trace acceptance on the counter/queue-size projection'])
