#!/usr/bin/env python3
"""C18 — multiple operands are processed independently.

Theorems: LbzVerif.Props.C18 over Model.Operands (the operand loop of main()
as a fold carrying only the outside world and `warned`; status algebra;
independence given `terminal_restores`, which Props/C18/Restore.lean proves
from the scheduler models).

Campaign on the real program (hooks compiled in): a random directory, a random
option set and a random operand sequence of length 1..5 are run
  (A) in ONE invocation, under a random LBZIP2_VERIF_PERTURB seed, and
  (B) one invocation per operand, in order, on a copy of the same directory,
      stopping after the first fatal one (exit status 1),
and compared: directory listing, file contents, permission bits, mtimes,
stdout bytes (A = concatenation of B), stderr text, and the exit status of A
against Model.Operands.statusOf applied to the statuses of B (driver command
`status`).  Operand kinds: compressible, incompressible, empty, large
(multi-block), valid/corrupt/truncated/non-bzip2 `.bz2`, `.tbz`, unsuffixed
compressed, already-suffixed, missing, directory, symlink, hard link, output
already present, the same operand twice.  Options: compress / decompress /
test, -c, -k, -f, -u, -n 1..4, -1..-9.  Every run is under a timeout; a hang,
a death by signal or an exit status outside {0,1,4} is a violation.
"""
import bz2
import hashlib
import os
import shutil
import stat
import subprocess
import sys
import time
from concurrent.futures import ThreadPoolExecutor

sys.path.insert(0, os.path.join(os.path.dirname(os.path.abspath(__file__)),
                                '..', 'tools'))
from vlib import Check, batch  # noqa: E402

ck = Check('C18')
ck.regen()
ck.lean(['LbzVerif.Props.C18'])
ck.require_theorems(['LbzVerif.Props.C18.' + n for n in (
    'runMany_eq_foldl', 'status_algebra', 'fatal_stops', 'runMany_append',
    'runMany_singletons', 'status_of_outcomes', 'independence')])
exe = ck.build_lbzip2(asan=False)
drv = ck.driver()


def private_driver(drv):
    """Other work packages may relink the shared driver while this campaign
    runs: take a copy now and make sure it knows this package's commands."""
    for attempt in range(4):
        cp = os.path.join(ck.tmp, 'lbzdrv-' + str(attempt))
        try:
            shutil.copy2(drv, cp)
            rc, rep, _ = batch([cp], ['status 0,4'], timeout=60)
            if rc == 0 and rep == ['4 2']:
                return cp
        except (OSError, subprocess.SubprocessError):
            pass
        time.sleep(5)
        if 'LBZDRV' not in os.environ:
            ck._lake(['build', 'lbzdrv'])
    ck.broken.append('driver: lbzdrv does not answer ' + 'status 0,4')
    return drv


drv = private_driver(drv)
rng = ck.rng
TIMEOUT = 60


def rbytes(n):
    return rng.getrandbits(8 * n).to_bytes(n, 'little') if n else b''


def text(n):
    words = [b'alpha', b'beta', b'gamma', b'delta', b'\n', b' ', b'lbzip2']
    out = bytearray()
    while len(out) < n:
        out += rng.choice(words)
    return bytes(out[:n])


def clean_env(extra):
    env = dict(os.environ)
    for k in list(env):
        if k.startswith('LBZIP2') or k in ('BZIP2', 'BZIP'):
            del env[k]
    env.update(extra)
    return env


def run(args, cwd, env_extra):
    try:
        p = subprocess.run([exe] + args, cwd=cwd, stdin=subprocess.DEVNULL,
                           stdout=subprocess.PIPE, stderr=subprocess.PIPE,
                           env=clean_env(env_extra), timeout=TIMEOUT)
        return p.returncode, p.stdout, p.stderr
    except subprocess.TimeoutExpired as e:
        return 'timeout', e.stdout or b'', e.stderr or b''


def snapshot(d):
    """name -> (kind, mode bits, mtime_ns, sha1 | link target)."""
    snap = {}
    for root, dirs, files in os.walk(d):
        for n in dirs + files:
            p = os.path.join(root, n)
            rel = os.path.relpath(p, d)
            st = os.lstat(p)
            if stat.S_ISLNK(st.st_mode):
                snap[rel] = ('link', os.readlink(p))
            elif stat.S_ISDIR(st.st_mode):
                snap[rel] = ('dir', stat.S_IMODE(st.st_mode))
            else:
                with open(p, 'rb') as f:
                    h = hashlib.sha1(f.read()).hexdigest()
                snap[rel] = ('file', stat.S_IMODE(st.st_mode), st.st_mtime_ns,
                             st.st_size, h, st.st_nlink)
    return snap


# ------------------------------------------------------------- trial design
KINDS_COMPRESS = ['text', 'random', 'empty', 'big', 'suffixed', 'missing',
                  'dir', 'symlink', 'hardlink', 'outexists', 'text', 'random',
                  'tiny']
KINDS_DECOMPRESS = ['z-text', 'z-random', 'z-empty', 'z-big', 'z-multi',
                    'corrupt', 'truncated', 'notbz', 'nosuffix', 'tbz',
                    'missing', 'dir', 'outexists', 'z-text', 'z-random',
                    'emptyfile', 'shortfile']


def make_operand(d, kind, idx, level):
    """Create the fixture for one operand; returns its name."""
    name = 'f%d' % idx
    p = os.path.join(d, name)
    mode = rng.choice([0o644, 0o600, 0o640, 0o755, 0o444])
    mt = 1_000_000_000 + rng.randrange(0, 500_000_000)

    def put(path, data, chmod=True):
        with open(path, 'wb') as f:
            f.write(data)
        if chmod:
            os.chmod(path, mode)
        os.utime(path, ns=(mt * 10**9, mt * 10**9 + rng.randrange(10**9)))

    if kind == 'text':
        put(p, text(rng.randrange(1, 6000)))
    elif kind == 'tiny':
        put(p, rbytes(rng.randrange(1, 4)))
    elif kind == 'random':
        put(p, rbytes(rng.randrange(1, 6000)))
    elif kind in ('empty', 'emptyfile'):
        if kind == 'emptyfile':
            name += '.bz2'
            p += '.bz2'
        put(p, b'')
    elif kind == 'big':
        n = rng.randrange(150_000, 450_000)
        put(p, text(n) if rng.random() < 0.6 else rbytes(n))
    elif kind == 'suffixed':
        name += rng.choice(['.bz2', '.tbz', '.tbz2', '.tz2'])
        p = os.path.join(d, name)
        put(p, text(100))
    elif kind == 'missing':
        pass
    elif kind == 'dir':
        os.mkdir(p)
        put(os.path.join(p, 'inner'), b'inner', chmod=False)
    elif kind == 'symlink':
        put(p + '.target', text(200))
        os.symlink(name + '.target', p)
    elif kind == 'hardlink':
        put(p, text(300))
        os.link(p, p + '.other')
    elif kind == 'outexists':
        if level is not None:      # compressing
            put(p, text(400))
            put(p + '.bz2', b'old output')
        else:
            name += '.bz2'
            put(p + '.bz2', bz2.compress(text(400), 9))
            put(p, b'old output')
    elif kind in ('z-text', 'z-random', 'z-empty', 'z-big', 'z-multi'):
        name += '.bz2'
        if kind == 'z-text':
            z = bz2.compress(text(rng.randrange(1, 6000)), rng.randrange(1, 10))
        elif kind == 'z-random':
            z = bz2.compress(rbytes(rng.randrange(1, 6000)), rng.randrange(1, 10))
        elif kind == 'z-empty':
            z = bz2.compress(b'', 9)
        elif kind == 'z-big':
            z = bz2.compress(text(rng.randrange(250_000, 700_000)), 1)
        else:
            z = b''.join(bz2.compress(text(rng.randrange(0, 3000)), rng.randrange(1, 10))
                         for _ in range(rng.randrange(2, 5)))
        put(p + '.bz2', z)
    elif kind in ('corrupt', 'truncated'):
        name += '.bz2'
        z = bytearray(bz2.compress(text(rng.randrange(200, 250_000)), 1))
        if kind == 'corrupt':
            k = rng.randrange(4, len(z))
            z[k] ^= 1 << rng.randrange(8)
        else:
            del z[rng.randrange(4, len(z)):]
        put(p + '.bz2', bytes(z))
    elif kind == 'notbz':
        name += '.bz2'
        put(p + '.bz2', rng.choice([b'BZh0', b'BZ', b'hello world', b'BZh:xyz'])
            + rbytes(rng.randrange(0, 70000)))
    elif kind == 'shortfile':
        name += '.bz2'
        put(p + '.bz2', b'BZh9'[:rng.randrange(1, 4)])
    elif kind == 'nosuffix':
        put(p, bz2.compress(text(500), 5))
    elif kind == 'tbz':
        name += rng.choice(['.tbz', '.tbz2', '.tz2'])
        put(os.path.join(d, name), bz2.compress(text(500), 5))
    else:
        raise ValueError(kind)
    return name


def make_trial(t):
    d = os.path.join(ck.tmp, 't%05d' % t)
    a = os.path.join(d, 'A')
    os.makedirs(a)
    mode = rng.choice(['z', 'z', 'd', 'd', 't', 'cdf'])
    opts = []
    level = None
    if mode == 'z':
        level = rng.randrange(1, 10)
        opts += ['-z', '-%d' % level]
        kinds = KINDS_COMPRESS
    elif mode == 'd':
        opts += ['-d']
        kinds = KINDS_DECOMPRESS
    elif mode == 't':
        opts += ['-t']
        kinds = KINDS_DECOMPRESS
    else:
        opts += ['-c', '-d', '-f']
        kinds = KINDS_DECOMPRESS + ['notbz', 'notbz', 'shortfile', 'emptyfile']
    if mode in ('z', 'd'):
        if rng.random() < 0.3:
            opts.append('-c')
        if rng.random() < 0.3:
            opts.append('-k')
        if rng.random() < 0.3:
            opts.append('-f')
    if rng.random() < 0.3:
        opts.append(rng.choice(['-v', '--verbose']))   # info lines interleave
    if rng.random() < 0.45:
        opts.append(rng.choice(['-u', '--sequential']))
    opts += ['-n', str(rng.choice([1, 1, 2, 3, 4, 8]))]
    nops = rng.randrange(1, 6)
    # fatal kinds are rarer so that long all-successful sequences dominate
    ops, used = [], []
    for i in range(nops):
        k = rng.choice(kinds)
        if k in ('corrupt', 'truncated', 'notbz', 'dir', 'shortfile',
                 'emptyfile') and rng.random() < 0.6:
            k = rng.choice(kinds)
        name = make_operand(a, k, i, level)
        ops.append(name)
        used.append(k)
    if nops >= 2 and rng.random() < 0.2:      # the same operand twice
        j = rng.randrange(len(ops))
        ops.append(ops[j])
        used.append(used[j] + '(again)')
    if rng.random() < 0.25:
        order = list(range(len(ops)))
        rng.shuffle(order)
        ops = [ops[i] for i in order]
        used = [used[i] for i in order]
    return {'id': t, 'dir': d, 'opts': opts, 'ops': ops, 'kinds': used,
            'mode': mode, 'perturb': rng.randrange(1, 1 << 30),
            'check': mode != 'cdf'}


def exec_trial(tr):
    d = tr['dir']
    a, b = os.path.join(d, 'A'), os.path.join(d, 'B')
    shutil.copytree(a, b, symlinks=True, copy_function=shutil.copy2)
    # copytree does not reproduce hard links: redo them
    for n in os.listdir(a):
        if n.endswith('.other'):
            os.unlink(os.path.join(b, n))
            os.link(os.path.join(b, n[:-6]), os.path.join(b, n))
    ta, tb = os.path.join(d, 'trace.A'), os.path.join(d, 'trace.B')
    env = {'LBZIP2_VERIF_PERTURB': str(tr['perturb']), 'LBZIP2_VERIF_TRACE': ta}
    if tr['check']:
        env['LBZIP2_VERIF_CHECK'] = '1'
    ra = run(tr['opts'] + ['--'] + tr['ops'], a, env)
    rb = []
    ib = []
    for op in tr['ops']:
        r = run(tr['opts'] + ['--', op], b, {'LBZIP2_VERIF_TRACE': tb})
        rb.append(r)
        if r[0] != 0 and r[0] != 4:
            break
        ib = init_events(tb)      # start-of-run events of the completed runs
    return tr, ra, rb, snapshot(a), snapshot(b), init_events(ta), ib


def init_events(path):
    """The `I` trace lines (state of the scheduler statics when a run starts:
    work units, output slots, eof, and the pipeline's own dump with
    collect_token / unfinished_work / queue sizes), thread ids removed."""
    out = []
    try:
        with open(path) as f:
            for line in f:
                if line.startswith('I '):
                    out.append(' '.join(w for w in line.split() if not w.startswith('t=')))
    except OSError:
        pass
    return out


ntrials = 160 if ck.quick else 2500
trials = [make_trial(t) for t in range(ntrials)]
evaluations = 0
distinct = set()
samples = []
dist = {'mode': {}, 'kinds': {}, 'len': {}, 'combined_status': {},
        'with_u': 0, 'multi_success_runs': 0}
status_lines, status_expect = [], []

with ThreadPoolExecutor(max_workers=12) as ex:
    for tr, ra, rb, sa, sb, ia, ib in ex.map(exec_trial, trials):
        evaluations += 1 + len(rb)
        key = ' '.join(tr['opts']) + '|' + ','.join(tr['kinds'])
        distinct.add(key)
        dist['mode'][tr['mode']] = dist['mode'].get(tr['mode'], 0) + 1
        for k in tr['kinds']:
            dist['kinds'][k] = dist['kinds'].get(k, 0) + 1
        dist['len'][len(tr['ops'])] = dist['len'].get(len(tr['ops']), 0) + 1
        dist['combined_status'][str(ra[0])] = dist['combined_status'].get(str(ra[0]), 0) + 1
        if any(o in ('-u', '--sequential') for o in tr['opts']):
            dist['with_u'] += 1
        if len([r for r in rb if r[0] == 0]) >= 2:
            dist['multi_success_runs'] += 1
        replay = {'argv': ['lbzip2'] + tr['opts'] + ['--'] + tr['ops'],
                  'operand_kinds': tr['kinds'], 'perturb_seed': tr['perturb'],
                  'separate_statuses': [r[0] for r in rb],
                  'combined_status': ra[0],
                  'combined_stderr': ra[2][:600].decode('latin1'),
                  'separate_stderr': b''.join(r[2] for r in rb)[:600].decode('latin1'),
                  'how': 'VERIF_SEED=%d ./check C18 --tier %s, trial %d' % (
                      ck.seed, ck.tier, tr['id'])}
        bad = []
        sts = [r[0] for r in rb]
        if ra[0] == 'timeout':
            bad.append('combined invocation hangs (> %ds)' % TIMEOUT)
        if 'timeout' in sts:
            bad.append('a single-operand invocation hangs')
        weird = [s for s in sts + [ra[0]] if s not in (0, 1, 4, 'timeout')]
        if weird:
            bad.append('exit status outside {0,1,4}: %r' % weird)
        if not bad:
            if sa != sb:
                diff = sorted(k for k in set(sa) | set(sb) if sa.get(k) != sb.get(k))
                bad.append('directory state differs for %s: combined %r / separate %r' % (
                    diff[:4], [sa.get(k) for k in diff[:4]], [sb.get(k) for k in diff[:4]]))
            # A fatal operand's own partial stdout and its message text depend
            # on how far the pipeline got (timing), also when it runs alone;
            # everything before it must be identical.
            fatal = bool(rb) and rb[-1][0] == 1
            done = rb[:-1] if fatal else rb
            outb = b''.join(r[1] for r in done)
            errb = b''.join(r[2] for r in done)
            if fatal:
                if not ra[1].startswith(outb):
                    bad.append('stdout of the operands before the fatal one '
                               'differs (combined %d bytes, separate %d bytes)' % (
                                   len(ra[1]), len(outb)))
                if not ra[2].startswith(errb) or ra[2].count(b'\n') != \
                        errb.count(b'\n') + rb[-1][2].count(b'\n'):
                    bad.append('stderr differs: combined %r / separate %r' % (
                        ra[2][:300], (errb + rb[-1][2])[:300]))
            else:
                if ra[1] != outb:
                    bad.append('stdout differs: combined %d bytes, separate %d bytes' % (
                        len(ra[1]), len(outb)))
                if ra[2] != errb:
                    bad.append('stderr differs: combined %r / separate %r' % (
                        ra[2][:300], errb[:300]))
            # every run of the combined invocation starts from the state a
            # first run starts from (the fatal run's own event may be lost in
            # the unflushed trace buffer, nothing else)
            if ia[:len(ib)] != ib or len(ia) > len(ib) + (1 if fatal else 0):
                bad.append('scheduler statics at the start of a run differ: '
                           'combined %r / separate %r' % (ia, ib))
            dist['init_events'] = dist.get('init_events', 0) + len(ib)
            status_lines.append('status ' + (','.join(str(s) for s in sts) or '-'))
            status_expect.append((tr, ra[0], sts, replay))
        if bad:
            ck.violation('operands are not independent: ' + '; '.join(bad), replay)
        elif len(samples) < 8 and len(tr['ops']) >= 3 and rng.random() < 0.1:
            samples.append({'argv': replay['argv'], 'kinds': tr['kinds'],
                            'separate': sts, 'combined': ra[0]})
        shutil.rmtree(tr['dir'], ignore_errors=True)

rc, replies, err = batch([drv], status_lines)
if rc != 0 or len(replies) != len(status_lines):
    ck.broken.append('correspondence: driver failed on status (%s)' % err[:200])
else:
    for (tr, sta, sts, replay), rep in zip(status_expect, replies):
        evaluations += 1
        want_status, want_done = rep.split()
        # property as worded, evaluated directly
        prop = 1 if 1 in sts else (4 if 4 in sts else 0)
        if sta != prop:
            ck.violation('exit status %r of the combined invocation; separate '
                         'statuses %r require %d' % (sta, sts, prop), replay)
        elif str(sta) != want_status:
            ck.broken.append('correspondence: Model.Operands.statusOf gives %s '
                             'for %r, program exits %r' % (want_status, sts, sta))
        elif int(want_done) != len([s for s in sts if s in (0, 4)]):
            ck.broken.append('correspondence: completed count')

ck.log('distribution:', dist)
ck.finish({
    'evaluations': evaluations,
    'distinct_nontrivial': len(distinct),
    'rule': 'distinct (option set, operand-kind sequence) pairs; each is one '
            'combined invocation plus its per-operand reference runs',
    'samples': samples,
    'exhaustive': False,
    'distribution': dist,
}, extra_assumptions=[
    'terminal_restores (scheduler statics back at their initial values when a '
    'run ends) is proved in Props/C18/Restore.lean; Props/C18 takes it as a '
    'hypothesis',
    'file-system semantics of one operand (skips, names, metadata) are the '
    'subject of C17; here they are an opaque function of the world'])
