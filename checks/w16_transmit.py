#!/usr/bin/env python3
"""W16 — transmit() / encode() cost arithmetic: in-process correspondence and
property campaign.

Library: `run(ck)` is called by the property checks (C01, C02); stand-alone
`python3 checks/w16_transmit.py [--tier …]` runs the campaign for testing and
writes NO evidence.

For every generated plaintext the real collect() + encode() + transmit()
(harness/h_transmit.c, real divbwt) produce one block and dump the encoder
state transmit() read (the `EncBlock` of Model/Transmit.lean).  Then

  judge (property, independent of the model):
    * the C bytes, wrapped into a one-block stream, are decoded by the strict
      Python parser tools/bzformat.py to exactly the bytes collect() consumed
      (C01) and satisfy the block rules of C02 (rand = 0, 2..6 complete
      tables with lengths 1..20, <= 18002 selectors, origPtr < nblock);
    * encode() returned out_expect_len, the block is exactly that many bytes
      (the parser stops at bit 8*out_expect_len, the rest of the last word is
      zero): `len_mod8` on the real code, whose asserts are compiled out in
      the shipped build;
  correspondence (model vs code):
    * Model.transmitBytes(EncBlock) = the C buffer, byte for byte;
    * Model.cost = 8 * out_expect_len = number of bits of Model.transmitBits;
    * Model.WF holds for the EncBlock (the hypotheses of the theorems are met
      by what encode() produces), Model.Coded on a sample (slow);
    * Model.selectorMtfOf (the 0x543210 trick) = C selectorMTF[] = textbook
      move-to-front;
    * Spec.parseBlock of the C bytes returns exactly the EncBlock fields
      (`parse_transmit` evaluated on the real bytes);
    * state facts the model builds in: the padding of mtfv[] is the sentinel
      `as`, length/code of the sentinel are 0 in every selected table,
      tmap_new2old is injective and lists the tables in order of first use,
      the code words of every selected table are canonical.
"""
import hashlib
import os
import subprocess
import sys
import time
from concurrent.futures import ThreadPoolExecutor

HERE = os.path.dirname(os.path.abspath(__file__))
sys.path.insert(0, os.path.join(HERE, '..', 'tools'))

import bzformat  # noqa: E402

REPO = os.environ.get('LBZ_REPO', '/repo')


# ------------------------------------------------------------- plumbing
def par_batch(argv, lines, nproc=12, timeout=3000):
    if not lines:
        return [], None
    nproc = max(1, min(nproc, len(lines) // 2 or 1))
    chunks = [lines[i::nproc] for i in range(nproc)]

    def one(ch):
        r = subprocess.run(argv, input='\n'.join(ch) + '\n', text=True,
                           stdout=subprocess.PIPE, stderr=subprocess.PIPE,
                           timeout=timeout)
        out = r.stdout.split('\n')
        if out and out[-1] == '':
            out.pop()
        return r.returncode, out, r.stderr

    with ThreadPoolExecutor(nproc) as ex:
        res = list(ex.map(one, chunks))
    out = [None] * len(lines)
    err = None
    for i, (rc, o, e) in enumerate(res):
        if rc != 0 or len(o) != len(chunks[i]):
            err = 'exit %s, %d/%d replies: %s' % (rc, len(o), len(chunks[i]),
                                                  e[-800:])
        for j, line in enumerate(o[:len(chunks[i])]):
            out[i + j * nproc] = line
    return out, err


def cl(xs):
    return ','.join(map(str, xs)) if len(xs) else '-'


def pl(s):
    s = s.strip()
    return [] if s == '-' else [int(x) for x in s.split(',')]


def ptab(s):
    return [] if s == '-' else [pl(x) for x in s.split('/')]


def ctab(t):
    return '/'.join(cl(x) for x in t) if t else '-'


def sha(*a):
    return hashlib.sha1(repr(a).encode()).hexdigest()


def canon_codes(lens):
    order = sorted(range(len(lens)), key=lambda i: (lens[i], i))
    codes = [0] * len(lens)
    c = 0
    prev = lens[order[0]]
    for n, i in enumerate(order):
        if n:
            c = (c + 1) << (lens[i] - prev)
        prev = lens[i]
        codes[i] = c
    return codes


def py_mtf(sels, n=6):
    order = list(range(n))
    out = []
    for s in sels:
        j = order.index(s)
        out.append(j)
        order.pop(j)
        order.insert(0, s)
    return out


# ------------------------------------------------------------ generators
def gen_inputs(rng, quick):
    """(tag, cap, cluster_factor, plaintext)"""
    out = []

    def add(tag, data, cap=None, cf=None):
        if not data:
            return
        out.append((tag, cap or rng.choice([900000, 100000, 900000, 300000]),
                    cf or rng.choice([8, 8, 8, 1, 2, 3, 20]), bytes(data)))

    # 1 byte ... a few bytes
    for v in (0, 1, 65, 127, 128, 254, 255):
        add('one-byte', [v])
    for n in range(2, 12):
        add('tiny', [rng.randrange(256) for _ in range(n)])
        add('tiny-2sym', [rng.choice([7, 200]) for _ in range(n)])
    # runs (first run-length layer, zero runs in MTF)
    for n in (3, 4, 5, 258, 259, 260, 263, 518, 1000, 5000):
        add('run', [rng.randrange(256)] * n)
        add('run-mix', ([rng.randrange(256)] * n + [rng.randrange(256)]) * rng.randint(1, 4))
    # k distinct byte values, many sizes: single-table blocks (nm <= 150 or
    # the EM collapsing) up to six tables
    ks = [1, 2, 3, 4, 5, 8, 15, 16, 17, 31, 32, 33, 64, 100, 128, 200, 254,
          255, 256]
    sizes = [1, 2, 10, 40, 100, 149, 150, 151, 152, 200, 299, 300, 301, 310,
             599, 600, 601, 650, 1199, 1200, 1201, 1300, 2399, 2400, 2401,
             2500, 4000, 9000]
    nrand = 150 if quick else 6000
    for i in range(nrand):
        k = rng.choice(ks)
        n = rng.choice(sizes) + rng.randint(0, 49)
        vals = rng.sample(range(256), k)
        kind = rng.choice(['uniform', 'zipf', 'markov', 'segments'])
        if kind == 'uniform':
            d = [rng.choice(vals) for _ in range(n)]
        elif kind == 'zipf':
            d = [vals[min(k - 1, int(rng.paretovariate(1.2)) - 1)]
                 for _ in range(n)]
        elif kind == 'markov':
            d = []
            cur = vals[0]
            for _ in range(n):
                if rng.random() < 0.3:
                    cur = rng.choice(vals)
                d.append(cur)
        else:
            d = []
            while len(d) < n:
                sub = rng.sample(vals, min(k, rng.randint(1, 6)))
                d += [rng.choice(sub) for _ in range(rng.randint(20, 400))]
            d = d[:n]
        add('k%d-%s' % (k, kind), d)
    # all 256 values
    add('all256', list(range(256)))
    add('all256-rev', list(range(255, -1, -1)) * 3)
    # text
    words = [b'the', b'quick', b'brown', b'fox', b'jumps', b'over', b'lazy',
             b'dog', b'lorem', b'ipsum', b'0123456789', b'\n', b'  ']
    for n in (200, 2000, 20000) if quick else (200, 2000, 20000, 60000):
        d = bytearray()
        while len(d) < n:
            d += rng.choice(words) + b' '
        add('text', d[:n])
    # block capacity smaller than the input: collect() stops early
    for cap in (1, 2, 5, 17, 100, 1000):
        add('cap-limited', [rng.randrange(4) for _ in range(cap + 50)], cap=cap)
        add('cap-limited-runs', [7] * (cap + 300), cap=cap)
    # large: six tables, long selector lists
    big = (20000, 60000) if quick else (20000, 60000, 60000, 61440, 45000)
    for n in big:
        add('large-random', [rng.randrange(256) for _ in range(n)])
        d = []
        while len(d) < n:
            lo = rng.randrange(200)
            d += [lo + rng.randrange(rng.randint(1, 50)) for _ in range(rng.randint(100, 3000))]
        add('large-segments', d[:n])
    add('large-zero-run', [0] * 60000)
    return out


# ------------------------------------------------------------------ core
class Case:
    pass


def parse_c(reply):
    f = reply.split(' ')
    if len(f) != 19:
        return None
    c = Case()
    c.consumed = int(f[0])
    c.ret = int(f[1])
    c.outlen = int(f[2])
    c.buf = bytes.fromhex(f[3]) if f[3] != '-' else b''
    c.crc = int(f[4])
    c.bwt = int(f[5])
    c.cmaphex = f[6]
    c.nt = int(f[7])
    c.new2old = pl(f[8])
    c.lens_raw = ptab(f[9])
    c.codes_raw = ptab(f[10])
    c.sel_raw = pl(f[11])
    c.selmtf = pl(f[12])
    c.nsel = int(f[13])
    c.pad = int(f[14])
    c.nmtf = int(f[15])
    c.mtfv_padded = pl(f[16])
    c.nblock = int(f[17])
    c.crc_out = int(f[18])
    return c


THEOREMS = {
    'C01': ['LbzVerif.Props.C01.Transmit.selectorMtf_spec',
            'LbzVerif.Props.C01.Transmit.selectorMtf_decodes',
            'LbzVerif.Props.C01.Transmit.cost_eq_length',
            'LbzVerif.Props.C01.Transmit.len_mod8',
            'LbzVerif.Props.C01.Transmit.parse_transmit_bitmap',
            'LbzVerif.Props.C01.Transmit.parse_transmit_selectors',
            'LbzVerif.Props.C01.Transmit.parse_transmit_tables',
            'LbzVerif.Props.C01.Transmit.parse_transmit_partial',
            'LbzVerif.Props.C01.Transmit.symOK_of_coded',
            'LbzVerif.Props.C01.Transmit.parse_transmit'],
    'C02': ['LbzVerif.Props.C02.Transmit.transmit_wellformed',
            'LbzVerif.Props.C02.Transmit.transmit_strictBlockCheck',
            'LbzVerif.Props.C02.Transmit.rand_bit_zero'],
}


def run(ck):
    """Campaign; records violations / broken correspondences on `ck` and
    returns a coverage dict.  When the caller has audited the property modules
    (ck.lean) the W16 theorems of its property must be among them."""
    t0 = time.time()
    if ck.obligations and ck.pid in THEOREMS:
        ck.require_theorems(THEOREMS[ck.pid])
    rng = ck.rng
    quick = ck.quick
    drv = ck.driver()
    cov = {'library': 'w16_transmit', 'evaluations': 0, 'distinct_nontrivial': 0}
    if not os.path.exists(drv):
        ck.broken.append('w16: driver %s missing' % drv)
        return cov
    h = ck.cc('h_transmit', ['harness/h_transmit.c',
                             os.path.join(REPO, 'src', 'divbwt.c'),
                             os.path.join(REPO, 'src', 'crctab.c')])
    if not h:
        return cov
    inputs = gen_inputs(rng, quick)
    lines = ['encode %d %d %s' % (cap, cf, data.hex())
             for _, cap, cf, data in inputs]
    crep, cerr = par_batch([h], lines, nproc=14)
    if cerr:
        bad = [i for i, r in enumerate(crep) if r is None][:1]
        rp = {'stderr': cerr, 'how': 'harness/h_transmit: encode <cap> <cf> <hex>'}
        if bad:
            rp.update(cap=inputs[bad[0]][1], cf=inputs[bad[0]][2],
                      plaintext_hex=inputs[bad[0]][3].hex()[:20000])
        ck.violation('h_transmit aborted (sanitizer / assert) in encode() or '
                     'transmit(): ' + cerr[-300:], rp)
        return cov

    corr = []

    def corr_bad(what):
        if len(corr) < 12:
            corr.append(what)
        ck.log('correspondence: ' + what[:500])

    cases = []
    for (tag, cap, cf, data), r in zip(inputs, crep):
        c = parse_c(r) if r else None
        if c is None:
            ck.broken.append('w16: h_transmit reply malformed: %s' % (r or '')[:100])
            continue
        c.tag, c.cap, c.cf, c.data = tag, cap, cf, data
        c.replay = {'how': 'harness/h_transmit: encode <cap> <cf> <hex>',
                    'cap': cap, 'cf': cf, 'family': tag,
                    'plaintext_hex': data.hex() if len(data) <= 20000 else
                    data.hex()[:20000] + '...(%d bytes, VERIF_SEED replays)' % len(data)}
        cases.append(c)

    # ---------------------------------------------------- EncBlock (python)
    dist = {}

    def bump(k, n=1):
        dist[k] = dist.get(k, 0) + n

    pad_hist = {j: 0 for j in range(8)}
    padbranch = {'a<4,pad>0': 0, 'a>=4,pad>0': 0, 'pad=0': 0}
    nt_hist = {}
    tx_lines = []
    parse_lines = []
    selmtf_lines = []
    for c in cases:
        as_ = c.mtfv_padded[c.nmtf - 1] + 1
        ns = (c.nmtf + 49) // 50
        c.as_, c.ns = as_, ns
        c.mtfv = c.mtfv_padded[:c.nmtf]
        # facts the model builds in
        if any(x != as_ for x in c.mtfv_padded[c.nmtf:]) or len(c.mtfv_padded) != ns * 50:
            corr_bad('mtfv padding is not the sentinel as=%d (%s)' % (as_, c.tag))
        if len(set(c.new2old)) != len(c.new2old) or len(c.new2old) != c.nt:
            corr_bad('tmap_new2old %s not injective (%s)' % (c.new2old, c.tag))
        old2new = {o: n for n, o in enumerate(c.new2old)}
        if c.sel_raw[ns] != 6:
            corr_bad('selector[ns] is not the sentinel MAX_TREES (%s)' % c.tag)
        try:
            c.sels = [old2new[o] for o in c.sel_raw[:ns]]
        except KeyError:
            corr_bad('a selector names a table that is not transmitted (%s)' % c.tag)
            c.sels = [0] * ns
        first = []
        for s in c.sels:
            if s not in first:
                first.append(s)
        if first != list(range(len(first))):
            corr_bad('tables are not transmitted in order of first use: %s (%s)'
                     % (first, c.tag))
        c.dummy_table = len(first) == 1 and c.nt == 2
        c.lens = [r[:as_] for r in c.lens_raw]
        c.codes = [r[:as_] for r in c.codes_raw]
        for s in first:
            if c.lens_raw[s][as_] != 0 or c.codes_raw[s][as_] != 0:
                corr_bad('sentinel length/code of selected table %d not 0 (%s)'
                         % (s, c.tag))
            if c.codes[s] != canon_codes(c.lens[s]):
                ck.violation('code words of table %d are not canonical: the '
                             'decoder would read other symbols' % s,
                             dict(c.replay, lens=c.lens[s], codes=c.codes[s]))
        j = c.nsel - ns
        if j not in (0, 1) or c.pad > 3:
            corr_bad('dummy selectors %d / tree_pad %d out of range' % (j, c.pad))
        c.dummy_sel = j
        pad_hist[(2 * c.pad + j) & 7] += 1
        a0 = c.lens[0][0]
        padbranch['pad=0' if c.pad == 0 else ('a<4,pad>0' if a0 < 4 else 'a>=4,pad>0')] += 1
        nt_hist[c.nt] = nt_hist.get(c.nt, 0) + 1
        bump('family-' + c.tag.split('-')[0])
        bump('dummy-table' if c.dummy_table else 'real-tables')
        bump('size<=10' if len(c.data) <= 10 else 'size<=1000' if len(c.data) <= 1000
             else 'size<=10000' if len(c.data) <= 10000 else 'size>10000')
        nd = len(set(c.data[:c.consumed]))
        bump('distinct=1' if nd == 1 else 'distinct<=16' if nd <= 16 else
             'distinct<=255' if nd <= 255 else 'distinct=256')
        if c.selmtf[:ns] != py_mtf(c.sels):
            ck.violation('selectorMTF[] is not the move-to-front coding of the '
                         'selectors', dict(c.replay, selectors=c.sels[:200],
                                           selectorMTF=c.selmtf[:200]))
        c.args = ' '.join([str(c.crc), str(c.bwt), c.cmaphex, str(c.nt),
                           ctab(c.lens), ctab(c.codes), cl(c.sels), cl(c.selmtf),
                           str(c.nsel), str(c.pad), cl(c.mtfv)])
        tx_lines.append('tx ' + c.args)
        parse_lines.append('txparse 9 ' + (c.buf.hex() or '-'))
        selmtf_lines.append('selmtf ' + cl(c.sels))

    # sample for the (slow, cubic) Coded decision: small alphabets first
    coded_idx = [i for i, c in enumerate(cases) if c.as_ <= 40][:60 if quick else 400]
    coded_idx += [i for i, c in enumerate(cases) if c.as_ > 40][:4 if quick else 30]
    lean_lines = tx_lines + parse_lines + selmtf_lines + \
        ['txcoded ' + cases[i].args for i in coded_idx]
    lrep, lerr = par_batch([drv], lean_lines, nproc=14)
    if lerr:
        ck.broken.append('w16: lbzdrv failed: ' + lerr[-300:])
        return cov
    n = len(cases)
    tx_rep, parse_rep, sm_rep = lrep[:n], lrep[n:2 * n], lrep[2 * n:3 * n]
    coded_rep = lrep[3 * n:]

    seen = set()
    samples = []
    evals = 0
    for c, tr, pr, sr in zip(cases, tx_rep, parse_rep, sm_rep):
        evals += 1
        key = sha(c.cap, c.cf, c.data)
        seen.add(key)
        used = [v for v in range(256)
                if bytes.fromhex(c.cmaphex)[v >> 3] & (0x80 >> (v & 7))]
        # ---- judge: the real bytes, independent parser
        block = c.buf[:c.outlen]
        stored = c.crc ^ 0xFFFFFFFF
        stream = b'BZh9' + block + bytes.fromhex('177245385090') + \
            bzformat.combine(0, stored).to_bytes(4, 'big')
        ok_prop = True
        try:
            plain, infos, _ = bzformat.strict_decode(stream, want_info=True)
            info = infos[0]
        except bzformat.Reject as e:
            ck.violation('the transmitted block is rejected by the strict '
                         'parser: %s' % e, c.replay)
            continue
        except Exception as e:      # truncated data etc.
            ck.violation('the transmitted block cannot be parsed: %r' % e, c.replay)
            continue
        if plain != c.data[:c.consumed]:
            ok_prop = False
            ck.violation('block does not decode to the bytes collect() consumed',
                         c.replay)
        if info['bit_end'] - info['bit_start'] != 8 * c.outlen or c.ret != c.outlen:
            ok_prop = False
            ck.violation('block is %d bits long, encode() promised %d bytes '
                         '(out_expect_len; returned %d)' %
                         (info['bit_end'] - info['bit_start'], c.outlen, c.ret),
                         c.replay)
        if any(c.buf[c.outlen:]) or len(c.buf) != (c.outlen + 3) // 4 * 4:
            ok_prop = False
            ck.violation('bytes after the block in the last word are not zero',
                         c.replay)
        if (info['rand'] != 0 or not 2 <= len(info['lens']) <= 6 or
                len(info['selectors']) > 18002 or
                not all(bzformat.complete(l) for l in info['lens']) or
                info['origptr'] >= info['nblock'] or info['crc'] != stored):
            ok_prop = False
            ck.violation('transmitted block breaks a C02 syntax rule',
                         dict(c.replay, info={k: info[k] for k in
                                              ('rand', 'origptr', 'nblock', 'crc')}))
        want_sel = c.sels + ([c.sels[-1]] * c.dummy_sel)
        if (info['used'] != used or info['lens'] != c.lens or
                info['selectors'] != want_sel or info['origptr'] != c.bwt or
                info['groups_used'] != c.ns or info['nsyms'] != c.nmtf):
            corr_bad('python parser fields differ from the encoder state (%s)' % c.tag)
        # ---- correspondence: model vs code
        tf = (tr or '').split(' ')
        if len(tf) != 5:
            ck.broken.append('w16: tx reply malformed: %s' % (tr or '')[:80])
            continue
        mcost, mout, mbits, mwf = int(tf[0]), int(tf[1]), int(tf[2]), tf[3]
        mbytes = bytes.fromhex(tf[4]) if tf[4] != '-' else b''
        if mbytes != c.buf:
            k = next((i for i, (x, y) in enumerate(zip(mbytes, c.buf)) if x != y),
                     min(len(mbytes), len(c.buf)))
            corr_bad('Model.transmitBytes differs from the C buffer at byte %d '
                     '(model %d bytes, C %d) family %s cap %d cf %d plaintext %s'
                     % (k, len(mbytes), len(c.buf), c.tag, c.cap, c.cf,
                        c.data.hex()[:200]))
        if mcost != 8 * c.outlen or mout != c.outlen or mbits != mcost:
            corr_bad('Model.cost %d (out %d, bits %d) vs out_expect_len %d (%s) '
                     'plaintext %s' % (mcost, mout, mbits, c.outlen, c.tag,
                                       c.data.hex()[:200]))
        if mwf != '1':
            corr_bad('Model.WF does not hold for the state encode() produced '
                     '(%s) plaintext %s' % (c.tag, c.data.hex()[:200]))
        if pl(sr) != c.selmtf[:c.ns]:
            corr_bad('Model.selectorMtfOf %s vs C selectorMTF %s' %
                     (sr[:60], cl(c.selmtf[:c.ns])[:60]))
        want = 'ok %d 0 %d %s %d %s %s %d %s %d %d' % (
            stored, c.bwt, bytes(used).hex(), c.nt, cl(want_sel), ctab(c.lens),
            c.ns, cl(c.mtfv[:-1]), 8 * c.outlen, 8 * (len(c.buf) - c.outlen))
        if pr != want:
            a, b = (pr or '').split(' '), want.split(' ')
            names = ['status', 'crc', 'rand', 'origPtr', 'used', 'nGroups',
                     'selectors', 'tables', 'nUsed', 'syms', 'endBit', 'rest']
            which = [nm for nm, x, y in zip(names, a, b) if x != y] or [pr[:60]]
            if ok_prop:
                corr_bad('Spec.parseBlock of the C bytes differs from the '
                         'encoder state in %s (%s)' % (which, c.tag))
            else:
                ck.log('Spec.parseBlock also disagrees: %s' % which)
        if len(samples) < 6 and (evals % 37 == 5):
            samples.append({'family': c.tag, 'bytes_in': c.consumed,
                            'out_expect_len': c.outlen, 'num_trees': c.nt,
                            'num_selectors': c.nsel, 'tree_pad': c.pad,
                            'dummy_selector': c.dummy_sel, 'alpha_size': c.as_,
                            'block_hex': block.hex()[:80]})
    for i, r in zip(coded_idx, coded_rep):
        if r != '1':
            corr_bad('Model.Coded does not hold for the state encode() produced '
                     '(%s) plaintext %s' % (cases[i].tag, cases[i].data.hex()[:200]))
    missing = [j for j in range(8) if pad_hist[j] == 0]
    if missing:
        ck.broken.append('w16: padding values %s never occurred (campaign too '
                         'small to exercise the padding tricks)' % missing)
    if padbranch['a<4,pad>0'] == 0 or padbranch['a>=4,pad>0'] == 0:
        ck.broken.append('w16: a tree_pad branch was never taken: %s' % padbranch)
    for w in corr:
        ck.broken.append('correspondence: w16 ' + w[:400])
    dist['padding-bits-histogram'] = pad_hist
    dist['tree_pad-branch'] = padbranch
    dist['num_trees-histogram'] = dict(sorted(nt_hist.items()))
    dist['coded-decisions'] = len(coded_idx)
    cov.update({
        'evaluations': evals, 'distinct_nontrivial': len(seen),
        'rule': 'distinct = distinct (cap, cluster factor, plaintext); every '
                'case is non-trivial (a real block is encoded, transmitted, '
                'parsed three ways)',
        'samples': samples, 'input_distribution': dist, 'exhaustive': False,
        'wall_s': round(time.time() - t0, 1)})
    ck.log('w16_transmit: %d blocks, %.1fs; %s' % (evals, time.time() - t0, dist))
    return cov


if __name__ == '__main__':
    from vlib import Check

    class Standalone(Check):
        """same machinery, but never writes evidence"""

        def violation(self, what, replay, signature=None, no_input=False):
            self.violations.append(what)
            self.log('VIOLATION (standalone, not recorded): %s\n   replay: %s'
                     % (what, str(replay)[:1500]))

        def finish(self, coverage, extra_assumptions=()):
            self.log('standalone: violations=%d broken=%s' % (
                len(self.violations), self.broken))
            self.log('coverage: %s' % str(coverage)[:3000])
            sys.exit(1 if (self.violations or self.broken) else 0)

    ck = Standalone('C01')
    ck.finish(run(ck))
