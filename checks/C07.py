#!/usr/bin/env python3
"""C07 — damaged input is rejected cleanly.

Logical part (theorems, Props/C07*.lean when present): the decoder models are
total functions; a rejecting parse reaches the fatal path; cleanup removes
the output (Files model, C16).  Per run: the malformed side of the stream
campaign plus every truncation point of small multi-block / multi-stream
files, on stdin and as a FILE operand, each under a timeout (a hang is a
result); the thorough tier repeats it with an ASan+UBSan build (a crash is a
result).  Required: exit status exactly 1, non-empty stderr, not killed by a
signal, no output file left behind."""
import os
import shutil
import sys
sys.path.insert(0, os.path.join(os.path.dirname(os.path.abspath(__file__)),
                                '..', 'tools'))
from vlib import Check  # noqa: E402
import bzformat as B  # noqa: E402
import camp_decode as C  # noqa: E402
import decode_run as D  # noqa: E402
import proc  # noqa: E402

ck = Check('C07')
ck.regen()
mods = ck.props_modules()
if mods:
    ck.lean(mods)
    ck.require_theorems([
        'LbzVerif.Props.C07.corrupt_rejected_cleanly',
        'LbzVerif.Props.C07.block_error_is_fatal',
        'LbzVerif.Props.C07.truncated_stream_is_error',
        'LbzVerif.Props.C07.File.damaged_rejected',
        'LbzVerif.Props.C07.File.rejected_iff',
        'LbzVerif.Props.C07.File.damaged_never_terminates',
    ])
exe = ck.build_lbzip2(asan=False)
exe_asan = None if ck.quick else ck.build_lbzip2('lbzip2-asan', asan=True,
                                                 ndebug=False)
evals = nontriv = 0
samples = []
dist = {}
rng = ck.rng


def judge(c, r, how):
    global evals
    evals += 1
    if r.code() != 'exit1' or not r.err:
        ck.violation(
            'invalid input (%s: %s) not rejected cleanly via %s: %s, stderr '
            '%d bytes' % (c.tag, c.why, how, r.code(), len(r.err)),
            {'stream_hex': c.data[:200000].hex(), 'case': c.name,
             'tag': c.tag, 'oracle_reason': c.why, 'how': how,
             'stderr': r.err[-400:].decode('latin1')})
        return False
    return True


if exe:
    cases, _ = D.build_cases(ck, valid=False, malformed=True)
    # every truncation point of small multi-block and multi-stream files
    w = B.BitWriter()
    B.make_stream(w, [(b'block one ' * 30, {}), (b'block two ' * 25,
                                                {'ntables': 4})], 9, rng)
    B.make_stream(w, [(b'second stream', {})], 3, rng)
    multi = w.bytes()
    cuts = range(len(multi)) if not ck.quick else \
        sorted(rng.sample(range(len(multi)), min(120, len(multi))))
    for cut in cuts:
        c = C.Case('trunc-multi-%d' % cut, multi[:cut], 'truncation')
        C.oracle(c)
        cases.append(c)
    cases = C.dedupe(cases)
    bad = [c for c in cases if c.expect is None]
    D.oracle_selfcheck(ck, cases)
    dist = C.distribution(bad)
    # --- stdin
    for e, nm in ((exe, 'stdin'), (exe_asan, 'stdin-asan')):
        if not e:
            continue
        res = D.run(ck, e, bad, args=('-d', '-n%d' % rng.choice([1, 2, 4])),
                    timeout=120)
        for c, r in zip(bad, res):
            judge(c, r, nm)
    nontriv = len(bad)
    # --- stdin again, under random granularities / slots / worker counts
    res, confs = D.run_configs(ck, exe, bad, timeout=120)
    for c, r, (n, env) in zip(bad, res, confs):
        judge(c, r, 'stdin with %s -n%d' % (env, n))
    # --- FILE operand: no output file may remain
    sub = bad if not ck.quick else rng.sample(bad, min(len(bad), 200))
    root = os.path.join(ck.tmp, 'files')
    os.makedirs(root)
    jobs = []
    dirs = []
    for i, c in enumerate(sub):
        d = os.path.join(root, '%d' % i)
        os.makedirs(d)
        name = rng.choice(['in.bz2', 'in.tbz2', 'in.dat', 'x.tz2'])
        with open(os.path.join(d, name), 'wb') as f:
            f.write(c.data)
        jobs.append(dict(exe=exe, args=['-d', '-n2', name], cwd=d,
                         timeout=120))
        dirs.append((d, name))
    res = proc.run_many(jobs)
    for c, r, (d, name) in zip(sub, res, dirs):
        ok = judge(c, r, 'FILE operand')
        left = sorted(os.listdir(d))
        if left != [name]:
            evals += 0
            ck.violation(
                'rejected FILE operand left files behind: %s' % left,
                {'stream_hex': c.data[:200000].hex(), 'case': c.name,
                 'operand_name': name, 'listing': left, 'result': r.code()})
        else:
            with open(os.path.join(d, name), 'rb') as f:
                if f.read() != c.data:
                    ck.violation('rejected FILE operand was modified',
                                 {'case': c.name, 'operand_name': name})
        if len(samples) < 8 and len(c.data) < 400 and i % 7 == 0:
            samples.append({'case': c.name, 'tag': c.tag, 'oracle': c.why,
                            'result': r.code(),
                            'stderr': r.err[:90].decode('latin1'),
                            'stream_hex': c.data.hex()})
    shutil.rmtree(root, ignore_errors=True)
ck.log('distribution of rejected inputs:', dist)
ck.finish({
    'evaluations': evals, 'distinct_nontrivial': nontriv,
    'rule': 'inputs the strict oracle rejects (corrupted fields, bad tables, '
            'truncation at every byte of single-/multi-block/multi-stream '
            'files, empty, wrong magic, bad CRC, overrun); each run on stdin '
            'and a sample as FILE operand under a timeout; distinct by '
            'SHA-1; non-trivial = all (every case is an invalid file)',
    'samples': samples, 'oracle_distribution': dist,
    'asan_build_used': bool(exe_asan), 'exhaustive': False,
}, ['absence of crashes and hangs in the C program is observed, not proved'])
