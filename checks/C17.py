#!/usr/bin/env python3
"""C17 — FILE operands follow the documented naming and safety rules.

Theorems: LbzVerif.Props.C17 (over the suffix table and permission masks
regenerated from main.c).
Tie: the real lbzip2 binary (built from /repo's working tree) is run on ONE
file operand in a fresh directory for the grid
   mode x subsets of {-k,-c,-t,-f} x operand kind x pre-existing output
        x operand name (each suffix, near-miss suffixes) x permission bits
with fixed odd timestamps.  Directory listing, contents, stat(), exit status,
stdout and stderr emptiness afterwards are compared with
  (a) the Lean model `Naming.admitOp` fed with the system-call answers
      measured in that directory before the run (correspondence), and
  (b) the rules of the property statement written independently here, for
      the plain cases they speak about (the property itself).
"""
import bz2
import hashlib
import os
import re
import shutil
import socket
import stat
import subprocess
import sys
import time
from concurrent.futures import ThreadPoolExecutor

sys.path.insert(0, os.path.join(os.path.dirname(os.path.abspath(__file__)),
                                '..', 'tools'))
from vlib import Check, batch  # noqa: E402

ck = Check('C17')

THEOREMS = ['no_clobber', 'skip_nonregular', 'skip_multilink',
            'skip_compressed_suffix', 'outName_compress', 'outName_decompress',
            'outName_decompress_total', 'suffix_rows_exclusive',
            'hasCompressedSuffix_iff', 'metadata', 'input_removed_iff',
            'documented_suffix_table', 'no_unlink_without_force',
            'outName_decompress_row', 'outName_compress_string']

P = b'lbzip2 C17 plaintext payload\n' * 4
B = bz2.compress(P, 9)
JUNK = b'pre-existing output; must be untouched without -f\n'
AT = 1500000000123456789
MT = 1400000000987654321
JAT = 1300000000111111111
JMT = 1200000000222222222
ROOT = os.geteuid() == 0
PRELOAD = [None]


OPENLOG_C = r"""
#define _GNU_SOURCE
#include <dlfcn.h>
#include <fcntl.h>
#include <stdarg.h>
#include <stdio.h>
#include <stdlib.h>
#include <string.h>
#include <unistd.h>
/* log every creating open(): "<flags> <mode> <path>" */
static void logit(const char *path, int flags, unsigned mode)
{
  const char *lf = getenv("OPENLOG");
  char buf[4600];
  int fd, n;
  int (*real)(const char *, int, ...) = dlsym(RTLD_NEXT, "open");
  if (!lf || !(flags & O_CREAT)) return;
  fd = real(lf, O_WRONLY | O_APPEND);
  if (fd < 0) return;
  n = snprintf(buf, sizeof buf, "%d %u %s\n", flags & (O_ACCMODE | O_CREAT | O_EXCL | O_TRUNC), mode, path);
  if (n > 0) (void)!write(fd, buf, n);
  close(fd);
}
#define WRAP(name)                                             \
int name(const char *path, int flags, ...)                     \
{                                                              \
  int (*real)(const char *, int, ...) = dlsym(RTLD_NEXT, #name); \
  unsigned mode = 0;                                           \
  if (flags & O_CREAT) { va_list ap; va_start(ap, flags); mode = va_arg(ap, unsigned); va_end(ap); } \
  logit(path, flags, mode);                                    \
  return real(path, flags, mode);                              \
}
WRAP(open)
WRAP(open64)
"""
WANT_FLAGS = os.O_WRONLY | os.O_CREAT | os.O_EXCL


def enc(s):
    b = s.encode() if isinstance(s, str) else s
    if not b:
        return '%'
    return ''.join(chr(c) if (48 <= c <= 57 or 65 <= c <= 90 or 97 <= c <= 122)
                   else '%%%02X' % c for c in b)


def dec(s):
    if s == '%':
        return ''
    return bytes(re.sub(r'%(..)', lambda m: chr(int(m.group(1), 16)),
                        s), 'latin-1').decode()


# ----------------------------------------------------- the documented rules
SUFFIXES = ['.bz2', '.tbz', '.tbz2', '.tz2']


def doc_outname(name, d):
    if not d:
        return name + '.bz2'
    if name.endswith('.bz2'):
        return name[:-4]
    for s in ('.tbz2', '.tbz', '.tz2'):
        if name.endswith(s):
            return name[:-len(s)] + '.tar'
    return name + '.out'


def flags_of(case):
    """(decompress, outmode, keep, force) or None for the -c -t conflict."""
    fl = case['flags']
    if 'c' in fl and 't' in fl:
        return None
    d = case['mode'] == 'd' or 't' in fl
    om = 'discard' if 't' in fl else 'stdout' if 'c' in fl else 'regf'
    return (d, om, 'k' in fl, 'f' in fl)


# ------------------------------------------------------------------ sandbox
def snap(d):
    """path -> (kind, content class, mode, mtime_ns, atime_ns, nlink)"""
    out = {}
    ents = []
    for root, dirs, files in os.walk(d):
        for n in dirs + files:
            p = os.path.join(root, n)
            ents.append((os.path.relpath(p, d), p, os.lstat(p)))
    for rel, p, st in ents:
        if stat.S_ISLNK(st.st_mode):
            out[rel] = ('l', os.readlink(p), 0, 0, 0, st.st_nlink)
        elif stat.S_ISDIR(st.st_mode):
            out[rel] = ('d', '', stat.S_IMODE(st.st_mode), 0, 0, 0)
        elif stat.S_ISREG(st.st_mode):
            try:
                with open(p, 'rb') as f:
                    c = classify(f.read())
            except OSError:
                c = 'unreadable'
            out[rel] = ('r', c, stat.S_IMODE(st.st_mode), st.st_mtime_ns,
                        st.st_atime_ns, st.st_nlink)
        else:
            out[rel] = ('o', '', stat.S_IMODE(st.st_mode), 0, 0, st.st_nlink)
    return out


def classify(data):
    if data == b'':
        return 'empty'
    if data == JUNK:
        return 'junk'
    if data == P:
        return 'P'
    if data == B:
        return 'B'
    if data[:3] == b'BZh':
        try:
            if bz2.decompress(data) == P:
                return 'Z' + chr(data[3])
        except Exception:
            pass
    return 'other:' + hashlib.sha1(data).hexdigest()[:8]


def stat_str(st):
    k = ('r' if stat.S_ISREG(st.st_mode) else 'd' if stat.S_ISDIR(st.st_mode)
         else 'l' if stat.S_ISLNK(st.st_mode) else 'o')
    return '%s:%d:%d:%d:%d' % (k, st.st_nlink, stat.S_IMODE(st.st_mode),
                               st.st_atime_ns, st.st_mtime_ns)


def _close2():
    try:
        os.close(2)
    except OSError:
        pass


def run_case(exe, idx, case, errmode=None):
    d = os.path.join(ck.tmp, 'c%d%s' % (idx, errmode or ''))
    os.mkdir(d)
    sock = None
    try:
        fl = flags_of(case)
        dflag = fl[0] if fl else case['mode'] == 'd'
        name = case['name']
        path = os.path.join(d, name)
        if '/' in name:
            os.makedirs(os.path.dirname(path), exist_ok=True)
        data = B if dflag else P
        kind = case['kind']

        def mkfile(p):
            with open(p, 'wb') as f:
                f.write(data)
            os.chmod(p, case['inmode'])
            os.utime(p, ns=(AT, MT))
        if kind in ('regular', 'unreadable'):
            mkfile(path)
            if kind == 'unreadable':
                os.chmod(path, 0)
        elif kind == 'hardlink':
            mkfile(path)
            os.link(path, os.path.join(d, '_other'))
        elif kind == 'symlink':
            mkfile(os.path.join(d, '_target'))
            os.symlink(os.path.join(d, '_target'), path)
        elif kind == 'dangling':
            os.symlink(os.path.join(d, '_nowhere'), path)
        elif kind == 'directory':
            os.mkdir(path)
        elif kind == 'socket':
            try:
                sock = socket.socket(socket.AF_UNIX)
                # bind through a short path (sun_path limit)
                fdd = os.open(os.path.dirname(path), os.O_RDONLY)
                try:
                    sock.bind('/proc/self/fd/%d/%s' % (fdd, os.path.basename(name)))
                finally:
                    os.close(fdd)
            except OSError:
                pass                      # name too long for a socket: missing
        elif kind == 'missing':
            pass
        out = doc_outname(name, dflag)
        opath = os.path.join(d, out)
        pre = case['pre']
        can_pre = out != '' and len(os.path.basename(out).encode()) <= 255 \
            and not os.path.lexists(opath)
        if not can_pre:
            pre = 'none'
        if pre == 'file':
            with open(opath, 'wb') as f:
                f.write(JUNK)
            os.chmod(opath, 0o640)
            os.utime(opath, ns=(JAT, JMT))
        elif pre == 'dir':
            os.mkdir(opath)
        elif pre == 'dangling':
            os.symlink(os.path.join(d, '_nowhere2'), opath)
        before = snap(d)
        # reading the files for the snapshot may have touched their atime
        for pth, tm in ((path, (AT, MT)), (os.path.join(d, '_target'), (AT, MT)),
                        (opath, (JAT, JMT))):
            try:
                if stat.S_ISREG(os.lstat(pth).st_mode):
                    os.utime(pth, ns=tm)
            except OSError:
                pass
        # ---- the system-call answers, measured
        try:
            ls = stat_str(os.lstat(path))
        except OSError:
            ls = '-'
        try:
            fd = os.open(path, os.O_RDONLY | os.O_NOCTTY | os.O_NONBLOCK)
            fst = os.fstat(fd)
            os.close(fd)
            open_ok = 1
            fs = stat_str(fst)
            work_ok = 0 if stat.S_ISDIR(fst.st_mode) else 1
        except OSError:
            open_ok = 0
            fs = 'r:1:0:0:0'
            work_ok = 1
        out_exists = 1 if (out != '' and os.path.lexists(opath)) else 0
        unlink_ok = 1 if out_exists and not (os.path.isdir(opath)
                                             and not os.path.islink(opath)) else 0
        creatable = 1 if (out != '' and
                          len(os.path.basename(out).encode()) <= 255) else 0
        world = '%s %d %s %d %d %d %d 1' % (ls, open_ok, fs, out_exists,
                                            unlink_ok, creatable, work_ok)
        opts = list(case['opts'])
        logf = os.path.join(ck.tmp, 'openlog%d' % idx)
        open(logf, 'w').close()
        env = {'LD_PRELOAD': PRELOAD[0], 'OPENLOG': logf} if PRELOAD[0] else {}
        if errmode == 'full':            # every diagnostic write fails (ENOSPC)
            with open('/dev/full', 'wb') as ef:
                r = subprocess.run([exe] + opts + [name], cwd=d, env=env,
                                   stdin=subprocess.DEVNULL, stdout=subprocess.PIPE,
                                   stderr=ef, timeout=60)
            r.stderr = b''
        elif errmode == 'closed':        # no descriptor 2 at all (EBADF)
            r = subprocess.run([exe] + opts + [name], cwd=d, env=env,
                               stdin=subprocess.DEVNULL, stdout=subprocess.PIPE,
                               preexec_fn=_close2, timeout=60)
            r.stderr = b''
        else:
            r = subprocess.run([exe] + opts + [name], cwd=d, env=env,
                               stdin=subprocess.DEVNULL, stdout=subprocess.PIPE,
                               stderr=subprocess.PIPE, timeout=60)
        after = snap(d)
        with open(logf, 'rb') as f:
            creates = [tuple(l.split(b' ', 2)) for l in f.read().splitlines()]
        os.unlink(logf)
        creates = [(int(a), int(b), c.decode('utf-8', 'replace')) for a, b, c in creates]
        return {'creates': creates, 'world': world, 'before': before, 'after': after,
                'status': r.returncode, 'stdout': classify(r.stdout),
                'stderr_empty': r.stderr == b'', 'stderr': r.stderr[:300],
                'pre': pre, 'out': out}
    finally:
        if sock is not None:
            sock.close()
        for root, dirs, files in os.walk(d):
            for n in dirs:
                try:
                    os.chmod(os.path.join(root, n), 0o700)
                except OSError:
                    pass
        shutil.rmtree(d, ignore_errors=True)


def strip_atime(s, keep_atime_of=None):
    """atime is only compared for the output file (set by futimens)."""
    r = {}
    for k, v in s.items():
        r[k] = v if k == keep_atime_of else v[:4] + (0,) + v[5:]
    return r


def expected_after(before, case, eff, dflag):
    """Directory contents predicted from an effect (model's or documented)."""
    exp = dict(before)
    name = case['name']
    if eff['oldrm']:
        exp.pop(eff['outname_for_rm'], None)
    if eff['out'] is not None:
        exp[eff['out']] = ('r', 'P' if dflag else 'Z9', eff['fmode'],
                           eff['mtime'], eff['atime'], 1)
    if eff['inrm'] and name in exp:
        v = exp.pop(name)
        # another link to the same inode loses one link
        if case['kind'] == 'hardlink' and '_other' in exp:
            o = exp['_other']
            exp['_other'] = o[:5] + (o[5] - 1,)
    return exp


def parse_effect(r):
    m = re.fullmatch(r'skip=(\S+) fatal=(\d) warned=(\d) status=(\d+) out=(\S+) '
                     r'oldrm=(\d) cmode=(\d+) fmode=(\d+) atime=(\d+) '
                     r'mtime=(\d+) inrm=(\d)', r)
    if not m:
        return None
    return {'skip': m.group(1), 'fatal': m.group(2) == '1',
            'status': int(m.group(4)),
            'out': None if m.group(5) == '-' else dec(m.group(5)),
            'oldrm': m.group(6) == '1', 'cmode': int(m.group(7)),
            'fmode': int(m.group(8)),
            'atime': int(m.group(9)), 'mtime': int(m.group(10)),
            'inrm': m.group(11) == '1'}


def doc_effect(case, res):
    """The property statement, for the cases it speaks about.  None = the
    statement is silent (unusual kinds, odd pre-existing objects, special
    permission bits, pathological names)."""
    fl = flags_of(case)
    if fl is None:
        return None
    d, om, keep, force = fl
    kind, pre, name = case['kind'], res['pre'], case['name']
    if kind not in ('regular', 'unreadable', 'hardlink', 'symlink',
                    'directory', 'missing'):
        return None
    if kind == 'unreadable' and not ROOT:
        return None
    if pre not in ('none', 'file'):
        return None
    special = bool(case['inmode'] & 0o7000)
    out = doc_outname(name, d)
    if out == '' or len(os.path.basename(out).encode()) > 255:
        return None
    skip = {'skip': 'x', 'fatal': False, 'status': 4, 'out': None,
            'oldrm': False, 'inrm': False}
    if kind == 'missing':
        return skip
    if not d and any(name.endswith(s) for s in SUFFIXES):
        return skip                       # always, also with -f
    if om == 'regf' and not force:
        if kind in ('symlink', 'directory'):
            return skip
        if kind == 'hardlink' and not keep:
            return skip
        if pre == 'file':
            return skip                   # never modify an existing output
    if kind == 'directory':
        return None                       # -f / -c on a directory: silent
    if om != 'regf':
        return {'skip': '-', 'fatal': False, 'status': 0, 'out': None,
                'oldrm': False, 'inrm': False}
    # setuid/setgid/sticky on the input: the statement still gives the output
    # the input's PERMISSION bits (rwx) and times; whether that is accompanied
    # by a warning (status 4) it does not say -> status left unjudged
    return {'skip': '-', 'fatal': False, 'status': None if special else 0,
            'out': out,
            'oldrm': pre == 'file', 'fmode': case['inmode'] & 0o777
            if kind != 'unreadable' else 0,
            'atime': AT, 'mtime': MT, 'inrm': not keep}


# ------------------------------------------------------------------- cases
NAMES = ['a', 'a.txt', 'a.bz2', 'a.tbz', 'a.tbz2', 'a.tz2', 'a.bz', 'abz2',
         'a.tbz2x', 'a.TBZ', 'a.BZ2', 'a.Bz2', 'a.tar.bz2', 'a.bz2.bz2',
         'a.tbz.bz2', 'a.bz2.tbz', 'a.bz2.out', 'a.tar', 'a.out', '.bz2',
         '.tbz', '.tbz2', '.tz2', 'bz2', 'tbz2', 'a.tz', 'a.z2', 'a.tbz22',
         'atbz', 'a.t.bz2', 'a..bz2', 'sub/a.bz2', 'sub/b', 'sub/.tz2',
         'x' * 251 + '.bz2', 'x' * 252, 'x' * 251, 'a b.bz2', 'a\tb',
         'é.tbz2', 'a.bz2 ', 'a.bz2.']
KINDS = ['regular', 'symlink', 'hardlink', 'directory', 'missing',
         'unreadable', 'dangling', 'socket']
PRES = ['none', 'file', 'dir', 'dangling']
FLAGSETS = ['', 'k', 'c', 't', 'f', 'kc', 'kt', 'kf', 'cf', 'tf', 'kcf',
            'ktf', 'ct', 'kct', 'ctf', 'kctf']
INMODES = [0o644, 0o600, 0o755, 0o666, 0o400, 0o000, 0o777, 0o4755, 0o2755,
           0o1644, 0o6711, 0o070, 0o007]
LONG = {'k': '--keep', 'c': '--stdout', 't': '--test', 'f': '--force'}


def mkcase(rng, mode, flags, kind, pre, name, inmode):
    letters = list(flags)
    rng.shuffle(letters)
    style = rng.randrange(3)
    mflag = {'c': '-z', 'd': '-d'}[mode]
    if style == 0:
        opts = [mflag] + ['-' + l for l in letters]
    elif style == 1:
        opts = ['-' + mflag[1] + ''.join(letters)]
    else:
        opts = [mflag] + [LONG[l] for l in letters]
    # -t after -z would be reset... keep the mode flag first so that the
    # documented reading (mode, then -k/-c/-t/-f) applies
    # two worker threads are plenty for a 100-byte file (start-up time)
    opts.insert(rng.randrange(1, len(opts) + 1), '-n2')
    return {'mode': mode, 'flags': flags, 'kind': kind, 'pre': pre,
            'name': name, 'inmode': inmode, 'opts': opts}


def gen_cases():
    rng = ck.rng
    q = ck.quick
    cases = []
    # 1. mode x flags x kind x pre-existing output (plain name and one suffix)
    for mode in 'cd':
        for fl in FLAGSETS:
            for kind in KINDS:
                for pre in PRES:
                    for name in (['a'] if mode == 'c' else ['a.bz2']):
                        if q and rng.random() > 0.4:
                            continue
                        cases.append(mkcase(rng, mode, fl, kind, pre, name,
                                            rng.choice(INMODES[:4])))
    # 2. mode x flags x every name (regular file; with/without existing output)
    for mode in 'cd':
        for fl in FLAGSETS:
            if 'c' in fl and 't' in fl:
                continue
            for name in NAMES:
                for pre in ('none', 'file'):
                    if q and rng.random() > 0.35:
                        continue
                    kind = 'regular' if rng.random() < 0.8 else \
                        rng.choice(['symlink', 'hardlink'])
                    cases.append(mkcase(rng, mode, fl, kind, pre, name,
                                        rng.choice(INMODES[:4])))
    # 3. permission bits x flags
    for mode in 'cd':
        for inmode in INMODES:
            for fl in ('', 'k', 'f', 'kf', 'c'):
                for kind in ('regular', 'symlink', 'hardlink'):
                    if q and rng.random() > 0.5:
                        continue
                    cases.append(mkcase(rng, mode, fl, kind,
                                        rng.choice(['none', 'none', 'file']),
                                        rng.choice(['a', 'a.tbz', 'b.bz2', 'sub/b']),
                                        inmode))
    # 4. random corners
    for _ in range(150 if q else 6000):
        cases.append(mkcase(rng, rng.choice('cd'), rng.choice(FLAGSETS),
                            rng.choice(KINDS), rng.choice(PRES),
                            rng.choice(NAMES), rng.choice(INMODES)))
    return cases


def main():
    ck.regen()
    ck.lean(['LbzVerif.Props.C17'])
    ck.require_theorems(['LbzVerif.Props.C17.' + t for t in THEOREMS])
    exe = ck.build_lbzip2(asan=False)
    if exe is None:
        ck.finish({'evaluations': 0})
    os.umask(0o022)
    # interposer that records the creating open() calls (flags, mode, path)
    csrc = os.path.join(ck.tmp, 'openlog.c')
    with open(csrc, 'w') as f:
        f.write(OPENLOG_C)
    so = os.path.join(ck.tmp, 'openlog.so')
    r = subprocess.run(['gcc', '-shared', '-fPIC', '-O1', '-w', '-o', so, csrc, '-ldl'],
                       stdout=subprocess.PIPE, stderr=subprocess.STDOUT, text=True)
    if r.returncode == 0:
        PRELOAD[0] = so
    else:
        ck.notes.append('open() interposer not built: creation flags/mode not observed')
        ck.log('interposer build failed: ' + r.stdout[-300:])
    cases = gen_cases()
    ck.log('%d cases generated' % len(cases))

    t0 = time.time()
    with ThreadPoolExecutor(max_workers=10) as ex:
        results = list(ex.map(lambda ic: run_case(exe, ic[0], ic[1]),
                              enumerate(cases)))
    ck.log('%d real runs in %.1fs' % (len(cases), time.time() - t0))

    # model: option values via `cli`, names via `outname`/`suffix`, then `admit`
    lines = []
    for c in cases:
        lines.append('cli lbzip2 - - - ' + ' '.join(enc(o) for o in c['opts'])
                     + ' ' + enc(c['name']))
        lines.append('outname c ' + enc(c['name']))
        lines.append('outname d ' + enc(c['name']))
        lines.append('suffix ' + enc(c['name']))
    rc, rep, err = batch([ck.driver()], lines)
    if rc != 0 or len(rep) != len(lines) or 'bad-op' in rep or 'bad-arg' in rep:
        ck.broken.append('correspondence: driver failed on cli/outname (%s)'
                         % sorted(set(r for r in rep if r.startswith('bad')))[:3])
        ck.finish({'evaluations': 0})
    lines2 = []
    cfgs = []
    for i, c in enumerate(cases):
        r = rep[4 * i]
        m = re.match(r'config d=(\d) om=(\w+) bs=\d+ f=(\d) k=(\d)', r)
        cfgs.append(m)
        if m:
            lines2.append('admit %s%s%s %s %s %s' % (
                m.group(1), m.group(3), m.group(4), m.group(2), enc(c['name']),
                results[i]['world']))
        else:
            lines2.append('nop')
    rc, rep2, err = batch([ck.driver()], lines2)
    if rc != 0 or len(rep2) != len(lines2) or 'bad-arg' in rep2:
        ck.broken.append('correspondence: driver failed on admit')
        ck.finish({'evaluations': 0})

    nviol = [0]
    skipped = []

    def violation(what, replay):
        nviol[0] += 1
        if nviol[0] <= 10:                 # ten concrete replays are enough
            ck.violation(what, replay)

    seen, nontrivial = set(), set()
    dist = {'kind': {}, 'pre': {}, 'skip': {}, 'status': {}}
    samples = []
    n_bad_model = n_bad_doc = n_doc = n_name_bad = 0
    for i, (c, res) in enumerate(zip(cases, results)):
        key = hashlib.sha1(repr(sorted(c.items())).encode()).hexdigest()
        seen.add(key)
        fl = flags_of(c)
        dflag = fl[0] if fl else c['mode'] == 'd'
        replay = {'options': c['opts'], 'operand': c['name'],
                  'operand_kind': c['kind'], 'operand_mode': oct(c['inmode']),
                  'preexisting_output': res['pre'], 'content':
                  'bz2 stream' if dflag else 'plaintext',
                  'status': res['status'], 'stderr': res['stderr'].decode('latin-1'),
                  'before': res['before'], 'after': res['after']}
        dist['kind'][c['kind']] = dist['kind'].get(c['kind'], 0) + 1
        dist['pre'][res['pre']] = dist['pre'].get(res['pre'], 0) + 1
        dist['status'][res['status']] = dist['status'].get(res['status'], 0) + 1
        # names: model vs documented rule
        mc, md, ms = dec_or_none(rep[4 * i + 1]), dec_or_none(rep[4 * i + 2]), rep[4 * i + 3]
        if mc != doc_outname(c['name'], False) or md != doc_outname(c['name'], True) \
                or ms != ('1' if any(c['name'].endswith(s) for s in SUFFIXES) else '0'):
            n_name_bad += 1
            ck.broken.append('correspondence: Naming model vs documented '
                             'suffix rules on %r: %r %r %r' % (c['name'], mc, md, ms))
        # the -c -t conflict: fatal, nothing touched
        if fl is None or cfgs[i] is None:
            ok = (res['status'] == 1 and strip_atime(res['after']) ==
                  strip_atime(res['before']) and res['stdout'] == 'empty'
                  and (fl is None) == (cfgs[i] is None))
            if not ok:
                violation('-c with -t must be refused without touching '
                          'anything', replay)
            continue
        if res['status'] != 1:
            nontrivial.add(key)
        # (b) the documented rules
        de = doc_effect(c, res)
        if de is not None:
            n_doc += 1
            de['outname_for_rm'] = res['out']
            exp = expected_after(res['before'], c, de, dflag)
            want_stdout = ('empty' if de['skip'] != '-' or fl[1] != 'stdout'
                           else ('P' if dflag else 'Z9'))
            got = (res['status'], strip_atime(res['after'], de['out']),
                   res['stdout'], res['stderr_empty'])
            want = (de['status'], strip_atime(exp, de['out']), want_stdout,
                    de['status'] == 0)
            if de['status'] is None:       # status / stderr unjudged
                got = (None,) + got[1:3] + (None,)
                want = (None,) + want[1:3] + (None,)
            if got != want:
                n_bad_doc += 1
                replay['documented'] = {'status': want[0], 'after': want[1],
                                        'stdout': want[2]}
                violation('real lbzip2 does not follow the documented FILE '
                          'operand rules on this case', replay)
                continue
        # (a) the model
        eff = parse_effect(rep2[i])
        if eff is None:
            ck.broken.append('correspondence: bad admit reply %r' % rep2[i])
            continue
        dist['skip'][eff['skip']] = dist['skip'].get(eff['skip'], 0) + 1
        if eff['skip'] != '-' and not eff['fatal']:
            skipped.append(i)
        eff['outname_for_rm'] = res['out']
        if eff['fatal']:
            # fail(): the new output is unlinked by cleanup(), input stays
            exp = dict(res['before'])
            if eff['oldrm']:
                exp.pop(res['out'], None)
            want_stdout = None
        else:
            exp = expected_after(res['before'], c, eff, dflag)
            want_stdout = ('empty' if eff['skip'] != '-' or fl[1] != 'stdout'
                           else ('P' if dflag else 'Z9'))
        # the creating open(): O_WRONLY|O_CREAT|O_EXCL, mode = input & 0600,
        # issued exactly when the model reaches output_init's open()
        if eff['out'] is not None or eff['fatal'] and fl[1] == 'regf' and res['out']:
            want_creates = [(WANT_FLAGS, eff['cmode'] if eff['out'] is not None
                             else None, res['out'])]
        elif eff['skip'] == 'openout':
            want_creates = [(WANT_FLAGS, None, res['out'])]
        else:
            want_creates = []
        got_creates = [(a, b if (w and w[0][1] is not None) else None, c)
                       for (a, b, c), w in zip(res['creates'],
                                               [want_creates] * len(res['creates']))]
        if not PRELOAD[0]:
            got_creates = want_creates
        got = (res['status'], strip_atime(res['after'], eff['out']),
               res['stdout'] if want_stdout is not None else None,
               res['stderr_empty'], got_creates)
        want = (eff['status'], strip_atime(exp, eff['out']), want_stdout,
                eff['status'] == 0, want_creates)
        if got != want:
            n_bad_model += 1
            if n_bad_model <= 6:
                ck.log('model/real disagreement on %r\n  world %s\n  model %s\n'
                       '  want %r\n  got  %r\n  stderr %r'
                       % (c, res['world'], rep2[i], want, got, res['stderr']))
                ck.broken.append('correspondence: Naming.admitOp vs real binary: '
                                 '%s %s (%s, pre=%s)' % (' '.join(c['opts']),
                                                         c['name'], c['kind'], res['pre']))
        if len(samples) < 8 and i % 211 == 0:
            samples.append({'case': c, 'world': res['world'], 'model': rep2[i],
                            'status': res['status'],
                            'after': sorted(res['after'].keys())})
    # A skipped operand leaves the directory exactly as it was EVEN WHEN THE
    # DIAGNOSTIC CANNOT BE DELIVERED (stderr closed, or every write to it
    # failing): the fatal path taken inside the warning must not remove or
    # touch anything either.  Cases with a pre-existing output first.
    skipped.sort(key=lambda i: (not results[i]['pre'], i))
    n_err = 0
    for i in skipped[:(40 if ck.quick else 400)]:
        for em in ('closed', 'full'):
            res2 = run_case(exe, i, cases[i], errmode=em)
            n_err += 1
            if strip_atime(res2['after']) != strip_atime(res2['before']):
                gone = sorted(set(res2['before']) - set(res2['after']))
                violation('a skipped operand must leave everything untouched '
                          'also when stderr is unusable (%s): %s %s; removed %s'
                          % (em, ' '.join(cases[i]['opts']), cases[i]['name'], gone),
                          {'case': cases[i], 'stderr': em,
                           'preexisting_output': res2['pre'],
                           'before': sorted(res2['before'].keys()),
                           'after': sorted(res2['after'].keys()),
                           'status': res2['status']})
    ck.log('skipped operands re-run with unusable stderr: %d runs' % n_err)
    ck.log('distribution %s; documented-rule cases %d' % (dist, n_doc))
    ck.finish({
        'evaluations': len(cases),
        'distinct_nontrivial': len(nontrivial),
        'rule': 'distinct (options, operand name, kind, mode, pre-existing '
                'output) where option parsing succeeded',
        'distinct_cases': len(seen), 'distribution': dist,
        'documented_rule_cases': n_doc,
        'unusable_stderr_runs': n_err,
        'disagreements': {'model': n_bad_model, 'documented': n_bad_doc,
                          'names': n_name_bad, 'violations_total': nviol[0]},
        'samples': samples, 'exhaustive': False,
    }, extra_assumptions=['fchown succeeds (the check runs as the file owner)'])


def dec_or_none(s):
    return None if s in ('none', 'bad-arg') else dec(s)


main()
