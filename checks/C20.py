#!/usr/bin/env python3
"""C20 — prefix tables are optimal for the symbols they code.

Theorems: Props/C20.lean — optLL_attained, optLL_le (every complete code
within the limit costs at least optLL, exchange argument included),
checker_sound.  The proven-sound checker (driver command `tableopt`) is
applied to every used table of every block of every stream of the
compression campaign (symbol counts and lengths recovered from the stream by
the independent parser) and, in-process, to the real assign_codes for every
alphabet size with adversarial frequency shapes (library w11_prefix)."""
import os
import subprocess
import sys
sys.path.insert(0, os.path.join(os.path.dirname(os.path.abspath(__file__)),
                                '..', 'tools'))
sys.path.insert(0, os.path.dirname(os.path.abspath(__file__)))
from vlib import Check  # noqa: E402
import bzformat as B  # noqa: E402
import camp_encode as E  # noqa: E402
import inproc  # noqa: E402
import proc  # noqa: E402

ck = Check('C20')
ck.regen()
mods = ck.props_modules()
if mods:
    ck.lean(mods)
    ck.require_theorems(['LbzVerif.Props.C20.optLL_le',
                         'LbzVerif.Props.C20.optLL_attained',
                         'LbzVerif.Props.C20.checker_sound'])
inproc.run_libs(ck, ['w11_prefix'])
exe = ck.build_lbzip2(asan=False)
rng = ck.rng
evals = 0
tables = 0
seen = set()
samples = []
maxlen_hist = {}
if exe:
    I = E.inputs(rng, ck.quick)
    if ck.quick:
        keep = ('text', 'two-symbol', 'fib', 'all256', 'alpha5-350k',
                'random-300k', 'runs-of-4', 'long-run-mix', 'sorted',
                'tandem17', 'debruijn', 'one', 'run259')
        I = [x for x in I if x[0] in keep]
    jobs = []
    meta = []
    for name, data, tag in I:
        for lvl in ([1, 9] if ck.quick else [1, 3, 6, 9]):
            if lvl == 9 and len(data) > 1200000:
                continue
            seq = rng.random() < 0.5
            jobs.append(dict(exe=exe, args=['-%d' % lvl, '-n4'] +
                             (['-u'] if seq else []), data=data, timeout=300))
            meta.append((name, data, lvl, seq))
    res = proc.run_many(jobs)
    reqs = []
    rmeta = []
    for (name, data, lvl, seq), r in zip(meta, res):
        evals += 1
        if r.code() != 'exit0':
            ck.violation('compression failed', {'input': name})
            continue
        try:
            _, infos, _ = B.strict_decode(r.out, want_info=True, full=False)
        except B.Reject as e:
            ck.violation('output does not parse: %s' % e, {'input': name})
            continue
        for bi, inf in enumerate(infos):
            used = sorted(set(inf['selectors'][:inf['groups_used']]))
            for t in used:
                f = inf['freq'][t]
                ls = inf['lens'][t]
                reqs.append('tableopt %s %s' % (','.join(map(str, f)),
                                                ','.join(map(str, ls))))
                rmeta.append((name, lvl, seq, bi, t, f, ls))
    drv = ck.driver()
    if reqs and os.path.exists(drv):
        p = subprocess.run([drv], input='\n'.join(reqs) + '\n', text=True,
                           stdout=subprocess.PIPE, timeout=1800)
        rep = p.stdout.split('\n')
        if len(rep) < len(reqs):
            ck.broken.append('driver answered %d of %d tableopt requests' %
                             (len(rep), len(reqs)))
        for (name, lvl, seq, bi, t, f, ls), line in zip(rmeta, rep):
            tables += 1
            k = (tuple(f), tuple(ls))
            if k not in seen:
                seen.add(k)
            m = max(ls)
            maxlen_hist[m] = maxlen_hist.get(m, 0) + 1
            if line == 'bad-op':
                ck.broken.append('driver lacks tableopt')
                break
            if m > 20 or line != 'ok':
                ck.violation(
                    'table %d of block %d (input %s, level %d) is not '
                    'optimal for its symbols within its longest code: %s' %
                    (t, bi, name, lvl, line),
                    {'input_family': name, 'level': lvl, 'seq': seq,
                     'block': bi, 'table': t, 'freq': f, 'lens': ls,
                     'checker': line})
            if len(samples) < 6 and tables % 97 == 0:
                samples.append({'input': name, 'level': lvl, 'block': bi,
                                'table': t, 'alpha': len(ls),
                                'max_len': m, 'checker': line,
                                'freq_head': f[:12], 'lens_head': ls[:12]})
ck.log('tables checked:', tables, 'distinct', len(seen), 'max code length '
       'histogram', dict(sorted(maxlen_hist.items())))
ck.finish({
    'evaluations': tables, 'distinct_nontrivial': len(seen),
    'rule': 'every table used by at least one group in every block of the '
            'campaign outputs; distinct = distinct (frequency vector, length '
            'vector); checker = cost(freq,lens) = optLL(freq, max lens) and '
            'max ≤ 20, evaluated by the Lean driver',
    'samples': samples, 'streams': evals,
    'max_code_length_histogram': maxlen_hist, 'exhaustive': False,
}, ['nothing is proved about package_merge itself; its output is checked'])
