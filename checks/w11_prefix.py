#!/usr/bin/env python3
"""W11 — prefix (Huffman) codes: in-process correspondence + property campaign.

Library: `run(ck, parts=None)` is called by the property checks (C01, C02,
C05, C08, C20); stand-alone `python3 checks/w11_prefix.py [--tier …]` runs all
parts for testing and writes NO evidence.

Parts
  tree    real make_tree() + the lookup lines of retrieve() (harness/h_tree.c)
          vs Model.Canon (lbzdrv) vs an independent bit-by-bit canonical
          decoder written here (and Spec.decodeSym through lbzdrv on a
          sample): verdict ok/incomplete/oversubscribed, the complete tables
          base/count/perm/start, and (symbol, length) for every window that
          starts with each code word (zero / one / random tails) plus random
          windows.                                              [C05, C08]
  assign  real assign_codes() (harness/h_tree_enc.c) for EVERY alphabet size
          3..258 x {flat, geometric, fibonacci, random, many-zero, …}:
          lengths Complete, <= 20, returned cost = Σf·l + 5 + as + 2Σ|Δ|,
          codes = Model.Canon.assignCodes = Spec.canonCode, and the C20
          checker Spec.tableOptimal (cost = optLL(freq, max len)).   [C20, C01]
  gpc     real generate_prefix_code() on crafted encoder states: every
          alphabet size 3..258 through the single-table path (dummy second
          table = Gen.cl0 shape, Complete; real table optimal for its
          frequencies), multi-table blocks (every transmitted table Complete
          and optimal for the symbols of its groups), selector count
          = ceil(nm/50) within the array extents.                 [C02, C20]
  optll   Spec.optLL against exhaustive enumeration of all complete codes
          for tiny alphabets and against an independent DP written here.
"""
import hashlib
import os
import subprocess
import sys
import time
from concurrent.futures import ThreadPoolExecutor

HERE = os.path.dirname(os.path.abspath(__file__))
sys.path.insert(0, os.path.join(HERE, '..', 'tools'))

REPO = os.environ.get('LBZ_REPO', '/repo')
M64 = (1 << 64) - 1
ALL_PARTS = ('optll', 'tree', 'assign', 'gpc')
PARTS_FOR = {'C01': ('assign',), 'C02': ('gpc',), 'C05': ('tree',),
             'C08': ('tree',), 'C20': ('optll', 'assign', 'gpc')}


# ------------------------------------------------------------- plumbing
def par_batch(argv, lines, nproc=12, timeout=1800):
    """Send `lines` to `nproc` copies of a line-protocol program; replies in
    order.  Returns (replies, error-string-or-None)."""
    if not lines:
        return [], None
    nproc = max(1, min(nproc, len(lines) // 4 or 1))
    chunks = [lines[i::nproc] for i in range(nproc)]

    def one(ch):
        r = subprocess.run(argv, input='\n'.join(ch) + '\n', text=True,
                           stdout=subprocess.PIPE, stderr=subprocess.PIPE,
                           timeout=timeout)
        out = r.stdout.split('\n')
        if out and out[-1] == '':
            out.pop()
        return r.returncode, out, r.stderr

    with ThreadPoolExecutor(nproc) as ex:
        res = list(ex.map(one, chunks))
    out = [None] * len(lines)
    err = None
    for i, (rc, o, e) in enumerate(res):
        if rc != 0 or len(o) != len(chunks[i]):
            err = 'exit %s, %d/%d replies: %s' % (rc, len(o), len(chunks[i]),
                                                  e[-600:])
        for j, line in enumerate(o[:len(chunks[i])]):
            out[i + j * nproc] = line
    return out, err


def cl(xs):
    return ','.join(map(str, xs)) if len(xs) else '-'


def pl(s):
    s = s.strip()
    return [] if s == '-' else [int(x) for x in s.split(',')]


def sha(*a):
    return hashlib.sha1(repr(a).encode()).hexdigest()


# ----------------------------------------------- independent reference (py)
def kraft20(lens):
    return sum(1 << (20 - l) for l in lens)


def complete(lens):
    return all(1 <= l <= 20 for l in lens) and kraft20(lens) == 1 << 20


def canon_codes(lens):
    """textbook canonical code: sort by (length, index); first code 0; next
    code = (previous + 1) << (length difference)"""
    order = sorted(range(len(lens)), key=lambda i: (lens[i], i))
    codes = [0] * len(lens)
    c = 0
    prev = lens[order[0]]
    for n, i in enumerate(order):
        if n:
            c = (c + 1) << (lens[i] - prev)
        prev = lens[i]
        codes[i] = c
    return codes


def renumber(n, s):
    if s == 0:
        return 257
    if s == 1:
        return 258
    if s == n - 1:
        return 0
    return s - 1


def ref_decode(lens, codes, v):
    """bit-by-bit decode of the 64-bit window v -> (symbol index, length)"""
    table = {(lens[i], codes[i]): i for i in range(len(lens))}
    acc = 0
    for k in range(1, 21):
        acc = (acc << 1) | ((v >> (64 - k)) & 1)
        if (k, acc) in table:
            return table[(k, acc)], k
    return None


def py_optll(freqs, L, want_lens=False):
    """independent length-limited optimum over complete codes: DP over the
    frequencies sorted descending, state (depth, open nodes, symbols placed),
    value = cheapest completion."""
    g = sorted(freqs, reverse=True)
    n = len(g)
    INF = float('inf')
    suf = [0] * (n + 1)
    for i in range(n - 1, -1, -1):
        suf[i] = suf[i + 1] + g[i]
    # best[d][m][p]: m open nodes at depth d, p symbols placed (all deeper
    # levels cost suf[p] each time we descend)
    nxt = None
    choice = []
    for d in range(L, 0, -1):
        cur = [[INF] * (n + 1) for _ in range(n + 1)]
        ch = [[None] * (n + 1) for _ in range(n + 1)]
        cur[0][n] = 0
        for m in range(1, n + 1):
            row = cur[m]
            prow = cur[m - 1]
            for p in range(n - m, -1, -1):
                a = prow[p + 1] + g[p] * d if p < n else INF
                b = nxt[2 * m][p] if (nxt is not None and 2 * m <= n) else INF
                if a <= b:
                    row[p] = a
                    ch[m][p] = 'P'
                else:
                    row[p] = b
                    ch[m][p] = 'D'
        choice.append(ch)
        nxt = cur
    if n < 2 or L < 1:
        return (None, None) if want_lens else None
    c = nxt[2][0]
    if c == INF:
        return (None, None) if want_lens else None
    if not want_lens:
        return c
    choice.reverse()     # choice[d-1]
    d, m, p = 1, 2, 0
    out = []
    while m > 0:
        if choice[d - 1][m][p] == 'P':
            out.append(d)
            m -= 1
            p += 1
        else:
            d += 1
            m *= 2
    # give the sorted lengths back to the symbols (most frequent = shortest)
    order = sorted(range(n), key=lambda i: -freqs[i])
    lens = [0] * n
    for r, i in enumerate(order):
        lens[i] = out[r]
    return c, lens


def brute_optll(freqs, L):
    """minimum cost over ALL length vectors in 1..L with Kraft sum one."""
    n = len(freqs)
    best = [None]

    def rec(i, rem, cost):          # rem in units of 2^-L
        if i == n:
            if rem == 0 and (best[0] is None or cost < best[0]):
                best[0] = cost
            return
        for l in range(1, L + 1):
            w = 1 << (L - l)
            if w <= rem:
                rec(i + 1, rem - w, cost + freqs[i] * l)
    rec(0, 1 << L, 0)
    return best[0]


# ------------------------------------------------------------ generators
def random_complete(rng, n, deep=False, cap=20):
    """random complete length multiset with n leaves, lengths <= cap"""
    leaves = [1, 1]
    while len(leaves) < n:
        if deep and rng.random() < 0.7:
            cand = [i for i, l in enumerate(leaves) if l == max(leaves)
                    and l < cap]
            if not cand:
                cand = [i for i, l in enumerate(leaves) if l < cap]
        else:
            cand = [i for i, l in enumerate(leaves) if l < cap]
        i = rng.choice(cand)
        l = leaves.pop(i)
        leaves += [l + 1, l + 1]
    rng.shuffle(leaves)
    return leaves


def _more(fam, rng, n, quick):
    if not quick:
        fam['random2'] = [int(rng.paretovariate(0.7)) % 900000
                          for _ in range(n)]
        fam['two-level'] = [rng.choice([1, 1000]) for _ in range(n)]
        fam['lucas'] = [min(900000, int(1.325 ** i)) for i in range(n)]
        st = [1] * n
        st[0] = 900000 - n
        fam['one-huge'] = st
    return fam


def freq_families(rng, n, quick):
    fam = {}
    fam['flat'] = [1] * n
    fam['flat-big'] = [3000] * n
    r = rng.choice([1.05, 1.2, 1.5, 2.0, 3.0])
    g = []
    x = 1.0
    for _ in range(n):
        g.append(int(x))
        x = min(x * r, 4e9 / n)
    fam['geometric'] = g
    # a block has at most 900050 coded symbols; 28 Fibonacci numbers sum to
    # 832039 and a plain Huffman tree for them is 27 deep, so the 20-bit
    # limit is in force; further symbols get tiny counts
    fib = [1, 1]
    while len(fib) < min(n, 28):
        fib.append(fib[-1] + fib[-2])
    fib = fib[:n] + [rng.randint(0, 2) for _ in range(n - len(fib[:n]))]
    fam['fibonacci'] = fib
    f2 = list(fib)
    rng.shuffle(f2)
    fam['fibonacci-shuffled'] = f2
    fam['random'] = [rng.randint(0, rng.choice([3, 50, 900000 // n]))
                     for _ in range(n)]
    z = [0] * n
    for _ in range(rng.randint(1, max(1, n // 8))):
        z[rng.randrange(n)] = rng.randint(1, 100000)
    fam['many-zero'] = z
    fam['all-zero'] = [0] * n
    fam = _more(fam, rng, n, quick)
    for k in fam:
        tot = sum(fam[k])
        if tot > 900050:
            fam[k] = [x * 900050 // tot for x in fam[k]]
    return fam


# ---------------------------------------------------------------- parts
class Ctx:
    def __init__(self, ck):
        self.ck = ck
        self.rng = ck.rng
        self.quick = ck.quick
        self.drv = ck.driver()
        self.evals = 0
        self.seen = set()
        self.nontriv = 0
        self.samples = []
        self.dist = {}
        self.corr_bad = []

    def count(self, key, nontrivial=True, n=1):
        self.evals += n
        if key not in self.seen:
            self.seen.add(key)
            if nontrivial:
                self.nontriv += 1

    def bump(self, k, n=1):
        self.dist[k] = self.dist.get(k, 0) + n

    def corr(self, what):
        if len(self.corr_bad) < 12:
            self.corr_bad.append(what)
        self.ck.log('correspondence: ' + what[:400])

    def lean(self, lines):
        out, err = par_batch([self.drv], lines)
        if err:
            self.ck.broken.append('w11: lbzdrv failed: ' + err)
        return out

    def c(self, exe, lines, nproc=8):
        out, err = par_batch([exe], lines, nproc=nproc)
        return out, err


def part_optll(cx):
    """Spec.optLL vs exhaustive enumeration and vs the independent DP."""
    rng = cx.rng
    cases = []
    for n in range(2, 8):
        for L in range(1, 6):
            for _ in range(2 if cx.quick else 8):
                f = [rng.choice([0, 0, 1, 2, 3, 5, 8, rng.randint(0, 40)])
                     for _ in range(n)]
                cases.append((f, L, 'brute'))
    for _ in range(25 if cx.quick else 150):
        n = rng.randint(3, 60 if cx.quick else 258)
        L = rng.randint(2, 20)
        f = [rng.randint(0, rng.choice([2, 30, 5000])) for _ in range(n)]
        cases.append((f, L, 'dp'))
    rep = cx.lean(['optll %s %d' % (cl(f), L) for f, L, _ in cases])
    for (f, L, how), r in zip(cases, rep):
        want = brute_optll(f, L) if how == 'brute' else py_optll(f, L)
        ws = 'none' if want is None else str(want)
        cx.count(sha('optll', f, L), want is not None)
        cx.bump('optll-' + how)
        if r != ws:
            cx.ck.broken.append('w11 oracle: Spec.optLL %s L=%d says %s, %s '
                                'reference says %s' % (cl(f), L, r, how, ws))
    if cases:
        cx.samples.append({'part': 'optll', 'freqs': cases[-1][0][:12],
                           'L': cases[-1][1], 'optLL': rep[-1]})


def part_tree(cx, htree):
    rng = cx.rng
    sets = []
    fixed = [[1, 2, 2], [2, 2, 2, 2], [1, 2, 3, 3], [8] * 256,
             list(range(1, 20)) + [20, 20], [20, 20] + list(range(1, 20))[::-1],
             [1, 2, 3, 4, 5, 6, 7, 8, 9, 10, 11, 11], [1] + [9] * 256,
             [10] * 2 + [9] * 255, [3] * 7 + [10] * 128]
    for f in fixed:
        if 3 <= len(f) <= 258:
            sets.append((f, 'fixed'))
    nrand = 120 if cx.quick else 1500
    for i in range(nrand):
        n = rng.choice([3, 4, 5, 8, 17, 64, 200, 257, 258, rng.randint(3, 258)])
        deep = rng.random() < 0.6
        cap = rng.choice([20, 20, 20, 11, 10, 12])
        if (1 << cap) < n:
            cap = 20
        L = random_complete(rng, n, deep, cap)
        sets.append((L, 'complete-deep' if deep else 'complete'))
        # damaged neighbours
        r = rng.random()
        if r < 0.5:
            M = list(L)
            j = rng.randrange(n)
            if rng.random() < 0.5 and M[j] < 20:
                M[j] += rng.randint(1, 20 - M[j])
                sets.append((M, 'incomplete'))
            elif M[j] > 1:
                M[j] -= rng.randint(1, M[j] - 1)
                sets.append((M, 'oversubscribed'))
        elif r < 0.6:
            sets.append(([rng.randint(1, 20) for _ in range(n)], 'arbitrary'))
    # dummy-table shapes for every alphabet size
    for n in range(3, 259):
        c = n.bit_length() - 1
        short = (2 << c) - n
        sets.append(([c] * short + [c + 1] * (n - short), 'dummy-shape'))

    # 1. verdict + tables
    req = []
    for L, _ in sets:
        req.append('maketree ' + cl(L))
        req.append('tables ' + cl(L))
    crep, cerr = cx.c(htree, req)
    lrep = cx.lean(req)
    if cerr:
        cx.ck.violation('h_tree aborted (sanitizer / assert) in make_tree: ' +
                        cerr, {'part': 'tree', 'stderr': cerr,
                               'requests': req[:4]})
        return
    good = []
    for i, (L, tag) in enumerate(sets):
        cv, ct = crep[2 * i], crep[2 * i + 1]
        lv, lt = lrep[2 * i], lrep[2 * i + 1]
        k = kraft20(L)
        want = 'ok' if k == 1 << 20 else ('incomplete' if k < 1 << 20
                                          else 'oversubscribed')
        cx.count(sha('maketree', L), True)
        cx.bump('tree-' + tag)
        cx.bump('verdict-' + want)
        if cv != want:
            cx.ck.violation('make_tree verdict %s but Kraft sum says %s' %
                            (cv, want), {'part': 'tree', 'lens': L,
                                         'c_verdict': cv, 'expected': want})
            continue
        if lv != cv:
            cx.corr('maketree model=%s C=%s lens=%s' % (lv, cv, cl(L)))
        if ct != lt:
            a, b = ct.split(' ; '), lt.split(' ; ')
            which = [nm for nm, x, y in zip(('base', 'count', 'perm', 'start'),
                                            a, b) if x != y]
            cx.corr('tables differ in %s for lens=%s' % (which, cl(L)))
        if want == 'ok':
            good.append((L, tag, ct))

    # independent check of the table contents the C code built
    for L, tag, ct in good:
        parts = ct.split(' ; ')
        perm = pl(parts[2])
        n = len(L)
        order = sorted(range(n), key=lambda i: (L[i], i))
        if perm != [renumber(n, s) for s in order]:
            cx.ck.violation('make_tree perm[] is not the stable length sort',
                            {'part': 'tree', 'lens': L, 'perm': perm})

    # 2. lookups
    req = []
    meta = []
    maxwin = 160 if cx.quick else 700
    for L, tag, _ in good:
        n = len(L)
        codes = canon_codes(L)
        wins = []
        syms = list(range(n))
        if 3 * n > maxwin:
            rng.shuffle(syms)
            # always keep the longest and shortest codes
            syms = sorted(syms[:maxwin // 3] + [max(range(n), key=lambda i: (L[i], i)),
                                                min(range(n), key=lambda i: (L[i], i))])
        for i in syms:
            top = codes[i] << (64 - L[i])
            tail = (1 << (64 - L[i])) - 1
            wins.append(top)
            wins.append((top | tail) & ~1)          # at most 63 live bits
            wins.append((top | (rng.getrandbits(64) & tail)) & ~1)
        for _ in range(12):
            wins.append(rng.getrandbits(64) & ~1)
        wins.append(M64 - 1)
        wins.append(0)
        req.append('lookup %s %s' % (cl(L), ','.join('%016x' % w for w in wins)))
        meta.append((L, codes, wins, tag))
    crep, cerr = cx.c(htree, req)
    lrep = cx.lean(req)
    if cerr:
        cx.ck.violation('h_tree aborted during lookup: ' + cerr,
                        {'part': 'tree', 'stderr': cerr})
        return
    nlong = 0
    for (L, codes, wins, tag), cr, lr in zip(meta, crep, lrep):
        n = len(L)
        ca = cr.split(',')
        la = lr.split(',') if lr else []
        if len(ca) != len(wins):
            cx.ck.broken.append('w11: h_tree lookup reply malformed')
            continue
        for j, w in enumerate(wins):
            ref = ref_decode(L, codes, w)
            want = '%d %d' % (renumber(n, ref[0]), ref[1]) if ref else 'none'
            cx.count(sha('lookup', L, w), True)
            if ref and ref[1] > 10:
                nlong += 1
            if ca[j] != want:
                cx.ck.violation(
                    'table lookup returns (%s), the bit-by-bit canonical '
                    'decoder (%s)' % (ca[j], want),
                    {'part': 'tree', 'lens': L, 'window': '%016x' % w,
                     'c': ca[j], 'reference': want})
                break
            if j < len(la) and la[j] != ca[j]:
                cx.corr('lookup model=(%s) C=(%s) lens=%s v=%016x' %
                        (la[j], ca[j], cl(L), w))
                break
    cx.bump('lookup-windows-longer-than-10-bits', nlong)

    # 3. Spec.decodeSym (Lean) on a sample, against the same reference
    req = []
    meta2 = []
    for (L, codes, wins, tag) in meta:
        if len(L) <= 24 or rng.random() < 0.05:
            ws = wins if len(L) <= 24 else rng.sample(wins, 4)
            req.append('decode %s %s' % (cl(L), ','.join('%016x' % w for w in ws)))
            meta2.append((L, codes, ws))
    srep = cx.lean(req)
    for (L, codes, ws), r in zip(meta2, srep):
        ra = (r or '').split(',')
        for w, x in zip(ws, ra):
            ref = ref_decode(L, codes, w)
            want = '%d %d' % ref if ref else 'none'
            cx.count(sha('specdecode', L, w), True)
            if x != want:
                cx.ck.broken.append('w11 oracle: Spec.decodeSym (%s) vs python '
                                    'reference (%s) lens=%s v=%016x' %
                                    (x, want, cl(L), w))
                break
    cx.bump('spec-decode-tables', len(meta2))
    if meta:
        L, codes, wins, tag = meta[len(meta) // 2]
        cx.samples.append({'part': 'tree', 'lens': L[:24], 'n': len(L),
                           'window': '%016x' % wins[0],
                           'reply': crep[len(meta) // 2].split(',')[0]})


def check_table(cx, what, freqs, lens, codes, replay, topt):
    """property checks on one table produced by the real encoder; `topt` is
    the reply of `tableopt freqs lens` (the proven-sound C20 checker)."""
    ok = True
    if not complete(lens):
        cx.ck.violation('%s: lengths not a complete code within 1..20 '
                        '(Kraft20=%d)' % (what, kraft20(lens)),
                        dict(replay, lens=lens))
        return False
    if topt != 'ok':
        alt = py_optll(freqs, max(lens), want_lens=True)
        cx.ck.violation('%s: table is not optimal for its symbols: %s' %
                        (what, topt),
                        dict(replay, lens=lens, checker=topt,
                             cheaper_cost=alt[0], cheaper_lens=alt[1]))
        ok = False
    if codes is not None and codes != canon_codes(lens):
        cx.ck.violation('%s: code words are not the canonical ones' % what,
                        dict(replay, lens=lens, codes=codes,
                             canonical=canon_codes(lens)))
        ok = False
    return ok


def part_assign(cx, henc):
    rng = cx.rng
    cases = []
    for n in range(3, 259):
        for name, f in freq_families(rng, n, cx.quick).items():
            cases.append((name, f))
    # small alphabets with skewed, tie-rich counts (as real small blocks
    # have): the optimal shape is sensitive to every single weight there
    for _ in range(6000 if cx.quick else 60000):
        n = rng.randint(3, 16)
        kind = rng.randrange(4)
        if kind == 0:
            f = [rng.randint(0, rng.choice([3, 10, 40, 200])) for _ in range(n)]
        elif kind == 1:
            r = rng.choice([1.3, 1.6, 2.0, 2.7])
            f = [int(r ** i) + rng.randint(0, 2) for i in range(n)]
            rng.shuffle(f)
        elif kind == 2:
            m = rng.randint(n, 400)
            f = [0] * n
            for _k in range(m):
                f[min(n - 1, int(rng.paretovariate(1.1)) - 1)] += 1
            rng.shuffle(f)
        else:
            f = sorted(rng.randint(1, 30) for _ in range(n))
            f[-1] += rng.randint(0, 300)
        cases.append(('small-skewed', f))
    crep, cerr = cx.c(henc, ['assign ' + cl(f) for _, f in cases], nproc=12)
    if cerr:
        bad = [c for c, r in zip(cases, crep) if r is None][:1]
        cx.ck.violation('h_tree_enc aborted in assign_codes: ' + cerr,
                        {'part': 'assign', 'stderr': cerr,
                         'first_unanswered': bad})
        return
    parsed = []
    for (name, f), r in zip(cases, crep):
        p = r.split(' ; ')
        parsed.append((int(p[0]), pl(p[1]), pl(p[2])))
    req = []
    for (name, f), (cost, lens, codes) in zip(cases, parsed):
        req.append('tableopt %s %s' % (cl(f), cl(lens)))
        req.append('assigncodes ' + cl(lens))
        req.append('canon ' + cl(lens))
    lrep = cx.lean(req)
    maxlen_hist = {}
    for i, ((name, f), (cost, lens, codes)) in enumerate(zip(cases, parsed)):
        topt, mcodes, scodes = lrep[3 * i], lrep[3 * i + 1], lrep[3 * i + 2]
        n = len(f)
        cx.count(sha('assign', f), True)
        cx.bump('assign-' + name)
        mx = max(lens)
        maxlen_hist[mx] = maxlen_hist.get(mx, 0) + 1
        replay = {'part': 'assign', 'family': name, 'freqs': f,
                  'how': 'harness/h_tree_enc: assign <freqs>'}
        if not check_table(cx, 'assign_codes(as=%d, %s)' % (n, name), f, lens,
                           codes, replay, topt):
            continue
        want_cost = (sum(a * b for a, b in zip(f, lens)) + 5 + n +
                     2 * sum(abs(lens[j] - lens[j - 1]) for j in range(1, n)))
        if cost != want_cost % (1 << 32):
            cx.corr('assign_codes returned cost %d, Σf·l+5+as+2Σ|Δ| = %d '
                    '(freqs %s)' % (cost, want_cost, cl(f)))
        if pl(mcodes) != codes:
            cx.corr('assignCodes model %s vs C %s for lens %s' %
                    (mcodes[:80], cl(codes)[:80], cl(lens)))
        if pl(scodes) != codes:
            cx.ck.violation('assign_codes: code words differ from '
                            'Spec.canonCode', dict(replay, lens=lens,
                                                   codes=codes, spec=scodes))
    cx.dist['assign-maxlen-histogram'] = dict(sorted(maxlen_hist.items()))
    i = len(cases) // 3
    cx.samples.append({'part': 'assign', 'family': cases[i][0],
                       'as': len(cases[i][1]), 'freqs': cases[i][1][:16],
                       'lens': parsed[i][1][:16], 'cost': parsed[i][0]})


def mtfv_block(rng, as_, nm, skew):
    """nm MTF values over an alphabet of as_ symbols; last one is EOB"""
    eob = as_ - 1
    vals = []
    if skew == 'few':
        pool = [rng.randrange(eob) for _ in range(rng.randint(1, 4))]
    elif skew == 'zipf':
        pool = None
    else:
        pool = list(range(eob))
    while len(vals) < nm - 1:
        if pool is None:
            v = min(eob - 1, int(rng.paretovariate(1.1)) - 1)
        else:
            v = rng.choice(pool)
        vals.append(v)
    if skew == 'segments':      # different statistics per stretch -> several tables
        seg = max(50, nm // rng.randint(2, 7))
        for a in range(0, nm - 1, seg):
            lo = rng.randrange(eob)
            hi = min(eob, lo + rng.randint(1, 12))
            for j in range(a, min(nm - 1, a + seg)):
                vals[j] = rng.randrange(lo, hi) if hi > lo else lo
    vals.append(eob)
    return vals


def part_gpc(cx, henc):
    rng = cx.rng
    cases = []
    for as_ in range(3, 259):         # exhaustive over alphabet sizes
        nm = rng.randint(2, 150)
        cases.append((as_, mtfv_block(rng, as_, nm, rng.choice(
            ['uniform', 'few', 'zipf'])), 'single'))
        cases.append((as_, [0, as_ - 1], 'single-min'))
    nmulti = 40 if cx.quick else 400
    for _ in range(nmulti):
        as_ = rng.choice([3, 4, 10, 50, 258, rng.randint(3, 258)])
        nm = rng.choice([151, 300, 301, 601, 1201, 2401, 5000,
                         rng.randint(151, 20000)])
        cases.append((as_, mtfv_block(rng, as_, nm, rng.choice(
            ['uniform', 'zipf', 'segments', 'segments'])), 'multi'))
    if not cx.quick:
        cases.append((258, mtfv_block(rng, 258, 900001, 'segments'), 'max'))
    lines = ['gpc %d %s' % (8 if tag != 'single-min' else 1, cl(v))
             for _, v, tag in cases]
    crep, cerr = cx.c(henc, lines, nproc=12)
    if cerr:
        cx.ck.violation('h_tree_enc aborted in generate_prefix_code: ' + cerr,
                        {'part': 'gpc', 'stderr': cerr})
        return
    gen = pl_extents()
    req = []
    parsed = []
    for (as_, vals, tag), r in zip(cases, crep):
        p = r.split(' ; ')
        head = [int(x) for x in p[0].split()]
        tabs = [(pl(p[1 + 3 * t]), pl(p[2 + 3 * t]), pl(p[3 + 3 * t]))
                for t in range(head[1])]
        parsed.append((head, tabs))
        for t, (lens, codes, fr) in enumerate(tabs):
            if head[3] and t == 1:
                req.append('dummy %d' % as_)
            else:
                req.append('tableopt %s %s' % (cl(fr), cl(lens)))
    lrep = cx.lean(req)
    q = 0
    ntab_hist = {}
    for (as_, vals, tag), (head, tabs) in zip(cases, parsed):
        cost, nt, nsel, dummy = head
        nm = len(vals)
        cx.count(sha('gpc', vals), True)
        cx.bump('gpc-' + tag)
        ntab_hist[nt] = ntab_hist.get(nt, 0) + 1
        replay = {'part': 'gpc', 'as': as_, 'mtfv': vals if nm <= 4000 else
                  None, 'nm': nm, 'how': 'harness/h_tree_enc: gpc 8 <mtfv>'}
        if nsel != (nm + 49) // 50 or nsel + 1 > gen['encSelectorExtent']:
            cx.ck.violation('num_selectors = %d for %d MTF values' %
                            (nsel, nm), replay)
        if not 2 <= nt <= 6:
            cx.ck.violation('num_trees = %d' % nt, replay)
        if tag.startswith('single') and not dummy:
            cx.corr('single-table case did not build the dummy table '
                    '(as=%d nm=%d)' % (as_, nm))
        want_cost = 0
        used_syms = 0
        for t, (lens, codes, fr) in enumerate(tabs):
            rep = lrep[q]
            q += 1
            if dummy and t == 1:
                c0, dl = rep.split()
                dl = pl(dl)
                if lens != dl:
                    cx.corr('dummy table as=%d: C %s, Gen.cl0 shape %s' %
                            (as_, cl(lens)[:60], cl(dl)[:60]))
                if not complete(lens):
                    cx.ck.violation('dummy second table for alphabet size %d '
                                    'is not complete (Kraft20=%d)' %
                                    (as_, kraft20(lens)),
                                    dict(replay, lens=lens))
                want_cost += as_ + 5 + (2 if len(set(lens)) > 1 else 0)
            else:
                check_table(cx, 'generate_prefix_code table %d (as=%d, nm=%d)'
                            % (t, as_, nm), fr, lens, codes, replay, rep)
                want_cost += (sum(a * b for a, b in zip(fr, lens)) + 5 + as_ +
                              2 * sum(abs(lens[j] - lens[j - 1])
                                      for j in range(1, as_)))
                used_syms += sum(fr)
        # every real symbol is coded by exactly one transmitted table
        if used_syms != nm:
            cx.corr('table frequencies sum to %d, nm = %d' % (used_syms, nm))
        if cost != want_cost:
            cx.corr('generate_prefix_code returned cost %d, tables account '
                    'for %d (as=%d nm=%d)' % (cost, want_cost, as_, nm))
    cx.dist['gpc-num-trees-histogram'] = dict(sorted(ntab_hist.items()))
    cx.samples.append({'part': 'gpc', 'as': cases[7][0], 'nm': len(cases[7][1]),
                       'head(cost,nt,nsel,dummy)': parsed[7][0],
                       'dummy_lens': parsed[7][1][1][0][:12]})


def pl_extents():
    """array extents as the translator regenerated them (Gen/Consts.lean)"""
    import re
    p = os.path.join(HERE, '..', 'lean', 'LbzVerif', 'Gen', 'Consts.lean')
    s = open(p).read()
    out = {}
    for k in ('encSelectorExtent', 'encSelectorMtfExtent', 'GROUP_SIZE',
              'MAX_BLOCK_SIZE'):
        m = re.search(r'def %s : Nat := (\d+)' % k, s)
        out[k] = int(m.group(1)) if m else None
    return out


# ------------------------------------------------------------------ entry
def run(ck, parts=None):
    """Run the campaign parts relevant to ck.pid (or `parts`).  Violations and
    broken correspondences are recorded on `ck`; returns a coverage dict."""
    if parts is None:
        parts = PARTS_FOR.get(ck.pid, ALL_PARTS)
    t0 = time.time()
    cx = Ctx(ck)
    if not os.path.exists(cx.drv):
        ck.broken.append('w11: driver %s missing' % cx.drv)
        return {'parts': [], 'evaluations': 0}
    crc = os.path.join(REPO, 'src', 'crctab.c')
    htree = henc = None
    if 'tree' in parts:
        htree = ck.cc('h_tree', ['harness/h_tree.c', crc])
    if 'assign' in parts or 'gpc' in parts:
        henc = ck.cc('h_tree_enc', ['harness/h_tree_enc.c', crc])
    if 'optll' in parts:
        part_optll(cx)
    if 'tree' in parts and htree:
        part_tree(cx, htree)
    if 'assign' in parts and henc:
        part_assign(cx, henc)
    if 'gpc' in parts and henc:
        part_gpc(cx, henc)
    for w in cx.corr_bad:
        ck.broken.append('correspondence: w11 ' + w[:300])
    cov = {
        'library': 'w11_prefix', 'parts': list(parts),
        'evaluations': cx.evals, 'distinct_nontrivial': cx.nontriv,
        'rule': 'distinct = distinct (part, table/frequencies, window); '
                'non-trivial = a code exists for the case (everything except '
                'infeasible optll queries)',
        'samples': cx.samples[:8], 'input_distribution': cx.dist,
        'exhaustive': 'alphabet sizes 3..258 (assign families, single-table '
                      'generate_prefix_code, dummy table); not exhaustive in '
                      'frequencies / windows',
        'wall_s': round(time.time() - t0, 1),
    }
    ck.log('w11_prefix %s: %d evaluations, %d distinct, %.1fs; %s' % (
        list(parts), cx.evals, cx.nontriv, time.time() - t0, cx.dist))
    return cov


if __name__ == '__main__':
    from vlib import Check

    class Standalone(Check):
        """same machinery, but never writes evidence"""

        def violation(self, what, replay, signature=None, no_input=False):
            self.violations.append(what)
            self.log('VIOLATION (standalone, not recorded): %s\n   replay: %s'
                     % (what, str(replay)[:1500]))

        def finish(self, coverage, extra_assumptions=()):
            self.log('standalone: violations=%d broken=%s' % (
                len(self.violations), self.broken))
            self.log('coverage: %s' % str(coverage)[:3000])
            sys.exit(1 if (self.violations or self.broken) else 0)

    ck = Standalone('C20')
    sel = None
    for i, a in enumerate(sys.argv):
        if a == '--parts':
            sel = sys.argv[i + 1].split(',')
    cov = run(ck, sel or ALL_PARTS)
    ck.finish(cov)
