"""Helpers for the compression-scheduler checks (C03, C11, C13, C18):
   * build the hook binary, record LBZIP2_VERIF_TRACE traces;
   * read the chunk/block SHAPE of a traced run off the trace and build a
     synthetic input (marker codec of Driver/CmdSchedC.lean) with that shape;
   * `schedc-accept`: replay the trace through Model.SchedC.step (Lean driver);
   * `schedc-bfs`: exhaustive exploration of the executable model.
   Used by checks/C03.py, C11.py, C13.py, C18.py; runnable stand-alone:
       LBZDRV=<driver> python3 checks/sched_c_lib.py [seed]
"""
import os
import subprocess
import sys

SRC = '/repo/src'
CFLAGS = ['-O1', '-DKJN_LBZIP2_VERIF', '-D_XOPEN_SOURCE=700', '-D_FILE_OFFSET_BITS=64',
          '-DPACKAGE_NAME="lbzip2"', '-DPACKAGE_VERSION="devel"']


def build_hook_binary(tmpdir, srcdir=SRC, name='lbzip2-hook'):
    """plain gcc build of the working tree with the hooks on; returns path or None"""
    out = os.path.join(tmpdir, name)
    srcs = sorted(os.path.join(srcdir, f) for f in os.listdir(srcdir) if f.endswith('.c'))
    r = subprocess.run(['gcc'] + CFLAGS + ['-I', srcdir, '-o', out] + srcs + ['-lpthread'],
                       capture_output=True, text=True)
    if r.returncode != 0:
        sys.stderr.write(r.stderr[-2000:])
        return None
    return out


def run_traced(binary, data, n, level, ultra, seed, trace_path, timeout=60, check=True):
    """compress `data` with the hook binary; returns (returncode, stdout bytes, events)"""
    if os.path.exists(trace_path):
        os.unlink(trace_path)
    env = dict(os.environ, LBZIP2_VERIF_TRACE=trace_path)
    if seed is not None:
        env['LBZIP2_VERIF_PERTURB'] = str(seed)
    if check:
        env['LBZIP2_VERIF_CHECK'] = '1'
    args = [binary, '-n%d' % n, '-%d' % level] + (['-u'] if ultra else [])
    try:
        r = subprocess.run(args, input=data, capture_output=True, env=env, timeout=timeout)
    except subprocess.TimeoutExpired:
        return 'timeout', b'', parse_trace(trace_path), b'timeout (hang)'
    return r.returncode, r.stdout, parse_trace(trace_path), r.stderr


def parse_trace(path):
    evs = []
    if not os.path.exists(path):
        return evs
    for line in open(path):
        f = line.split()
        if not f or f[0] == 'S':     # S (signal) lines: SchedDW replay only
            continue
        e = {'kind': f[0], 'tid': int(f[1][2:]), 'name': f[2]}
        for kv in f[3:]:
            k, v = kv.split('=')
            if k == 'order':
                a, b = v.split('.')
                e['omaj'], e['omin'] = int(a), int(b)
            else:
                e[k] = int(v)
        evs.append(e)
    return evs


def split_runs(evs):
    """a trace file may hold several runs (several operands): split at I lines"""
    runs = []
    for e in evs:
        if e['kind'] == 'I':
            runs.append([])
        if runs:
            runs[-1].append(e)
    return runs


def roles(evs):
    """worker threads have R/W lines; of the other two the writer is the one whose
       sections are `out_slots++`.  (`next_id` is incremented by the reader outside
       sched_mutex, so `next=` on other threads' lines may run ahead: never used.)"""
    workers = {e['tid'] for e in evs if e['kind'] in 'RW'}
    rd = wr = None
    prev = None
    for e in evs:
        if e['kind'] == 'U' and e['tid'] not in workers and prev is not None:
            if e['os'] == prev['os'] + 1:
                wr = e['tid']
            else:
                rd = e['tid']
        if 'coll' in e:
            prev = e
    return workers, (rd if rd is not None else 9998), (wr if wr is not None else 9999)


def shape(evs, ultra):
    """per chunk: list of piece flags (True = collect() returned 'full');
       every piece but the last of a chunk is full (left > 0 implies full)."""
    workers, rd, wr = roles(evs)
    coll = set()
    chunks = {}           # major -> list of flags
    cur = {}              # tid -> dict
    prev = None
    nid = 0
    for e in evs:
        k, t = e['kind'], e['tid']
        if k == 'U' and t == rd and prev is not None and e['eof'] == prev['eof']:
            coll.add((nid, 0))
            chunks[nid] = []
            nid += 1
        elif k in 'RW' and t in workers:
            c = cur.pop(t, None)
            if c is not None and c.get('pos') is not None and not c.get('closed'):
                # chunk exhausted silently (source_release_buffer); piece flag:
                # non-seq: irrelevant (False); seq: full iff the token-return U line was seen
                chunks[c['pos'][0]].append(bool(c.get('full')))
            if k == 'R' and e['name'] in ('collect', 'collect_seq'):
                pos = min(coll) if coll else None
                if pos is not None:
                    coll.discard(pos)
                cur[t] = {'pos': pos, 'first': True}
        elif k == 'U' and t in workers and t in cur:
            c = cur[t]
            if c['first']:
                c['first'] = False
            elif c['pos'] is not None and not c.get('closed') and prev is not None \
                    and e['coll'] == prev['coll'] + 1:
                M, m = c['pos']
                chunks[M].append(True)
                coll.add((M, m + 1))
                c['closed'] = True          # in_blk handed back
                c['full'] = True
            elif prev is not None and prev['ct'] == 0 and e['ct'] == 1:
                c['full'] = True
        if 'coll' in e:
            prev = e
    return [chunks[m] for m in sorted(chunks)], rd, wr


def synth_input(chunk_flags, ultra):
    """marker-codec bytes: full piece = '01', last non-full piece = '0';
       every chunk but the last padded in front to the common size g"""
    raw = []
    for fl in chunk_flags:
        s = ''
        for i, full in enumerate(fl):
            last = i == len(fl) - 1
            if last and not (ultra and full):
                s += '0'
            else:
                s += '01'
        raw.append(s)
    g = max([len(s) for s in raw] + [1]) + 1
    out = ''.join(('0' * (g - len(s)) + s) if i < len(raw) - 1 else s for i, s in enumerate(raw))
    return g, (out if out else '-')


def ev_str(e):
    return ','.join(str(e.get(k, 0)) for k in
                    ('kind', 'tid', 'name', 'wu', 'os', 'eof', 'ct', 'uw', 'coll', 'trans',
                     'reord', 'omaj', 'omin', 'next'))


class Driver:
    """the Lean driver answers when stdin closes (its stdout is block-buffered):
       one process per batch of requests"""
    def __init__(self, path):
        self.path = path

    def ask_many(self, lines, timeout=1800):
        r = subprocess.run([self.path], input='\n'.join(lines) + '\n', text=True,
                           stdout=subprocess.PIPE, timeout=timeout)
        return r.stdout.split('\n')[:len(lines)]

    def ask(self, line):
        return self.ask_many([line])[0].strip()

    def close(self):
        pass


def accept(drv, evs, n, ultra, total_in=None):
    """replay one run's events; returns (reply string, info dict)"""
    flags, rd, wr = shape(evs, ultra)
    g, data = synth_input(flags, ultra)
    i0 = evs[0]
    tin = total_in if total_in is not None else int(drv.ask('schedc-cfg %d 1 %d' % (n, ultra)).split()[0])
    req = 'schedc-accept %d %d %d %d %d %s %d %d %s' % (
        n, 1 if ultra else 0, tin, i0['os'], g, data, rd, wr, ';'.join(ev_str(e) for e in evs))
    return drv.ask(req), {'chunks': len(flags), 'blocks': sum(len(f) for f in flags),
                          'multi': sum(1 for f in flags if len(f) > 1), 'g': g, 'lines': len(evs)}


def bfs(drv, n, ultra, g, data, extra=''):
    r = drv.ask('schedc-bfs %d %d %d %s %s' % (n, 1 if ultra else 0, g, data, extra)).split()
    keys = ['states', 'transitions', 'stuck', 'cap', 'cons', 'order', 'wake', 'finals',
            'final_viol', 'max_coll', 'max_trans', 'max_reord', 'max_outq', 'truncated']
    d = {k: int(v) for k, v in zip(keys, r)}
    d['witness'] = r[len(keys)] if len(r) > len(keys) else '-'
    return d


def gen_input(rng, kind, size):
    """inputs whose chunks split into several blocks (runs of 4 expand under RLE1)"""
    if kind == 'random':
        return bytes(rng.getrandbits(8) for _ in range(size))
    if kind == 'runs4':       # 'aaaa' -> 5 bytes: every 100000-byte chunk overflows a block
        out = bytearray()
        while len(out) < size:
            out += bytes([rng.randrange(256)]) * 4
        return bytes(out[:size])
    if kind == 'mixed':
        out = bytearray()
        while len(out) < size:
            if rng.random() < 0.5:
                out += bytes([rng.randrange(256)]) * 4 * rng.randrange(1, 2000)
            else:
                out += bytes(rng.getrandbits(8) for _ in range(rng.randrange(1, 30000)))
        return bytes(out[:size])
    return b''


if __name__ == '__main__':
    import random
    import tempfile
    seed = int(sys.argv[1]) if len(sys.argv) > 1 else 1
    srcdir = sys.argv[2] if len(sys.argv) > 2 else SRC
    rng = random.Random(seed)
    drv = Driver(os.environ.get('LBZDRV', '/verif/lean/.lake/build/bin/lbzdrv'))
    with tempfile.TemporaryDirectory() as tmp:
        b = build_hook_binary(tmp, srcdir)
        assert b, 'build failed'
        bad = 0
        tot = {'runs': 0, 'lines': 0, 'multi': 0, 'blocks': 0}
        for it in range(int(os.environ.get('SCHEDC_RUNS', '24'))):
            n = rng.choice([1, 2, 3, 4])
            ultra = rng.random() < 0.5
            kind = rng.choice(['random', 'runs4', 'mixed'])
            size = rng.choice([0, 1, 99999, 100000, 100001, 250000, 700000])
            data = gen_input(rng, kind, size)
            rc, out, evs, err = run_traced(b, data, n, 1, ultra, rng.randrange(1000), os.path.join(tmp, 'tr'))
            if rc != 0:
                print('RUN FAILED', rc, err[-300:]); bad += 1; continue
            for run in split_runs(evs):
                rep, info = accept(drv, run, n, ultra)
                tot['runs'] += 1
                for k in ('lines', 'multi', 'blocks'):
                    tot[k] += info[k]
                if not rep.startswith('ok'):
                    bad += 1
                    print('REJECT', n, ultra, kind, size, rep, info)
        print('seed', seed, 'total', tot, 'rejected', bad)
    drv.close()
    sys.exit(1 if bad else 0)
