"""Run the in-process correspondence libraries delivered by the work packages
(checks/w*.py exposing run(ck)); missing libraries are skipped and named."""
import importlib
import os


def run_libs(ck, names):
    here = os.path.dirname(os.path.abspath(__file__))
    done = []
    for n in names:
        if not os.path.exists(os.path.join(here, n + '.py')):
            continue
        try:
            m = importlib.import_module(n)
            r = m.run(ck)
            done.append((n, r))
            ck.log('in-process library %s: %s' % (n, str(r)[:300]))
        except SystemExit:
            raise
        except Exception as e:     # a crashing library is broken machinery
            ck.broken.append('in-process library %s crashed: %r' % (n, e))
    ck.inproc = done
    return done
