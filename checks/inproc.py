"""Run the in-process correspondence libraries delivered by the work packages
(checks/w*.py exposing run(ck)); missing libraries are skipped and named.
Libraries run concurrently (each builds its own harness into ck.tmp)."""
import importlib
import os
import threading


def run_libs(ck, names):
    here = os.path.dirname(os.path.abspath(__file__))
    done = []
    lock = threading.Lock()

    def one(n):
        try:
            m = importlib.import_module(n)
            r = m.run(ck)
            with lock:
                done.append((n, r))
            ck.log('in-process library %s: %s' % (n, str(r)[:240]))
        except SystemExit:
            raise
        except Exception as e:     # a crashing library is broken machinery
            with lock:
                ck.broken.append('in-process library %s crashed: %r' % (n, e))
    ths = []
    for n in names:
        if not os.path.exists(os.path.join(here, n + '.py')):
            continue
        t = threading.Thread(target=one, args=(n,), name='lib-' + n)
        t.start()
        ths.append(t)
    for t in ths:
        t.join()
    ck.inproc = sorted(done)
    return done
