#!/usr/bin/env python3
"""C12 — no data races between threads.

Model side: in SchedC/SchedD every access to the scheduler-protected
variables happens inside a transition that holds sched_mutex (the models are
written as atomic sections split exactly at sched_lock/sched_unlock), input
slot accounting under source_mutex, the output queue under sink_mutex;
Props/C12*.lean when present states the ownership discipline.  Tie /
validation: a ThreadSanitizer build of the whole program (clang
-fsanitize=thread, hooks on) runs compression (both modes), decompression
(small granularities, planted spurious headers) and -cdf copying with
perturbation seeds; any TSan report is a concrete schedule+input violation."""
import bz2
import os
import re
import sys
sys.path.insert(0, os.path.join(os.path.dirname(os.path.abspath(__file__)),
                                '..', 'tools'))
from vlib import Check  # noqa: E402
import camp_encode as E  # noqa: E402
import camp_sched as S  # noqa: E402
import proc  # noqa: E402

ck = Check('C12')
ck.regen()
mods = ck.props_modules()
if mods:
    ck.lean(mods)
    ck.require_theorems(['LbzVerif.Props.C12.race_free',
                         'LbzVerif.Props.C12.owner_unique',
                         'LbzVerif.Props.C12.guarded_under_lock',
                         'LbzVerif.Props.C12.unlocked_phase_private',
                         'LbzVerif.Props.C12.copy_race_free',
                         'LbzVerif.Props.C12.step_annotated',
                         'LbzVerif.Props.C12.expand_owner_unique',
                         'LbzVerif.Props.C12.expand_guarded_under_lock',
                         'LbzVerif.Props.C12.expand_unlocked_phase_private',
                         'LbzVerif.Props.C12.expand_race_free',
                         'LbzVerif.Props.C12.expand_threads_distinct',
                         'LbzVerif.Props.C12.expand_attached_in_block',
                         'LbzVerif.Props.C12.inblk_not_freed_while_attached',
                         'LbzVerif.Props.C12.expand_release_in_footprint',
                         'LbzVerif.Props.C12.expand_step_annotated_partial',
                         'LbzVerif.Props.C12.expand_step_annotated',
                         'LbzVerif.Props.C12.expand_footprint_thread',
                         'LbzVerif.Props.C12.expand_race_free_sections',
                         'LbzVerif.Props.C12.expand_changes_under_lock'])
sys.path.insert(0, os.path.dirname(os.path.abspath(__file__)))
import inproc  # noqa: E402
inproc.run_libs(ck, ['w14_race'])
exe = ck.build_lbzip2('lbzip2-tsan', tsan=True, asan=False, ndebug=True)
rng = ck.rng
evals = nontriv = 0
samples = []
hist = {}
TS = re.compile(rb'ThreadSanitizer')
if exe:
    env0 = {'TSAN_OPTIONS': 'halt_on_error=0:second_deadlock_stack=1'}
    I = [x for x in E.inputs(rng, True) if x[0] in
         ('text', 'random-300k', 'alpha5-350k', 'long-run-mix', 'runs-of-4',
          'cross-99998-5', 'one', 'empty', 'norun-200k+1')]
    jobs = []
    meta = []
    reps = 2 if ck.quick else 10
    for name, data, tag in I:
        for _ in range(reps):
            for seq in (False, True):
                env = dict(env0)
                env['LBZIP2_VERIF_PERTURB'] = str(rng.randrange(1, 10**6))
                n = rng.choice([2, 3, 4, 8])
                jobs.append(dict(exe=exe, args=['-1', '-n%d' % n] +
                                 (['-u'] if seq else []), data=data, env=env,
                                 timeout=600))
                meta.append(('compress' + ('-seq' if seq else ''), name, data,
                             n, env, None))
    dstreams = [('real-%s' % nm, bz2.compress(d, 1), d) for nm, d, _ in I
                if len(d) > 1000]
    dstreams += [(nm, d, p) for nm, d, p, _ in S.planted_streams(rng, True)]
    # many small blocks exercising every decoder path at once in several
    # workers (randomised blocks, 2..6 tables, deep codes, several streams of
    # different levels): shared scratch state inside the block decoder shows
    # only when two blocks of the same kind are decoded concurrently
    import bzformat as B
    for feat in ('randomised', 'tables', 'mixed'):
        w = B.BitWriter()
        plain = b''
        for st in range(2):
            blocks = []
            for k in range(6):
                p_ = bytes(rng.randrange(97, 97 + rng.choice([2, 5, 26]))
                           for _ in range(rng.randrange(200, 2500)))
                knobs = {'ntables': rng.randint(2, 6)}
                if feat == 'randomised' or (feat == 'mixed' and k % 2):
                    knobs['rand'] = True
                if feat != 'randomised' and k % 3 == 0:
                    knobs['random_tables'] = True
                    knobs['deep'] = True
                blocks.append((p_, knobs))
                plain += p_
            B.make_stream(w, blocks, rng.choice([1, 5, 9]), rng)
        dstreams.append(('features-' + feat, w.bytes(), plain))
    for name, c, plain in dstreams:
        for _ in range(reps * 6 if name.startswith('features-') else reps):
            env = dict(env0)
            env.update(S.config_env(rng, big=len(plain) > 50000))
            env.pop('LBZIP2_VERIF_CHECK', None)
            env['LBZIP2_VERIF_PERTURB'] = str(rng.randrange(1, 10**6))
            n = rng.choice([2, 3, 4, 8])
            jobs.append(dict(exe=exe, args=['-d', '-n%d' % n], data=c,
                             env=env, timeout=600))
            meta.append(('decompress', name, c, n, env, plain))
    for size in (0, 3, 5, 65536, 65537, 200000):
        d = rng.randbytes(size)
        if d[:3] == b'BZh':
            d = b'x' + d[1:]
        for _ in range(reps):
            env = dict(env0)
            env['LBZIP2_VERIF_PERTURB'] = str(rng.randrange(1, 10**6))
            jobs.append(dict(exe=exe, args=['-cdf'], data=d, env=env,
                             timeout=300))
            meta.append(('copy', 'copy-%d' % size, d, 1, env, d))
    res = proc.run_many(jobs, workers=8)
    for (kind, name, data, n, env, expect), r in zip(meta, res):
        evals += 1
        hist[kind] = hist.get(kind, 0) + 1
        e2 = {k: v for k, v in env.items() if k.startswith('LBZIP2')}
        if TS.search(r.err) or r.timeout or r.sig is not None or \
                r.code() != 'exit0':
            m = re.search(rb'WARNING: ThreadSanitizer: ([^\n]*)\n(.*?)\n\n',
                          r.err, re.S)
            ck.violation(
                'ThreadSanitizer report / abnormal end in %s of %s (-n%d, %s)'
                ': %s %s' % (kind, name, n, e2, r.code(),
                             (m.group(0)[:900] if m else r.err[:300]).decode(
                                 'latin1')),
                {'kind': kind, 'case': name, 'n': n, 'env': e2,
                 'input_hex': data.hex() if len(data) < 70000 else None})
        else:
            if expect is not None and r.out != expect:
                ck.violation('TSan build produced different bytes for ' +
                             name, {'kind': kind, 'case': name, 'env': e2})
            nontriv += 1
        if len(samples) < 6 and evals % 23 == 0:
            samples.append({'kind': kind, 'case': name, 'n': n, 'env': e2,
                            'result': r.code()})
ck.log('runs:', hist)
ck.finish({
    'evaluations': evals, 'distinct_nontrivial': nontriv,
    'rule': 'ThreadSanitizer build × (compression both modes, decompression '
            'with random granularities/slots incl. planted spurious headers, '
            '-cdf copy) × worker counts × perturbation seeds; distinct by '
            'seed; non-trivial = completed with no report',
    'samples': samples, 'run_histogram': hist, 'exhaustive': False,
}, ['the C memory model is not formalised; TSan sees executed interleavings '
    'only'])
